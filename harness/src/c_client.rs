// component "client": ClientSession driven by an operation script; clock pinned by hook H2
use crate::c_amf0::show_value;
use crate::c_chunk::show_msg;
use crate::c_server::{parse_md, show_md, show_packet};
use crate::util::{fnv32, hex, partition, payload_from_spec, unhex};
use bytes::Bytes;
use rml_rtmp::sessions::verif_set_elapsed_ms;
use rml_rtmp::sessions::{ClientSession, ClientSessionConfig, ClientSessionError, ClientSessionEvent, ClientSessionResult, PublishRequestType};
use rml_rtmp::time::RtmpTimestamp;

pub fn show_event(e: &ClientSessionEvent) -> String {
    use rml_rtmp::sessions::ClientSessionEvent::*;
    match e {
        ConnectionRequestAccepted => "E:ConnAccepted".into(),
        ConnectionRequestRejected { description } => format!("E:ConnRejected:{}", hex(description.as_bytes())),
        PlaybackRequestAccepted => "E:PlayAccepted".into(),
        PublishRequestAccepted => "E:PubAccepted".into(),
        StreamMetadataReceived { metadata } => format!("E:Meta:{}", show_md(metadata)),
        VideoDataReceived { timestamp, data } => format!("E:Video:{}:{}:{:08x}", timestamp.value, data.len(), fnv32(&data[..])),
        AudioDataReceived { timestamp, data } => format!("E:Audio:{}:{}:{:08x}", timestamp.value, data.len(), fnv32(&data[..])),
        UnhandleableAmf0Command { command_name, transaction_id, command_object, additional_values } => {
            let mut s = format!("E:UnhCmd:{}:N{:016x}:", hex(command_name.as_bytes()), transaction_id.to_bits());
            show_value(command_object, true, &mut s);
            s.push_str(&format!(":{}", additional_values.len()));
            for a in additional_values { s.push(' '); show_value(a, true, &mut s); }
            s
        }
        UnknownTransactionResultReceived { transaction_id, command_object, additional_values } => {
            let mut s = format!("E:UnknownTr:N{:016x}:", transaction_id.to_bits());
            show_value(command_object, true, &mut s);
            s.push_str(&format!(":{}", additional_values.len()));
            for a in additional_values { s.push(' '); show_value(a, true, &mut s); }
            s
        }
        UnhandleableOnStatusCode { code } => format!("E:UnhStatus:{}", hex(code.as_bytes())),
        AcknowledgementReceived { bytes_received } => format!("E:Ack:{}", bytes_received),
        PingResponseReceived { timestamp } => format!("E:Pong:{}", timestamp.value),
        #[allow(unreachable_patterns)]
        _ => "E:Other".into(),
    }
}

pub fn show_err(e: &ClientSessionError) -> String {
    match e {
        ClientSessionError::ChunkDeserializationError(x) => format!("ERR:ChunkDe:{}", crate::c_chunk::de_err(x)),
        ClientSessionError::ChunkSerializationError(x) => format!("ERR:ChunkSer:{}", crate::c_chunk::ser_err(x)),
        ClientSessionError::MessageSerializationError(x) => format!("ERR:MsgSer:{}", crate::c_msg::ser_err(x).replace(' ', "_")),
        ClientSessionError::MessageDeserializationError(x) => format!("ERR:MsgDe:{}", crate::c_msg::de_err(x).replace(' ', "_")),
        ClientSessionError::CantConnectWhileAlreadyConnected => "ERR:CantConnect".into(),
        ClientSessionError::SessionInInvalidState { current_state } => format!("ERR:InvalidState:{:?}", current_state),
        ClientSessionError::NoKnownActiveStreamIdWhenRequired => "ERR:NoActiveStream".into(),
        ClientSessionError::CreateStreamFailed => "ERR:CreateStreamFailed".into(),
        ClientSessionError::CreateStreamResponseHadNoStreamNumber => "ERR:NoStreamNumber".into(),
        ClientSessionError::InvalidOnStatusArguments => "ERR:InvalidOnStatus".into(),
        #[allow(unreachable_patterns)]
        _ => "ERR:Other".into(),
    }
}

fn show_result(r: &ClientSessionResult) -> String {
    match r {
        ClientSessionResult::OutboundResponse(p) => show_packet(p),
        ClientSessionResult::RaisedEvent(e) => show_event(e),
        ClientSessionResult::UnhandleableMessageReceived(m) => format!("U:{}", show_msg(m)),
    }
}
fn show_results(rs: &[ClientSessionResult]) -> String {
    if rs.is_empty() { ".".into() } else { rs.iter().map(show_result).collect::<Vec<_>>().join(" ; ") }
}

pub fn run(rest: &str) -> String {
    let ops: Vec<&str> = rest.split(" | ").collect();
    let mut out: Vec<String> = Vec::new();
    let mut session: Option<ClientSession> = None;
    for op in ops {
        let t: Vec<&str> = op.split_whitespace().collect();
        if t.is_empty() { continue; }
        let clk = |x: &str| verif_set_elapsed_ms(Some(x.parse().unwrap()));
        let r: Result<String, String> = match t[0] {
            "cfg" => {
                let mut c = ClientSessionConfig::new();
                c.flash_version = String::from_utf8(unhex(t[1])).unwrap();
                c.playback_buffer_length_ms = t[2].parse().unwrap();
                c.window_ack_size = t[3].parse().unwrap();
                c.chunk_size = t[4].parse().unwrap();
                c.tc_url = if t[5] == "-" { None } else { Some(String::from_utf8(unhex(&t[5][1..])).unwrap()) };
                match ClientSession::new(c) {
                    Ok((s, rs)) => { session = Some(s); Ok(show_results(&rs)) }
                    Err(e) => Err(show_err(&e)),
                }
            }
            _ => {
                let s = match session.as_mut() { Some(s) => s, None => { out.push("NOSESSION".into()); continue; } };
                match t[0] {
                    "in" => {
                        clk(t[1]);
                        let data = unhex(t[3]);
                        let mut parts: Vec<String> = Vec::new();
                        for piece in partition(t[2], &data) {
                            match s.handle_input(&piece) {
                                Ok(rs) => parts.push(show_results(&rs)),
                                Err(e) => parts.push(show_err(&e)),
                            }
                        }
                        let mut txt = parts.join(" / ");
                        if txt.is_empty() { txt = ".".into(); }
                        Ok(txt)
                    }
                    "connect" => { clk(t[1]); s.request_connection(String::from_utf8(unhex(t[2])).unwrap()).map(|r| show_result(&r)).map_err(|e| show_err(&e)) }
                    "play" => { clk(t[1]); s.request_playback(String::from_utf8(unhex(t[2])).unwrap()).map(|r| show_result(&r)).map_err(|e| show_err(&e)) }
                    "publish" => {
                        clk(t[1]);
                        let ty = match t[3] { "live" => PublishRequestType::Live, "record" => PublishRequestType::Record, _ => PublishRequestType::Append };
                        s.request_publishing(String::from_utf8(unhex(t[2])).unwrap(), ty).map(|r| show_result(&r)).map_err(|e| show_err(&e))
                    }
                    "stopplay" => { clk(t[1]); s.stop_playback().map(|rs| show_results(&rs)).map_err(|e| show_err(&e)) }
                    "stoppub" => { clk(t[1]); s.stop_publishing().map(|rs| show_results(&rs)).map_err(|e| show_err(&e)) }
                    "ping" => { clk(t[1]); s.send_ping_request().map(|(p, ts)| format!("{} ; T:{}", show_packet(&p), ts.value)).map_err(|e| show_err(&e)) }
                    "meta" => { clk(t[1]); s.publish_metadata(&parse_md(t[2])).map(|r| show_result(&r)).map_err(|e| show_err(&e)) }
                    "video" | "audio" => {
                        let ts = RtmpTimestamp::new(t[1].parse().unwrap());
                        let drop = t[2] == "1";
                        let data = Bytes::from(payload_from_spec(t[3]));
                        let r = if t[0] == "video" { s.publish_video_data(data, ts, drop) } else { s.publish_audio_data(data, ts, drop) };
                        r.map(|x| show_result(&x)).map_err(|e| show_err(&e))
                    }
                    _ => Err("HARNESS-BAD-OP".into()),
                }
            }
        };
        out.push(match r { Ok(x) => x, Err(x) => x });
    }
    verif_set_elapsed_ms(None);
    out.join(" | ")
}
