#![allow(dead_code)]
pub fn classify_panic(msg: &str) -> String {
    // small enum, no message text beyond a class
    let m = msg.to_lowercase();
    if m.contains("overflow") {
        "overflow".into()
    } else if m.contains("out of range") || m.contains("out of bounds") || m.contains("index") {
        "index".into()
    } else if m.contains("unwrap") {
        "unwrap".into()
    } else {
        "other".into()
    }
}

pub fn hex(bytes: &[u8]) -> String {
    if bytes.is_empty() {
        return "-".to_string();
    }
    let mut s = String::with_capacity(bytes.len() * 2);
    for b in bytes {
        s.push_str(&format!("{:02x}", b));
    }
    s
}

pub fn unhex(s: &str) -> Vec<u8> {
    if s == "-" {
        return vec![];
    }
    let b = s.as_bytes();
    let mut v = Vec::with_capacity(b.len() / 2);
    let mut i = 0;
    while i + 1 < b.len() {
        let h = (b[i] as char).to_digit(16).unwrap() as u8;
        let l = (b[i + 1] as char).to_digit(16).unwrap() as u8;
        v.push(h * 16 + l);
        i += 2;
    }
    v
}

pub struct Toks<'a> {
    it: std::str::SplitWhitespace<'a>,
}
impl<'a> Toks<'a> {
    pub fn new(s: &'a str) -> Toks<'a> {
        Toks { it: s.split_whitespace() }
    }
    pub fn next(&mut self) -> &'a str {
        self.it.next().expect("token")
    }
    pub fn opt(&mut self) -> Option<&'a str> {
        self.it.next()
    }
    pub fn u64(&mut self) -> u64 {
        self.next().parse().expect("u64")
    }
    pub fn u32(&mut self) -> u32 {
        self.next().parse().expect("u32")
    }
    pub fn bytes(&mut self) -> Vec<u8> {
        unhex(self.next())
    }
}
