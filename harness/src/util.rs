#![allow(dead_code)]
pub fn classify_panic(msg: &str) -> String {
    // small enum, no message text beyond a class
    let m = msg.to_lowercase();
    if m.contains("overflow") {
        "overflow".into()
    } else if m.contains("out of range") || m.contains("out of bounds") || m.contains("index") {
        "index".into()
    } else if m.contains("unwrap") {
        "unwrap".into()
    } else {
        "other".into()
    }
}

pub fn hex(bytes: &[u8]) -> String {
    if bytes.is_empty() {
        return "-".to_string();
    }
    let mut s = String::with_capacity(bytes.len() * 2);
    for b in bytes {
        s.push_str(&format!("{:02x}", b));
    }
    s
}

pub fn unhex(s: &str) -> Vec<u8> {
    if s == "-" {
        return vec![];
    }
    let b = s.as_bytes();
    let mut v = Vec::with_capacity(b.len() / 2);
    let mut i = 0;
    while i + 1 < b.len() {
        let h = (b[i] as char).to_digit(16).unwrap() as u8;
        let l = (b[i + 1] as char).to_digit(16).unwrap() as u8;
        v.push(h * 16 + l);
        i += 2;
    }
    v
}

pub struct Toks<'a> {
    it: std::str::SplitWhitespace<'a>,
}
impl<'a> Toks<'a> {
    pub fn new(s: &'a str) -> Toks<'a> {
        Toks { it: s.split_whitespace() }
    }
    pub fn next(&mut self) -> &'a str {
        self.it.next().expect("token")
    }
    pub fn opt(&mut self) -> Option<&'a str> {
        self.it.next()
    }
    pub fn u64(&mut self) -> u64 {
        self.next().parse().expect("u64")
    }
    pub fn u32(&mut self) -> u32 {
        self.next().parse().expect("u32")
    }
    pub fn bytes(&mut self) -> Vec<u8> {
        unhex(self.next())
    }
}

/// deterministic pseudo-random byte shared by harness, judge and generators
pub fn pbyte(seed: u64, i: u64) -> u8 {
    (((seed * 131 + i * 2654435 + (i / 256) * 977) % 1000003) % 256) as u8
}

pub fn payload_from_spec(spec: &str) -> Vec<u8> {
    let (h, rest) = spec.split_at(1);
    match h {
        "h" => unhex(rest),
        "r" => {
            let mut it = rest.split('.');
            let len: u64 = it.next().unwrap().parse().unwrap();
            let seed: u64 = it.next().unwrap().parse().unwrap();
            (0..len).map(|i| pbyte(seed, i)).collect()
        }
        _ => panic!("HARNESS-BAD-PAYLOAD"),
    }
}

pub fn fnv32(data: &[u8]) -> u32 {
    let mut h: u32 = 2166136261;
    for b in data {
        h = (h ^ (*b as u32)).wrapping_mul(16777619);
    }
    h
}

/// split a stream into pieces according to a partition spec: w | b | k<n> | r<seed>
thread_local! {
    pub static PART_OVERRIDE: std::cell::RefCell<Option<String>> = std::cell::RefCell::new(None);
}

pub fn partition(spec0: &str, data: &[u8]) -> Vec<Vec<u8>> {
    // component "pair" runs a case twice with the partition of every input op overridden
    let over = PART_OVERRIDE.with(|p| p.borrow().clone());
    let spec_owned = over.unwrap_or_else(|| spec0.to_string());
    let spec: &str = &spec_owned;
    let (h, rest) = spec.split_at(1);
    let mut out = Vec::new();
    if data.is_empty() {
        return vec![vec![]];      // one call with no bytes, whatever the partition
    }
    match h {
        "w" => out.push(data.to_vec()),
        "b" => {
            for b in data {
                out.push(vec![*b]);
            }
        }
        "k" => {
            let n: usize = rest.parse().unwrap();
            for c in data.chunks(n.max(1)) {
                out.push(c.to_vec());
            }
        }
        "r" => {
            let seed: u64 = rest.parse().unwrap();
            let mut pos = 0usize;
            let mut i = 0u64;
            while pos < data.len() {
                let sz = 1 + ((pbyte(seed, i) as usize) * 37 + pbyte(seed + 1, i) as usize) % 700;
                let end = (pos + sz).min(data.len());
                out.push(data[pos..end].to_vec());
                pos = end;
                i += 1;
            }
        }
        _ => panic!("HARNESS-BAD-PARTITION"),
    }
    out
}
