// component "server": ServerSession driven by an operation script; clock pinned by hook H2
use crate::c_amf0::show_value;
use crate::c_chunk::show_msg;
use crate::util::{fnv32, hex, payload_from_spec, unhex, partition};
use bytes::Bytes;
use rml_rtmp::chunk_io::Packet;
use rml_rtmp::sessions::{
    PublishMode, ServerSession, ServerSessionConfig, ServerSessionError, ServerSessionEvent, ServerSessionResult, StreamMetadata,
};
use rml_rtmp::sessions::verif_set_elapsed_ms;
use rml_rtmp::time::RtmpTimestamp;

pub fn show_md(m: &StreamMetadata) -> String {
    fn o(x: Option<u32>) -> String { x.map(|v| v.to_string()).unwrap_or("-".into()) }
    format!("w={},h={},vc={},fr={},vb={},ac={},ab={},asr={},ach={},st={},enc={}",
        o(m.video_width), o(m.video_height), o(m.video_codec_id),
        m.video_frame_rate.map(|f| if f.is_nan() { "nan".to_string() } else { format!("{:08x}", f.to_bits()) }).unwrap_or("-".into()),
        o(m.video_bitrate_kbps), o(m.audio_codec_id), o(m.audio_bitrate_kbps), o(m.audio_sample_rate), o(m.audio_channels),
        m.audio_is_stereo.map(|b| if b { "T" } else { "F" }.to_string()).unwrap_or("-".into()),
        m.encoder.as_ref().map(|s| hex(s.as_bytes())).unwrap_or("-".into()))
}

pub fn parse_md(s: &str) -> StreamMetadata {
    let mut m = StreamMetadata::new();
    for kv in s.split(',') {
        let mut it = kv.splitn(2, '=');
        let k = it.next().unwrap();
        let v = it.next().unwrap();
        if v == "-" { continue; }
        match k {
            "w" => m.video_width = Some(v.parse().unwrap()),
            "h" => m.video_height = Some(v.parse().unwrap()),
            "vc" => m.video_codec_id = Some(v.parse().unwrap()),
            "fr" => m.video_frame_rate = Some(f32::from_bits(u32::from_str_radix(v, 16).unwrap())),
            "vb" => m.video_bitrate_kbps = Some(v.parse().unwrap()),
            "ac" => m.audio_codec_id = Some(v.parse().unwrap()),
            "ab" => m.audio_bitrate_kbps = Some(v.parse().unwrap()),
            "asr" => m.audio_sample_rate = Some(v.parse().unwrap()),
            "ach" => m.audio_channels = Some(v.parse().unwrap()),
            "st" => m.audio_is_stereo = Some(v == "T"),
            "enc" => m.encoder = Some(String::from_utf8(unhex(v)).unwrap()),
            _ => panic!("HARNESS-BAD-MD"),
        }
    }
    m
}

fn mode(m: &PublishMode) -> &'static str {
    match m { PublishMode::Live => "live", PublishMode::Record => "record", PublishMode::Append => "append" }
}

pub fn show_packet(p: &Packet) -> String {
    format!("P{}={}", if p.can_be_dropped { 1 } else { 0 }, hex(&p.bytes))
}

pub fn show_event(e: &ServerSessionEvent) -> String {
    use rml_rtmp::sessions::ServerSessionEvent::*;
    let h = |s: &String| hex(s.as_bytes());
    match e {
        ClientChunkSizeChanged { new_chunk_size } => format!("E:ChunkSize:{}", new_chunk_size),
        ConnectionRequested { request_id, app_name } => format!("E:ConnReq:{}:{}", request_id, h(app_name)),
        ReleaseStreamRequested { request_id, app_name, stream_key } => format!("E:Release:{}:{}:{}", request_id, h(app_name), h(stream_key)),
        PublishStreamRequested { request_id, app_name, stream_key, mode: m } => format!("E:PubReq:{}:{}:{}:{}", request_id, h(app_name), h(stream_key), mode(m)),
        PublishStreamFinished { app_name, stream_key } => format!("E:PubFin:{}:{}", h(app_name), h(stream_key)),
        StreamMetadataChanged { app_name, stream_key, metadata } => format!("E:Meta:{}:{}:{}", h(app_name), h(stream_key), show_md(metadata)),
        AudioDataReceived { app_name, stream_key, data, timestamp } => format!("E:Audio:{}:{}:{}:{}:{:08x}", h(app_name), h(stream_key), timestamp.value, data.len(), fnv32(&data[..])),
        VideoDataReceived { app_name, stream_key, data, timestamp } => format!("E:Video:{}:{}:{}:{}:{:08x}", h(app_name), h(stream_key), timestamp.value, data.len(), fnv32(&data[..])),
        UnhandleableAmf0Command { command_name, transaction_id, command_object, additional_values } => {
            let mut s = format!("E:UnhCmd:{}:N{:016x}:", h(command_name), transaction_id.to_bits());
            show_value(command_object, true, &mut s);
            s.push_str(&format!(":{}", additional_values.len()));
            for a in additional_values { s.push(' '); show_value(a, true, &mut s); }
            s
        }
        PlayStreamRequested { request_id, app_name, stream_key, start_at, duration, reset, stream_id } => {
            use rml_rtmp::sessions::ServerSessionEvent as _E;
            let st = format!("{:?}", start_at);
            format!("E:PlayReq:{}:{}:{}:{}:{}:{}:{}", request_id, h(app_name), h(stream_key), st,
                duration.map(|d| d.to_string()).unwrap_or("-".into()), if *reset { "T" } else { "F" }, stream_id)
        }
        PlayStreamFinished { app_name, stream_key } => format!("E:PlayFin:{}:{}", h(app_name), h(stream_key)),
        AcknowledgementReceived { bytes_received } => format!("E:Ack:{}", bytes_received),
        PingResponseReceived { timestamp } => format!("E:Pong:{}", timestamp.value),
        #[allow(unreachable_patterns)]
        _ => "E:Other".into(),
    }
}

pub fn show_server_err(e: &ServerSessionError) -> String {
    match e {
        ServerSessionError::ChunkDeserializationError(x) => format!("ERR:ChunkDe:{}", crate::c_chunk::de_err(x)),
        ServerSessionError::ChunkSerializationError(x) => format!("ERR:ChunkSer:{}", crate::c_chunk::ser_err(x)),
        ServerSessionError::MessageSerializationError(x) => format!("ERR:MsgSer:{}", crate::c_msg::ser_err(x).replace(' ', "_")),
        ServerSessionError::MessageDeserializationError(x) => format!("ERR:MsgDe:{}", crate::c_msg::de_err(x).replace(' ', "_")),
        ServerSessionError::InvalidOutstandingRequest(_) => "ERR:InvalidOutstandingRequest".into(),
        ServerSessionError::NoAppNameForConnectionRequest => "ERR:NoAppName".into(),
        ServerSessionError::InvalidRequestId => "ERR:InvalidRequestId".into(),
        ServerSessionError::ActionAttemptedOnInactiveStream { stream_id, .. } => format!("ERR:InactiveStream:{}", stream_id),
        #[allow(unreachable_patterns)]
        _ => "ERR:Other".into(),
    }
}

pub fn show_results(rs: &[ServerSessionResult]) -> String {
    if rs.is_empty() { return ".".into(); }
    rs.iter().map(|r| match r {
        ServerSessionResult::OutboundResponse(p) => show_packet(p),
        ServerSessionResult::RaisedEvent(e) => show_event(e),
        ServerSessionResult::UnhandleableMessageReceived(m) => format!("U:{}", show_msg(m)),
    }).collect::<Vec<_>>().join(" ; ")
}

pub fn run(rest: &str) -> String {
    let ops: Vec<&str> = rest.split(" | ").collect();
    let mut out: Vec<String> = Vec::new();
    let mut session: Option<ServerSession> = None;
    for op in ops {
        let t: Vec<&str> = op.split_whitespace().collect();
        if t.is_empty() { continue; }
        let r: Result<String, String> = match t[0] {
            "cfg" => {
                let mut c = ServerSessionConfig::new();
                c.fms_version = String::from_utf8(unhex(t[1])).unwrap();
                c.chunk_size = t[2].parse().unwrap();
                c.peer_bandwidth = t[3].parse().unwrap();
                c.window_ack_size = t[4].parse().unwrap();
                c.send_on_bw_done_message_on_start = t[5] == "1";
                verif_set_elapsed_ms(Some(t[6].parse().unwrap()));
                match ServerSession::new(c) {
                    Ok((s, rs)) => { session = Some(s); Ok(show_results(&rs)) }
                    Err(e) => Err(show_server_err(&e)),
                }
            }
            _ => {
                let s = match session.as_mut() { Some(s) => s, None => { out.push("NOSESSION".into()); continue; } };
                match t[0] {
                    "in" => {
                        // in <clock> <partition> <hex> : one handle_input call per piece
                        verif_set_elapsed_ms(Some(t[1].parse().unwrap()));
                        let data = unhex(t[3]);
                        let mut parts: Vec<String> = Vec::new();
                        for piece in partition(t[2], &data) {
                            // an error does not end the script: the session object stays usable and keeps its buffer
                            match s.handle_input(&piece) {
                                Ok(rs) => parts.push(show_results(&rs)),
                                Err(e) => parts.push(show_server_err(&e)),
                            }
                        }
                        let mut txt = parts.join(" / ");
                        if txt.is_empty() { txt = ".".into(); }
                        Ok(txt)
                    }
                    "accept" => { verif_set_elapsed_ms(Some(t[1].parse().unwrap())); s.accept_request(t[2].parse().unwrap()).map(|rs| show_results(&rs)).map_err(|e| show_server_err(&e)) }
                    "reject" => {
                        verif_set_elapsed_ms(Some(t[1].parse().unwrap()));
                        let code = String::from_utf8(unhex(t[3])).unwrap();
                        let desc = String::from_utf8(unhex(t[4])).unwrap();
                        s.reject_request(t[2].parse().unwrap(), &code, &desc).map(|rs| show_results(&rs)).map_err(|e| show_server_err(&e))
                    }
                    "meta" => { verif_set_elapsed_ms(Some(t[1].parse().unwrap())); s.send_metadata(t[2].parse().unwrap(), &parse_md(t[3])).map(|p| show_packet(&p)).map_err(|e| show_server_err(&e)) }
                    "video" | "audio" => {
                        let sid: u32 = t[1].parse().unwrap();
                        let ts = RtmpTimestamp::new(t[2].parse().unwrap());
                        let drop = t[3] == "1";
                        let data = Bytes::from(payload_from_spec(t[4]));
                        let r = if t[0] == "video" { s.send_video_data(sid, data, ts, drop) } else { s.send_audio_data(sid, data, ts, drop) };
                        r.map(|p| show_packet(&p)).map_err(|e| show_server_err(&e))
                    }
                    "ping" => { verif_set_elapsed_ms(Some(t[1].parse().unwrap())); s.send_ping_request().map(|(p, ts)| format!("{} ; T:{}", show_packet(&p), ts.value)).map_err(|e| show_server_err(&e)) }
                    "finish" => { verif_set_elapsed_ms(Some(t[1].parse().unwrap())); s.finish_playing(t[2].parse().unwrap()).map(|p| show_packet(&p)).map_err(|e| show_server_err(&e)) }
                    _ => Err("HARNESS-BAD-OP".into()),
                }
            }
        };
        out.push(match r { Ok(x) => x, Err(x) => x });
    }
    verif_set_elapsed_ms(None);
    out.join(" | ")
}
