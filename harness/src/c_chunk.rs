// component "chunk": ChunkSerializer / ChunkDeserializer
use crate::util::{fnv32, hex, partition, payload_from_spec, unhex, Toks};
use bytes::Bytes;
use rml_rtmp::chunk_io::{ChunkDeserializationError, ChunkDeserializer, ChunkSerializationError, ChunkSerializer, Packet};
use rml_rtmp::messages::MessagePayload;
use rml_rtmp::time::RtmpTimestamp;

pub enum Op {
    Msg { ts: u32, tid: u8, sid: u32, force: bool, drop: bool, data: Vec<u8> },
    Size { size: u32, ts: u32 },
}

pub fn parse_ops(t: &mut Toks) -> Vec<Op> {
    let mut ops = Vec::new();
    while let Some(tok) = t.opt() {
        let f: Vec<&str> = tok.split(':').collect();
        match f[0] {
            "m" => ops.push(Op::Msg {
                ts: f[1].parse().unwrap(),
                tid: f[2].parse().unwrap(),
                sid: f[3].parse().unwrap(),
                force: &f[4][0..1] == "1",
                drop: &f[4][1..2] == "1",
                data: payload_from_spec(f[5]),
            }),
            "c" => ops.push(Op::Size { size: f[1].parse().unwrap(), ts: f[2].parse().unwrap() }),
            _ => panic!("HARNESS-BAD-OP"),
        }
    }
    ops
}

pub fn ser_err(e: &ChunkSerializationError) -> String {
    match e {
        ChunkSerializationError::MessageTooLong { size } => format!("E:TooLong:{}", size),
        ChunkSerializationError::InvalidMaxChunkSize { attempted_chunk_size } => format!("E:BadChunkSize:{}", attempted_chunk_size),
        ChunkSerializationError::Io(_) => "E:Io".into(),
        ChunkSerializationError::SetChunkSizeMessageCreationFailure(_) => "E:SetChunkSizeMessage".into(),
        #[allow(unreachable_patterns)]
        _ => "E:Other".into(),
    }
}

pub fn de_err(e: &ChunkDeserializationError) -> String {
    match e {
        ChunkDeserializationError::NoPreviousChunkOnStream { csid } => format!("E:NoPrev:{}", csid),
        ChunkDeserializationError::InvalidMaxChunkSize { chunk_size } => format!("E:BadChunkSize:{}", chunk_size),
        ChunkDeserializationError::InvalidMessageLength { csid, length } => format!("E:BadLen:{}:{}", csid, length),
        ChunkDeserializationError::Io(_) => "E:Io".into(),
        #[allow(unreachable_patterns)]
        _ => "E:Other".into(),
    }
}

pub fn run_ops(ser: &mut ChunkSerializer, ops: &[Op]) -> Vec<Result<Packet, String>> {
    let mut out = Vec::new();
    for op in ops {
        let r = match op {
            Op::Msg { ts, tid, sid, force, drop, data } => {
                let m = MessagePayload {
                    timestamp: RtmpTimestamp::new(*ts),
                    type_id: *tid,
                    message_stream_id: *sid,
                    data: Bytes::from(data.clone()),
                };
                ser.serialize(&m, *force, *drop)
            }
            Op::Size { size, ts } => ser.set_max_chunk_size(*size, RtmpTimestamp::new(*ts)),
        };
        out.push(r.map_err(|e| ser_err(&e)));
    }
    out
}

pub fn show_msg(m: &MessagePayload) -> String {
    format!("M:{}:{}:{}:{}:{:08x}", m.timestamp.value, m.type_id, m.message_stream_id, m.data.len(), fnv32(&m.data[..]))
}

/// the documented driving loop: feed a piece, then drain with empty input; honour decoded SetChunkSize
pub fn drive(de: &mut ChunkDeserializer, pieces: &[Vec<u8>]) -> String {
    let mut out: Vec<String> = Vec::new();
    'outer: for piece in pieces {
        let mut input: &[u8] = &piece[..];
        loop {
            match de.get_next_message(input) {
                Err(e) => {
                    out.push(de_err(&e));
                    break 'outer;
                }
                Ok(None) => break,
                Ok(Some(m)) => {
                    out.push(show_msg(&m));
                    if m.type_id == 1 {
                        if m.data.len() < 4 {
                            out.push("E:Driver".into());
                            break 'outer;
                        }
                        let n = ((m.data[0] as u32) << 24) | ((m.data[1] as u32) << 16) | ((m.data[2] as u32) << 8) | (m.data[3] as u32);
                        if n == 0 || n > 0x7fff_ffff {
                            out.push("E:Driver".into());
                            break 'outer;
                        }
                        if let Err(e) = de.set_max_chunk_size(n as usize) {
                            out.push(de_err(&e));
                            break 'outer;
                        }
                    }
                }
            }
            input = &[];
        }
    }
    if out.is_empty() {
        ".".to_string()
    } else {
        out.join(" ")
    }
}

pub fn run(rest: &str) -> String {
    let mut t = Toks::new(rest);
    let op = t.next();
    match op {
        "ser" => {
            let ops = parse_ops(&mut t);
            let mut ser = ChunkSerializer::new();
            let rs = run_ops(&mut ser, &ops);
            let parts: Vec<String> = rs
                .iter()
                .map(|r| match r {
                    Ok(p) => format!("P{}={}", if p.can_be_dropped { 1 } else { 0 }, hex(&p.bytes)),
                    Err(e) => e.clone(),
                })
                .collect();
            if parts.is_empty() { ".".into() } else { parts.join(" ") }
        }
        "de" | "fde" | "ide" => {
            let part = t.next();
            let stream = unhex(t.next());
            let mut de = ChunkDeserializer::new();
            drive(&mut de, &partition(part, &stream))
        }
        "rt" => {
            // serialize with the real serializer, drop the masked droppable packets, decode with the real deserializer
            let part = t.next();
            let mask = t.next();
            let ops = parse_ops(&mut t);
            let mut ser = ChunkSerializer::new();
            let rs = run_ops(&mut ser, &ops);
            let mut stream = Vec::new();
            let mut di = 0usize;
            let mb = mask.as_bytes();
            let mut sent = Vec::new();
            for r in rs.iter() {
                match r {
                    Err(_) => sent.push("e"),
                    Ok(p) => {
                        let mut dropped = false;
                        if p.can_be_dropped {
                            if mask != "-" && di < mb.len() && mb[di] == b'1' {
                                dropped = true;
                            }
                            di += 1;
                        }
                        if p.bytes.is_empty() {
                            sent.push("0");
                        } else if dropped {
                            sent.push("d");
                        } else {
                            sent.push("s");
                            stream.extend_from_slice(&p.bytes);
                        }
                    }
                }
            }
            let mut de = ChunkDeserializer::new();
            format!("{} | {}", sent.join(""), drive(&mut de, &partition(part, &stream)))
        }
        _ => "HARNESS-BAD-OP".to_string(),
    }
}
