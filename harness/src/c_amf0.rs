// component "amf0": rml_amf0::{serialize, deserialize}
use crate::util::{hex, unhex, Toks};
use rml_amf0::{Amf0DeserializationError, Amf0SerializationError, Amf0Value};
use std::collections::HashMap;
use std::io::Cursor;

pub fn parse_value(t: &mut Toks) -> Amf0Value {
    let tok = t.next();
    let (h, rest) = tok.split_at(1);
    match h {
        "N" => Amf0Value::Number(f64::from_bits(u64::from_str_radix(rest, 16).expect("hex64"))),
        "T" => Amf0Value::Boolean(true),
        "F" => Amf0Value::Boolean(false),
        "S" => Amf0Value::Utf8String(String::from_utf8(unhex(rest)).expect("HARNESS-BAD-UTF8")),
        "Z" => Amf0Value::Null,
        "U" => Amf0Value::Undefined,
        "A" => {
            let n: usize = rest.parse().unwrap();
            let mut v = Vec::new();
            for _ in 0..n {
                v.push(parse_value(t));
            }
            Amf0Value::StrictArray(v)
        }
        "O" => {
            let n: usize = rest.parse().unwrap();
            let mut m = HashMap::new();
            for _ in 0..n {
                let k = String::from_utf8(unhex(t.next())).expect("HARNESS-BAD-UTF8");
                let v = parse_value(t);
                m.insert(k, v);
            }
            Amf0Value::Object(m)
        }
        _ => panic!("HARNESS-BAD-VALUE"),
    }
}

pub fn parse_values(t: &mut Toks) -> Vec<Amf0Value> {
    let n: usize = t.next().parse().unwrap();
    (0..n).map(|_| parse_value(t)).collect()
}

/// print in HashMap iteration order (sorted = false) or canonically (objects sorted by key bytes)
pub fn show_value(v: &Amf0Value, sorted: bool, out: &mut String) {
    match v {
        Amf0Value::Number(x) => out.push_str(&format!("N{:016x}", x.to_bits())),
        Amf0Value::Boolean(true) => out.push('T'),
        Amf0Value::Boolean(false) => out.push('F'),
        Amf0Value::Utf8String(s) => {
            out.push('S');
            out.push_str(&hex(s.as_bytes()))
        }
        Amf0Value::Null => out.push('Z'),
        Amf0Value::Undefined => out.push('U'),
        Amf0Value::StrictArray(vs) => {
            out.push_str(&format!("A{}", vs.len()));
            for x in vs {
                out.push(' ');
                show_value(x, sorted, out);
            }
        }
        Amf0Value::Object(m) => {
            out.push_str(&format!("O{}", m.len()));
            let mut items: Vec<(&String, &Amf0Value)> = m.iter().collect();
            if sorted {
                items.sort_by(|a, b| a.0.as_bytes().cmp(b.0.as_bytes()));
            }
            for (k, x) in items {
                out.push(' ');
                out.push_str(&hex(k.as_bytes()));
                out.push(' ');
                show_value(x, sorted, out);
            }
        }
    }
}

pub fn show_values(vs: &[Amf0Value], sorted: bool) -> String {
    let mut s = format!("{}", vs.len());
    for v in vs {
        s.push(' ');
        show_value(v, sorted, &mut s);
    }
    s
}

pub fn ser_err(e: &Amf0SerializationError) -> &'static str {
    match e {
        Amf0SerializationError::NormalStringTooLong => "TooLong",
        Amf0SerializationError::EmptyObjectPropertyName => "EmptyName",
        Amf0SerializationError::BufferWriteError(_) => "Write",
        #[allow(unreachable_patterns)]
        _ => "Other",      // a variant this harness does not know: an observation, not a build failure
    }
}

pub fn de_err(e: &Amf0DeserializationError) -> String {
    match e {
        Amf0DeserializationError::UnknownMarker { marker } => format!("Unknown:{}", marker),
        Amf0DeserializationError::UnexpectedEmptyObjectPropertyName => "EmptyName".into(),
        Amf0DeserializationError::UnexpectedEof => "Eof".into(),
        Amf0DeserializationError::BufferReadError(_) => "Read".into(),
        Amf0DeserializationError::StringParseError(_) => "Utf8".into(),
        #[allow(unreachable_patterns)]
        _ => "Other".into(),
    }
}

pub fn run(rest: &str) -> String {
    let mut t = Toks::new(rest);
    let op = t.next();
    match op {
        "enc" => {
            let vs = parse_values(&mut t);
            // the same HashMap instances are iterated by serialize() below: this is the order used
            let ordered = show_values(&vs, false);
            match rml_amf0::serialize(&vs) {
                Err(e) => format!("{} | Err {}", ordered, ser_err(&e)),
                Ok(bytes) => {
                    let mut c = Cursor::new(bytes.clone());
                    let back = match rml_amf0::deserialize(&mut c) {
                        Ok(ws) => format!("Ok {} {}", c.position(), show_values(&ws, true)),
                        Err(e) => format!("Err {}", de_err(&e)),
                    };
                    format!("{} | Ok {} | {}", ordered, hex(&bytes), back)
                }
            }
        }
        "dec" | "decx" => {
            let bytes = t.bytes();
            let mut c = Cursor::new(bytes);
            match rml_amf0::deserialize(&mut c) {
                Ok(ws) => format!("Ok {}", show_values(&ws, true)),
                Err(e) => format!("Err {}", de_err(&e)),
            }
        }
        "decm" => {
            // decode under the counting allocator: peak live bytes above entry level, largest single request
            let bytes = t.bytes();
            let mut c = Cursor::new(bytes);
            let (r, peak, largest) = crate::measure(|| rml_amf0::deserialize(&mut c).map(|ws| show_values(&ws, true)));
            match r {
                Ok(ws) => format!("Ok {} | peak={} largest={}", ws, peak, largest),
                Err(e) => format!("Err {} | peak={} largest={}", de_err(&e), peak, largest),
            }
        }
        "deep" | "deepx" => {
            // nested arrays decoded in a CHILD process on a thread with a fixed stack: a stack overflow aborts the
            // child, not the harness.  deep <depth> <stack KiB>
            let depth = t.next().to_string();
            let stack = t.next().to_string();
            let exe = std::env::current_exe().unwrap();
            match std::process::Command::new(exe).arg("--child-deep").arg(&depth).arg(&stack).output() {
                Ok(o) => {
                    let out = String::from_utf8_lossy(&o.stdout).trim().to_string();
                    match o.status.code() {
                        Some(0) => format!("exit=0 {}", out),
                        Some(c) => format!("exit={}", c),
                        None => "killed-by-signal".to_string(),
                    }
                }
                Err(_) => "HARNESS-SPAWN-FAILED".into(),
            }
        }
        "flat" => {
            // a FLAT (un-nested) run of one byte after a prefix, decoded in a child process on a fixed stack:
            // flat <prefix hex or -> <byte hex> <count> <stack KiB>.  Stack use must not grow with the length of a flat input.
            let prefix = t.next().to_string();
            let byte = t.next().to_string();
            let count = t.next().to_string();
            let stack = t.next().to_string();
            let exe = std::env::current_exe().unwrap();
            match std::process::Command::new(exe).arg("--child-flat").arg(&prefix).arg(&byte).arg(&count).arg(&stack).output() {
                Ok(o) => {
                    let out = String::from_utf8_lossy(&o.stdout).trim().to_string();
                    match o.status.code() {
                        Some(0) => format!("exit=0 {}", out),
                        Some(c) => format!("exit={}", c),
                        None => "killed-by-signal".to_string(),
                    }
                }
                Err(_) => "HARNESS-SPAWN-FAILED".into(),
            }
        }
        "dect" => {
            let k = t.u64() as usize;
            let bytes = t.bytes();
            let mut c = Cursor::new(bytes[..k].to_vec());
            match rml_amf0::deserialize(&mut c) {
                Ok(ws) => format!("Ok {}", show_values(&ws, true)),
                Err(e) => format!("Err {}", de_err(&e)),
            }
        }
        _ => "HARNESS-BAD-OP".to_string(),
    }
}

/// child mode: decode `depth` nested strict-array headers (count 1) on a thread with `stack_kib` KiB of stack
pub fn child_deep(depth: usize, stack_kib: usize) {
    let mut bytes = Vec::with_capacity(depth * 5);
    for _ in 0..depth {
        bytes.extend_from_slice(&[0x0a, 0, 0, 0, 1]);
    }
    let h = std::thread::Builder::new().stack_size(stack_kib * 1024).spawn(move || {
        let mut c = Cursor::new(bytes);
        match rml_amf0::deserialize(&mut c) {
            Ok(v) => {
                // measure the depth without recursion
                let mut d = 0usize;
                let mut cur = v.into_iter().next();
                while let Some(Amf0Value::StrictArray(mut inner)) = cur {
                    d += 1;
                    cur = if inner.is_empty() { None } else { Some(inner.remove(0)) };
                }
                println!("Ok depth={}", d);
                // leak the value: dropping a deeply nested value recurses as well, which is not the decoder under test
                std::process::exit(0);
            }
            Err(e) => println!("Err {}", de_err(&e)),
        }
    }).unwrap();
    let _ = h.join();
}

/// child mode: decode `prefix` followed by `count` copies of one byte on a thread with `stack_kib` KiB of stack
pub fn child_flat(prefix_hex: &str, byte_hex: &str, count: usize, stack_kib: usize) {
    let mut bytes: Vec<u8> = if prefix_hex == "-" { vec![] } else {
        (0..prefix_hex.len() / 2).map(|i| u8::from_str_radix(&prefix_hex[2 * i..2 * i + 2], 16).unwrap()).collect()
    };
    let b = u8::from_str_radix(byte_hex, 16).unwrap();
    bytes.extend(std::iter::repeat(b).take(count));
    let h = std::thread::Builder::new().stack_size(stack_kib * 1024).spawn(move || {
        let mut c = Cursor::new(bytes);
        match rml_amf0::deserialize(&mut c) {
            Ok(v) => { println!("Ok n={}", v.len()); std::mem::forget(v); std::process::exit(0); }
            Err(_) => println!("Err"),
        }
    }).unwrap();
    let _ = h.join();
}
