// component "msg": RtmpMessage <-> MessagePayload
use crate::c_amf0::{de_err as amf_de_err, parse_value, ser_err as amf_ser_err, show_value};
use crate::util::{hex, unhex, Toks};
use bytes::Bytes;
use rml_amf0::Amf0Value;
use rml_rtmp::messages::{
    MessageDeserializationError, MessagePayload, MessageSerializationError, PeerBandwidthLimitType, RtmpMessage, UserControlEventType,
};
use rml_rtmp::time::RtmpTimestamp;

fn opt(s: &str) -> Option<u32> {
    if s == "-" { None } else { Some(s.parse().unwrap()) }
}
fn show_opt(o: Option<u32>) -> String {
    match o { None => "-".into(), Some(x) => format!("{}", x) }
}

pub fn parse_event(s: &str) -> UserControlEventType {
    match s {
        "StreamBegin" => UserControlEventType::StreamBegin,
        "StreamEof" => UserControlEventType::StreamEof,
        "StreamDry" => UserControlEventType::StreamDry,
        "SetBufferLength" => UserControlEventType::SetBufferLength,
        "StreamIsRecorded" => UserControlEventType::StreamIsRecorded,
        "PingRequest" => UserControlEventType::PingRequest,
        "PingResponse" => UserControlEventType::PingResponse,
        "BufferEmpty" => UserControlEventType::BufferEmpty,
        "BufferReady" => UserControlEventType::BufferReady,
        _ => panic!("HARNESS-BAD-EVENT"),
    }
}

pub fn parse_message(t: &mut Toks) -> RtmpMessage {
    let kind = t.next();
    match kind {
        "Unknown" => { let tid = t.u32() as u8; RtmpMessage::Unknown { type_id: tid, data: Bytes::from(t.bytes()) } }
        "Abort" => RtmpMessage::Abort { stream_id: t.u32() },
        "Ack" => RtmpMessage::Acknowledgement { sequence_number: t.u32() },
        "Cmd" => {
            let name = String::from_utf8(unhex(t.next())).expect("HARNESS-BAD-UTF8");
            let tr = match parse_value(t) { Amf0Value::Number(x) => x, _ => panic!("HARNESS-BAD-CMD") };
            let obj = parse_value(t);
            let n: usize = t.next().parse().unwrap();
            let args = (0..n).map(|_| parse_value(t)).collect();
            RtmpMessage::Amf0Command { command_name: name, transaction_id: tr, command_object: obj, additional_arguments: args }
        }
        "Data" => {
            let n: usize = t.next().parse().unwrap();
            RtmpMessage::Amf0Data { values: (0..n).map(|_| parse_value(t)).collect() }
        }
        "Audio" => RtmpMessage::AudioData { data: Bytes::from(t.bytes()) },
        "Video" => RtmpMessage::VideoData { data: Bytes::from(t.bytes()) },
        "SetChunkSize" => RtmpMessage::SetChunkSize { size: t.u32() },
        "SetPeerBandwidth" => {
            let size = t.u32();
            let lt = match t.next() { "H" => PeerBandwidthLimitType::Hard, "S" => PeerBandwidthLimitType::Soft, _ => PeerBandwidthLimitType::Dynamic };
            RtmpMessage::SetPeerBandwidth { size, limit_type: lt }
        }
        "UserControl" => {
            let ev = parse_event(t.next());
            let sid = opt(t.next());
            let bl = opt(t.next());
            let ts = opt(t.next()).map(RtmpTimestamp::new);
            RtmpMessage::UserControl { event_type: ev, stream_id: sid, buffer_length: bl, timestamp: ts }
        }
        "WinAck" => RtmpMessage::WindowAcknowledgement { size: t.u32() },
        _ => panic!("HARNESS-BAD-MESSAGE"),
    }
}

pub fn show_message(m: &RtmpMessage, sorted: bool) -> String {
    match m {
        RtmpMessage::Unknown { type_id, data } => format!("Unknown {} {}", type_id, hex(&data[..])),
        RtmpMessage::Abort { stream_id } => format!("Abort {}", stream_id),
        RtmpMessage::Acknowledgement { sequence_number } => format!("Ack {}", sequence_number),
        RtmpMessage::Amf0Command { command_name, transaction_id, command_object, additional_arguments } => {
            let mut s = format!("Cmd {} N{:016x} ", hex(command_name.as_bytes()), transaction_id.to_bits());
            show_value(command_object, sorted, &mut s);
            s.push_str(&format!(" {}", additional_arguments.len()));
            for a in additional_arguments { s.push(' '); show_value(a, sorted, &mut s); }
            s
        }
        RtmpMessage::Amf0Data { values } => {
            let mut s = format!("Data {}", values.len());
            for a in values { s.push(' '); show_value(a, sorted, &mut s); }
            s
        }
        RtmpMessage::AudioData { data } => format!("Audio {}", hex(&data[..])),
        RtmpMessage::VideoData { data } => format!("Video {}", hex(&data[..])),
        RtmpMessage::SetChunkSize { size } => format!("SetChunkSize {}", size),
        RtmpMessage::SetPeerBandwidth { size, limit_type } => format!("SetPeerBandwidth {} {}", size,
            match limit_type { PeerBandwidthLimitType::Hard => "H", PeerBandwidthLimitType::Soft => "S", PeerBandwidthLimitType::Dynamic => "D" }),
        RtmpMessage::UserControl { event_type, stream_id, buffer_length, timestamp } =>
            format!("UserControl {:?} {} {} {}", event_type, show_opt(*stream_id), show_opt(*buffer_length), show_opt(timestamp.map(|x| x.value))),
        RtmpMessage::WindowAcknowledgement { size } => format!("WinAck {}", size),
    }
}

pub fn ser_err(e: &MessageSerializationError) -> String {
    match e {
        MessageSerializationError::InvalidChunkSize => "Err InvalidChunkSize".into(),
        MessageSerializationError::Amf0SerializationError(a) => format!("Err Amf0:{}", amf_ser_err(a)),
        MessageSerializationError::Io(_) => "Err Io".into(),
        #[allow(unreachable_patterns)]
        _ => "Err Other".into(),
    }
}
pub fn de_err(e: &MessageDeserializationError) -> String {
    match e {
        MessageDeserializationError::InvalidMessageFormat => "Err InvalidMessageFormat".into(),
        MessageDeserializationError::Amf0DeserializationError(a) => format!("Err Amf0:{}", amf_de_err(a)),
        MessageDeserializationError::Io(_) => "Err Io".into(),
        #[allow(unreachable_patterns)]
        _ => "Err Other".into(),
    }
}

pub fn run(rest: &str) -> String {
    let mut t = Toks::new(rest);
    match t.next() {
        "enc" => {
            let m = parse_message(&mut t);
            let ordered = show_message(&m, false);      // HashMap iteration order used by the encoder below
            match MessagePayload::from_rtmp_message(m, RtmpTimestamp::new(7), 9) {
                Err(e) => format!("{} | {}", ordered, ser_err(&e)),
                Ok(p) => {
                    let back = match p.to_rtmp_message() {
                        Ok(m2) => show_message(&m2, true),
                        Err(e) => de_err(&e),
                    };
                    format!("{} | Ok {} {} {} {} | {}", ordered, p.type_id, p.timestamp.value, p.message_stream_id, hex(&p.data[..]), back)
                }
            }
        }
        "dec" => {
            let tid = t.u32() as u8;
            let data = t.bytes();
            let p = MessagePayload { timestamp: RtmpTimestamp::new(0), type_id: tid, message_stream_id: 0, data: Bytes::from(data) };
            match p.to_rtmp_message() {
                Ok(m) => show_message(&m, true),
                Err(e) => de_err(&e),
            }
        }
        _ => "HARNESS-BAD-OP".into(),
    }
}
