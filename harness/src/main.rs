// Harness: reads case lines on stdin, executes the REAL rml_rtmp / rml_amf0 code on each, prints
// "<case>\t<observation>" per line.  See DESIGN.md section 5.
use std::alloc::{GlobalAlloc, Layout, System};
use std::io::{self, BufRead, Write};
use std::panic;
use std::sync::atomic::{AtomicU64, AtomicUsize, Ordering};
use std::sync::{Arc, Mutex};

// counting allocator: current / peak live bytes, hard cap (a runaway allocation aborts the process,
// which the engine reports with the case that was running)
pub struct Counting;
pub static CURRENT: AtomicUsize = AtomicUsize::new(0);
pub static PEAK: AtomicUsize = AtomicUsize::new(0);
pub static LARGEST: AtomicUsize = AtomicUsize::new(0);
const ALLOC_CAP: usize = 6 << 30;

unsafe impl GlobalAlloc for Counting {
    unsafe fn alloc(&self, layout: Layout) -> *mut u8 {
        let sz = layout.size();
        let cur = CURRENT.fetch_add(sz, Ordering::Relaxed) + sz;
        if cur > PEAK.load(Ordering::Relaxed) {
            PEAK.store(cur, Ordering::Relaxed);
        }
        if sz > LARGEST.load(Ordering::Relaxed) {
            LARGEST.store(sz, Ordering::Relaxed);
        }
        if cur > ALLOC_CAP || sz > ALLOC_CAP {
            let _ = io::stderr().write_all(b"HARNESS: allocation cap exceeded\n");
            std::process::abort();
        }
        System.alloc(layout)
    }
    unsafe fn dealloc(&self, ptr: *mut u8, layout: Layout) {
        CURRENT.fetch_sub(layout.size(), Ordering::Relaxed);
        System.dealloc(ptr, layout)
    }
    unsafe fn realloc(&self, ptr: *mut u8, layout: Layout, new_size: usize) -> *mut u8 {
        let old = layout.size();
        if new_size > old {
            let cur = CURRENT.fetch_add(new_size - old, Ordering::Relaxed) + (new_size - old);
            if cur > PEAK.load(Ordering::Relaxed) {
                PEAK.store(cur, Ordering::Relaxed);
            }
            if new_size > LARGEST.load(Ordering::Relaxed) {
                LARGEST.store(new_size, Ordering::Relaxed);
            }
            if cur > ALLOC_CAP {
                let _ = io::stderr().write_all(b"HARNESS: allocation cap exceeded\n");
                std::process::abort();
            }
        } else {
            CURRENT.fetch_sub(old - new_size, Ordering::Relaxed);
        }
        System.realloc(ptr, layout, new_size)
    }
}

#[global_allocator]
static GLOBAL: Counting = Counting;

/// measure the peak of live bytes above the level at entry, and the largest single request, during f
pub fn measure<T, F: FnOnce() -> T>(f: F) -> (T, usize, usize) {
    let base = CURRENT.load(Ordering::Relaxed);
    PEAK.store(base, Ordering::Relaxed);
    LARGEST.store(0, Ordering::Relaxed);
    let r = f();
    let peak = PEAK.load(Ordering::Relaxed).saturating_sub(base);
    (r, peak, LARGEST.load(Ordering::Relaxed))
}

static CASE_STARTED_MS: AtomicU64 = AtomicU64::new(0);
const CASE_TIMEOUT_MS: u64 = 20_000;

fn now_ms() -> u64 {
    std::time::SystemTime::now().duration_since(std::time::UNIX_EPOCH).map(|d| d.as_millis() as u64).unwrap_or(0)
}

mod util;
mod c_time;
mod c_amf0;
mod c_chunk;
mod c_msg;
mod c_server;
mod c_client;
mod c_hs;
mod c_interop;

fn run_case(line: &str) -> String {
    let mut it = line.splitn(2, ' ');
    let comp = it.next().unwrap_or("");
    let rest = it.next().unwrap_or("");
    match comp {
        "pair" => {
            // pair <partA> <partB> <component> <case...> : the same case under two partitions of its input
            let mut it2 = rest.splitn(3, ' ');
            let a = it2.next().unwrap_or("w").to_string();
            let b = it2.next().unwrap_or("b").to_string();
            let inner = it2.next().unwrap_or("");
            util::PART_OVERRIDE.with(|p| *p.borrow_mut() = Some(a));
            let ra = run_case(inner);
            util::PART_OVERRIDE.with(|p| *p.borrow_mut() = Some(b));
            let rb = run_case(inner);
            util::PART_OVERRIDE.with(|p| *p.borrow_mut() = None);
            format!("{} ### {}", ra, rb)
        }
        "time" => c_time::run(rest),
        "amf0" => c_amf0::run(rest),
        "chunk" => c_chunk::run(rest),
        "msg" => c_msg::run(rest),
        "server" => c_server::run(rest),
        "client" => c_client::run(rest),
        "hs" => c_hs::run(rest),
        "interop" => c_interop::run(rest),
        _ => format!("HARNESS-UNKNOWN-COMPONENT {}", comp),
    }
}

fn main() {
    let args: Vec<String> = std::env::args().collect();
    if args.len() == 4 && args[1] == "--child-deep" {
        c_amf0::child_deep(args[2].parse().unwrap(), args[3].parse().unwrap());
        return;
    }
    if args.len() == 6 && args[1] == "--child-flat" {
        c_amf0::child_flat(&args[2], &args[3], args[4].parse().unwrap(), args[5].parse().unwrap());
        return;
    }
    // panics are observations, not noise
    panic::set_hook(Box::new(|_| {}));
    let stdin = io::stdin();
    let current_case: Arc<Mutex<String>> = Arc::new(Mutex::new(String::new()));
    {
        // watchdog: a case that does not return is an observation (HANG), then the process ends
        let cc = current_case.clone();
        std::thread::spawn(move || loop {
            std::thread::sleep(std::time::Duration::from_millis(500));
            let started = CASE_STARTED_MS.load(Ordering::Relaxed);
            if started != 0 && now_ms() > started + CASE_TIMEOUT_MS {
                let case = cc.lock().map(|c| c.clone()).unwrap_or_default();
                println!("{}\tHANG", case);
                std::process::exit(3);
            }
        });
    }
    let mut out = io::stdout();
    for line in stdin.lock().lines() {
        let line = line.expect("read");
        let line = line.trim_end();
        if line.is_empty() || line.starts_with('#') {
            continue;
        }
        let l2 = line.to_string();
        if let Ok(mut c) = current_case.lock() {
            *c = l2.clone();
        }
        CASE_STARTED_MS.store(now_ms(), Ordering::Relaxed);
        let base = CURRENT.load(Ordering::Relaxed);
        PEAK.store(base, Ordering::Relaxed);
        LARGEST.store(0, Ordering::Relaxed);
        let obs = match panic::catch_unwind(move || run_case(&l2)) {
            Ok(s) => s,
            Err(e) => {
                let msg = if let Some(s) = e.downcast_ref::<&str>() {
                    s.to_string()
                } else if let Some(s) = e.downcast_ref::<String>() {
                    s.clone()
                } else {
                    "?".to_string()
                };
                format!("PANIC {}", util::classify_panic(&msg))
            }
        };
        CASE_STARTED_MS.store(0, Ordering::Relaxed);
        let mut text = String::with_capacity(line.len() + obs.len() + 2);
        text.push_str(line);
        text.push('\t');
        text.push_str(&obs);
        // third field: peak live bytes above the level at the start of the case, largest single allocation request
        text.push_str(&format!("\t~{}~{}", PEAK.load(Ordering::Relaxed).saturating_sub(base), LARGEST.load(Ordering::Relaxed)));
        text.push('\n');
        out.write_all(text.as_bytes()).unwrap();
    }
}
