// Harness: reads case lines on stdin, executes the REAL rml_rtmp / rml_amf0 code on each, prints
// "<case>\t<observation>" per line.  See DESIGN.md section 5.
use std::io::{self, BufRead, Write};
use std::panic;

mod util;
mod c_time;
mod c_amf0;
mod c_chunk;

fn run_case(line: &str) -> String {
    let mut it = line.splitn(2, ' ');
    let comp = it.next().unwrap_or("");
    let rest = it.next().unwrap_or("");
    match comp {
        "time" => c_time::run(rest),
        "amf0" => c_amf0::run(rest),
        "chunk" => c_chunk::run(rest),
        _ => format!("HARNESS-UNKNOWN-COMPONENT {}", comp),
    }
}

fn main() {
    // panics are observations, not noise
    panic::set_hook(Box::new(|_| {}));
    let stdin = io::stdin();
    let stdout = io::stdout();
    let mut out = io::BufWriter::new(stdout.lock());
    for line in stdin.lock().lines() {
        let line = line.expect("read");
        let line = line.trim_end();
        if line.is_empty() || line.starts_with('#') {
            continue;
        }
        let l2 = line.to_string();
        let obs = match panic::catch_unwind(move || run_case(&l2)) {
            Ok(s) => s,
            Err(e) => {
                let msg = if let Some(s) = e.downcast_ref::<&str>() {
                    s.to_string()
                } else if let Some(s) = e.downcast_ref::<String>() {
                    s.clone()
                } else {
                    "?".to_string()
                };
                format!("PANIC {}", util::classify_panic(&msg))
            }
        };
        writeln!(out, "{}\t{}", line, obs).unwrap();
    }
}
