// component "time": rtmp/src/time.rs
use crate::util::Toks;
use rml_rtmp::time::RtmpTimestamp;
use std::cmp::Ordering;

fn o(x: Ordering) -> &'static str {
    match x {
        Ordering::Less => "L",
        Ordering::Equal => "E",
        Ordering::Greater => "G",
    }
}
fn oo(x: Option<Ordering>) -> &'static str {
    match x {
        None => "N",
        Some(x) => o(x),
    }
}
fn b(x: bool) -> &'static str {
    if x { "1" } else { "0" }
}

pub fn run(rest: &str) -> String {
    let mut t = Toks::new(rest);
    let op = t.next();
    let a = t.u32();
    let c = t.u32();
    let ta = RtmpTimestamp::new(a);
    let tc = RtmpTimestamp::new(c);
    match op {
        "add" => format!("{} {}", (ta + tc).value, (ta + c).value),
        "sub" => format!("{} {}", (ta - tc).value, (ta - c).value),
        "cmp" => format!(
            "{} {} {} {} {} {} {} {} {} {} {}",
            o(ta.cmp(&tc)),
            oo(ta.partial_cmp(&tc)),
            oo(ta.partial_cmp(&c)),
            oo(a.partial_cmp(&tc)),
            b(ta == tc),
            b(ta == c),
            b(a == tc),
            b(ta < tc),
            b(ta > tc),
            b(ta < c),
            b(a < tc)
        ),
        "set" => {
            let mut x = ta;
            x.set(c);
            format!("{}", x.value)
        }
        _ => "HARNESS-BAD-OP".to_string(),
    }
}
