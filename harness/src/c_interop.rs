// component "interop": a real ClientSession and a real ServerSession wired back to back through two byte pipes.
// The server application accepts every request.  Script:
//   cfg <flash> <buffer> <cwin> <cchunk> <tcurl|-> <fms> <schunk> <bw> <swin> <bwdone> <clock>
//   connect <apphex> | publish <keyhex> <live|record|append> | play <keyhex> | stoppub | stopplay
//   cmeta <md> | cvideo <ts> <drop> <payload> | caudio ...        (client publishes)
//   smeta <md> | svideo <ts> <drop> <payload> | saudio ... | sfinish   (server sends on the playing stream)
//   d c2s <n> | d s2c <n>                                          (one handle_input call with at most n pending bytes)
//   flush <n1,n2,...>                                              (alternate deliveries of the given sizes until both pipes are empty)
//   clk <ms>
// Observation per op: calls joined by " / "; a call = side letter (C client api, S server api, c client input, s server input,
// A accept) ":" results; packets are shown by length only (the AMF0 objects inside are HashMap-ordered).
use crate::c_server::{parse_md, show_server_err};
use crate::util::{payload_from_spec, unhex};
use bytes::Bytes;
use rml_rtmp::sessions::verif_set_elapsed_ms;
use rml_rtmp::sessions::{
    ClientSession, ClientSessionConfig, ClientSessionResult, PublishRequestType, ServerSession, ServerSessionConfig, ServerSessionEvent,
    ServerSessionResult,
};
use rml_rtmp::time::RtmpTimestamp;
use std::collections::VecDeque;

struct World {
    client: ClientSession,
    server: ServerSession,
    c2s: VecDeque<u8>,
    s2c: VecDeque<u8>,
    play_sid: Option<u32>,
}

fn show_c(rs: &[ClientSessionResult], pipe: &mut VecDeque<u8>) -> String {
    if rs.is_empty() { return ".".into(); }
    rs.iter().map(|r| match r {
        ClientSessionResult::OutboundResponse(p) => { pipe.extend(p.bytes.iter()); format!("P{}#{}", if p.can_be_dropped { 1 } else { 0 }, p.bytes.len()) }
        ClientSessionResult::RaisedEvent(e) => crate::c_client::show_event(e),
        ClientSessionResult::UnhandleableMessageReceived(m) => format!("U:{}", crate::c_chunk::show_msg(m)),
    }).collect::<Vec<_>>().join(" ; ")
}

fn show_s(rs: &[ServerSessionResult], pipe: &mut VecDeque<u8>) -> String {
    if rs.is_empty() { return ".".into(); }
    rs.iter().map(|r| match r {
        ServerSessionResult::OutboundResponse(p) => { pipe.extend(p.bytes.iter()); format!("P{}#{}", if p.can_be_dropped { 1 } else { 0 }, p.bytes.len()) }
        ServerSessionResult::RaisedEvent(e) => crate::c_server::show_event(e),
        ServerSessionResult::UnhandleableMessageReceived(m) => format!("U:{}", crate::c_chunk::show_msg(m)),
    }).collect::<Vec<_>>().join(" ; ")
}

impl World {
    fn to_server(&mut self, n: usize, calls: &mut Vec<String>) {
        let k = n.min(self.c2s.len());
        if k == 0 { return; }
        let piece: Vec<u8> = self.c2s.drain(..k).collect();
        match self.server.handle_input(&piece) {
            Ok(rs) => {
                calls.push(format!("s:{}", show_s(&rs, &mut self.s2c)));
                for r in rs.iter() {
                    if let ServerSessionResult::RaisedEvent(e) = r {
                        let id = match e {
                            ServerSessionEvent::ConnectionRequested { request_id, .. } => Some(*request_id),
                            ServerSessionEvent::ReleaseStreamRequested { request_id, .. } => Some(*request_id),
                            ServerSessionEvent::PublishStreamRequested { request_id, .. } => Some(*request_id),
                            ServerSessionEvent::PlayStreamRequested { request_id, stream_id, .. } => { self.play_sid = Some(*stream_id); Some(*request_id) }
                            _ => None,
                        };
                        if let Some(id) = id {
                            match self.server.accept_request(id) {
                                Ok(rs2) => calls.push(format!("A:{}", show_s(&rs2, &mut self.s2c))),
                                Err(e) => calls.push(format!("A:{}", show_server_err(&e))),
                            }
                        }
                    }
                }
            }
            Err(e) => calls.push(format!("s:{}", show_server_err(&e))),
        }
    }
    fn to_client(&mut self, n: usize, calls: &mut Vec<String>) {
        let k = n.min(self.s2c.len());
        if k == 0 { return; }
        let piece: Vec<u8> = self.s2c.drain(..k).collect();
        match self.client.handle_input(&piece) {
            Ok(rs) => calls.push(format!("c:{}", show_c(&rs, &mut self.c2s))),
            Err(e) => calls.push(format!("c:{}", crate::c_client::show_err(&e))),
        }
    }
}

pub fn run(rest: &str) -> String {
    let ops: Vec<&str> = rest.split(" | ").collect();
    let mut out: Vec<String> = Vec::new();
    let mut world: Option<World> = None;
    for op in ops {
        let t: Vec<&str> = op.split_whitespace().collect();
        if t.is_empty() { continue; }
        let mut calls: Vec<String> = Vec::new();
        if t[0] == "cfg" {
            let mut c = ClientSessionConfig::new();
            c.flash_version = String::from_utf8(unhex(t[1])).unwrap();
            c.playback_buffer_length_ms = t[2].parse().unwrap();
            c.window_ack_size = t[3].parse().unwrap();
            c.chunk_size = t[4].parse().unwrap();
            c.tc_url = if t[5] == "-" { None } else { Some(String::from_utf8(unhex(&t[5][1..])).unwrap()) };
            let mut s = ServerSessionConfig::new();
            s.fms_version = String::from_utf8(unhex(t[6])).unwrap();
            s.chunk_size = t[7].parse().unwrap();
            s.peer_bandwidth = t[8].parse().unwrap();
            s.window_ack_size = t[9].parse().unwrap();
            s.send_on_bw_done_message_on_start = t[10] == "1";
            verif_set_elapsed_ms(Some(t[11].parse().unwrap()));
            let mut c2s = VecDeque::new();
            let mut s2c = VecDeque::new();
            match (ClientSession::new(c), ServerSession::new(s)) {
                (Ok((cs, crs)), Ok((ss, srs))) => {
                    calls.push(format!("C:{}", show_c(&crs, &mut c2s)));
                    calls.push(format!("S:{}", show_s(&srs, &mut s2c)));
                    world = Some(World { client: cs, server: ss, c2s, s2c, play_sid: None });
                }
                (Err(e), _) => calls.push(format!("C:{}", crate::c_client::show_err(&e))),
                (Ok(_), Err(e)) => { calls.push("C:.".into()); calls.push(format!("S:{}", show_server_err(&e))) }
            }
            out.push(calls.join(" / "));
            continue;
        }
        let w = match world.as_mut() { Some(w) => w, None => { out.push("NOSESSION".into()); continue; } };
        let cres = |r: Result<ClientSessionResult, rml_rtmp::sessions::ClientSessionError>, pipe: &mut VecDeque<u8>| -> String {
            match r { Ok(x) => format!("C:{}", show_c(&[x], pipe)), Err(e) => format!("C:{}", crate::c_client::show_err(&e)) }
        };
        match t[0] {
            "clk" => { verif_set_elapsed_ms(Some(t[1].parse().unwrap())); calls.push(".".into()); }
            "connect" => { let r = w.client.request_connection(String::from_utf8(unhex(t[1])).unwrap()); calls.push(cres(r, &mut w.c2s)); }
            "publish" => {
                let ty = match t[2] { "live" => PublishRequestType::Live, "record" => PublishRequestType::Record, _ => PublishRequestType::Append };
                let r = w.client.request_publishing(String::from_utf8(unhex(t[1])).unwrap(), ty); calls.push(cres(r, &mut w.c2s));
            }
            "play" => { let r = w.client.request_playback(String::from_utf8(unhex(t[1])).unwrap()); calls.push(cres(r, &mut w.c2s)); }
            "stoppub" | "stopplay" => {
                let r = if t[0] == "stoppub" { w.client.stop_publishing() } else { w.client.stop_playback() };
                calls.push(match r { Ok(rs) => format!("C:{}", show_c(&rs, &mut w.c2s)), Err(e) => format!("C:{}", crate::c_client::show_err(&e)) });
            }
            "cmeta" => { let r = w.client.publish_metadata(&parse_md(t[1])); calls.push(cres(r, &mut w.c2s)); }
            "cvideo" | "caudio" => {
                let ts = RtmpTimestamp::new(t[1].parse().unwrap());
                let data = Bytes::from(payload_from_spec(t[3]));
                let r = if t[0] == "cvideo" { w.client.publish_video_data(data, ts, t[2] == "1") } else { w.client.publish_audio_data(data, ts, t[2] == "1") };
                calls.push(cres(r, &mut w.c2s));
            }
            "smeta" | "svideo" | "saudio" | "sfinish" => {
                let sid = w.play_sid.unwrap_or(0);
                let r = match t[0] {
                    "smeta" => w.server.send_metadata(sid, &parse_md(t[1])),
                    "sfinish" => w.server.finish_playing(sid),
                    _ => {
                        let ts = RtmpTimestamp::new(t[1].parse().unwrap());
                        let data = Bytes::from(payload_from_spec(t[3]));
                        if t[0] == "svideo" { w.server.send_video_data(sid, data, ts, t[2] == "1") } else { w.server.send_audio_data(sid, data, ts, t[2] == "1") }
                    }
                };
                calls.push(match r {
                    Ok(p) => { w.s2c.extend(p.bytes.iter()); format!("S:P{}#{}", if p.can_be_dropped { 1 } else { 0 }, p.bytes.len()) }
                    Err(e) => format!("S:{}", show_server_err(&e)),
                });
            }
            "d" => {
                let n: usize = t[2].parse().unwrap();
                if t[1] == "c2s" { w.to_server(n, &mut calls) } else { w.to_client(n, &mut calls) }
                if calls.is_empty() { calls.push(".".into()); }
            }
            "flush" => {
                let sizes: Vec<usize> = t[1].split(',').map(|x| x.parse::<usize>().unwrap().max(1)).collect();
                let mut i = 0usize;
                while (!w.c2s.is_empty() || !w.s2c.is_empty()) && i < 20000 {
                    if !w.c2s.is_empty() { w.to_server(sizes[i % sizes.len()], &mut calls); i += 1; }
                    if !w.s2c.is_empty() { w.to_client(sizes[i % sizes.len()], &mut calls); i += 1; }
                }
                if !w.c2s.is_empty() || !w.s2c.is_empty() { calls.push("FLUSH-CAP".into()); }
                if calls.is_empty() { calls.push(".".into()); }
            }
            _ => calls.push("HARNESS-BAD-OP".into()),
        }
        out.push(calls.join(" / "));
    }
    verif_set_elapsed_ms(None);
    out.join(" | ")
}
