// component "hs": Handshake driven by a script; random source pinned by hook H1
use crate::util::{hex, partition, unhex};
use rml_rtmp::handshake::{verif_set_random_source, Handshake, HandshakeError, HandshakeProcessResult, PeerType};

fn show_err(e: &HandshakeError) -> String {
    match e {
        HandshakeError::BadVersionId => "ERR:BadVersionId".into(),
        HandshakeError::HandshakeAlreadyCompleted => "ERR:AlreadyCompleted".into(),
        HandshakeError::UnknownPacket1Format => "ERR:UnknownPacket1Format".into(),
        HandshakeError::InvalidP2Packet => "ERR:InvalidP2".into(),
        _ => "ERR:Other".into(),
    }
}

pub fn run(rest: &str) -> String {
    // everything after " || " is an expectation for the judge's oracles, not an operation
    let script = rest.split(" || ").next().unwrap_or("");
    let ops: Vec<&str> = script.split(" | ").collect();
    let mut out: Vec<String> = Vec::new();
    let mut h: Option<Handshake> = None;
    for op in ops {
        let t: Vec<&str> = op.split_whitespace().collect();
        if t.is_empty() { continue; }
        match t[0] {
            "new" => {
                verif_set_random_source(Some(unhex(t[2])));
                h = Some(Handshake::new(if t[1] == "server" { PeerType::Server } else { PeerType::Client }));
                out.push(".".into());
            }
            "gen" => {
                let r = h.as_mut().unwrap().generate_outbound_p0_and_p1();
                out.push(match r { Ok(b) => format!("G:{}", hex(&b)), Err(e) => show_err(&e) });
            }
            "in" => {
                let data = unhex(t[2]);
                let mut parts = Vec::new();
                for piece in partition(t[1], &data) {
                    parts.push(match h.as_mut().unwrap().process_bytes(&piece) {
                        Ok(HandshakeProcessResult::InProgress { response_bytes }) => format!("IP:{}", hex(&response_bytes)),
                        Ok(HandshakeProcessResult::Completed { response_bytes, remaining_bytes }) => format!("C:{}:{}", hex(&response_bytes), hex(&remaining_bytes)),
                        Err(e) => show_err(&e),
                    });
                }
                out.push(if parts.is_empty() { ".".into() } else { parts.join(" / ") });
            }
            _ => out.push("HARNESS-BAD-OP".into()),
        }
    }
    verif_set_random_source(None);
    out.join(" | ")
}
