(* judge component "interop": the model client and the model server wired back to back exactly as harness/src/c_interop.rs wires
   the real ones; plus the C02 oracles on the real observation (events only; they do not use the model). *)
open Conv
open J_session

let show_c (r : Client.creply) : string =
  match r with
  | Client.COk rs ->
    if rs = [] then "." else String.concat " ; " (List.map (function
      | Client.CPacket (b, d) -> Printf.sprintf "P%d#%d" (if d then 1 else 0) (List.length b)
      | Client.CEvent e -> J_client.show_event e
      | Client.CUnhandleable m -> "U:" ^ J_chunk.show_msg m) rs)
  | Client.CErr e -> J_client.show_err e
  | Client.CPanic -> "PANIC"

let show_s (r : Server.reply) : string =
  match r with
  | Server.ROk rs ->
    if rs = [] then "." else String.concat " ; " (List.map (function
      | Server.SPacket (b, d) -> Printf.sprintf "P%d#%d" (if d then 1 else 0) (List.length b)
      | Server.SEvent e -> J_server.show_event e
      | Server.SUnhandleable m -> "U:" ^ J_chunk.show_msg m) rs)
  | Server.RErr e -> J_server.show_err e
  | Server.RPanic -> "PANIC"

let show_trace (t : Interop.trace) : string =
  match t with
  | Interop.TClientApi r -> "C:" ^ show_c r
  | Interop.TServerApi r -> "S:" ^ show_s r
  | Interop.TClientIn r -> "c:" ^ show_c r
  | Interop.TServerIn r -> "s:" ^ show_s r
  | Interop.TAccept r -> "A:" ^ show_s r
  | Interop.TFlushCap -> "FLUSH-CAP"
  | Interop.TNothing -> "."

let show_traces (ts : Interop.trace list) : string = String.concat " / " (List.map show_trace ts)

let clock_of (x : string) = n_of_int (int_of_string x land 0xFFFFFFFF)

(* the script is parsed here; every step is taken by the extracted Coq model Interop.step *)
let parse_op (t : string list) : Interop.iop option =
  match t with
  | ["clk"; x] -> Some (Interop.IClk (clock_of x))
  | ["connect"; app] -> Some (Interop.IConnect (bytes_of_hex app))
  | ["publish"; key; ty] -> Some (Interop.IPublish (bytes_of_hex key, (match ty with "live" -> Client.TLive | "record" -> Client.TRecord | _ -> Client.TAppend)))
  | ["play"; key] -> Some (Interop.IPlay (bytes_of_hex key))
  | ["stoppub"] -> Some Interop.IStopPub
  | ["stopplay"] -> Some Interop.IStopPlay
  | ["cmeta"; md] -> Some (Interop.ICMeta (J_server.parse_md md))
  | [("cvideo" | "caudio") as k; ts; drop; pl] -> Some (Interop.ICMedia (k = "cvideo", bytes_of_ints (payload_ints_of_spec pl), n_of_dec ts, drop = "1"))
  | ["smeta"; md] -> Some (Interop.ISMeta (J_server.parse_md md))
  | [("svideo" | "saudio") as k; ts; drop; pl] -> Some (Interop.ISMedia (k = "svideo", bytes_of_ints (payload_ints_of_spec pl), n_of_dec ts, drop = "1"))
  | ["sfinish"] -> Some Interop.ISFinish
  | ["d"; dir; n] -> Some (Interop.IDeliver (dir = "c2s", n_of_dec n))
  | ["flush"; sizes] -> Some (Interop.IFlush (List.map (fun x -> n_of_int (max 1 (int_of_string x))) (String.split_on_char ',' sizes)))
  | _ -> None

let run_model (ops : string list) : string list =
  let world = ref None in
  List.map (fun op ->
    let t = List.filter (fun s -> s <> "") (String.split_on_char ' ' op) in
    match t with
    | "cfg" :: flash :: buffer :: cwin :: cchunk :: tc :: fms :: schunk :: bw :: swin :: bwdone :: clock :: _ ->
      let cc = { Client.cc_flash = bytes_of_hex flash; cc_buffer = n_of_dec buffer; cc_window = n_of_dec cwin; cc_chunk = n_of_dec cchunk;
                 cc_tcurl = (if tc = "-" then None else Some (bytes_of_hex (String.sub tc 1 (String.length tc - 1)))) } in
      let sc = { Server.cfg_fms = bytes_of_hex fms; cfg_chunk = n_of_dec schunk; cfg_bandwidth = n_of_dec bw; cfg_window = n_of_dec swin;
                 cfg_bwdone = (bwdone = "1") } in
      let w, tr = Interop.world_new cc sc (clock_of clock) in
      world := w; show_traces tr
    | _ ->
      (match !world with
       | None -> "NOSESSION"
       | Some w ->
         (match parse_op t with
          | None -> "JUDGE-BAD-OP"
          | Some iop -> let w', tr = Interop.step w iop in world := Some w'; show_traces tr))) ops

let run (toks : string list) (_obs : string) : string =
  let case = String.concat " " toks in
  String.concat " | " (run_model (split_on " | " case))

(* --- C02 oracles on the real observation ----------------------------------------------------------------------------- *)
let starts_with p s = String.length s >= String.length p && String.sub s 0 (String.length p) = p

(* all results of the real run, in order, tagged with the side letter of their call *)
let impl_results (obs : string) : (char * string) list =
  List.concat_map (fun op ->
    List.concat_map (fun call ->
      if String.length call >= 2 && call.[1] = ':' then
        List.map (fun r -> (call.[0], r)) (let body = String.sub call 2 (String.length call - 2) in if body = "." then [] else split_on " ; " body)
      else []) (split_on " / " op)) (split_on " | " obs)

let fnv_of_spec (pl : string) : int * int =
  let ints = payload_ints_of_spec pl in
  (List.length ints, fnv32_n (bytes_of_ints ints))

let oracle (toks : string list) (obs : string) : (string * bool) list =
  let case = String.concat " " toks in
  let ops = List.map (fun op -> List.filter (fun s -> s <> "") (String.split_on_char ' ' op)) (split_on " | " case) in
  (* the script must be a canonical scenario (generator flag "canon" as the last cfg token) for the delivery oracles *)
  let canonical = List.exists (function "cfg" :: r -> List.mem "canon" r | _ -> false) ops in
  if not canonical then [] else begin
    let res = impl_results obs in
    (* the server's documented normalization of the application name: one trailing "/" (hex 2f) is removed *)
    let norm a = let n = String.length a in if n >= 2 && String.sub a (n - 2) 2 = "2f" then String.sub a 0 (n - 2) else a in
    let app = norm (List.fold_left (fun a o -> match o with ["connect"; x] -> x | _ -> a) "" ops) in
    let pubkey = List.fold_left (fun a o -> match o with ["publish"; k; _] -> Some k | _ -> a) None ops in
    let playkey = List.fold_left (fun a o -> match o with ["play"; k] -> Some k | _ -> a) None ops in
    let errs = List.exists (fun (_, r) -> starts_with "ERR:" r || r = "PANIC") res in
    let sev = List.filter_map (fun (c, r) -> if (c = 's' || c = 'A' || c = 'S') && starts_with "E:" r then Some r else None) res in
    let cev = List.filter_map (fun (c, r) -> if (c = 'c' || c = 'C') && starts_with "E:" r then Some r else None) res in
    let count p l = List.length (List.filter p l) in
    let capped = List.exists (fun op -> List.mem "FLUSH-CAP" (split_on " / " op)) (split_on " | " obs) in
    let base = [
      "C02.canonical_scenario_quiesces", not capped;
      "C02.no_error_in_canonical_scenario", not errs;
      "C02.connect_completes", count (fun r -> r = "E:ConnAccepted") cev = 1 &&
                               count (fun r -> match String.split_on_char ':' r with ["E"; "ConnReq"; _; a] -> a = app | _ -> false) sev = 1;
      (* C19: both configurations were accepted (canonical scenarios use accepted values only), so the pair must work *)
      "C19.accepted_config_yields_working_session", (not errs) && (not capped) && count (fun r -> r = "E:ConnAccepted") cev = 1;
    ] in
    let media_expected_pub =
      List.filter_map (function
        | ["cmeta"; md] -> Some (fun k -> Printf.sprintf "E:Meta:%s:%s:%s" app k md)
        | [("cvideo" | "caudio") as kind; ts; _; pl] ->
          let n, h = fnv_of_spec pl in
          Some (fun k -> Printf.sprintf "E:%s:%s:%s:%s:%d:%08x" (if kind = "cvideo" then "Video" else "Audio") app k ts n h)
        | _ -> None) ops in
    let media_expected_play =
      List.filter_map (function
        | ["smeta"; md] -> Some (Printf.sprintf "E:Meta:%s" md)
        | [("svideo" | "saudio") as kind; ts; _; pl] ->
          let n, h = fnv_of_spec pl in
          Some (Printf.sprintf "E:%s:%s:%d:%08x" (if kind = "svideo" then "Video" else "Audio") ts n h)
        | _ -> None) ops in
    let is_media r = starts_with "E:Meta:" r || starts_with "E:Video:" r || starts_with "E:Audio:" r in
    let pub = (match pubkey with
        | None -> []
        | Some k ->
          let stopped = List.exists (fun o -> o = ["stoppub"]) ops in
          [ "C02.publish_completes", count (fun r -> r = "E:PubAccepted") cev = 1 && count (fun r -> starts_with (Printf.sprintf "E:PubReq:") r && (match String.split_on_char ':' r with [_; _; _; a; kk; _] -> a = app && kk = k | _ -> false)) sev = 1;
            "C02.published_media_raised_exactly_once_in_order", List.filter is_media sev = List.map (fun f -> f k) media_expected_pub;
            "C02.publish_finished_raised", (not stopped) || count (fun r -> r = Printf.sprintf "E:PubFin:%s:%s" app k) sev = 1 ]) in
    let play = (match playkey with
        | None -> []
        | Some k ->
          let stopped = List.exists (fun o -> o = ["stopplay"]) ops in
          [ "C02.play_completes", count (fun r -> r = "E:PlayAccepted") cev = 1 && count (fun r -> starts_with "E:PlayReq:" r && (match String.split_on_char ':' r with _ :: _ :: _ :: a :: kk :: _ -> a = app && kk = k | _ -> false)) sev = 1;
            "C02.played_media_raised_exactly_once_in_order", List.filter is_media cev = media_expected_play;
            "C02.play_finished_raised", (not stopped) || count (fun r -> r = Printf.sprintf "E:PlayFin:%s:%s" app k) sev = 1 ]) in
    base @ pub @ play
  end
