(* component "pair": the same case under two partitions of its input bytes (C15).
   The deserializer must return the same message sequence; a session the same sequence of events and responses.  If the
   stream is invalid both runs must fail at the same operation and agree on what was delivered before (prefix-comparable,
   DESIGN 10.2).  Scripts that announce an acknowledgement window are outside this oracle (acknowledgements are a function
   of the call boundaries by C17). *)
let split_on = J_session.split_on

let flatten_op (op : string) : string list =
  (* results of all calls of one operation, in order *)
  List.concat_map (fun call -> if call = "." || call = "" then [] else split_on " ; " call) (split_on " / " op)

let is_err s = String.length s >= 4 && (String.sub s 0 4 = "ERR:" || String.sub s 0 2 = "E:" && false)

let rec common_prefix a b = match a, b with
  | x :: a', y :: b' when x = y -> x :: common_prefix a' b'
  | _ -> []

let oracle (toks : string list) (obs : string) : (string * bool) list =
  match toks with
  | _ :: _ :: comp :: _ ->
    (match split_on " ### " obs with
     | [ra; rb] ->
       if comp = "chunk" then begin
         (* message sequences: equal, or (error) equal up to the error which both must report *)
         let ta = List.filter (fun s -> s <> "") (String.split_on_char ' ' ra) and tb = List.filter (fun s -> s <> "") (String.split_on_char ' ' rb) in
         ["C15.deserializer_partition_independent", ta = tb]
       end else begin
         (* sessions: packets are compared modulo AMF0 object property order (each run builds its own HashMaps) *)
         let open J_session in
         let oa = J_server.parse_obs ra and ob = J_server.parse_obs rb in
         if List.length oa <> List.length ob then ["C15.session_partition_independent", false]
         else begin
           let pa = new_peer () and pb = new_peer () in
           let ok = ref true and stop = ref false in
           let is_err_res = function Other s -> is_err s | _ -> false in
           let rec take n l = if n = 0 then [] else match l with [] -> [] | x :: r -> x :: take (n - 1) r in
           List.iter2 (fun a b ->
             if not !stop then begin
               let fa = List.concat a and fb = List.concat b in
               let ea = List.exists is_err_res fa and eb = List.exists is_err_res fb in
               if ea || eb then begin
                 if ea <> eb then ok := false
                 else begin
                   let qa = List.filter (fun r -> not (is_err_res r)) fa and qb = List.filter (fun r -> not (is_err_res r)) fb in
                   let n = min (List.length qa) (List.length qb) in
                   if not (results_equiv pa pb (take n qa) (take n qb)) then ok := false
                 end;
                 stop := true
               end else if not (results_equiv pa pb fa fb) then ok := false
             end) oa ob;
           ["C15.session_partition_independent", !ok]
         end
       end
     | _ -> ["C15.observation_shape", false])
  | _ -> []
