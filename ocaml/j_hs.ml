(* judge component "hs": model Handshake (instantiated with the Gallina HMAC-SHA256) vs the real one *)
open Conv
open Handshake

let hmac = Sha256.hmac_sha256

let show_err = function BadVersionId -> "ERR:BadVersionId" | HandshakeAlreadyCompleted -> "ERR:AlreadyCompleted"

let split_on = J_session.split_on

let run (toks : string list) (_obs : string) : string =
  let case = String.concat " " toks in
  let script = List.hd (split_on " || " case) in
  let ops = split_on " | " script in
  let h = ref None in
  let out = List.map (fun op ->
    let t = List.filter (fun s -> s <> "") (String.split_on_char ' ' op) in
    match t with
    | ["new"; role; rand] -> h := Some (hs_new (if role = "server" then RServer else RClient) (bytes_of_hex rand)); "."
    | ["gen"] ->
      (match !h with None -> "NOHS" | Some hs -> let b, hs' = gen_p0p1 hmac hs in h := Some hs'; "G:" ^ hex_of_bytes b)
    | ["in"; part; data] ->
      let parts = List.map (fun piece ->
        match !h with
        | None -> "NOHS"
        | Some hs ->
          let hs', r = process_bytes hmac hs piece in
          h := Some hs';
          (match r with
           | HInProgress resp -> "IP:" ^ hex_of_bytes resp
           | HCompleted (resp, rem) -> "C:" ^ hex_of_bytes resp ^ ":" ^ hex_of_bytes rem
           | HError e -> show_err e)) (partition part (bytes_of_hex data)) in
      (match parts with [] -> "." | _ -> String.concat " / " parts)
    | _ -> "JUDGE-BAD-OP") ops in
  String.concat " | " out

(* oracles: expectations computed by the generator's independent reference (hashlib) *)
let oracle (toks : string list) (obs : string) : (string * bool) list =
  let case = String.concat " " toks in
  match split_on " || " case with
  | [script; expect] ->
    let e = List.filter (fun s -> s <> "") (String.split_on_char ' ' expect) in
    (* gather what the real handshake emitted / handed back, and when it completed *)
    let emitted = Buffer.create 64 and remaining = Buffer.create 64 in
    let received = ref 0 and completed_at = ref (-1) and errors = ref 0 in
    let ops = split_on " | " script and ros = split_on " | " obs in
    let add buf h = if h <> "-" then Buffer.add_string buf h in
    (try List.iter2 (fun op ro ->
      let t = List.filter (fun s -> s <> "") (String.split_on_char ' ' op) in
      match t with
      | ["gen"] -> if String.length ro > 2 && String.sub ro 0 2 = "G:" then add emitted (String.sub ro 2 (String.length ro - 2))
      | ["in"; part; data] ->
        let pieces = partition part (bytes_of_hex data) in
        List.iter2 (fun piece r ->
          received := !received + List.length piece;
          if String.length r >= 3 && String.sub r 0 3 = "IP:" then add emitted (String.sub r 3 (String.length r - 3))
          else if String.length r >= 2 && String.sub r 0 2 = "C:" then begin
            (match String.split_on_char ':' r with
             | [_; resp; rem] -> add emitted resp; add remaining rem
             | _ -> ());
            if !completed_at < 0 then completed_at := !received
          end
          else if String.length r >= 4 && String.sub r 0 4 = "ERR:" then begin
            (* after completion further input belongs to the application (API contract); count it as handed back *)
            if !completed_at >= 0 && r = "ERR:AlreadyCompleted" then add remaining (let h = hex_of_bytes piece in if h = "-" then "" else h)
            else incr errors
          end) pieces (split_on " / " ro)
      | _ -> ()) ops ros with Invalid_argument _ -> incr errors);
    (match e with
     | [kind; exp_emitted; exp_remaining; peer_len] ->
       let exp_emitted = if exp_emitted = "-" then "" else exp_emitted and exp_remaining = if exp_remaining = "-" then "" else exp_remaining in
       let peer_len = int_of_string peer_len in
       let base = [
         "C05.emits_version_and_two_packets", Buffer.contents emitted = exp_emitted && String.length exp_emitted = 2 * 3073;
         "C05.no_error", !errors = 0;
         "C05.completes_only_after_full_peer_handshake", !completed_at >= peer_len;
         "C05.trailing_bytes_intact", Buffer.contents remaining = exp_remaining ] in
       (* the expectation for the emitted bytes includes the reference digest / signature: C11 *)
       if kind = "full" then ("C11.packets_match_reference_digest_and_signature", Buffer.contents emitted = exp_emitted) :: base else base
     | _ -> ["C05.expectation_shape", false])
  | _ -> []
