(* judge component "time": model observation for a case *)
open Conv
let ocmp = function None -> "N" | Some c -> cmp_letter c
let run (toks : string list) : string =
  match toks with
  | [op; a; b] ->
    let a = n_of_dec a and b = n_of_dec b in
    (match op with
     | "add" -> let r = dec_of_n (Time.add_values a b) in r ^ " " ^ r
     | "sub" -> let r = dec_of_n (Time.sub_values a b) in r ^ " " ^ r
     | "set" -> dec_of_n b
     | "cmp" ->
       let c = Time.ts_cmp a b in
       let lt x = (x = Some Datatypes.Lt) and gt x = (x = Some Datatypes.Gt) in
       String.concat " " [
         cmp_letter c; ocmp (Time.ts_partial_cmp a b); ocmp (Time.ts_partial_cmp_u32 a b);
         ocmp (Time.u32_partial_cmp_ts a b);
         b01 (Time.ts_eq a b); b01 (Time.ts_eq_u32 a b); b01 (Time.u32_eq_ts a b);
         b01 (lt (Time.ts_partial_cmp a b)); b01 (gt (Time.ts_partial_cmp a b));
         b01 (lt (Time.ts_partial_cmp_u32 a b)); b01 (lt (Time.u32_partial_cmp_ts a b)) ]
     | _ -> "JUDGE-BAD-OP")
  | _ -> "JUDGE-BAD-CASE"

(* property oracle C20 on the REAL observation (independent of the model: plain OCaml arithmetic) *)
let oracle (toks : string list) (obs : string) : (string * bool) list =
  match toks with
  | [op; a; b] ->
    let a = int_of_string a and b = int_of_string b in
    let m = 1 lsl 32 in
    let o = String.split_on_char ' ' obs in
    (match op, o with
     | "add", [r1; r2] -> let e = (a + b) mod m in ["C20.add_exact", int_of_string r1 = e && int_of_string r2 = e]
     | "sub", [r1; r2] -> let e = ((a - b) mod m + m) mod m in ["C20.sub_exact", int_of_string r1 = e && int_of_string r2 = e]
     | "cmp", c :: rest ->
       let d = ((b - a) mod m + m) mod m in
       let expect =
         if d = 0 then Some "E" else if d < (1 lsl 31) then Some "L" else if d > (1 lsl 31) then Some "G" else None in
       let ok_order = (match expect with Some e -> c = e | None -> c = "L" || c = "G") in
       let all_same = (match rest with p1 :: p2 :: p3 :: _ -> p1 = c && p2 = c && p3 = c | _ -> false) in
       let eqs = (match rest with _ :: _ :: _ :: e1 :: e2 :: e3 :: _ -> let e = b01 (a = b) in e1 = e && e2 = e && e3 = e | _ -> false) in
       (* the < and > operators (timestamp/timestamp, timestamp/u32, u32/timestamp) say what cmp says *)
       let ops = (match rest with _ :: _ :: _ :: _ :: _ :: _ :: lt1 :: gt1 :: lt2 :: lt3 :: _ ->
                    lt1 = b01 (c = "L") && gt1 = b01 (c = "G") && lt2 = b01 (c = "L") && lt3 = b01 (c = "L") | _ -> false) in
       ["C20.order", ok_order; "C20.impls_agree", all_same; "C20.eq", eqs; "C20.operators_agree_with_cmp", ops]
     | _ -> [])
  | _ -> []
