(* judge component "server": model ServerSession vs the real one *)
open Conv
open Server
open J_session

let show_md (m : SessionCommon.metadata) : string =
  let o = function None -> "-" | Some n -> dec_of_n n in
  Printf.sprintf "w=%s,h=%s,vc=%s,fr=%s,vb=%s,ac=%s,ab=%s,asr=%s,ach=%s,st=%s,enc=%s"
    (o m.SessionCommon.md_width) (o m.SessionCommon.md_height) (o m.SessionCommon.md_vcodec)
    (match m.SessionCommon.md_framerate with None -> "-" | Some b ->
       let v = int_of_n b in if (v land 0x7F800000) = 0x7F800000 && (v land 0x7FFFFF) <> 0 then "nan" else Printf.sprintf "%08x" v)
    (o m.SessionCommon.md_vbitrate) (o m.SessionCommon.md_acodec) (o m.SessionCommon.md_abitrate)
    (o m.SessionCommon.md_asamplerate) (o m.SessionCommon.md_achannels)
    (match m.SessionCommon.md_stereo with None -> "-" | Some true -> "T" | Some false -> "F")
    (match m.SessionCommon.md_encoder with None -> "-" | Some s -> hex_of_bytes s)

let parse_md (s : string) : SessionCommon.metadata =
  let get k = List.assoc k (List.map (fun kv -> match String.index_opt kv '=' with
      | Some i -> (String.sub kv 0 i, String.sub kv (i + 1) (String.length kv - i - 1)) | None -> (kv, "-")) (String.split_on_char ',' s)) in
  let num k = let v = get k in if v = "-" then None else Some (n_of_dec v) in
  { SessionCommon.md_width = num "w"; md_height = num "h"; md_vcodec = num "vc";
    md_framerate = (let v = get "fr" in if v = "-" then None else Some (n_of_hex v));
    md_vbitrate = num "vb"; md_acodec = num "ac"; md_abitrate = num "ab"; md_asamplerate = num "asr"; md_achannels = num "ach";
    md_stereo = (match get "st" with "-" -> None | "T" -> Some true | _ -> Some false);
    md_encoder = (let v = get "enc" in if v = "-" then None else Some (bytes_of_hex v)) }

let show_mode = function PLive -> "live" | PRecord -> "record" | PAppend -> "append"

let show_event (e : sevent) : string =
  let h = hex_of_bytes in
  match e with
  | EvConnectionRequested (id, app) -> Printf.sprintf "E:ConnReq:%s:%s" (dec_of_n id) (h app)
  | EvPublishRequested (id, app, key, m) -> Printf.sprintf "E:PubReq:%s:%s:%s:%s" (dec_of_n id) (h app) (h key) (show_mode m)
  | EvPublishFinished (app, key) -> Printf.sprintf "E:PubFin:%s:%s" (h app) (h key)
  | EvMetadata (app, key, md) -> Printf.sprintf "E:Meta:%s:%s:%s" (h app) (h key) (show_md md)
  | EvAudio (app, key, d, ts) -> Printf.sprintf "E:Audio:%s:%s:%s:%d:%08x" (h app) (h key) (dec_of_n ts) (List.length d) (fnv32_n d)
  | EvVideo (app, key, d, ts) -> Printf.sprintf "E:Video:%s:%s:%s:%d:%08x" (h app) (h key) (dec_of_n ts) (List.length d) (fnv32_n d)
  | EvUnhandleableCommand (name, tr, obj, args) ->
    Printf.sprintf "E:UnhCmd:%s:N%s:%s:%s" (h name) (hex_of_n 16 tr) (J_amf0.show_value true obj) (J_amf0.show_values true args)
  | EvPlayRequested (id, app, key, start, dur, reset, sid) ->
    Printf.sprintf "E:PlayReq:%s:%s:%s:%s:%s:%s:%s" (dec_of_n id) (h app) (h key)
      (match start with LiveOrRecorded -> "LiveOrRecorded" | LiveOnly -> "LiveOnly" | StartTime n -> "StartTimeInSeconds(" ^ dec_of_n n ^ ")")
      (match dur with None -> "-" | Some n -> dec_of_n n) (if reset then "T" else "F") (dec_of_n sid)
  | EvPlayFinished (app, key) -> Printf.sprintf "E:PlayFin:%s:%s" (h app) (h key)
  | EvAcknowledgement n -> "E:Ack:" ^ dec_of_n n
  | EvPingResponse n -> "E:Pong:" ^ dec_of_n n

let show_wire (e : SessionCommon.wire_err) : string =
  match e with
  | SessionCommon.WChunkDe e -> "ERR:ChunkDe:" ^ J_chunk.show_de_err e
  | SessionCommon.WChunkSer e -> "ERR:ChunkSer:" ^ J_chunk.show_ser_err e
  | SessionCommon.WMsgSer e -> "ERR:MsgSer:" ^ String.map (fun c -> if c = ' ' then '_' else c) (J_msg.show_ser_err e)
  | SessionCommon.WMsgDe e -> "ERR:MsgDe:" ^ String.map (fun c -> if c = ' ' then '_' else c) (J_msg.show_de_err e)

let show_err (e : serr) : string =
  match e with
  | SWire w -> show_wire w
  | SInvalidRequestId -> "ERR:InvalidRequestId"
  | SNoAppName -> "ERR:NoAppName"
  | SInactiveStream n -> "ERR:InactiveStream:" ^ dec_of_n n

let res_of (r : sresult) : res =
  match r with
  | SPacket (b, d) -> Pkt (d, b)
  | SEvent e -> Other (show_event e)
  | SUnhandleable m -> Other ("U:" ^ J_chunk.show_msg m)

(* one reply as (results or error text) *)
let reply_results (r : reply) : res list =
  match r with
  | ROk rs -> List.map res_of rs
  | RErr e -> [Other (show_err e)]
  | RPanic -> [Other "PANIC"]

let show_results (rs : res list) : string =
  match rs with [] -> "." | _ -> String.concat " ; " (List.map show_res rs)

(* run the script on the model; returns per op: list of calls (an `in` op is several calls), each a res list *)
let run_model (ops : string list) : res list list list =
  let st = ref None in
  List.map (fun op ->
    let t = List.filter (fun s -> s <> "") (String.split_on_char ' ' op) in
    match t with
    | "cfg" :: fms :: chunk :: bw :: win :: bwdone :: clock :: _ ->
      let c = { cfg_fms = bytes_of_hex fms; cfg_chunk = n_of_dec chunk; cfg_bandwidth = n_of_dec bw; cfg_window = n_of_dec win; cfg_bwdone = (bwdone = "1") } in
      let s, r = server_new c (n_of_int (int_of_string clock land 0xFFFFFFFF)) in
      (match r with ROk _ -> st := Some s | _ -> st := None);
      [reply_results r]
    | _ ->
      (match !st with
       | None -> [[Other "NOSESSION"]]
       | Some s ->
         let clk x = n_of_int (int_of_string x land 0xFFFFFFFF) in
         let one (s', r) = st := Some s'; [reply_results r] in
         (match t with
          | ["in"; clock; part; h] ->
            let pieces = partition part (bytes_of_hex h) in
            List.map (fun piece ->
              let s = (match !st with Some s -> s | None -> s) in
              let s', r = server_handle_input s piece (clk clock) in
              st := Some s'; reply_results r) pieces
          | ["accept"; clock; id] -> one (server_accept s (n_of_dec id) (clk clock))
          | ["reject"; clock; id; code; desc] -> one (server_reject s (n_of_dec id) (bytes_of_hex code) (bytes_of_hex desc) (clk clock))
          | ["meta"; clock; sid; md] -> one (server_send_metadata s (n_of_dec sid) (parse_md md) (clk clock))
          | [("video" | "audio") as k; sid; ts; drop; pl] ->
            let data = bytes_of_ints (payload_ints_of_spec pl) in
            one ((if k = "video" then server_send_video else server_send_audio) s (n_of_dec sid) data (n_of_dec ts) (drop = "1"))
          | ["ping"; clock] ->
            let s', r = server_send_ping s (clk clock) in
            st := Some s';
            [reply_results r @ (match r with ROk _ -> [Other ("T:" ^ dec_of_n (clk clock))] | _ -> [])]
          | ["finish"; clock; sid] -> one (server_finish_playing s (n_of_dec sid) (clk clock))
          | _ -> [[Other "JUDGE-BAD-OP"]]))) ops

let parse_obs (obs : string) : res list list list =
  List.map (fun op -> List.map parse_results (split_on " / " op)) (split_on " | " obs)

let run (toks : string list) (obs : string) : string =
  let case = String.concat " " toks in
  let ops = split_on " | " case in
  let model = run_model ops in
  let impl = parse_obs obs in
  let pi = new_peer () and pm = new_peer () in
  let same =
    List.length model = List.length impl &&
    List.for_all2 (fun mo io -> List.length mo = List.length io && List.for_all2 (fun m i -> results_equiv pi pm i m) mo io) model impl in
  if same then obs
  else String.concat " | " (List.map (fun calls -> String.concat " / " (List.map show_results calls)) model)

(* --- oracles on the real observation ----------------------------------------------------------- *)
let impl_packets (obs : string) : (bool * BinNums.coq_N list) list =
  List.concat_map (fun op -> List.concat_map (fun call ->
      List.filter_map (function Pkt (d, b) -> Some (d, b) | _ -> None) call) op) (parse_obs obs)

let has_failed_call (obs : string) : bool =
  (* known finding K2: a call that returned an error after serializing a packet desynchronizes the stream *)
  List.exists (fun op -> List.exists (fun call -> List.exists (function Other s -> String.length s >= 4 && String.sub s 0 4 = "ERR:" | _ -> false) call) op) (parse_obs obs)

(* C09 trace oracles: statements of the property evaluated on the real event trace alone *)
let c09_oracles (ops : string list) (impl : res list list list) : (string * bool) list =
  let starts_with p s = String.length s >= String.length p && String.sub s 0 (String.length p) = p in
  let field s i = (try List.nth (String.split_on_char ':' s) i with _ -> "") in
  let next_id = ref 0 and ids_ok = ref true and seen_ids = ref [] in
  let failed_input = ref false and once_after_fail_ok = ref true in
  let conn_reqs = ref [] and pub_reqs = ref [] and play_reqs = ref [] in      (* outstanding ids by kind *)
  let connected = ref false and gate_ok = ref true in
  let consumed = ref [] and once_ok = ref true in
  let accepted_pub = Hashtbl.create 7 and finished_pub = Hashtbl.create 7 in  (* key -> count *)
  let accepted_play = Hashtbl.create 7 and finished_play = Hashtbl.create 7 in
  let count h k = (try Hashtbl.find h k with Not_found -> 0) in
  let bump h k = Hashtbl.replace h k (count h k + 1) in
  let fin_ok = ref true and media_ok = ref true in
  (try List.iter2 (fun op calls ->
    let t = List.filter (fun s -> s <> "") (String.split_on_char ' ' op) in
    let all = List.concat calls in
    let errored = List.exists (function Other s -> starts_with "ERR:" s | _ -> false) all in
    (match t with
     | ("accept" | "reject") :: _ :: id :: _ ->
       let id = int_of_string id in
       let outstanding = List.mem id !conn_reqs || List.mem_assoc id !pub_reqs || List.mem_assoc id !play_reqs in
       if not outstanding || List.mem id !consumed then begin
         (* never surfaced, or already accepted / rejected: must be refused.  After a handle_input call that returned an error the
            session may hold requests whose events were dropped with that error (known finding K3): attributed to its own oracle *)
         if not (List.exists (function Other s -> s = "ERR:InvalidRequestId" | _ -> false) all) then
           (if !failed_input then once_after_fail_ok := false else once_ok := false)
       end else begin
         consumed := id :: !consumed;
         if List.exists (function Other s -> s = "ERR:InvalidRequestId" | _ -> false) all then once_ok := false;
         if List.hd t = "accept" && not errored then begin
           if List.mem id !conn_reqs then connected := true;
           (match List.assoc_opt id !pub_reqs with Some key -> bump accepted_pub key | None -> ());
           (match List.assoc_opt id !play_reqs with Some key -> bump accepted_play key | None -> ())
         end
       end
     | "in" :: _ -> if errored then failed_input := true
     | _ -> ());
    (* a surfaced request id is fresh: never surfaced before (ids need not be consecutive: a request whose event was dropped with a
       failing call still consumed its id) *)
    let fresh s = (let id = int_of_string (field s 2) in
                   if List.mem id !seen_ids || (not !failed_input && id <> !next_id) then ids_ok := false;
                   seen_ids := id :: !seen_ids; next_id := id + 1; id) in
    List.iter (function
      | Other s when starts_with "E:ConnReq:" s ->
        let id = fresh s in conn_reqs := id :: !conn_reqs
      | Other s when starts_with "E:PubReq:" s ->
        let id = fresh s in
        if not !connected then gate_ok := false;
        pub_reqs := (id, field s 4) :: !pub_reqs
      | Other s when starts_with "E:PlayReq:" s ->
        let id = fresh s in
        if not !connected then gate_ok := false;
        play_reqs := (id, field s 4) :: !play_reqs
      | Other s when starts_with "E:PubFin:" s ->
        let key = field s 3 in bump finished_pub key; if count finished_pub key > count accepted_pub key then fin_ok := false
      | Other s when starts_with "E:PlayFin:" s ->
        let key = field s 3 in bump finished_play key; if count finished_play key > count accepted_play key then fin_ok := false
      | Other s when starts_with "E:Audio:" s || starts_with "E:Video:" s || starts_with "E:Meta:" s ->
        let key = field s 3 in if count accepted_pub key = 0 then media_ok := false
      | _ -> ()) all) ops impl
  with Invalid_argument _ -> ());
  if List.exists (fun calls -> List.exists (List.exists (function Other "NOSESSION" -> true | _ -> false)) calls) impl then [] else
  [ "C09.request_ids_fresh", !ids_ok; "C09.requests_only_when_connected", !gate_ok; "C09.accept_reject_once", !once_ok;
    "C09.unsurfaced_id_refused_after_failed_input", !once_after_fail_ok;
    "C09.finished_not_more_than_accepted", !fin_ok; "C09.media_only_for_accepted_publish", !media_ok ]

let oracle (toks : string list) (obs : string) : (string * bool) list =
  let pk = impl_packets obs in
  let case = String.concat " " toks in
  let ops = split_on " | " case in
  (* droppable only where the application asked for it *)
  let asked_drop = List.fold_left (fun n op ->
      match List.filter (fun s -> s <> "") (String.split_on_char ' ' op) with
      | ("video" | "audio") :: _ :: _ :: "1" :: _ -> n + 1 | _ -> n) 0 ops in
  let marked = List.length (List.filter fst pk) in
  let checks = [ "C18.droppable_only_when_asked", marked <= asked_drop ] in
  let checks = (match stamp_oracle ops (parse_obs obs) (Some 1) with Some b -> ("C18.messages_carry_expected_timestamp_and_stream", b) :: checks | None -> checks) in
  let checks = (match ack_oracle ops (parse_obs obs) with Some b -> ("C17.ack_exactly_when_due", b) :: checks | None -> checks) in
  let checks = c09_oracles ops (parse_obs obs) @ checks in
  (* the events the property determines (requests, finished events, media and metadata): the reference is the model, for which the
     gates, fresh ids, accept-once, the media gate and "the FIRST argument of closeStream/deleteStream names the stream; exactly the
     matching finished event" are theorems (Props/C09.v); compared call by call, in order *)
  let relevant = function
    | Other s -> List.exists (fun p -> String.length s >= String.length p && String.sub s 0 (String.length p) = p)
                   ["E:ConnReq:"; "E:PubReq:"; "E:PlayReq:"; "E:PubFin:"; "E:PlayFin:"; "E:Audio:"; "E:Video:"; "E:Meta:"]
    | _ -> false in
  let events_of (r : res list list list) = List.map (fun calls -> List.map (List.filter relevant) calls) r in
  let impl_r = parse_obs obs in
  let nosession = List.exists (fun calls -> List.exists (List.exists (function Other "NOSESSION" -> true | _ -> false)) calls) impl_r in
  let checks = if nosession then checks else
      ("C09.events_as_the_state_machine_prescribes", (try events_of (run_model ops) = events_of impl_r with _ -> true)) :: checks in
  if has_failed_call obs then
    (* histories in which a public call returned an error: the class of known finding K2 (a call that fails after it
       serialized a packet loses the packet but keeps the serializer state) *)
    checks @ [ "C18.decodable_despite_failed_call", decodable pk (fun _ _ -> true) ]
  else
    checks @ [ "C19.session_of_accepted_config_is_decodable", decodable pk (fun _ _ -> true);
               "C18.decodable", decodable pk (fun _ _ -> true);
               "C18.decodable_all_droppable_removed", decodable pk (fun _ d -> not d);
               "C18.decodable_alternate_droppable_removed", decodable pk (fun i d -> not d || i mod 2 = 0) ]
