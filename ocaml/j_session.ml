(* shared by the server and client judges: packet comparison modulo AMF0 object order, C18 oracles *)
open Conv

(* a running independent spec decoder over a packet stream *)
type peer = { mutable st : ChunkSpec.sdec_state; mutable ok : bool }
let new_peer () = { st = ChunkSpec.sdec_init; ok = true }

let nat_of_int (n : int) : Datatypes.nat =
  let rec go k acc = if k = 0 then acc else go (k - 1) (Datatypes.S acc) in go n Datatypes.O

(* decode one packet: Some messages | None (not a well-formed continuation of the stream) *)
let peer_feed (p : peer) (bytes : BinNums.coq_N list) : Chunk.msg list option =
  if not p.ok then None else begin
    let st', r = ChunkSpec.sdec_bytes (Datatypes.S (nat_of_int (List.length bytes))) p.st bytes [] in
    match r with
    | ChunkSpec.SOk ms -> p.st <- st'; Some ms
    | _ -> p.ok <- false; None
  end

(* canonical text of a decoded message: header + body decoded by the model's message codec (objects sorted) *)
let canon_msg (m : Chunk.msg) : string =
  let body = (match Messages.of_payload m.Chunk.m_tid m.Chunk.m_data with
      | Base.Ok mm -> J_msg.show_message true mm
      | _ -> "RAW " ^ hex_of_bytes m.Chunk.m_data) in
  Printf.sprintf "%s:%s:%s:%s" (dec_of_n m.Chunk.m_ts) (dec_of_n m.Chunk.m_tid) (dec_of_n m.Chunk.m_sid) body

let well_formed_msg (m : Chunk.msg) : bool =
  match Messages.of_payload m.Chunk.m_tid m.Chunk.m_data with Base.Ok _ -> true | _ -> false

(* a result of a call, either side *)
type res = Pkt of bool * BinNums.coq_N list | Other of string

let parse_res (s : string) : res =
  if String.length s >= 3 && s.[0] = 'P' && (s.[1] = '0' || s.[1] = '1') && s.[2] = '=' then
    Pkt (s.[1] = '1', bytes_of_hex (String.sub s 3 (String.length s - 3)))
  else Other s

let show_res = function
  | Pkt (d, b) -> Printf.sprintf "P%d=%s" (if d then 1 else 0) (hex_of_bytes b)
  | Other s -> s

(* split "a ; b ; c" *)
let split_on (sep : string) (s : string) : string list =
  let n = String.length s and k = String.length sep in
  let parts = ref [] and start = ref 0 and i = ref 0 in
  while !i <= n - k do
    if String.sub s !i k = sep then begin parts := String.sub s !start (!i - !start) :: !parts; i := !i + k; start := !i end
    else incr i
  done;
  parts := String.sub s !start (n - !start) :: !parts;
  List.rev !parts

let parse_results (s : string) : res list =
  if s = "." then [] else List.map parse_res (split_on " ; " s)

(* compare the implementation's and the model's result lists; packets modulo AMF0 object order *)
let results_equiv (pi : peer) (pm : peer) (impl : res list) (model : res list) : bool =
  List.length impl = List.length model &&
  List.for_all2 (fun a b ->
    match a, b with
    | Other x, Other y -> x = y
    | Pkt (d1, b1), Pkt (d2, b2) ->
      if b1 = b2 then begin ignore (peer_feed pi b1); ignore (peer_feed pm b2); d1 = d2 end
      else
        d1 = d2 && List.length b1 = List.length b2 &&
        (match peer_feed pi b1, peer_feed pm b2 with
         | Some m1, Some m2 -> List.map canon_msg m1 = List.map canon_msg m2
         | None, None ->
           (* both outbound streams are already undecodable for a peer (a call failed after serializing a packet,
              known finding K2): compare as byte multisets with equal first byte (AMF0 property order only) *)
           List.hd b1 = List.hd b2 && List.sort compare (List.map int_of_n b1) = List.sort compare (List.map int_of_n b2)
         | _ -> false)
    | _ -> false) impl model

(* C18 on the real packets of a whole script: the stream, with droppable subsets removed, decodes into
   well-formed messages, one per packet *)
let decodable (packets : (bool * BinNums.coq_N list) list) (keep : int -> bool -> bool) : bool =
  let p = new_peer () in
  let idx = ref 0 in
  List.for_all (fun (d, b) ->
    let k = keep !idx d in incr idx;
    if not k then true
    else match peer_feed p b with
      | Some [m] -> well_formed_msg m
      | _ -> false) packets

(* ---------------------------------------------------------------- C17 oracle (independent of the session models)
   Recomputes from the script alone - call sizes, and the calls in which a Window Acknowledgement Size message
   of the peer completes (found with the spec decoder) - in which calls an Acknowledgement is due and with which
   value, and compares with the packets the real session returned. *)
type inbound = { mutable ist : ChunkSpec.sdec_state; mutable buf : BinNums.coq_N list; mutable broken : bool }

let inbound_feed (p : inbound) (piece : BinNums.coq_N list) : Chunk.msg list =
  p.buf <- p.buf @ piece;
  let out = ref [] in
  let continue = ref (not p.broken) in
  while !continue do
    match p.buf with
    | [] -> continue := false
    | _ ->
      (match ChunkSpec.parse_chunk p.ist p.buf with
       | ChunkSpec.PNeedMore -> continue := false
       | ChunkSpec.PBad -> p.broken <- true; continue := false
       | ChunkSpec.PChunk (c, rest) ->
         (match ChunkSpec.dec_chunk p.ist c with
          | None -> p.broken <- true; continue := false
          | Some (st1, None) -> p.ist <- st1; p.buf <- rest
          | Some (st1, Some m) ->
            out := m :: !out; p.buf <- rest;
            (match ChunkSpec.apply_control st1 m with
             | Some st2 -> p.ist <- st2
             | None -> p.ist <- st1; p.broken <- true; continue := false)))
  done;
  List.rev !out

let be32_of (l : BinNums.coq_N list) : int option =
  match l with a :: b :: c :: d :: _ -> Some ((int_of_n a lsl 24) lor (int_of_n b lsl 16) lor (int_of_n c lsl 8) lor int_of_n d) | _ -> None

(* ops: the script; impl: per op, per call, the real results. Returns None when the script is outside the
   oracle's domain (a call failed, or the peer stream is not a clean chunk stream) *)
let ack_oracle (ops : string list) (impl : res list list list) : bool option =
  let pin = { ist = ChunkSpec.sdec_init; buf = []; broken = false } in
  let pout = new_peer () in
  let window = ref None and since = ref 0 in
  let ok = ref true and in_domain = ref true in
  (try
    List.iter2 (fun op calls ->
      let t = List.filter (fun s -> s <> "") (String.split_on_char ' ' op) in
      match t with
      | ["in"; _; part; h] ->
        let pieces = partition part (bytes_of_hex h) in
        if List.length pieces <> List.length calls then in_domain := false
        else List.iter2 (fun piece results ->
          if List.exists (function Other s -> String.length s >= 4 && String.sub s 0 4 = "ERR:" | _ -> false) results then in_domain := false;
          let expected = (match !window with
              | None -> None
              | Some w ->
                since := min (!since + List.length piece) 0xFFFFFFFF;
                if !since >= w then begin let v = !since in since := 0; Some v end else None) in
          (* which of the returned packets are acknowledgements *)
          let acks = List.filter_map (function
              | Pkt (_, b) -> (match peer_feed pout b with
                  | Some [m] when int_of_n m.Chunk.m_tid = 3 -> be32_of m.Chunk.m_data
                  | Some _ -> None
                  | None -> in_domain := false; None)
              | Other _ -> None) results in
          let first_is_ack = (match results with Pkt (_, _) :: _ -> (match acks with _ :: _ -> true | [] -> false) | _ -> false) in
          (match expected, acks with
           | None, [] -> ()
           | Some v, [a] -> if a <> v || not first_is_ack then ok := false
           | _ -> ok := false);
          List.iter (fun m -> if int_of_n m.Chunk.m_tid = 5 then (match be32_of m.Chunk.m_data with Some w -> window := Some w | None -> ()))
            (inbound_feed pin piece);
          if pin.broken then in_domain := false) pieces calls
      | _ ->
        (* application calls: their packets advance the outbound decoder *)
        List.iter (fun results -> List.iter (function Pkt (_, b) -> ignore (peer_feed pout b) | Other s ->
            if String.length s >= 4 && String.sub s 0 4 = "ERR:" then in_domain := false) results) calls) ops impl
  with Invalid_argument _ -> in_domain := false);
  if !in_domain then Some !ok else None

(* ---------------------------------------------------------------- C18: messages on the expected streams / timestamps
   A conformant peer decoding the returned packets IN THE ORDER RETURNED must see, for every call that takes the
   session clock, messages stamped with that clock reading (SetChunkSize announcements are stamped 0, media calls
   carry the caller's timestamp) and, for media calls, the caller's stream id. *)
let stamp_oracle (ops : string list) (impl : res list list list) (media_sid_field : int option) : bool option =
  let peer = new_peer () in
  let ok = ref true and in_domain = ref true in
  (try List.iter2 (fun op calls ->
    let t = List.filter (fun s -> s <> "") (String.split_on_char ' ' op) in
    let clock = (match t with
        | ("in" | "accept" | "reject" | "meta" | "ping" | "finish" | "connect" | "play" | "publish" | "stopplay" | "stoppub") :: c :: _ -> Some (int_of_string c land 0xFFFFFFFF)
        | "cfg" :: _ -> (match List.rev t with c :: _ when List.length t = 7 -> Some (int_of_string c land 0xFFFFFFFF) | _ -> None)
        | _ -> None) in
    List.iter (fun results ->
      List.iter (function
        | Other s -> if String.length s >= 4 && String.sub s 0 4 = "ERR:" then in_domain := false
        | Pkt (_, b) ->
          (match peer_feed peer b with
           | Some [m] ->
             let ts = int_of_n m.Chunk.m_ts and tid = int_of_n m.Chunk.m_tid in
             (match t with
              | ("video" | "audio") :: rest ->
                (match media_sid_field, rest with
                 | Some _, sid :: mts :: _ -> if ts <> int_of_string mts || int_of_n m.Chunk.m_sid <> int_of_string sid then ok := false
                 | None, mts :: _ -> if ts <> int_of_string mts then ok := false
                 | _ -> ())
              | _ ->
                (match clock with
                 | Some c -> if tid = 1 then (if ts <> 0 then ok := false) else if ts <> c then ok := false
                 | None -> ()))
           | _ -> in_domain := false)) results) calls) ops impl
  with Invalid_argument _ -> in_domain := false);
  if !in_domain then Some !ok else None
