(* shared by the server and client judges: packet comparison modulo AMF0 object order, C18 oracles *)
open Conv

(* a running independent spec decoder over a packet stream *)
type peer = { mutable st : ChunkSpec.sdec_state; mutable ok : bool }
let new_peer () = { st = ChunkSpec.sdec_init; ok = true }

let nat_of_int (n : int) : Datatypes.nat =
  let rec go k acc = if k = 0 then acc else go (k - 1) (Datatypes.S acc) in go n Datatypes.O

(* decode one packet: Some messages | None (not a well-formed continuation of the stream) *)
let peer_feed (p : peer) (bytes : BinNums.coq_N list) : Chunk.msg list option =
  if not p.ok then None else begin
    let st', r = ChunkSpec.sdec_bytes (Datatypes.S (nat_of_int (List.length bytes))) p.st bytes [] in
    match r with
    | ChunkSpec.SOk ms -> p.st <- st'; Some ms
    | _ -> p.ok <- false; None
  end

(* canonical text of a decoded message: header + body decoded by the model's message codec (objects sorted) *)
let canon_msg (m : Chunk.msg) : string =
  let body = (match Messages.of_payload m.Chunk.m_tid m.Chunk.m_data with
      | Base.Ok mm -> J_msg.show_message true mm
      | _ -> "RAW " ^ hex_of_bytes m.Chunk.m_data) in
  Printf.sprintf "%s:%s:%s:%s" (dec_of_n m.Chunk.m_ts) (dec_of_n m.Chunk.m_tid) (dec_of_n m.Chunk.m_sid) body

let well_formed_msg (m : Chunk.msg) : bool =
  match Messages.of_payload m.Chunk.m_tid m.Chunk.m_data with Base.Ok _ -> true | _ -> false

(* a result of a call, either side *)
type res = Pkt of bool * BinNums.coq_N list | Other of string

let parse_res (s : string) : res =
  if String.length s >= 3 && s.[0] = 'P' && (s.[1] = '0' || s.[1] = '1') && s.[2] = '=' then
    Pkt (s.[1] = '1', bytes_of_hex (String.sub s 3 (String.length s - 3)))
  else Other s

let show_res = function
  | Pkt (d, b) -> Printf.sprintf "P%d=%s" (if d then 1 else 0) (hex_of_bytes b)
  | Other s -> s

(* split "a ; b ; c" *)
let split_on (sep : string) (s : string) : string list =
  let n = String.length s and k = String.length sep in
  let parts = ref [] and start = ref 0 and i = ref 0 in
  while !i <= n - k do
    if String.sub s !i k = sep then begin parts := String.sub s !start (!i - !start) :: !parts; i := !i + k; start := !i end
    else incr i
  done;
  parts := String.sub s !start (n - !start) :: !parts;
  List.rev !parts

let parse_results (s : string) : res list =
  if s = "." then [] else List.map parse_res (split_on " ; " s)

(* compare the implementation's and the model's result lists; packets modulo AMF0 object order *)
let results_equiv (pi : peer) (pm : peer) (impl : res list) (model : res list) : bool =
  List.length impl = List.length model &&
  List.for_all2 (fun a b ->
    match a, b with
    | Other x, Other y -> x = y
    | Pkt (d1, b1), Pkt (d2, b2) ->
      if b1 = b2 then begin ignore (peer_feed pi b1); ignore (peer_feed pm b2); d1 = d2 end
      else
        d1 = d2 && List.length b1 = List.length b2 &&
        (match peer_feed pi b1, peer_feed pm b2 with
         | Some m1, Some m2 -> List.map canon_msg m1 = List.map canon_msg m2
         | _ -> false)
    | _ -> false) impl model

(* C18 on the real packets of a whole script: the stream, with droppable subsets removed, decodes into
   well-formed messages, one per packet *)
let decodable (packets : (bool * BinNums.coq_N list) list) (keep : int -> bool -> bool) : bool =
  let p = new_peer () in
  let idx = ref 0 in
  List.for_all (fun (d, b) ->
    let k = keep !idx d in incr idx;
    if not k then true
    else match peer_feed p b with
      | Some [m] -> well_formed_msg m
      | _ -> false) packets
