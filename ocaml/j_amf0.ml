(* judge component "amf0" *)
open Conv
open Amf0

let rec parse_value (toks : string list) : value * string list =
  match toks with
  | [] -> failwith "amf0 value: eof"
  | tok :: rest ->
    let h = tok.[0] and body = String.sub tok 1 (String.length tok - 1) in
    (match h with
     | 'N' -> VNumber (n_of_hex body), rest
     | 'T' -> VBoolean true, rest
     | 'F' -> VBoolean false, rest
     | 'S' -> VString (bytes_of_hex body), rest
     | 'Z' -> VNull, rest
     | 'U' -> VUndefined, rest
     | 'A' ->
       let n = int_of_string body in
       let rec go k acc r = if k = 0 then List.rev acc, r else let v, r' = parse_value r in go (k - 1) (v :: acc) r' in
       let vs, r = go n [] rest in VStrictArray vs, r
     | 'O' ->
       let n = int_of_string body in
       let rec go k acc r =
         if k = 0 then List.rev acc, r
         else match r with
           | name :: r1 -> let v, r2 = parse_value r1 in go (k - 1) ((bytes_of_hex name, v) :: acc) r2
           | [] -> failwith "amf0 object: eof" in
       let ps, r = go n [] rest in VObject ps, r
     | _ -> failwith "amf0 value: bad token")

let parse_values (toks : string list) : value list * string list =
  match toks with
  | n :: rest ->
    let n = int_of_string n in
    let rec go k acc r = if k = 0 then List.rev acc, r else let v, r' = parse_value r in go (k - 1) (v :: acc) r' in
    go n [] rest
  | [] -> failwith "amf0 values: eof"

let rec show_value (sorted : bool) (v : value) : string =
  match v with
  | VNumber b -> "N" ^ hex_of_n 16 b
  | VBoolean true -> "T"
  | VBoolean false -> "F"
  | VString s -> "S" ^ hex_of_bytes s
  | VNull -> "Z"
  | VUndefined -> "U"
  | VStrictArray vs -> String.concat " " (("A" ^ string_of_int (List.length vs)) :: List.map (show_value sorted) vs)
  | VObject ps ->
    let items = List.map (fun (k, x) -> (hex_of_bytes k, x)) ps in
    (* sort by key BYTES: hex strings of equal-length prefixes compare like bytes; "-" (empty) sorts first *)
    let items = if sorted then List.sort (fun (a, _) (b, _) -> compare (if a = "-" then "" else a) (if b = "-" then "" else b)) items else items in
    String.concat " " (("O" ^ string_of_int (List.length ps)) :: List.concat_map (fun (k, x) -> [k; show_value sorted x]) items)

let show_values sorted vs = String.concat " " (string_of_int (List.length vs) :: List.map (show_value sorted) vs)

let show_dec_err (e : dec_err) = match e with
  | UnknownMarker m -> "Unknown:" ^ dec_of_n m
  | UnexpectedEmptyObjectPropertyName -> "EmptyName"
  | UnexpectedEof -> "Eof"
  | BufferReadError -> "Read"
  | StringParseError -> "Utf8"

let show_enc_err (e : enc_err) = match e with NormalStringTooLong -> "TooLong" | EmptyObjectPropertyName -> "EmptyName"

let split_bar (s : string) : string list =
  (* split on " | " *)
  let parts = ref [] and cur = Buffer.create 64 in
  let n = String.length s in
  let i = ref 0 in
  while !i < n do
    if !i + 2 < n && s.[!i] = ' ' && s.[!i+1] = '|' && s.[!i+2] = ' ' then begin
      parts := Buffer.contents cur :: !parts; Buffer.clear cur; i := !i + 3 end
    else begin Buffer.add_char cur s.[!i]; incr i end
  done;
  parts := Buffer.contents cur :: !parts;
  List.rev !parts

let toks_of s = List.filter (fun x -> x <> "") (String.split_on_char ' ' s)

let model_dec bs : string =
  match deserialize bs with
  | Base.Ok vs -> "Ok " ^ show_values true vs
  | Base.Err e -> "Err " ^ show_dec_err e
  | Base.Panic _ -> "PANIC"
  | Base.OutOfFuel -> "OUT-OF-FUEL"


let run (toks : string list) (obs : string) : string =
  match toks with
  | "enc" :: rest ->
    let vs, _ = parse_values rest in
    (* the iteration order the implementation used is reported in the observation *)
    let ordered_txt = (match split_bar obs with o :: _ -> o | [] -> "") in
    let ordered, _ = (try parse_values (toks_of ordered_txt) with _ -> [], []) in
    if show_values true ordered <> show_values true vs then "MODEL: reported iteration order is not a permutation of the input"
    else begin
      match serialize ordered with
      | Base.Err e -> ordered_txt ^ " | Err " ^ show_enc_err e
      | Base.Ok bs ->
        let back = (match deserialize_rest bs with
          | Base.Ok (ws, r) -> Printf.sprintf "Ok %d %s" (List.length bs - List.length r) (show_values true ws)
          | Base.Err e -> "Err " ^ show_dec_err e
          | Base.Panic _ -> "PANIC" | Base.OutOfFuel -> "OUT-OF-FUEL") in
        ordered_txt ^ " | Ok " ^ hex_of_bytes bs ^ " | " ^ back
      | Base.Panic _ -> "PANIC" | Base.OutOfFuel -> "OUT-OF-FUEL"
    end
  | "dec" :: [h] -> model_dec (bytes_of_hex h)
  | "decx" :: h :: _ -> model_dec (bytes_of_hex h)
  | "decm" :: [h] ->
    (* allocation figures are measured on the real code only; echo them so that only the result is compared *)
    let tail = (match split_bar obs with [_; m] -> " | " ^ m | _ -> "") in
    model_dec (bytes_of_hex h) ^ tail
  | "deep" :: d :: _ -> "exit=0 Ok depth=" ^ d          (* Proofs/Amf0Total.v depth_unbounded: the model decodes every depth *)
  | "deepx" :: _ -> obs                                 (* extreme depths: the stack is not modelled; judged by the oracle only *)
  | "flat" :: _ -> obs                                  (* long flat runs: stack use is not modelled; judged by the oracle only *)
  | "dect" :: k :: h :: _ ->
    let k = int_of_string k in
    model_dec (List.filteri (fun i _ -> i < k) (bytes_of_hex h))
  | _ -> "JUDGE-BAD-CASE"

(* structural prefix: arrays may end early at end of input, nothing else may *)
let rec prefix_values (ws : value list) (vs : value list) : bool =
  match ws, vs with
  | [], _ -> true
  | [w], v :: _ -> prefix_value w v
  | w :: ws', v :: vs' -> show_value true w = show_value true v && prefix_values ws' vs'
  | _ :: _, [] -> false
and prefix_value (w : value) (v : value) : bool =
  match w, v with
  | VStrictArray ws, VStrictArray vs -> prefix_values ws vs
  | _, _ -> show_value true w = show_value true v

(* --- property oracles on the REAL observation ------------------------------------------------ *)
let rec has_unencodable (v : value) : bool =
  match v with
  | VString s -> List.length s > 65535
  | VObject ps -> List.exists (fun (k, x) -> List.length k > 65535 || k = [] || has_unencodable x) ps
  | VStrictArray vs -> List.exists has_unencodable vs
  | _ -> false

let oracle (toks : string list) (obs : string) : (string * bool) list =
  match toks with
  | "enc" :: rest ->
    let vs, _ = parse_values rest in
    let canon = show_values true vs in
    (match split_bar obs with
     | [ordered_txt; r] when String.length r >= 3 && String.sub r 0 3 = "Err" ->
       (* an error is allowed only for what AMF0 cannot express *)
       ["C04.error_only_when_inexpressible", List.exists has_unencodable vs;
        "C19.amf0_refused", List.exists has_unencodable vs]
     | [ordered_txt; okbytes; back] ->
       let hexb = (match toks_of okbytes with ["Ok"; h] -> h | _ -> "?") in
       let nbytes = if hexb = "-" then 0 else String.length hexb / 2 in
       let ordered, _ = (try parse_values (toks_of ordered_txt) with _ -> [], []) in
       let spec = Amf0Spec.ref_encode_all ordered in
       ["C04.roundtrip", back = Printf.sprintf "Ok %d %s" nbytes canon;
        "C12.decoder_reads_encoder_output", back = Printf.sprintf "Ok %d %s" nbytes canon;
        "C12.encode_is_spec", (match spec with Some b -> hex_of_bytes b = hexb | None -> false);
        "C19.amf0_refused", not (List.exists has_unencodable vs)]
     | _ -> ["C04.observation_shape", false])
  | "decx" :: h :: expected ->
    (* expected observation computed by the independent reference encoder of the generator *)
    ["C12.decode_reference", obs = String.concat " " expected]
  | "flat" :: _ ->
    (* a flat run needs no stack beyond a constant: the child must end normally (value or error), not abort *)
    let ok = String.length obs >= 6 && String.sub obs 0 6 = "exit=0" in
    ["C14.flat_input_constant_stack", ok; "C03.flat_input_constant_stack", ok]
  | ("deep" | "deepx") :: d :: _ ->
    ["C14.deep_nesting_no_abort", obs = "exit=0 Ok depth=" ^ d; "C03.deep_nesting_no_abort", (List.hd toks = "deepx") || obs = "exit=0 Ok depth=" ^ d]
  | "decm" :: [h] ->
    let len = if h = "-" then 0 else String.length h / 2 in
    (match split_bar obs with
     | [_; m] ->
       (try Scanf.sscanf m "peak=%d largest=%d" (fun peak largest ->
          ["C14.alloc_bounded", peak <= 256 * len + 131072 && largest <= 256 * len + 70000;
           "C03.alloc_bounded", peak <= 256 * len + 131072 && largest <= 256 * len + 70000])
        with _ -> ["C14.observation_shape", false])
     | _ -> ["C14.observation_shape", false])
  | "dect" :: _ :: _ :: full ->
    let vs, _ = parse_values full in
    let ok =
      if String.length obs >= 3 && String.sub obs 0 3 = "Err" then true
      else (match toks_of obs with
            | "Ok" :: r -> (try let ws, _ = parse_values r in prefix_values ws vs with _ -> false)
            | _ -> false) in
    ["C12.truncation_prefix", ok]
  | _ -> []
