(* judge component "chunk": model ChunkSer / ChunkDe, spec decoder oracle *)
open Conv

type op = OMsg of Chunk.msg * bool * bool | OSize of BinNums.coq_N * BinNums.coq_N

let parse_ops (toks : string list) : op list =
  List.map (fun tok ->
    match String.split_on_char ':' tok with
    | ["m"; ts; tid; sid; fl; pl] ->
      OMsg ({ Chunk.m_ts = n_of_dec ts; m_tid = n_of_dec tid; m_sid = n_of_dec sid;
              m_data = bytes_of_ints (payload_ints_of_spec pl) }, fl.[0] = '1', fl.[1] = '1')
    | ["c"; size; ts] -> OSize (n_of_dec size, n_of_dec ts)
    | _ -> failwith "chunk op") toks

let show_ser_err (e : ChunkSer.ser_err) = match e with
  | ChunkSer.MessageTooLong n -> "E:TooLong:" ^ dec_of_n n
  | ChunkSer.InvalidMaxChunkSize n -> "E:BadChunkSize:" ^ dec_of_n n
  | ChunkSer.SetChunkSizeMessageCreationFailure -> "E:SetChunkSizeMessage"

(* run the model serializer: per op Ok (bytes, droppable) | Error text *)
let model_ser (ops : op list) : (BinNums.coq_N list * bool, string) result list =
  let st = ref ChunkSer.ser_init in
  List.map (fun op ->
    let r, d = (match op with
      | OMsg (m, force, drop) -> ChunkSer.serialize !st m force drop, drop
      | OSize (n, ts) -> ChunkSer.set_max_chunk_size !st n ts, false) in
    match r with
    | Base.Ok (b, st') -> st := st'; Ok (b, d)
    | Base.Err e -> Error (show_ser_err e)
    | Base.Panic _ -> Error "PANIC"
    | Base.OutOfFuel -> Error "OUT-OF-FUEL") ops

let show_msg (m : Chunk.msg) : string =
  Printf.sprintf "M:%s:%s:%s:%d:%08x" (dec_of_n m.Chunk.m_ts) (dec_of_n m.Chunk.m_tid) (dec_of_n m.Chunk.m_sid)
    (List.length m.Chunk.m_data) (fnv32_n m.Chunk.m_data)

let show_de_err (e : ChunkDe.de_err) = match e with
  | ChunkDe.NoPreviousChunkOnStream c -> "E:NoPrev:" ^ dec_of_n c
  | ChunkDe.DeInvalidMaxChunkSize n -> "E:BadChunkSize:" ^ dec_of_n n
  | ChunkDe.InvalidMessageLength (c, l) -> "E:BadLen:" ^ dec_of_n c ^ ":" ^ dec_of_n l

(* the documented driving loop on the model deserializer *)
let model_drive (pieces : BinNums.coq_N list list) : string =
  let st = ref ChunkDe.de_init and out = ref [] and stop = ref false in
  List.iter (fun piece ->
    if not !stop then begin
      let input = ref piece and again = ref true in
      while !again && not !stop do
        let st', r = ChunkDe.get_next_message !st !input in
        st := st'; input := [];
        (match r with
         | ChunkDe.DErr e -> out := show_de_err e :: !out; stop := true
         | ChunkDe.DOutOfFuel -> out := "OUT-OF-FUEL" :: !out; stop := true
         | ChunkDe.DNone -> again := false
         | ChunkDe.DMsg m ->
           out := show_msg m :: !out;
           if int_of_n m.Chunk.m_tid = 1 then begin
             match m.Chunk.m_data with
             | a :: b :: c :: d :: _ ->
               let n = (int_of_n a lsl 24) lor (int_of_n b lsl 16) lor (int_of_n c lsl 8) lor int_of_n d in
               if n = 0 || n > 0x7fffffff then (out := "E:Driver" :: !out; stop := true)
               else (match ChunkDe.de_set_max_chunk_size !st (n_of_int n) with
                     | Base.Ok s -> st := s
                     | Base.Err e -> out := show_de_err e :: !out; stop := true
                     | _ -> out := "PANIC" :: !out; stop := true)
             | _ -> out := "E:Driver" :: !out; stop := true
           end)
      done
    end) pieces;
  match !out with [] -> "." | l -> String.concat " " (List.rev l)

let show_sdec (r : ChunkSpec.sdec_result) : string =
  let ms l = String.concat " " (List.map show_msg l) in
  match r with
  | ChunkSpec.SOk l -> (match l with [] -> "." | _ -> ms l)
  | ChunkSpec.STruncated l -> ms l ^ " E:Truncated"
  | ChunkSpec.SBad l -> ms l ^ " E:Bad"
  | ChunkSpec.SFuel -> "OUT-OF-FUEL"

let split_bar = J_amf0.split_bar
let toks_of = J_amf0.toks_of

(* expected messages of an op list (kept packets only), as text *)
let expected_msgs (ops : op list) (results : (BinNums.coq_N list * bool, string) result list) (mask : string) : string * string =
  let di = ref 0 and sent = Buffer.create 16 and out = ref [] in
  List.iter2 (fun op r ->
    match r with
    | Error _ -> Buffer.add_char sent 'e'
    | Ok (b, d) ->
      let dropped = d && (let k = !di in incr di; mask <> "-" && k < String.length mask && mask.[k] = '1') in
      if b = [] then Buffer.add_char sent '0'
      else if dropped then Buffer.add_char sent 'd'
      else begin
        Buffer.add_char sent 's';
        (match op with
         | OMsg (m, _, _) -> out := show_msg m :: !out
         | OSize (n, ts) -> out := show_msg { Chunk.m_ts = ts; m_tid = n_of_int 1; m_sid = n_of_int 0; m_data = Base.be32 n } :: !out)
      end) ops results;
  Buffer.contents sent, (match !out with [] -> "." | l -> String.concat " " (List.rev l))

(* payloads above 2 MB are not replayed on the list-based model (memory); the two size-limit cases of the thorough tier are
   decided by a length oracle on the real packet instead *)
let big_payload (toks : string list) : int option =
  List.fold_left (fun acc t ->
    match acc with Some _ -> acc | None ->
      (match String.rindex_opt t ':' with
       | Some k when k + 2 < String.length t && t.[k + 1] = 'r' ->
         (try Scanf.sscanf (String.sub t (k + 1) (String.length t - k - 1)) "r%d.%d" (fun n _ -> if n > 2000000 then Some n else None) with _ -> None)
       | _ -> None)) None toks

let run (toks : string list) (obs : string) : string =
  match toks with
  | _ when big_payload toks <> None -> obs
  | "ser" :: rest ->
    let ops = parse_ops rest in
    let rs = model_ser ops in
    (match rs with [] -> "." | _ ->
      String.concat " " (List.map (function
        | Ok (b, d) -> Printf.sprintf "P%d=%s" (if d then 1 else 0) (hex_of_bytes b)
        | Error e -> e) rs))
  | ("de" | "fde" | "ide") :: part :: stream :: _ ->
    model_drive (partition part (bytes_of_hex stream))
  | "rt" :: part :: mask :: rest ->
    let ops = parse_ops rest in
    let rs = model_ser ops in
    let di = ref 0 in
    let stream = List.concat (List.map (function
      | Error _ -> []
      | Ok (b, d) ->
        let dropped = d && (let k = !di in incr di; mask <> "-" && k < String.length mask && mask.[k] = '1') in
        if dropped then [] else b) rs) in
    let sent, _ = expected_msgs ops rs mask in
    sent ^ " | " ^ model_drive (partition part stream)
  | _ -> "JUDGE-BAD-CASE"

let impl_packets (obs : string) : (string * bool) list option =
  (* parse "P0=hex P1=hex E:..." ; None if an error entry is present *)
  try Some (List.map (fun t ->
      if String.length t >= 3 && t.[0] = 'P' && t.[2] = '=' then (String.sub t 3 (String.length t - 3), t.[1] = '1')
      else raise Exit) (toks_of obs))
  with Exit -> None

let oracle (toks : string list) (obs : string) : (string * bool) list =
  match toks with
  | _ when big_payload toks <> None ->
    (match big_payload toks with
     | Some n when n > 16777215 -> ["C19.message_size_limit_refused", obs = Printf.sprintf "E:TooLong:%d" (n land 0xFFFFFFFF)]
     | Some n ->
       (* one format-0 chunk (12 header bytes) and 1-byte continuation headers at the default chunk size 128 *)
       let expected = n + 12 + ((n + 127) / 128 - 1) in
       ["C19.message_size_limit_accepted", String.length obs = 3 + 2 * expected && String.sub obs 0 3 = "P0="]
     | None -> [])
  | "ser" :: rest ->
    let ops = parse_ops rest in
    (* C07: the independent spec decoder applied to the REAL serializer's bytes returns exactly the messages *)
    let entries = toks_of obs in
    let real = List.map (fun t ->
      if String.length t >= 3 && t.[0] = 'P' && t.[2] = '=' then Ok (bytes_of_hex (String.sub t 3 (String.length t - 3)), t.[1] = '1')
      else Error t) entries in
    if List.length real <> List.length ops then ["C07.observation_shape", obs = "."]
    else begin
      let _, expected = expected_msgs ops real "-" in
      let stream = List.concat (List.map (function Ok (b, _) -> b | Error _ -> []) real) in
      let nonempty = List.for_all (function Ok (b, _) -> b <> [] | Error _ -> true) real in
      let droppable_ok = List.for_all2 (fun op r -> match op, r with
          | OMsg (_, _, d), Ok (_, d') -> d = d' | OSize _, Ok (_, d') -> d' = false | _, Error _ -> true) ops real in
      let refused_ok = List.for_all2 (fun op r -> match op, r with
          | OMsg (m, _, _), Error _ -> List.length m.Chunk.m_data > 16777215
          | OMsg (m, _, _), Ok _ -> List.length m.Chunk.m_data <= 16777215
          | OSize (n, _), Error _ -> let n = int_of_n n in n = 0 || n > 2147483647
          | OSize (n, _), Ok _ -> let n = int_of_n n in n >= 1 && n <= 2147483647) ops real in
      ["C07.spec_decoder_reads_serializer_output", show_sdec (ChunkSpec.sdec stream) = expected;
       "C01.packet_nonempty", nonempty;
       "C18.droppable_flag", droppable_ok;
       "C19.refused_or_honoured", refused_ok]
    end
  | "rt" :: part :: mask :: rest ->
    let ops = parse_ops rest in
    (match split_bar obs with
     | [sent; decoded] ->
       (* reconstruct which packets were sent from the real run's own report *)
       let msgs = ref [] in
       let i = ref 0 in
       List.iter (fun op ->
         (if !i < String.length sent && sent.[!i] = 's' then
            match op with
            | OMsg (m, _, _) -> msgs := show_msg m :: !msgs
            | OSize (n, ts) -> msgs := show_msg { Chunk.m_ts = ts; m_tid = n_of_int 1; m_sid = n_of_int 0; m_data = Base.be32 n } :: !msgs);
         incr i) ops;
       let expected = (match !msgs with [] -> "." | l -> String.concat " " (List.rev l)) in
       let name = if mask = "-" then "C01.roundtrip" else "C08.drop_roundtrip" in
       (* C19: once a chunk size has been accepted, the codec must keep working with it (C01 holds for that value) *)
       let accepted_size = List.exists (function OSize (n, _) -> let n = int_of_n n in n >= 1 && n <= 2147483647 | _ -> false) ops in
       [name, decoded = expected; "C01.no_empty_packet", not (String.contains sent '0')]
       @ (if accepted_size && mask = "-" then ["C19.accepted_chunk_size_yields_working_codec", decoded = expected] else [])
     | _ -> ["C01.observation_shape", false])
  | "fde" :: _ :: stream :: "|" :: expected ->
    let exp = String.concat " " expected in
    (* foreign conformant stream (built by the generator's independent encoder): must decode to exactly these messages *)
    ["C06.foreign_stream", obs = exp;
     "C06.spec_decoder_accepts_generator_stream", show_sdec (ChunkSpec.sdec (bytes_of_hex stream)) = exp]
  | "ide" :: _ :: stream :: "|" :: expected ->
    let exp = String.concat " " expected in
    (* the same with messages of distinct chunk streams interleaved chunk by chunk: each message intact, in completion order *)
    ["C16.interleaved_streams", obs = exp;
     "C06.foreign_stream", obs = exp;
     "C16.spec_decoder_accepts_generator_stream", show_sdec (ChunkSpec.sdec (bytes_of_hex stream)) = exp]
  | _ -> []
