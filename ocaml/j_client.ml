(* judge component "client": model ClientSession vs the real one *)
open Conv
open Client
open J_session

let show_state = function
  | Disconnected -> "Disconnected" | Connected -> "Connected" | PlayRequested -> "PlayRequested" | Playing -> "Playing"
  | PublishRequested -> "PublishRequested" | Publishing -> "Publishing"

let show_event (e : cevent) : string =
  match e with
  | CConnectionAccepted -> "E:ConnAccepted"
  | CConnectionRejected d -> "E:ConnRejected:" ^ hex_of_bytes d
  | CPlaybackAccepted -> "E:PlayAccepted"
  | CPublishAccepted -> "E:PubAccepted"
  | CMetadata md -> "E:Meta:" ^ J_server.show_md md
  | CVideo (ts, d) -> Printf.sprintf "E:Video:%s:%d:%08x" (dec_of_n ts) (List.length d) (fnv32_n d)
  | CAudio (ts, d) -> Printf.sprintf "E:Audio:%s:%d:%08x" (dec_of_n ts) (List.length d) (fnv32_n d)
  | CUnhandleableCommand (name, tr, obj, args) ->
    Printf.sprintf "E:UnhCmd:%s:N%s:%s:%s" (hex_of_bytes name) (hex_of_n 16 tr) (J_amf0.show_value true obj) (J_amf0.show_values true args)
  | CUnknownTransaction (tr, obj, args) ->
    Printf.sprintf "E:UnknownTr:N%s:%s:%s" (hex_of_n 16 tr) (J_amf0.show_value true obj) (J_amf0.show_values true args)
  | CUnhandleableStatus c -> "E:UnhStatus:" ^ hex_of_bytes c
  | CAcknowledgement n -> "E:Ack:" ^ dec_of_n n
  | CPingResponse n -> "E:Pong:" ^ dec_of_n n

let show_err (e : cerr) : string =
  match e with
  | CWire w -> J_server.show_wire w
  | CCantConnect -> "ERR:CantConnect"
  | CInvalidState s -> "ERR:InvalidState:" ^ show_state s
  | CNoActiveStream -> "ERR:NoActiveStream"
  | CCreateStreamFailed -> "ERR:CreateStreamFailed"
  | CNoStreamNumber -> "ERR:NoStreamNumber"
  | CInvalidOnStatus -> "ERR:InvalidOnStatus"

let res_of (r : cresult) : res =
  match r with
  | CPacket (b, d) -> Pkt (d, b)
  | CEvent e -> Other (show_event e)
  | CUnhandleable m -> Other ("U:" ^ J_chunk.show_msg m)

let reply_results (r : creply) : res list =
  match r with
  | COk rs -> List.map res_of rs
  | CErr e -> [Other (show_err e)]
  | CPanic -> [Other "PANIC"]

let run_model (ops : string list) : res list list list =
  let st = ref None in
  List.map (fun op ->
    let t = List.filter (fun s -> s <> "") (String.split_on_char ' ' op) in
    match t with
    | "cfg" :: flash :: buffer :: window :: chunk :: tc :: _ ->
      let c = { cc_flash = bytes_of_hex flash; cc_buffer = n_of_dec buffer; cc_window = n_of_dec window; cc_chunk = n_of_dec chunk;
                cc_tcurl = (if tc = "-" then None else Some (bytes_of_hex (String.sub tc 1 (String.length tc - 1)))) } in
      st := Some (client_new c); [[]]
    | _ ->
      (match !st with
       | None -> [[Other "NOSESSION"]]
       | Some s ->
         let clk x = n_of_int (int_of_string x land 0xFFFFFFFF) in
         let one (s', r) = st := Some s'; [reply_results r] in
         (match t with
          | ["in"; clock; part; h] ->
            List.map (fun piece ->
              let s = (match !st with Some s -> s | None -> s) in
              let s', r = client_handle_input s piece (clk clock) in
              st := Some s'; reply_results r) (partition part (bytes_of_hex h))
          | ["connect"; clock; app] -> one (client_request_connection s (bytes_of_hex app) (clk clock))
          | ["play"; clock; key] -> one (client_request_playback s (bytes_of_hex key) (clk clock))
          | ["publish"; clock; key; ty] ->
            one (client_request_publishing s (bytes_of_hex key) (match ty with "live" -> TLive | "record" -> TRecord | _ -> TAppend) (clk clock))
          | ["stopplay"; clock] -> one (client_stop_playback s (clk clock))
          | ["stoppub"; clock] -> one (client_stop_publishing s (clk clock))
          | ["ping"; clock] ->
            let s', r = client_send_ping s (clk clock) in
            st := Some s';
            [reply_results r @ (match r with COk _ -> [Other ("T:" ^ dec_of_n (clk clock))] | _ -> [])]
          | ["meta"; clock; md] -> one (client_publish_metadata s (J_server.parse_md md) (clk clock))
          | [("video" | "audio") as k; ts; drop; pl] ->
            one (client_publish_media (k = "video") s (bytes_of_ints (payload_ints_of_spec pl)) (n_of_dec ts) (drop = "1"))
          | _ -> [[Other "JUDGE-BAD-OP"]]))) ops

let run (toks : string list) (obs : string) : string =
  let case = String.concat " " toks in
  let ops = split_on " | " case in
  let model = run_model ops in
  let impl = J_server.parse_obs obs in
  let pi = new_peer () and pm = new_peer () in
  let same =
    List.length model = List.length impl &&
    List.for_all2 (fun mo io -> List.length mo = List.length io && List.for_all2 (fun m i -> results_equiv pi pm i m) mo io) model impl in
  if same then obs
  else String.concat " | " (List.map (fun calls -> String.concat " / " (List.map J_server.show_results calls)) model)

(* C10 trace oracles on the real results *)
let c10_oracles (ops : string list) (impl : res list list list) : (string * bool) list =
  let starts_with p s = String.length s >= String.length p && String.sub s 0 (String.length p) = p in
  (* a handle_input call that returned an error has dropped the results of the messages it handled before the failing one, while
     the session state has advanced (the client-side face of known finding K3): from then on what this oracle reconstructs from
     the returned packets and events is no longer the session's state; violations seen after such a call are attributed to
     C10.workflow_after_failed_input (known finding K4) *)
  let tainted = ref false and after_fail_ok = ref true in
  let flag (r : bool ref) = if !tainted then after_fail_ok := false else r := false in
  let connected = ref false and connect_ok = ref true in
  let play_active = ref false and media_ok = ref true in
  let publishing = ref false and pub_requested = ref false and pubmedia_ok = ref true in
  (* what the client itself announced on the wire (its packets read with the specification decoder): 0 = idle, 1 = play requested or
     running, 2 = publish requested or running; stopping must emit a deleteStream exactly from the matching activity *)
  let peer = new_peer () and activity = ref 0 and stop_ok = ref true in
  (* every connect request is answered at most once: accepted or rejected events never outnumber the requests that emitted a packet *)
  let connects = ref 0 and answers = ref 0 and answered_ok = ref true in
  let accepted_ok = ref true in
  let idle_ok = ref true and idle_unknown = ref false in
  (* the server's messages as the client receives them (specification decoder on the inbound bytes, piece by piece): the onStatus
     codes that complete in each input call *)
  let pin = { ist = ChunkSpec.sdec_init; buf = []; broken = false } in
  let str_of (l : BinNums.coq_N list) = String.concat "" (List.map (fun b -> String.make 1 (Char.chr (int_of_n b land 255))) l) in
  let status_codes (ms : Chunk.msg list) : string list =
    List.filter_map (fun (m : Chunk.msg) ->
      match Messages.of_payload m.Chunk.m_tid m.Chunk.m_data with
      | Base.Ok (Messages.MAmf0Command (name, _, _, Amf0.VObject ps :: _)) when str_of name = "onStatus" ->
        (match SessionCommon.prop_get (bytes_of_ints (List.map Char.code (List.of_seq (String.to_seq "code")))) ps with Some (Amf0.VString c) -> Some (str_of c) | _ -> None)
      | _ -> None) ms in
  let command_names (all : res list) : string list =
    List.concat_map (function
      | Pkt (_, b) ->
        (match peer_feed peer b with
         | Some ms -> List.filter_map (fun (m : Chunk.msg) ->
             match Messages.of_payload m.Chunk.m_tid m.Chunk.m_data with
             | Base.Ok (Messages.MAmf0Command (name, _, _, _)) -> Some (String.concat "" (List.map (fun b -> String.make 1 (Char.chr (int_of_n b land 255))) name))
             | _ -> None) ms
         | None -> [])
      | _ -> []) all in
  (try List.iter2 (fun op calls ->
    let t = List.filter (fun s -> s <> "") (String.split_on_char ' ' op) in
    let all = List.concat calls in
    let has_packet = List.exists (function Pkt _ -> true | _ -> false) all in
    let errored_input = (match t with "in" :: _ -> List.exists (function Other s -> starts_with "ERR:" s | _ -> false) all | _ -> false) in
    let names = command_names all in
    let deleted = List.mem "deleteStream" names in
    (match t with
     | "stoppub" :: _ -> if peer.ok && deleted <> (!activity = 2) then flag stop_ok
     | "stopplay" :: _ -> if peer.ok && deleted <> (!activity = 1) then flag stop_ok
     | _ -> ());
    List.iter (fun n -> if n = "play" then activity := 1 else if n = "publish" then activity := 2 else if n = "deleteStream" then activity := 0) names;
    (match t with
     | "connect" :: _ -> if has_packet then incr connects; if !connected && has_packet then flag connect_ok
     | "play" :: _ -> if has_packet then play_active := true
     | "stopplay" :: _ -> play_active := false
     | "publish" :: _ -> if has_packet then pub_requested := true
     | "stoppub" :: _ -> publishing := false; pub_requested := false
     | ("video" | "audio" | "meta") :: _ -> if has_packet && not !publishing then flag pubmedia_ok
     | _ -> ());
    if errored_input then tainted := true;
    (* the server's messages that complete in each input call of this operation (one call per piece) *)
    let per_call : Chunk.msg list list = (match t with
      | ["in"; _; part; h] -> (try List.map (fun piece -> inbound_feed pin piece) (partition part (bytes_of_hex h)) with _ -> pin.broken <- true; [])
      | _ -> []) in
    let codes = List.concat_map status_codes per_call in
    (* a refused answer (createStream result without a stream number, createStream error, malformed or out-of-state status) changes
       nothing: a connected client whose own wire traffic shows it idle must still be allowed to request playback or publishing.
       Not judged after an input call that failed for another reason, or that failed with more than one message completing in it
       (the class of known finding K4: results of the earlier messages of that call are lost). *)
    let refusal s = List.exists (fun p -> starts_with p s) ["ERR:NoStreamNumber"; "ERR:CreateStreamFailed"; "ERR:InvalidOnStatus"; "ERR:InvalidState"] in
    (match t with
     | "in" :: _ ->
       let rec walk (cs : res list list) (ms : Chunk.msg list list) =
         match cs with
         | [] -> ()
         | c :: cs' ->
           let n = (match ms with m :: _ -> List.length m | [] -> 2) in
           List.iter (function Other e when starts_with "ERR:" e -> if n >= 2 || not (refusal e) || pin.broken then idle_unknown := true | _ -> ()) c;
           walk cs' (match ms with _ :: ms' -> ms' | [] -> []) in
       walk calls per_call
     | ("play" | "publish") :: _ ->
       if !connected && !activity = 0 && peer.ok && not !idle_unknown && not has_packet
          && List.exists (function Other e -> starts_with "ERR:InvalidState" e | _ -> false) all then idle_ok := false
     | _ -> ());
    let saw code = pin.broken || List.mem code codes in
    List.iter (function
      | Other "E:PlayAccepted" when not (saw "NetStream.Play.Start") -> flag accepted_ok
      | Other "E:PubAccepted" when not (saw "NetStream.Publish.Start") -> flag accepted_ok
      | _ -> ()) all;
    List.iter (function
      | Other "E:ConnAccepted" -> connected := true; activity := 0; incr answers; if !answers > !connects then answered_ok := false
      | Other s when starts_with "E:ConnRejected" s -> incr answers; if !answers > !connects then answered_ok := false
      | Other "E:PubAccepted" -> if !pub_requested then publishing := true;
        (* a start status advances exactly the request it answers: accepted events only for the activity the client itself announced
           on the wire (its own publish / play command, read with the specification decoder) *)
        if peer.ok && !activity <> 2 then flag accepted_ok
      | Other "E:PlayAccepted" -> if peer.ok && !activity <> 1 then flag accepted_ok
      | Other s when starts_with "E:Video:" s || starts_with "E:Audio:" s -> if not !play_active then flag media_ok
      | Other s when starts_with "E:Meta:" s -> if not (!play_active || !pub_requested) then flag media_ok   (* needs an active stream *)
      | _ -> ()) all) ops impl
  with Invalid_argument _ -> ());
  [ "C10.connect_only_when_disconnected", !connect_ok; "C10.media_events_only_while_play_requested_or_running", !media_ok;
    "C10.publish_media_only_while_publishing", !pubmedia_ok; "C10.stop_emits_delete_stream_exactly_from_matching_activity", !stop_ok;
    "C10.each_connect_request_answered_at_most_once", !answered_ok;
    "C10.accepted_event_matches_the_request_on_the_wire", !accepted_ok;
    "C10.refused_answer_keeps_the_session_idle", !idle_ok;
    "C10.workflow_after_failed_input", !after_fail_ok ]

let oracle (toks : string list) (obs : string) : (string * bool) list =
  let pk = J_server.impl_packets obs in
  let case = String.concat " " toks in
  let ops = split_on " | " case in
  let asked_drop = List.fold_left (fun n op ->
      match List.filter (fun s -> s <> "") (String.split_on_char ' ' op) with
      | ("video" | "audio") :: _ :: "1" :: _ -> n + 1 | _ -> n) 0 ops in
  let marked = List.length (List.filter fst pk) in
  let checks = [ "C18.droppable_only_when_asked", marked <= asked_drop ] in
  let checks = (match stamp_oracle ops (J_server.parse_obs obs) None with Some b -> ("C18.messages_carry_expected_timestamp_and_stream", b) :: checks | None -> checks) in
  let checks = (match ack_oracle ops (J_server.parse_obs obs) with Some b -> ("C17.ack_exactly_when_due", b) :: checks | None -> checks) in
  let checks = c10_oracles ops (J_server.parse_obs obs) @ checks in
  (* C19: a chunk size the protocol cannot express (0, above 2^31-1) in the client configuration is refused: the session never
     reports an accepted connection as if the value had been honoured (the value is applied - and refused - when the connect result
     arrives) *)
  let bad_chunk = List.exists (fun op -> match List.filter (fun x -> x <> "") (String.split_on_char ' ' op) with
      | "cfg" :: _ :: _ :: _ :: chunk :: _ -> (match int_of_string_opt chunk with Some n -> n = 0 || n > 2147483647 | None -> false)
      | _ -> false) ops in
  let checks = if bad_chunk then ("C19.client_config_chunk_refused", not (List.exists (List.exists (List.exists (function Other "E:ConnAccepted" -> true | _ -> false))) (J_server.parse_obs obs))) :: checks else checks in
  if J_server.has_failed_call obs then checks @ [ "C18.decodable_despite_failed_call", decodable pk (fun _ _ -> true) ]
  else
    checks @ [ "C18.decodable", decodable pk (fun _ _ -> true);
               "C18.decodable_all_droppable_removed", decodable pk (fun _ d -> not d);
               "C18.decodable_alternate_droppable_removed", decodable pk (fun i d -> not d || i mod 2 = 0) ]
