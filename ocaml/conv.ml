(* Conversions between OCaml values and the extracted Coq datatypes (N, positive, list, comparison). *)
open BinNums

let rec pos_of_int (i : int) : positive =
  if i = 1 then Coq_xH
  else if i land 1 = 0 then Coq_xO (pos_of_int (i lsr 1))
  else Coq_xI (pos_of_int (i lsr 1))

let n_of_int (i : int) : coq_N = if i = 0 then N0 else Npos (pos_of_int i)

let rec int_of_pos (p : positive) : int =
  match p with
  | Coq_xH -> 1
  | Coq_xO q -> 2 * int_of_pos q
  | Coq_xI q -> 2 * int_of_pos q + 1

let int_of_n (n : coq_N) : int = match n with N0 -> 0 | Npos p -> int_of_pos p

(* arbitrary-size via hex strings (for 64-bit patterns) *)
let hexdig c =
  match c with
  | '0' .. '9' -> Char.code c - 48
  | 'a' .. 'f' -> Char.code c - 87
  | 'A' .. 'F' -> Char.code c - 55
  | _ -> failwith "hexdig"

let n_of_hex (s : string) : coq_N =
  (* build bit list, most significant first *)
  let bits = ref [] in
  String.iter
    (fun c ->
      let d = hexdig c in
      bits := (d land 1 <> 0) :: (d land 2 <> 0) :: (d land 4 <> 0) :: (d land 8 <> 0) :: !bits)
    s;
  (* !bits is least significant first now *)
  let rec strip l = match l with false :: r -> strip r | _ -> l in
  let msb_first = strip (List.rev !bits) in
  match msb_first with
  | [] -> N0
  | _ :: rest ->
      let p = List.fold_left (fun acc b -> if b then Coq_xI acc else Coq_xO acc) Coq_xH rest in
      Npos p

let hex_of_n (digits : int) (n : coq_N) : string =
  let rec bits p acc = match p with
    | Coq_xH -> true :: acc
    | Coq_xO q -> bits q (false :: acc)
    | Coq_xI q -> bits q (true :: acc) in
  (* msb first *)
  let b = match n with N0 -> [] | Npos p -> List.rev (bits p []) |> List.rev in
  let b = (match n with N0 -> [] | Npos _ -> b) in
  let nb = List.length b in
  let total = digits * 4 in
  let padded = if nb >= total then b else (List.init (total - nb) (fun _ -> false)) @ b in
  let padded = (* if larger than digits, extend to multiple of 4 *)
    let l = List.length padded in
    if l mod 4 = 0 then padded else (List.init (4 - l mod 4) (fun _ -> false)) @ padded in
  let buf = Buffer.create 16 in
  let rec go l = match l with
    | a :: b :: c :: d :: r ->
        let v = (if a then 8 else 0) + (if b then 4 else 0) + (if c then 2 else 0) + (if d then 1 else 0) in
        Buffer.add_char buf "0123456789abcdef".[v]; go r
    | [] -> ()
    | _ -> failwith "hex_of_n" in
  go padded; Buffer.contents buf

let small = Array.init 256 n_of_int

let bytes_of_hex (s : string) : coq_N list =
  if s = "-" then []
  else begin
    let n = String.length s / 2 in
    let rec go i acc =
      if i < 0 then acc
      else go (i - 1) (small.(hexdig s.[2*i] * 16 + hexdig s.[2*i+1]) :: acc) in
    go (n - 1) []
  end

let hex_of_bytes (l : coq_N list) : string =
  match l with
  | [] -> "-"
  | _ ->
    let buf = Buffer.create 64 in
    List.iter (fun b -> Buffer.add_string buf (Printf.sprintf "%02x" (int_of_n b))) l;
    Buffer.contents buf

let dec_of_n (n : coq_N) : string = string_of_int (int_of_n n)   (* values < 2^62 only *)
let n_of_dec (s : string) : coq_N = n_of_int (int_of_string s)

let cmp_letter (c : Datatypes.comparison) = match c with Datatypes.Lt -> "L" | Datatypes.Eq -> "E" | Datatypes.Gt -> "G"
let b01 (b : bool) = if b then "1" else "0"

(* shared deterministic helpers (same formulas as harness/src/util.rs and lib/gens/chunk.py) *)
let pbyte (seed : int) (i : int) : int = ((seed * 131 + i * 2654435 + (i / 256) * 977) mod 1000003) mod 256

let payload_ints_of_spec (spec : string) : int list =
  let body = String.sub spec 1 (String.length spec - 1) in
  match spec.[0] with
  | 'h' -> List.map int_of_n (bytes_of_hex body)
  | 'r' -> (match String.split_on_char '.' body with
            | [len; seed] -> let len = int_of_string len and seed = int_of_string seed in List.init len (fun i -> pbyte seed i)
            | _ -> failwith "payload spec")
  | _ -> failwith "payload spec"

let bytes_of_ints (l : int list) = List.map (fun i -> small.(i)) l

let fnv32_n (data : BinNums.coq_N list) : int =
  List.fold_left (fun h b -> ((h lxor (int_of_n b)) * 16777619) land 0xFFFFFFFF) 2166136261 data

let rec take k l = if k = 0 then [] else match l with [] -> [] | x :: r -> x :: take (k - 1) r
let rec drop k l = if k = 0 then l else match l with [] -> [] | _ :: r -> drop (k - 1) r

let partition (spec : string) (data : 'a list) : 'a list list =
  if data = [] then [[]] else
  let body = String.sub spec 1 (String.length spec - 1) in
  match spec.[0] with
  | 'w' -> [data]
  | 'b' -> List.map (fun x -> [x]) data
  | 'k' -> let n = max 1 (int_of_string body) in
    let rec go l acc = match l with [] -> List.rev acc | _ -> go (drop n l) (take n l :: acc) in go data []
  | 'r' -> let seed = int_of_string body in
    let rec go l i acc = match l with
      | [] -> List.rev acc
      | _ -> let sz = 1 + ((pbyte seed i) * 37 + pbyte (seed + 1) i) mod 700 in go (drop sz l) (i + 1) (take sz l :: acc) in
    go data 0 []
  | _ -> failwith "partition spec"
