(* Conversions between OCaml values and the extracted Coq datatypes (N, positive, list, comparison). *)
open BinNums

let rec pos_of_int (i : int) : positive =
  if i = 1 then Coq_xH
  else if i land 1 = 0 then Coq_xO (pos_of_int (i lsr 1))
  else Coq_xI (pos_of_int (i lsr 1))

let n_of_int (i : int) : coq_N = if i = 0 then N0 else Npos (pos_of_int i)

let rec int_of_pos (p : positive) : int =
  match p with
  | Coq_xH -> 1
  | Coq_xO q -> 2 * int_of_pos q
  | Coq_xI q -> 2 * int_of_pos q + 1

let int_of_n (n : coq_N) : int = match n with N0 -> 0 | Npos p -> int_of_pos p

(* arbitrary-size via hex strings (for 64-bit patterns) *)
let hexdig c =
  match c with
  | '0' .. '9' -> Char.code c - 48
  | 'a' .. 'f' -> Char.code c - 87
  | 'A' .. 'F' -> Char.code c - 55
  | _ -> failwith "hexdig"

let n_of_hex (s : string) : coq_N =
  (* build bit list, most significant first *)
  let bits = ref [] in
  String.iter
    (fun c ->
      let d = hexdig c in
      bits := (d land 1 <> 0) :: (d land 2 <> 0) :: (d land 4 <> 0) :: (d land 8 <> 0) :: !bits)
    s;
  (* !bits is least significant first now *)
  let rec strip l = match l with false :: r -> strip r | _ -> l in
  let msb_first = strip (List.rev !bits) in
  match msb_first with
  | [] -> N0
  | _ :: rest ->
      let p = List.fold_left (fun acc b -> if b then Coq_xI acc else Coq_xO acc) Coq_xH rest in
      Npos p

let hex_of_n (digits : int) (n : coq_N) : string =
  let rec bits p acc = match p with
    | Coq_xH -> true :: acc
    | Coq_xO q -> bits q (false :: acc)
    | Coq_xI q -> bits q (true :: acc) in
  (* msb first *)
  let b = match n with N0 -> [] | Npos p -> List.rev (bits p []) |> List.rev in
  let b = (match n with N0 -> [] | Npos _ -> b) in
  let nb = List.length b in
  let total = digits * 4 in
  let padded = if nb >= total then b else (List.init (total - nb) (fun _ -> false)) @ b in
  let padded = (* if larger than digits, extend to multiple of 4 *)
    let l = List.length padded in
    if l mod 4 = 0 then padded else (List.init (4 - l mod 4) (fun _ -> false)) @ padded in
  let buf = Buffer.create 16 in
  let rec go l = match l with
    | a :: b :: c :: d :: r ->
        let v = (if a then 8 else 0) + (if b then 4 else 0) + (if c then 2 else 0) + (if d then 1 else 0) in
        Buffer.add_char buf "0123456789abcdef".[v]; go r
    | [] -> ()
    | _ -> failwith "hex_of_n" in
  go padded; Buffer.contents buf

let small = Array.init 256 n_of_int

let bytes_of_hex (s : string) : coq_N list =
  if s = "-" then []
  else begin
    let n = String.length s / 2 in
    let rec go i acc =
      if i < 0 then acc
      else go (i - 1) (small.(hexdig s.[2*i] * 16 + hexdig s.[2*i+1]) :: acc) in
    go (n - 1) []
  end

let hex_of_bytes (l : coq_N list) : string =
  match l with
  | [] -> "-"
  | _ ->
    let buf = Buffer.create 64 in
    List.iter (fun b -> Buffer.add_string buf (Printf.sprintf "%02x" (int_of_n b))) l;
    Buffer.contents buf

let dec_of_n (n : coq_N) : string = string_of_int (int_of_n n)   (* values < 2^62 only *)
let n_of_dec (s : string) : coq_N = n_of_int (int_of_string s)

let cmp_letter (c : Datatypes.comparison) = match c with Datatypes.Lt -> "L" | Datatypes.Eq -> "E" | Datatypes.Gt -> "G"
let b01 (b : bool) = if b then "1" else "0"
