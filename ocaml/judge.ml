(* judge: reads "<case>\t<observation>" lines produced by the Rust harness, replays the case on the
   extracted Coq model, prints one verdict line per case:
     OK
     DIFF\t<case>\timpl=<obs>\tmodel=<obs>
     ORACLE\t<name>\t<case>\timpl=<obs>
   DESIGN.md 5.1 / 5.3 *)
let () =
  let n = ref 0 and diffs = ref 0 and oracles = ref 0 in
  (try
    while true do
      let line = input_line stdin in
      match String.index_opt line '\t' with
      | None -> ()
      | Some i ->
        incr n;
        let case = String.sub line 0 i in
        let obs = String.sub line (i + 1) (String.length line - i - 1) in
        let toks = List.filter (fun s -> s <> "") (String.split_on_char ' ' case) in
        let comp, rest = (match toks with c :: r -> c, r | [] -> "", []) in
        let model_obs, orc =
          (try
            match comp with
            | "time" -> J_time.run rest, J_time.oracle rest obs
            | "amf0" -> J_amf0.run rest obs, J_amf0.oracle rest obs
            | "chunk" -> J_chunk.run rest obs, J_chunk.oracle rest obs
            | "msg" -> J_msg.run rest obs, J_msg.oracle rest obs
            | "server" -> J_server.run rest obs, J_server.oracle rest obs
            | "client" -> J_client.run rest obs, J_client.oracle rest obs
            | "hs" -> J_hs.run rest obs, J_hs.oracle rest obs
            | _ -> "JUDGE-UNKNOWN-COMPONENT", []
          with e -> "JUDGE-EXN " ^ Printexc.to_string e, []) in
        (* generic observations of the harness: a panic (caught by catch_unwind) or a case that did not return within the
           watchdog's limit are violations of C03 / C19 whatever the component *)
        let contains sub str =
          let n = String.length sub and m = String.length str in
          let rec go i = i + n <= m && (String.sub str i n = sub || go (i + 1)) in go 0 in
        let orc = orc @ (if contains "PANIC" obs then ["C03.never_panics", false] else [])
                      @ (if contains "HANG" obs then ["C03.never_hangs", false; "C19.never_hangs", false] else []) in
        if model_obs <> obs then begin
          incr diffs;
          Printf.printf "DIFF\t%s\timpl=%s\tmodel=%s\n" case obs model_obs
        end;
        List.iter (fun (name, ok) ->
          if not ok then begin incr oracles; Printf.printf "ORACLE\t%s\t%s\timpl=%s\n" name case obs end) orc
    done
  with End_of_file -> ());
  Printf.printf "SUMMARY\tcases=%d\tdiffs=%d\toracle_failures=%d\n" !n !diffs !oracles
