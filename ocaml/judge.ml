(* judge: reads "<case>\t<observation>" lines produced by the Rust harness, replays the case on the
   extracted Coq model, prints one verdict line per case:
     OK
     DIFF\t<case>\timpl=<obs>\tmodel=<obs>
     ORACLE\t<name>\t<case>\timpl=<obs>
   DESIGN.md 5.1 / 5.3 *)
let () =
  let n = ref 0 and diffs = ref 0 and oracles = ref 0 in
  (try
    while true do
      let line = input_line stdin in
      match String.index_opt line '\t' with
      | None -> ()
      | Some i ->
        incr n;
        let case = String.sub line 0 i in
        let obs = String.sub line (i + 1) (String.length line - i - 1) in
        (* optional third field "~peak~largest": allocation figures of the real code for this case *)
        let obs, alloc = (match String.rindex_opt obs '\t' with
            | Some j when j + 1 < String.length obs && obs.[j + 1] = '~' ->
              String.sub obs 0 j, (try Scanf.sscanf (String.sub obs (j + 1) (String.length obs - j - 1)) "~%d~%d" (fun a b -> Some (a, b)) with _ -> None)
            | _ -> obs, None) in
        let toks = List.filter (fun s -> s <> "") (String.split_on_char ' ' case) in
        let comp, rest = (match toks with c :: r -> c, r | [] -> "", []) in
        let model_obs, orc =
          (try
            match comp with
            | "pair" -> obs, J_pair.oracle rest obs
            | "time" -> J_time.run rest, J_time.oracle rest obs
            | "amf0" -> J_amf0.run rest obs, J_amf0.oracle rest obs
            | "chunk" -> J_chunk.run rest obs, J_chunk.oracle rest obs
            | "msg" -> J_msg.run rest obs, J_msg.oracle rest obs
            | "server" -> J_server.run rest obs, J_server.oracle rest obs
            | "client" -> J_client.run rest obs, J_client.oracle rest obs
            | "hs" -> J_hs.run rest obs, J_hs.oracle rest obs
            | "interop" -> J_interop.run rest obs, J_interop.oracle rest obs
            | _ -> "JUDGE-UNKNOWN-COMPONENT", []
          with e -> "JUDGE-EXN " ^ Printexc.to_string e, []) in
        (* generic observations of the harness: a panic (caught by catch_unwind) or a case that did not return within the
           watchdog's limit are violations of C03 / C19 whatever the component *)
        let contains sub str =
          let n = String.length sub and m = String.length str in
          let rec go i = i + n <= m && (String.sub str i n = sub || go (i + 1)) in go 0 in
        (* C03 memory clause: allocation bounded by a small multiple of the bytes the case carries plus one 16 MiB message
           (application-supplied payload specs rN.S count with their length N) *)
        let supplied =
          List.fold_left (fun acc tok ->
            match String.index_opt tok 'r' with
            | Some k when k + 1 < String.length tok ->
              (try Scanf.sscanf (String.sub tok k (String.length tok - k)) "r%d.%d" (fun n _ -> acc + n) with _ -> acc)
            | _ -> acc) 0 toks in
        let allowance = 16 * String.length case + 16 * supplied + (if comp = "interop" then 16 * String.length obs else 0) + 20 * 1048576 in
        let orc = orc @ (match alloc with
            | Some (peak, largest) when comp <> "amf0" || true -> if peak <= allowance && largest <= allowance then [] else ["C03.alloc_bounded", false; "C19.bounded_memory", false]
            | _ -> []) in
        let orc = orc @ (if contains "PANIC" obs then ["C03.never_panics", false] else [])
                      @ (if contains "HANG" obs then ["C03.never_hangs", false; "C19.never_hangs", false] else [])
                      (* C14: the AMF0 decoder terminates with a value or an error on every input *)
                      @ (if comp = "amf0" && contains "HANG" obs then ["C14.decode_terminates", false] else []) in
        if model_obs <> obs then begin
          incr diffs;
          Printf.printf "DIFF\t%s\timpl=%s\tmodel=%s\n" case obs model_obs
        end;
        List.iter (fun (name, ok) ->
          if not ok then begin incr oracles; Printf.printf "ORACLE\t%s\t%s\timpl=%s\n" name case obs end) orc
    done
  with End_of_file -> ());
  Printf.printf "SUMMARY\tcases=%d\tdiffs=%d\toracle_failures=%d\n" !n !diffs !oracles
