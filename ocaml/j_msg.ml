(* judge component "msg" *)
open Conv
open Messages

let opt s = if s = "-" then None else Some (n_of_dec s)
let show_opt = function None -> "-" | Some n -> dec_of_n n

let event_of_string = function
  | "StreamBegin" -> StreamBegin | "StreamEof" -> StreamEof | "StreamDry" -> StreamDry
  | "SetBufferLength" -> SetBufferLength | "StreamIsRecorded" -> StreamIsRecorded
  | "PingRequest" -> PingRequest | "PingResponse" -> PingResponse
  | "BufferEmpty" -> BufferEmpty | "BufferReady" -> BufferReady
  | _ -> failwith "event"
let string_of_event = function
  | StreamBegin -> "StreamBegin" | StreamEof -> "StreamEof" | StreamDry -> "StreamDry"
  | SetBufferLength -> "SetBufferLength" | StreamIsRecorded -> "StreamIsRecorded"
  | PingRequest -> "PingRequest" | PingResponse -> "PingResponse"
  | BufferEmpty -> "BufferEmpty" | BufferReady -> "BufferReady"

let parse_message (toks : string list) : rtmp_message * string list =
  match toks with
  | "Unknown" :: tid :: d :: r -> MUnknown (n_of_dec tid, bytes_of_hex d), r
  | "Abort" :: n :: r -> MAbort (n_of_dec n), r
  | "Ack" :: n :: r -> MAcknowledgement (n_of_dec n), r
  | "Cmd" :: name :: r ->
    let tr, r1 = J_amf0.parse_value r in
    let tr = (match tr with Amf0.VNumber b -> b | _ -> failwith "cmd transaction") in
    let obj, r2 = J_amf0.parse_value r1 in
    let args, r3 = J_amf0.parse_values r2 in
    MAmf0Command (bytes_of_hex name, tr, obj, args), r3
  | "Data" :: r -> let vs, r1 = J_amf0.parse_values r in MAmf0Data vs, r1
  | "Audio" :: d :: r -> MAudioData (bytes_of_hex d), r
  | "Video" :: d :: r -> MVideoData (bytes_of_hex d), r
  | "SetChunkSize" :: n :: r -> MSetChunkSize (n_of_dec n), r
  | "SetPeerBandwidth" :: n :: l :: r -> MSetPeerBandwidth (n_of_dec n, (match l with "H" -> Hard | "S" -> Soft | _ -> Dynamic)), r
  | "UserControl" :: ev :: a :: b :: c :: r -> MUserControl (event_of_string ev, opt a, opt b, opt c), r
  | "WinAck" :: n :: r -> MWindowAcknowledgement (n_of_dec n), r
  | _ -> failwith "message"

let show_message (sorted : bool) (m : rtmp_message) : string =
  match m with
  | MUnknown (tid, d) -> Printf.sprintf "Unknown %s %s" (dec_of_n tid) (hex_of_bytes d)
  | MAbort n -> "Abort " ^ dec_of_n n
  | MAcknowledgement n -> "Ack " ^ dec_of_n n
  | MAmf0Command (name, tr, obj, args) ->
    Printf.sprintf "Cmd %s N%s %s %s" (hex_of_bytes name) (hex_of_n 16 tr) (J_amf0.show_value sorted obj) (J_amf0.show_values sorted args)
  | MAmf0Data vs -> "Data " ^ J_amf0.show_values sorted vs
  | MAudioData d -> "Audio " ^ hex_of_bytes d
  | MVideoData d -> "Video " ^ hex_of_bytes d
  | MSetChunkSize n -> "SetChunkSize " ^ dec_of_n n
  | MSetPeerBandwidth (n, l) -> Printf.sprintf "SetPeerBandwidth %s %s" (dec_of_n n) (match l with Hard -> "H" | Soft -> "S" | Dynamic -> "D")
  | MUserControl (ev, a, b, c) -> Printf.sprintf "UserControl %s %s %s %s" (string_of_event ev) (show_opt a) (show_opt b) (show_opt c)
  | MWindowAcknowledgement n -> "WinAck " ^ dec_of_n n

let show_ser_err = function InvalidChunkSize -> "Err InvalidChunkSize" | SerAmf0 e -> "Err Amf0:" ^ J_amf0.show_enc_err e
let show_de_err = function InvalidMessageFormat -> "Err InvalidMessageFormat" | DeAmf0 e -> "Err Amf0:" ^ J_amf0.show_dec_err e | DeIo -> "Err Io"

let model_dec tid data : string =
  match of_payload tid data with
  | Base.Ok m -> show_message true m
  | Base.Err e -> show_de_err e
  | Base.Panic _ -> "PANIC"
  | Base.OutOfFuel -> "OUT-OF-FUEL"

let run (toks : string list) (obs : string) : string =
  match toks with
  | "enc" :: rest ->
    let m, _ = parse_message rest in
    let ordered_txt = (match J_amf0.split_bar obs with o :: _ -> o | [] -> "") in
    let ordered, _ = (try parse_message (J_amf0.toks_of ordered_txt) with _ -> m, []) in
    if show_message true ordered <> show_message true m then "MODEL: reported iteration order is not a permutation of the input"
    else (match to_payload ordered with
      | Base.Err e -> ordered_txt ^ " | " ^ show_ser_err e
      | Base.Ok (tid, b) -> Printf.sprintf "%s | Ok %s 7 9 %s | %s" ordered_txt (dec_of_n tid) (hex_of_bytes b) (model_dec tid b)
      | Base.Panic _ -> "PANIC" | Base.OutOfFuel -> "OUT-OF-FUEL")
  | "dec" :: tid :: [d] -> model_dec (n_of_dec tid) (bytes_of_hex d)
  | _ -> "JUDGE-BAD-CASE"

(* well-formed = the Option fields populated exactly as the event type requires; Unknown only outside the known ids *)
let well_formed (m : rtmp_message) : bool =
  match m with
  | MUserControl (ev, a, b, c) ->
    (match ev, a, b, c with
     | SetBufferLength, Some _, Some _, None -> true
     | (PingRequest | PingResponse), None, None, Some _ -> true
     | (StreamBegin | StreamEof | StreamDry | StreamIsRecorded | BufferEmpty | BufferReady), Some _, None, None -> true
     | _ -> false)
  | MUnknown (tid, _) -> not (List.mem (int_of_n tid) [1; 2; 3; 4; 5; 6; 8; 9; 15; 17; 18; 20])
  | _ -> true

let oracle (toks : string list) (obs : string) : (string * bool) list =
  match toks with
  | "enc" :: rest ->
    let m, _ = parse_message rest in
    (match J_amf0.split_bar obs with
     | [ordered_txt; okp; back] ->
       let ordered, _ = (try parse_message (J_amf0.toks_of ordered_txt) with _ -> m, []) in
       let spec = MessageSpec.spec_layout ordered in
       let impl = (match J_amf0.toks_of okp with ["Ok"; tid; _; _; h] -> Some (tid, h) | _ -> None) in
       let layout_ok = (match spec, impl with
           | Some (tid, b), Some (tid', h) -> dec_of_n tid = tid' && hex_of_bytes b = h
           | None, Some _ -> not (well_formed m)       (* ill-formed messages are outside the property *)
           | _, None -> false) in
       let rt_ok = (not (well_formed m)) || back = show_message true m in
       ["C13.layout_is_spec", layout_ok; "C13.roundtrip", rt_ok]
     | [_; err] ->
       (* refusal only for chunk sizes above 2^31-1 or inexpressible AMF0 *)
       let ok = (match m with
           | MSetChunkSize n -> int_of_n n > 2147483647
           | MAmf0Command (name, _, obj, args) -> List.exists J_amf0.has_unencodable (Amf0.VString name :: obj :: args)
           | MAmf0Data vs -> List.exists J_amf0.has_unencodable vs
           | _ -> false) in
       ["C13.refusal_only_when_inexpressible", ok]
     | _ -> ["C13.observation_shape", false])
  | "dec" :: tid :: [d] ->
    let tid = int_of_string tid in
    let data = bytes_of_hex d in
    let checks = ref [] in
    (* unknown type ids pass through untouched *)
    if not (List.mem tid [1; 2; 3; 4; 5; 6; 8; 9; 15; 17; 18; 20]) then
      checks := ("C13.unknown_passthrough", obs = Printf.sprintf "Unknown %d %s" tid d) :: !checks;
    if tid = 8 then checks := ("C13.audio_opaque", obs = "Audio " ^ d) :: !checks;
    if tid = 9 then checks := ("C13.video_opaque", obs = "Video " ^ d) :: !checks;
    (* chunk size above 2^31-1 rejected *)
    (if tid = 1 then match data with
      | a :: _ :: _ :: _ :: _ when int_of_n a >= 128 -> checks := ("C13.chunk_size_bound", obs = "Err InvalidMessageFormat") :: !checks
      | _ -> ());
    (* AMF3-typed payloads decode as their AMF0 equivalents *)
    if tid = 15 then checks := ("C13.amf3_data_alias", obs = model_dec (n_of_int 18) data) :: !checks;
    (if tid = 17 then
       let d' = (match data with z :: r when int_of_n z = 0 -> r | _ -> data) in
       checks := ("C13.amf3_command_alias", obs = model_dec (n_of_int 20) d') :: !checks);
    !checks
  | _ -> []
