open Base
open BinNat
open BinNums
open Consts
open Datatypes

val add_values : coq_N -> coq_N -> coq_N

val sub_values : coq_N -> coq_N -> coq_N

val compare_values : coq_N -> coq_N -> comparison

val compare_difference_checked : coq_N -> coq_N -> coq_N option

val ts_cmp : coq_N -> coq_N -> comparison

val ts_partial_cmp : coq_N -> coq_N -> comparison option

val ts_partial_cmp_u32 : coq_N -> coq_N -> comparison option

val u32_partial_cmp_ts : coq_N -> coq_N -> comparison option

val ts_eq : coq_N -> coq_N -> bool

val ts_eq_u32 : coq_N -> coq_N -> bool

val u32_eq_ts : coq_N -> coq_N -> bool
