open Base
open BinNat
open BinNums
open Consts
open Datatypes

(** val add_values : coq_N -> coq_N -> coq_N **)

let add_values a b =
  N.modulo (N.add a b) two32

(** val sub_values : coq_N -> coq_N -> coq_N **)

let sub_values a b =
  N.modulo (N.sub (N.add a two32) b) two32

(** val compare_values : coq_N -> coq_N -> comparison **)

let compare_values v1 v2 =
  let max_val = N.max v1 v2 in
  let min_val = N.min v1 v2 in
  let difference = N.sub max_val min_val in
  if N.leb difference coq_MAX_ADJACENT_VALUE
  then N.compare v1 v2
  else N.compare v2 v1

(** val compare_difference_checked : coq_N -> coq_N -> coq_N option **)

let compare_difference_checked v1 v2 =
  let max_val = N.max v1 v2 in
  let min_val = N.min v1 v2 in
  if N.leb min_val max_val then Some (N.sub max_val min_val) else None

(** val ts_cmp : coq_N -> coq_N -> comparison **)

let ts_cmp =
  compare_values

(** val ts_partial_cmp : coq_N -> coq_N -> comparison option **)

let ts_partial_cmp a b =
  Some (compare_values a b)

(** val ts_partial_cmp_u32 : coq_N -> coq_N -> comparison option **)

let ts_partial_cmp_u32 a b =
  Some (compare_values a b)

(** val u32_partial_cmp_ts : coq_N -> coq_N -> comparison option **)

let u32_partial_cmp_ts a b =
  Some (compare_values a b)

(** val ts_eq : coq_N -> coq_N -> bool **)

let ts_eq =
  N.eqb

(** val ts_eq_u32 : coq_N -> coq_N -> bool **)

let ts_eq_u32 =
  N.eqb

(** val u32_eq_ts : coq_N -> coq_N -> bool **)

let u32_eq_ts =
  N.eqb
