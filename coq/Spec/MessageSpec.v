(* RTMP message bodies as the specification lays them out (RTMP 1.0 sections 5.4 and 7.1), literal values,
   no reference to Gen/Consts.v:
     1 Set Chunk Size: u32 BE (most significant bit 0)      2 Abort: u32 BE chunk stream id
     3 Acknowledgement: u32 BE sequence number              4 User Control: u16 BE event type, event data
     5 Window Acknowledgement Size: u32 BE                  6 Set Peer Bandwidth: u32 BE, u8 limit (0 hard, 1 soft, 2 dynamic)
     8 audio, 9 video: opaque                               18 data (AMF0), 20 command (AMF0): name, transaction id, object, args
   User control events: 0 StreamBegin, 1 StreamEOF, 2 StreamDry, 3 SetBufferLength (stream id, ms),
     4 StreamIsRecorded, 6 PingRequest (timestamp), 7 PingResponse (timestamp); 31/32 buffer empty/ready (stream id). *)
From RML Require Import Model.Base Model.Amf0 Model.Messages Spec.Amf0Spec.

Definition spec_uc_code (e : uc_event) : N :=
  match e with
  | StreamBegin => 0 | StreamEof => 1 | StreamDry => 2 | SetBufferLength => 3 | StreamIsRecorded => 4
  | PingRequest => 6 | PingResponse => 7 | BufferEmpty => 31 | BufferReady => 32
  end.

Definition spec_layout (m : rtmp_message) : option (N * bytes) :=
  match m with
  | MUnknown tid d => Some (tid, d)
  | MSetChunkSize n => if n <=? 2147483647 then Some (1, be32 n) else None
  | MAbort sid => Some (2, be32 sid)
  | MAcknowledgement n => Some (3, be32 n)
  | MUserControl ev (Some sid) None None =>
      match ev with
      | StreamBegin | StreamEof | StreamDry | StreamIsRecorded | BufferEmpty | BufferReady => Some (4, be16 (spec_uc_code ev) ++ be32 sid)
      | _ => None
      end
  | MUserControl SetBufferLength (Some sid) (Some ms) None => Some (4, be16 3 ++ be32 sid ++ be32 ms)
  | MUserControl ev None None (Some ts) =>
      match ev with
      | PingRequest | PingResponse => Some (4, be16 (spec_uc_code ev) ++ be32 ts)
      | _ => None
      end
  | MUserControl _ _ _ _ => None
  | MWindowAcknowledgement n => Some (5, be32 n)
  | MSetPeerBandwidth n lt => Some (6, be32 n ++ [match lt with Hard => 0 | Soft => 1 | Dynamic => 2 end])
  | MAudioData d => Some (8, d)
  | MVideoData d => Some (9, d)
  | MAmf0Data vs => match ref_encode_all vs with Some b => Some (18, b) | None => None end
  | MAmf0Command name tr obj args =>
      match ref_encode_all (VString name :: VNumber tr :: obj :: args) with Some b => Some (20, b) | None => None end
  end.
