(* Reference AMF0 encoder written from the AMF0 specification (amf0-file-format-specification):
   literal marker values, no reference to Gen/Consts.v.
     number-type   = 0x00 DOUBLE (8 bytes, network order)
     boolean-type  = 0x01 U8 (0 is false, non-zero is true; an encoder writes 1)
     string-type   = 0x02 UTF-8 (U16 length, then bytes)
     object-type   = 0x03 *(UTF-8 value-type) UTF-8-empty 0x09
     null 0x05, undefined 0x06
     ecma-array    = 0x08 U32 *(UTF-8 value-type) UTF-8-empty 0x09       (decode side only)
     strict-array  = 0x0A U32 *(value-type)
   None = the value cannot be expressed (string or name longer than 65535 bytes; empty property name,
   which would read back as the object terminator). *)
From RML Require Import Model.Base Model.Amf0.

Fixpoint ref_encode (v : value) : option bytes :=
  match v with
  | VNumber b => Some (0 :: be64 b)
  | VBoolean b => Some [1; if b then 1 else 0]
  | VString s => if lenN s <=? 65535 then Some (2 :: be16 (lenN s) ++ s) else None
  | VNull => Some [5]
  | VUndefined => Some [6]
  | VObject ps =>
      let fix props (ps : list (bytes * value)) : option bytes :=
        match ps with
        | [] => Some []
        | (name, pv) :: rest =>
            if (1 <=? lenN name) && (lenN name <=? 65535) then
              match ref_encode pv, props rest with
              | Some bv, Some br => Some (be16 (lenN name) ++ name ++ bv ++ br)
              | _, _ => None
              end
            else None
        end in
      match props ps with
      | Some b => Some (3 :: b ++ [0; 0; 9])
      | None => None
      end
  | VStrictArray vs =>
      let fix elems (vs : list value) : option bytes :=
        match vs with
        | [] => Some []
        | x :: rest => match ref_encode x, elems rest with
                       | Some bx, Some br => Some (bx ++ br)
                       | _, _ => None
                       end
        end in
      match elems vs with
      | Some b => Some (10 :: be32 (lenN vs) ++ b)
      | None => None
      end
  end.

Fixpoint ref_encode_all (vs : list value) : option bytes :=
  match vs with
  | [] => Some []
  | x :: rest => match ref_encode x, ref_encode_all rest with
                 | Some bx, Some br => Some (bx ++ br)
                 | _, _ => None
                 end
  end.
