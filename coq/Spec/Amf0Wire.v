(* Specification-conformant AMF0 encodings, decode side (AMF0 specification sections 2.2-2.12):
   the syntax tree of what a conformant peer may put on the wire - including ECMA arrays with an
   arbitrary count field, any boolean byte, repeated property names and arbitrary property order -
   its literal byte encoding, and the library value it denotes.  No reference to Gen/Consts.v. *)
From RML Require Import Model.Base Model.Utf8 Model.Amf0.

Inductive wire : Type :=
| WNumber (bits : N)
| WBoolean (byte : N)                             (* 0 = false, anything else = true *)
| WString (s : bytes)
| WObject (props : list (bytes * wire))
| WEcmaArray (count : N) (props : list (bytes * wire))
| WStrictArray (ws : list wire)
| WNull
| WUndefined.

Fixpoint wire_bytes (w : wire) : bytes :=
  match w with
  | WNumber b => 0 :: be64 b
  | WBoolean b => [1; b]
  | WString s => 2 :: be16 (lenN s) ++ s
  | WNull => [5]
  | WUndefined => [6]
  | WObject ps =>
      3 :: (fix props (ps : list (bytes * wire)) : bytes :=
              match ps with
              | [] => []
              | (name, pw) :: rest => be16 (lenN name) ++ name ++ wire_bytes pw ++ props rest
              end) ps ++ [0; 0; 9]
  | WEcmaArray count ps =>
      8 :: be32 count ++
           (fix props (ps : list (bytes * wire)) : bytes :=
              match ps with
              | [] => []
              | (name, pw) :: rest => be16 (lenN name) ++ name ++ wire_bytes pw ++ props rest
              end) ps ++ [0; 0; 9]
  | WStrictArray ws =>
      10 :: be32 (lenN ws) ++
            (fix elems (ws : list wire) : bytes :=
               match ws with
               | [] => []
               | x :: rest => wire_bytes x ++ elems rest
               end) ws
  end.

Fixpoint wire_props_bytes (ps : list (bytes * wire)) : bytes :=
  match ps with
  | [] => []
  | (name, pw) :: rest => be16 (lenN name) ++ name ++ wire_bytes pw ++ wire_props_bytes rest
  end.

Fixpoint wire_elems_bytes (ws : list wire) : bytes :=
  match ws with
  | [] => []
  | x :: rest => wire_bytes x ++ wire_elems_bytes rest
  end.

(* the value denoted: objects are name -> value maps, a repeated name keeps its last value *)
Fixpoint wire_value (w : wire) : value :=
  match w with
  | WNumber b => VNumber b
  | WBoolean b => VBoolean (negb (b =? 0))
  | WString s => VString s
  | WNull => VNull
  | WUndefined => VUndefined
  | WObject ps =>
      VObject ((fix go (ps : list (bytes * wire)) (acc : list (bytes * value)) :=
                  match ps with
                  | [] => acc
                  | (name, pw) :: rest => go rest (map_insert name (wire_value pw) acc)
                  end) ps [])
  | WEcmaArray _ ps =>
      VObject ((fix go (ps : list (bytes * wire)) (acc : list (bytes * value)) :=
                  match ps with
                  | [] => acc
                  | (name, pw) :: rest => go rest (map_insert name (wire_value pw) acc)
                  end) ps [])
  | WStrictArray ws => VStrictArray (map wire_value ws)
  end.

Fixpoint wire_props_value (ps : list (bytes * wire)) (acc : list (bytes * value)) : list (bytes * value) :=
  match ps with
  | [] => acc
  | (name, pw) :: rest => wire_props_value rest (map_insert name (wire_value pw) acc)
  end.

(* what the specification requires of the fields *)
Fixpoint wire_ok (w : wire) : Prop :=
  match w with
  | WNumber b => b < 18446744073709551616
  | WBoolean b => b < 256
  | WString s => lenN s <= 65535 /\ utf8_valid s = true
  | WNull | WUndefined => True
  | WObject ps =>
      (fix go (ps : list (bytes * wire)) : Prop :=
         match ps with
         | [] => True
         | (name, pw) :: rest => (1 <= lenN name <= 65535 /\ utf8_valid name = true) /\ wire_ok pw /\ go rest
         end) ps
  | WEcmaArray count ps =>
      count < 4294967296 /\
      (fix go (ps : list (bytes * wire)) : Prop :=
         match ps with
         | [] => True
         | (name, pw) :: rest => (1 <= lenN name <= 65535 /\ utf8_valid name = true) /\ wire_ok pw /\ go rest
         end) ps
  | WStrictArray ws =>
      lenN ws < 4294967296 /\
      (fix go (ws : list wire) : Prop :=
         match ws with
         | [] => True
         | x :: rest => wire_ok x /\ go rest
         end) ws
  end.

Fixpoint wire_props_ok (ps : list (bytes * wire)) : Prop :=
  match ps with
  | [] => True
  | (name, pw) :: rest => (1 <= lenN name <= 65535 /\ utf8_valid name = true) /\ wire_ok pw /\ wire_props_ok rest
  end.

Fixpoint wire_elems_ok (ws : list wire) : Prop :=
  match ws with
  | [] => True
  | x :: rest => wire_ok x /\ wire_elems_ok rest
  end.

(* embedding of library values (encoder side) *)
Fixpoint embed (v : value) : wire :=
  match v with
  | VNumber b => WNumber b
  | VBoolean b => WBoolean (if b then 1 else 0)
  | VString s => WString s
  | VNull => WNull
  | VUndefined => WUndefined
  | VObject ps => WObject ((fix go (ps : list (bytes * value)) := match ps with [] => [] | (k, x) :: r => (k, embed x) :: go r end) ps)
  | VStrictArray vs => WStrictArray (map embed vs)
  end.

Fixpoint embed_props (ps : list (bytes * value)) : list (bytes * wire) :=
  match ps with [] => [] | (k, x) :: r => (k, embed x) :: embed_props r end.

(* well-formed library values: what the Rust types guarantee (String is valid UTF-8, HashMap keys are
   distinct, f64 has 64 bits) plus the u32 array-count range *)
Fixpoint wf_value (v : value) : Prop :=
  match v with
  | VNumber b => b < 18446744073709551616
  | VString s => utf8_valid s = true
  | VObject ps =>
      NoDup (map fst ps) /\
      (fix go (ps : list (bytes * value)) : Prop :=
         match ps with [] => True | (k, x) :: r => utf8_valid k = true /\ wf_value x /\ go r end) ps
  | VStrictArray vs =>
      lenN vs < 4294967296 /\
      (fix go (vs : list value) : Prop := match vs with [] => True | x :: r => wf_value x /\ go r end) vs
  | _ => True
  end.

Fixpoint wf_props (ps : list (bytes * value)) : Prop :=
  match ps with [] => True | (k, x) :: r => utf8_valid k = true /\ wf_value x /\ wf_props r end.
Fixpoint wf_values (vs : list value) : Prop :=
  match vs with [] => True | x :: r => wf_value x /\ wf_values r end.

(* what AMF0 can express: strings and names of at most 65535 bytes, names non-empty *)
Fixpoint expressible (v : value) : bool :=
  match v with
  | VString s => lenN s <=? 65535
  | VObject ps =>
      (fix go (ps : list (bytes * value)) : bool :=
         match ps with [] => true | (k, x) :: r => (1 <=? lenN k) && (lenN k <=? 65535) && expressible x && go r end) ps
  | VStrictArray vs =>
      (fix go (vs : list value) : bool := match vs with [] => true | x :: r => expressible x && go r end) vs
  | _ => true
  end.
Fixpoint expressible_props (ps : list (bytes * value)) : bool :=
  match ps with [] => true | (k, x) :: r => (1 <=? lenN k) && (lenN k <=? 65535) && expressible x && expressible_props r end.
Fixpoint expressible_all (vs : list value) : bool :=
  match vs with [] => true | x :: r => expressible x && expressible_all r end.
