(* Independent specification-following RTMP chunk stream DECODER (RTMP 1.0 section 5.3.1), used as the
   definition of "a specification-conformant chunk stream carrying messages ms".
   Written from the specification with literal constants; it does not mention Gen/Consts.v nor the
   library models ChunkSer/ChunkDe.  Two levels:
     - chunk records (a parsed chunk) and their semantics  : dec_chunk / sdec_run
     - bytes: emit_chunk (encoding of a record) and parse_chunk (front end)  : sdec_bytes
   Resolutions of ambiguities: DESIGN.md 10.5. *)
From RML Require Import Model.Base Model.Chunk.

(* A chunk as it appears on the wire.  Fields a format omits are 0 in the record.
   c_field is the 32-bit value of the timestamp / timestamp delta: the wire carries min(c_field, 0xFFFFFF)
   in the 3-byte field and the full value in the 4-byte extended field exactly when c_field >= 0xFFFFFF.
   For a format-3 chunk c_field is the value of the extended field it repeats (present iff the chunk
   stream's most recent timestamp field was >= 0xFFFFFF). *)
Record chunk := {
  c_fmt : N;          (* 0..3 *)
  c_csid : N;         (* 2..65599 *)
  c_form : N;         (* bytes of the basic header: 1 (csid 2..63), 2 (64..319), 3 (64..65599) *)
  c_field : N;
  c_len : N;
  c_tid : N;
  c_sid : N;
  c_payload : bytes
}.

(* ---------------------------------------------------------------- bytes of a chunk *)
Definition basic_header_bytes (fmt csid form : N) : bytes :=
  if form =? 1 then [fmt * 64 + csid]
  else if form =? 2 then [fmt * 64; csid - 64]
  else [fmt * 64 + 1; (csid - 64) mod 256; (csid - 64) / 256].

Definition emit_chunk (c : chunk) : bytes :=
  let ts24 := be24 (N.min (c_field c) 16777215) in
  let ext := if 16777215 <=? c_field c then be32 (c_field c) else [] in
  basic_header_bytes (c_fmt c) (c_csid c) (c_form c) ++
  (if c_fmt c =? 0 then ts24 ++ be24 (c_len c) ++ [c_tid c] ++ le32 (c_sid c)
   else if c_fmt c =? 1 then ts24 ++ be24 (c_len c) ++ [c_tid c]
   else if c_fmt c =? 2 then ts24
   else []) ++ ext ++ c_payload c.

Definition form_ok (csid form : N) : bool :=
  ((form =? 1) && (2 <=? csid) && (csid <=? 63)) ||
  ((form =? 2) && (64 <=? csid) && (csid <=? 319)) ||
  ((form =? 3) && (64 <=? csid) && (csid <=? 65599)).

Definition chunk_wf (c : chunk) : bool :=
  (c_fmt c <=? 3) && form_ok (c_csid c) (c_form c) && (c_field c <? 4294967296) && (c_len c <? 16777216) &&
  (c_tid c <? 256) && (c_sid c <? 4294967296) &&
  (* fields a format omits are 0 in the record *)
  (if 2 <=? c_fmt c then (c_len c =? 0) && (c_tid c =? 0) else true) && (if 1 <=? c_fmt c then c_sid c =? 0 else true).

(* ---------------------------------------------------------------- decoder state *)
(* per chunk stream: the header fields of the most recent chunk and the partial payload *)
Record cstream := {
  cs_ts : N;            (* absolute timestamp of the current / last message, mod 2^32 *)
  cs_field : N;         (* most recent timestamp field (absolute for format 0, delta otherwise) *)
  cs_len : N; cs_tid : N; cs_sid : N;
  cs_partial : bytes    (* payload received so far of the message being reassembled; [] = none in progress *)
}.

Record sdec_state := { sd_max : N; sd_cs : list (N * cstream) }.
Definition sdec_init : sdec_state := {| sd_max := 128; sd_cs := [] |}.

Definition tadd (a b : N) : N := (a + b) mod 4294967296.

Definition in_message (s : cstream) : bool := match cs_partial s with [] => false | _ => true end.

(* the header fields in force after this chunk's header, or None if the chunk is not legal here *)
Definition header_after (prev : option cstream) (c : chunk) : option cstream :=
  match prev with
  | Some s =>
    if in_message s then
      (* continuation of a message: format 3; or format 0 restating the same header *)
      if c_fmt c =? 3 then
        (* the extended field is repeated exactly when the chunk stream's last timestamp field had one;
           without it the record carries the stream's field (normal form) *)
        if (c_field c =? cs_field s) || ((16777215 <=? c_field c) && (16777215 <=? cs_field s)) then Some s else None
      else if c_fmt c =? 0 then
        if (c_field c =? cs_ts s) && (c_len c =? cs_len s) && (c_tid c =? cs_tid s) && (c_sid c =? cs_sid s)
        then Some {| cs_ts := cs_ts s; cs_field := c_field c; cs_len := cs_len s; cs_tid := cs_tid s; cs_sid := cs_sid s; cs_partial := cs_partial s |}
        else None
      else None
    else
      if c_fmt c =? 0 then
        Some {| cs_ts := c_field c; cs_field := c_field c; cs_len := c_len c; cs_tid := c_tid c; cs_sid := c_sid c; cs_partial := [] |}
      else if c_fmt c =? 1 then
        Some {| cs_ts := tadd (cs_ts s) (c_field c); cs_field := c_field c; cs_len := c_len c; cs_tid := c_tid c; cs_sid := cs_sid s; cs_partial := [] |}
      else if c_fmt c =? 2 then
        Some {| cs_ts := tadd (cs_ts s) (c_field c); cs_field := c_field c; cs_len := cs_len s; cs_tid := cs_tid s; cs_sid := cs_sid s; cs_partial := [] |}
      else
        (* format 3 starting a message: same delta as the preceding chunk (which the extended field repeats) *)
        if c_field c =? cs_field s
        then Some {| cs_ts := tadd (cs_ts s) (cs_field s); cs_field := cs_field s; cs_len := cs_len s; cs_tid := cs_tid s; cs_sid := cs_sid s; cs_partial := [] |}
        else None
  | None =>
    if c_fmt c =? 0 then
      Some {| cs_ts := c_field c; cs_field := c_field c; cs_len := c_len c; cs_tid := c_tid c; cs_sid := c_sid c; cs_partial := [] |}
    else None
  end.

(* payload bytes this chunk must carry *)
Definition expected_payload (max : N) (s : cstream) : N := N.min (cs_len s - lenN (cs_partial s)) max.

(* one chunk: new state and the message completed by it, if any *)
Definition dec_chunk (st : sdec_state) (c : chunk) : option (sdec_state * option msg) :=
  if negb (chunk_wf c) then None else
  match header_after (lookup (c_csid c) (sd_cs st)) c with
  | None => None
  | Some s =>
    if lenN (cs_partial s) <=? cs_len s then
      if lenN (c_payload c) =? expected_payload (sd_max st) s then
        let data := cs_partial s ++ c_payload c in
        if lenN data =? cs_len s then
          let s' := {| cs_ts := cs_ts s; cs_field := cs_field s; cs_len := cs_len s; cs_tid := cs_tid s; cs_sid := cs_sid s; cs_partial := [] |} in
          Some ({| sd_max := sd_max st; sd_cs := insert (c_csid c) s' (sd_cs st) |},
                Some {| m_ts := cs_ts s; m_tid := cs_tid s; m_sid := cs_sid s; m_data := data |})
        else
          let s' := {| cs_ts := cs_ts s; cs_field := cs_field s; cs_len := cs_len s; cs_tid := cs_tid s; cs_sid := cs_sid s; cs_partial := data |} in
          Some ({| sd_max := sd_max st; sd_cs := insert (c_csid c) s' (sd_cs st) |}, None)
      else None
    else None
  end.

(* protocol control message 1 (Set Chunk Size): 4 bytes, big-endian, 1..2^31-1; applies to the chunks that follow *)
Definition apply_control (st : sdec_state) (m : msg) : option sdec_state :=
  if m_tid m =? 1 then
    match take_n (m_data m) 4 with
    | None => None
    | Some (b, _) =>
      let n := of_be b in
      if (1 <=? n) && (n <=? 2147483647) then Some {| sd_max := n; sd_cs := sd_cs st |} else None
    end
  else Some st.

(* a sequence of chunk records: the messages it carries, in completion order *)
Fixpoint sdec_run (st : sdec_state) (cs : list chunk) : option (sdec_state * list msg) :=
  match cs with
  | [] => Some (st, [])
  | c :: r =>
    match dec_chunk st c with
    | None => None
    | Some (st1, om) =>
      match om with
      | None => sdec_run st1 r
      | Some m =>
        match apply_control st1 m with
        | None => None
        | Some st2 => match sdec_run st2 r with Some (st3, ms) => Some (st3, m :: ms) | None => None end
        end
      end
    end
  end.

(* ---------------------------------------------------------------- byte front end *)
Inductive parse_result := PChunk (c : chunk) (rest : bytes) | PNeedMore | PBad.

(* basic header: format, chunk stream id, form (1, 2 or 3 bytes), remaining bytes *)
Definition parse_basic (bs : bytes) : option (N * N * N * bytes) :=
  match bs with
  | [] => None
  | b0 :: r0 =>
    let fmt := b0 / 64 in
    let low := b0 mod 64 in
    if low =? 0 then match r0 with b1 :: r1 => Some (fmt, b1 + 64, 2, r1) | _ => None end
    else if low =? 1 then match r0 with b1 :: b2 :: r2 => Some (fmt, b2 * 256 + b1 + 64, 3, r2) | _ => None end
    else Some (fmt, low, 1, r0)
  end.

Definition parse_chunk (st : sdec_state) (bs : bytes) : parse_result :=
  match parse_basic bs with
  | None => PNeedMore
  | Some (fmt, csid, form, r) =>
      let prev := lookup csid (sd_cs st) in
      let nfix := if fmt =? 0 then 11 else if fmt =? 1 then 7 else if fmt =? 2 then 3 else 0 in
      match take_n r nfix with
      | None => PNeedMore
      | Some (fixed, r1) =>
        let ts24 := of_be (fst (split_at 3 fixed)) in
        let len := of_be (fst (split_at 3 (drop_n 3 fixed))) in
        let tid := of_be (fst (split_at 1 (drop_n 6 fixed))) in
        let sid := of_le (drop_n 7 fixed) in
        let has_ext :=
          if fmt =? 3 then match prev with Some s => 16777215 <=? cs_field s | None => false end
          else ts24 =? 16777215 in
        match (if has_ext then take_n r1 4 else Some ([], r1)) with
        | None => PNeedMore
        | Some (eb, r2) =>
          let field := if has_ext then of_be eb else if fmt =? 3 then (match prev with Some s => cs_field s | None => 0 end) else ts24 in
          let c0 := {| c_fmt := fmt; c_csid := csid; c_form := form; c_field := field;
                       c_len := if fmt <=? 1 then len else 0; c_tid := if fmt <=? 1 then tid else 0;
                       c_sid := if fmt =? 0 then sid else 0; c_payload := [] |} in
          match header_after prev c0 with
          | None => PBad
          | Some s =>
            match take_n r2 (expected_payload (sd_max st) s) with
            | None => PNeedMore
            | Some (payload, r3) =>
              PChunk {| c_fmt := fmt; c_csid := csid; c_form := form; c_field := field; c_len := c_len c0;
                        c_tid := c_tid c0; c_sid := c_sid c0; c_payload := payload |} r3
            end
          end
        end
      end
  end.

Inductive sdec_result := SOk (ms : list msg) | STruncated (ms : list msg) | SBad (ms : list msg) | SFuel.

(* decode a whole byte stream *)
Fixpoint sdec_bytes (fuel : nat) (st : sdec_state) (bs : bytes) (acc : list msg) : sdec_state * sdec_result :=
  match fuel with
  | O => (st, SFuel)
  | S f =>
    match bs with
    | [] => (st, SOk (rev acc))
    | _ =>
      match parse_chunk st bs with
      | PNeedMore => (st, STruncated (rev acc))
      | PBad => (st, SBad (rev acc))
      | PChunk c rest =>
        match dec_chunk st c with
        | None => (st, SBad (rev acc))
        | Some (st1, None) => sdec_bytes f st1 rest acc
        | Some (st1, Some m) =>
          match apply_control st1 m with
          | None => (st1, SBad (rev (m :: acc)))
          | Some st2 => sdec_bytes f st2 rest (m :: acc)
          end
        end
      end
    end
  end.

Definition sdec (bs : bytes) : sdec_result := snd (sdec_bytes (S (length bs)) sdec_init bs []).
