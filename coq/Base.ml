open BinNums

(** val two32 : coq_N **)

let two32 =
  Npos (Coq_xO (Coq_xO (Coq_xO (Coq_xO (Coq_xO (Coq_xO (Coq_xO (Coq_xO
    (Coq_xO (Coq_xO (Coq_xO (Coq_xO (Coq_xO (Coq_xO (Coq_xO (Coq_xO (Coq_xO
    (Coq_xO (Coq_xO (Coq_xO (Coq_xO (Coq_xO (Coq_xO (Coq_xO (Coq_xO (Coq_xO
    (Coq_xO (Coq_xO (Coq_xO (Coq_xO (Coq_xO (Coq_xO
    Coq_xH))))))))))))))))))))))))))))))))
