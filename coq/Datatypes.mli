
val snd : ('a1 * 'a2) -> 'a2

type comparison =
| Eq
| Lt
| Gt
