(* Run from build/ocaml (extraction writes into the current directory). ExtrOcamlBasic only. *)
From Coq Require Import Extraction ExtrOcamlBasic.
From RML Require Import Model.Base Model.Time Model.Utf8 Model.Amf0 Model.Chunk Model.ChunkSer Model.ChunkDe Model.Messages Model.Float Model.SessionCommon Model.Server Model.Client Model.Sha256 Model.Handshake Model.Interop
  Spec.Amf0Spec Spec.ChunkSpec Spec.MessageSpec.
Extraction Blacklist String List Int.
Separate Extraction Model.Time Model.Amf0 Model.ChunkSer Model.ChunkDe Model.Messages Model.Server Model.Client Model.Sha256 Model.Handshake Model.Interop Spec.Amf0Spec Spec.ChunkSpec Spec.MessageSpec.
