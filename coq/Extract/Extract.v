(* Run from build/ocaml (extraction writes into the current directory). ExtrOcamlBasic only. *)
From Coq Require Import Extraction ExtrOcamlBasic.
From RML Require Import Model.Base Model.Time.
Extraction Blacklist String List Int.
Separate Extraction Model.Time.
