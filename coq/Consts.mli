open BinNums

val coq_MAX_ADJACENT_VALUE : coq_N
