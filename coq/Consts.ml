open BinNums

(** val coq_MAX_ADJACENT_VALUE : coq_N **)

let coq_MAX_ADJACENT_VALUE =
  Npos (Coq_xI (Coq_xI (Coq_xI (Coq_xI (Coq_xI (Coq_xI (Coq_xI (Coq_xI
    (Coq_xI (Coq_xI (Coq_xI (Coq_xI (Coq_xI (Coq_xI (Coq_xI (Coq_xI (Coq_xI
    (Coq_xI (Coq_xI (Coq_xI (Coq_xI (Coq_xI (Coq_xI (Coq_xI (Coq_xI (Coq_xI
    (Coq_xI (Coq_xI (Coq_xI (Coq_xI Coq_xH))))))))))))))))))))))))))))))
