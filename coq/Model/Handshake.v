(* Model of rtmp/src/handshake/mod.rs (Handshake). The HMAC function is a parameter (Section variable); the random
   fill is an input stream (hook H1 semantics: bytes are taken from the front, zeros once it is exhausted). *)
From Coq Require Import String.
From RML Require Import Model.Base Model.Chunk Model.SessionCommon Gen.Consts.
Local Open Scope string_scope.
Local Open Scope list_scope.
Local Open Scope N_scope.

Inductive role := RServer | RClient.
Inductive hstage := NeedToSendP0AndP1 | WaitingForPacket0 | WaitingForPacket1 | WaitingForPacket2 | Complete.
Inductive herr := BadVersionId | HandshakeAlreadyCompleted.

Definition GENUINE_FMS : bytes := str "Genuine Adobe Flash Media Server 001".
Definition GENUINE_FP : bytes := str "Genuine Adobe Flash Player 001".
Definition ADOBE_VERSION : bytes := [128; 0; 7; 2].

Record hs := { h_stage : hstage; h_role : role; h_buf : bytes; h_sent_p1 : bytes; h_rand : bytes }.

Definition hs_new (r : role) (rand : bytes) : hs :=
  {| h_stage := NeedToSendP0AndP1; h_role := r; h_buf := []; h_sent_p1 := repeat 0 (N.to_nat HS_PACKET_SIZE); h_rand := rand |}.

(* n bytes of the random source (zeros once exhausted) and the rest *)
Fixpoint take_rand (n : nat) (rand : bytes) : bytes * bytes :=
  match n with
  | O => ([], rand)
  | S n' => match rand with
            | [] => let '(a, r) := take_rand n' [] in (0 :: a, r)
            | x :: rest => let '(a, r) := take_rand n' rest in (x :: a, r)
            end
  end.

Definition sum4 (p : bytes) (at_ : nat) : N :=
  nth at_ p 0 + nth (S at_) p 0 + nth (S (S at_)) p 0 + nth (S (S (S at_))) p 0.

(* fn get_client_digest_offset / get_server_digest_offset *)
Definition client_digest_offset (p : bytes) : N := sum4 p 8 mod HS_OFFSET_MOD + HS_CLIENT_OFFSET_BASE.
Definition server_digest_offset (p : bytes) : N := sum4 p 772 mod HS_SERVER_OFFSET_MOD + HS_SERVER_OFFSET_BASE.

(* fn get_message_parts: before, digest, after *)
Definition message_parts (p : bytes) (off : N) : bytes * bytes * bytes :=
  let o := N.to_nat off in (firstn o p, firstn 32 (skipn o p), skipn (o + 32) p).

Section WithHmac.
  Variable hmac : bytes -> bytes -> bytes.       (* hmac key message *)

  (* pub fn generate_outbound_p0_and_p1 *)
  Definition gen_p0p1 (h : hs) : bytes * hs :=
    let '(fill, rand') := take_rand 1524 (h_rand h) in
    let p := firstn 4 (h_sent_p1 h) ++ ADOBE_VERSION ++ fill ++ skipn 1532 (h_sent_p1 h) in
    let '(off, key) := match h_role h with
                       | RServer => (server_digest_offset p, GENUINE_FMS)
                       | RClient => (client_digest_offset p, GENUINE_FP)
                       end in
    let '(before, _, after) := message_parts p off in
    let digest := hmac key (before ++ after) in
    let p1 := before ++ digest ++ after in
    (HS_VERSION_BYTE :: p1,
     {| h_stage := WaitingForPacket0; h_role := h_role h; h_buf := h_buf h; h_sent_p1 := p1; h_rand := rand' |}).

  (* fn get_digest_for_received_packet *)
  Definition find_digest (p key : bytes) : option bytes :=
    let '(b1, d1, a1) := message_parts p (client_digest_offset p) in
    let '(b2, d2, a2) := message_parts p (server_digest_offset p) in
    if bytes_eqb (hmac key (b1 ++ a1)) d1 then Some d1
    else if bytes_eqb (hmac key (b2 ++ a2)) d2 then Some d2
    else None.

  Inductive step_out := SProgress (response : bytes) | SDone (remaining : bytes) | SFail (e : herr).

  Definition set_stage_buf (h : hs) (s : hstage) (b : bytes) (rand : bytes) : hs :=
    {| h_stage := s; h_role := h_role h; h_buf := b; h_sent_p1 := h_sent_p1 h; h_rand := rand |}.

  (* one iteration of the loop in process_bytes *)
  Definition hs_step (h : hs) : hs * step_out :=
    match h_stage h with
    | NeedToSendP0AndP1 => let '(out, h') := gen_p0p1 h in (h', SProgress out)
    | WaitingForPacket0 =>
      match h_buf h with
      | [] => (h, SProgress [])
      | b :: rest =>
        if b =? HS_VERSION_BYTE then (set_stage_buf h WaitingForPacket1 rest (h_rand h), SProgress [])
        else (set_stage_buf h WaitingForPacket0 rest (h_rand h), SFail BadVersionId)
      end
    | WaitingForPacket1 =>
      if lenN (h_buf h) <? HS_PACKET_SIZE then (h, SProgress [])
      else
        let p1 := firstn (N.to_nat HS_PACKET_SIZE) (h_buf h) in
        let rest := skipn (N.to_nat HS_PACKET_SIZE) (h_buf h) in
        let p1_key := match h_role h with RServer => GENUINE_FP | RClient => GENUINE_FMS end in
        match find_digest p1 p1_key with
        | None => (set_stage_buf h WaitingForPacket2 rest (h_rand h), SProgress p1)        (* original handshake: echo *)
        | Some digest =>
          let '(fill, rand') := take_rand 1536 (h_rand h) in
          let p2_key := (match h_role h with RServer => GENUINE_FMS | RClient => GENUINE_FP end) ++ HS_RANDOM_CRUD in
          let hmac1 := hmac p2_key digest in
          let body := firstn 1504 fill in
          let hmac2 := hmac hmac1 body in
          (set_stage_buf h WaitingForPacket2 rest rand', SProgress (body ++ hmac2))
        end
    | WaitingForPacket2 =>
      if lenN (h_buf h) <? HS_PACKET_SIZE then (h, SProgress [])
      else (set_stage_buf h Complete [] (h_rand h), SDone (skipn (N.to_nat HS_PACKET_SIZE) (h_buf h)))
    | Complete => (h, SFail HandshakeAlreadyCompleted)
    end.

  Inductive hs_result := HInProgress (response : bytes) | HCompleted (response remaining : bytes) | HError (e : herr).

  Definition stage_eqb (a b : hstage) : bool :=
    match a, b with
    | NeedToSendP0AndP1, NeedToSendP0AndP1 | WaitingForPacket0, WaitingForPacket0 | WaitingForPacket1, WaitingForPacket1
    | WaitingForPacket2, WaitingForPacket2 | Complete, Complete => true
    | _, _ => false
    end.

  Fixpoint hs_loop (fuel : nat) (h : hs) (resp left : bytes) : hs * hs_result :=
    match fuel with
    | O => (h, HInProgress resp)
    | S f =>
      let starting := h_stage h in
      match hs_step h with
      | (h', SFail e) => (h', HError e)
      | (h', SProgress out) =>
        if stage_eqb (h_stage h') Complete || stage_eqb starting (h_stage h') then
          (h', if stage_eqb (h_stage h') Complete then HCompleted (resp ++ out) left else HInProgress (resp ++ out))
        else hs_loop f h' (resp ++ out) left
      | (h', SDone rem) =>
        if stage_eqb (h_stage h') Complete || stage_eqb starting (h_stage h') then
          (h', if stage_eqb (h_stage h') Complete then HCompleted resp (left ++ rem) else HInProgress resp)
        else hs_loop f h' resp (left ++ rem)
      end
    end.

  (* pub fn process_bytes *)
  Definition process_bytes (h : hs) (data : bytes) : hs * hs_result :=
    let h1 := {| h_stage := h_stage h; h_role := h_role h; h_buf := h_buf h ++ data; h_sent_p1 := h_sent_p1 h; h_rand := h_rand h |} in
    hs_loop 6 h1 [] [].
End WithHmac.
