(* Model of a ClientSession and a ServerSession exchanging their output bytes through two pipes, exactly as the harness
   (harness/src/c_interop.rs) wires the real ones: the server application accepts every request; deliveries take at most
   n pending bytes in one handle_input call; flush alternates deliveries of given sizes until both pipes are empty. *)
From RML Require Import Model.Base Model.Chunk Model.SessionCommon Model.Server Model.Client.

Record world := {
  w_c : client; w_s : server;
  w_c2s : bytes; w_s2c : bytes;          (* bytes written by one side and not yet delivered to the other *)
  w_play : option N;                     (* stream id of the play request the server accepted last *)
  w_clock : N
}.

(* what a scenario step did: the calls made, in order *)
Inductive trace :=
| TClientApi (r : creply) | TServerApi (r : reply) | TClientIn (r : creply) | TServerIn (r : reply) | TAccept (r : reply)
| TFlushCap | TNothing.

Definition cpackets (r : creply) : bytes :=
  match r with COk rs => flat_map (fun x => match x with CPacket b _ => b | _ => [] end) rs | _ => [] end.
Definition spackets (r : reply) : bytes :=
  match r with ROk rs => flat_map (fun x => match x with SPacket b _ => b | _ => [] end) rs | _ => [] end.

Definition set_c (w : world) (c : client) (out : bytes) : world :=
  {| w_c := c; w_s := w_s w; w_c2s := w_c2s w ++ out; w_s2c := w_s2c w; w_play := w_play w; w_clock := w_clock w |}.
Definition set_s (w : world) (s : server) (out : bytes) : world :=
  {| w_c := w_c w; w_s := s; w_c2s := w_c2s w; w_s2c := w_s2c w ++ out; w_play := w_play w; w_clock := w_clock w |}.

Definition client_api (w : world) (call : ccall) : world * list trace :=
  let '(c, r) := call in (set_c w c (cpackets r), [TClientApi r]).
Definition server_api (w : world) (call : Server.call) : world * list trace :=
  let '(s, r) := call in (set_s w s (spackets r), [TServerApi r]).

(* the server application: accept every request raised by a handle_input call, in order *)
Fixpoint accept_all (w : world) (rs : list sresult) : world * list trace :=
  match rs with
  | [] => (w, [])
  | r :: rest =>
    let req :=
      match r with
      | SEvent (EvConnectionRequested id _) => Some (id, None)
      | SEvent (EvPublishRequested id _ _ _) => Some (id, None)
      | SEvent (EvPlayRequested id _ _ _ _ _ sid) => Some (id, Some sid)
      | _ => None
      end in
    match req with
    | None => accept_all w rest
    | Some (id, osid) =>
      let w0 := match osid with
                | Some sid => {| w_c := w_c w; w_s := w_s w; w_c2s := w_c2s w; w_s2c := w_s2c w; w_play := Some sid; w_clock := w_clock w |}
                | None => w end in
      let '(s, rep) := server_accept (w_s w0) id (w_clock w0) in
      let '(w2, tr) := accept_all (set_s w0 s (spackets rep)) rest in
      (w2, TAccept rep :: tr)
    end
  end.

Definition to_server (w : world) (n : N) : world * list trace :=
  let '(piece, rest) := split_at n (w_c2s w) in
  match piece with
  | [] => (w, [])
  | _ =>
    let '(s, rep) := server_handle_input (w_s w) piece (w_clock w) in
    let w1 := {| w_c := w_c w; w_s := s; w_c2s := rest; w_s2c := w_s2c w ++ spackets rep; w_play := w_play w; w_clock := w_clock w |} in
    let '(w2, tr) := accept_all w1 (match rep with ROk rs => rs | _ => [] end) in
    (w2, TServerIn rep :: tr)
  end.

Definition to_client (w : world) (n : N) : world * list trace :=
  let '(piece, rest) := split_at n (w_s2c w) in
  match piece with
  | [] => (w, [])
  | _ =>
    let '(c, rep) := client_handle_input (w_c w) piece (w_clock w) in
    ({| w_c := c; w_s := w_s w; w_c2s := w_c2s w ++ cpackets rep; w_s2c := rest; w_play := w_play w; w_clock := w_clock w |}, [TClientIn rep])
  end.

Definition nth_size (sizes : list N) (i : N) : N :=
  match sizes with
  | [] => 1
  | _ => N.max 1 (nth (N.to_nat (i mod lenN sizes)) sizes 1)
  end.

Definition flush_cap : N := 20000.

(* one round per unit of fuel: a delivery to the server if bytes are pending, then one to the client *)
Fixpoint flush (fuel : nat) (w : world) (sizes : list N) (i : N) : world * list trace :=
  match fuel with
  | O => (w, [TFlushCap])
  | S f =>
    match w_c2s w, w_s2c w with
    | [], [] => (w, [])
    | _, _ =>
      if flush_cap <=? i then (w, [TFlushCap]) else
      let '(w1, t1, i1) := match w_c2s w with [] => (w, [], i) | _ => let '(w', t) := to_server w (nth_size sizes i) in (w', t, i + 1) end in
      let '(w2, t2, i2) := match w_s2c w1 with [] => (w1, [], i1) | _ => let '(w', t) := to_client w1 (nth_size sizes i1) in (w', t, i1 + 1) end in
      let '(w3, t3) := flush f w2 sizes i2 in
      (w3, t1 ++ t2 ++ t3)
    end
  end.

Inductive iop :=
| IClk (n : N)
| IConnect (app : bytes) | IPublish (key : bytes) (t : publish_type) | IPlay (key : bytes) | IStopPub | IStopPlay
| ICMeta (md : metadata) | ICMedia (video : bool) (data : bytes) (ts : N) (drop : bool)
| ISMeta (md : metadata) | ISMedia (video : bool) (data : bytes) (ts : N) (drop : bool) | ISFinish
| IDeliver (c2s : bool) (n : N) | IFlush (sizes : list N).

Definition play_sid (w : world) : N := match w_play w with Some s => s | None => 0 end.

Definition step (w : world) (op : iop) : world * list trace :=
  match op with
  | IClk n => ({| w_c := w_c w; w_s := w_s w; w_c2s := w_c2s w; w_s2c := w_s2c w; w_play := w_play w; w_clock := n |}, [TNothing])
  | IConnect app => client_api w (client_request_connection (w_c w) app (w_clock w))
  | IPublish key t => client_api w (client_request_publishing (w_c w) key t (w_clock w))
  | IPlay key => client_api w (client_request_playback (w_c w) key (w_clock w))
  | IStopPub => client_api w (client_stop_publishing (w_c w) (w_clock w))
  | IStopPlay => client_api w (client_stop_playback (w_c w) (w_clock w))
  | ICMeta md => client_api w (client_publish_metadata (w_c w) md (w_clock w))
  | ICMedia video data ts drop => client_api w (client_publish_media video (w_c w) data ts drop)
  | ISMeta md => server_api w (server_send_metadata (w_s w) (play_sid w) md (w_clock w))
  | ISMedia video data ts drop =>
      server_api w ((if video then server_send_video else server_send_audio) (w_s w) (play_sid w) data ts drop)
  | ISFinish => server_api w (server_finish_playing (w_s w) (play_sid w) (w_clock w))
  | IDeliver c2s n =>
      let '(w', t) := if c2s then to_server w n else to_client w n in
      (w', match t with [] => [TNothing] | _ => t end)
  | IFlush sizes =>
      let '(w', t) := flush (N.to_nat flush_cap) w sizes 0 in
      (w', match t with [] => [TNothing] | _ => t end)
  end.

(* both sessions created; None if the server configuration is refused *)
Definition world_new (cc : cconfig) (sc : config) (clock : N) : option world * list trace :=
  let '(s, rep) := server_new sc clock in
  match rep with
  | ROk _ => (Some {| w_c := client_new cc; w_s := s; w_c2s := []; w_s2c := spackets rep; w_play := None; w_clock := clock |},
              [TClientApi (COk []); TServerApi rep])
  | _ => (None, [TClientApi (COk []); TServerApi rep])
  end.

Fixpoint run (w : world) (ops : list iop) : world * list (list trace) :=
  match ops with
  | [] => (w, [])
  | op :: r => let '(w1, t) := step w op in let '(w2, ts) := run w1 r in (w2, t :: ts)
  end.
