(* Shared conventions of the executable model (DESIGN.md section 4). *)
From Coq Require Export NArith List Bool.
Export ListNotations.
Open Scope N_scope.

Definition byte := N.           (* always < 256 by well-formedness predicates *)
Definition bytes := list N.

Definition two32 : N := 4294967296.
Definition two31 : N := 2147483648.
Definition two24 : N := 16777216.
Definition two16 : N := 65536.

(* Outcome of an operation of the real code: value, error value, panic (with site id), fuel exhausted. *)
Inductive outcome (A E : Type) : Type :=
| Ok (a : A)
| Err (e : E)
| Panic (site : N)
| OutOfFuel.
Arguments Ok {A E} a.
Arguments Err {A E} e.
Arguments Panic {A E} site.
Arguments OutOfFuel {A E}.

Definition obind {A B E} (x : outcome A E) (f : A -> outcome B E) : outcome B E :=
  match x with
  | Ok a => f a
  | Err e => Err e
  | Panic s => Panic s
  | OutOfFuel => OutOfFuel
  end.

Definition lenN {A} (l : list A) : N := N.of_nat (length l).

(* big-endian / little-endian fixed width codecs on N *)
Definition be16 (n : N) : bytes := [ (n / 256) mod 256; n mod 256 ].
Definition be24 (n : N) : bytes := [ (n / 65536) mod 256; (n / 256) mod 256; n mod 256 ].
Definition be32 (n : N) : bytes := [ (n / 16777216) mod 256; (n / 65536) mod 256; (n / 256) mod 256; n mod 256 ].
Definition le32 (n : N) : bytes := [ n mod 256; (n / 256) mod 256; (n / 65536) mod 256; (n / 16777216) mod 256 ].

Fixpoint be_val (l : bytes) (acc : N) : N :=
  match l with
  | [] => acc
  | b :: r => be_val r (acc * 256 + b)
  end.
Definition of_be (l : bytes) : N := be_val l 0.
Definition of_le (l : bytes) : N := be_val (rev l) 0.

Fixpoint be_n (k : nat) (n : N) : bytes :=
  match k with
  | O => []
  | S k' => be_n k' (n / 256) ++ [n mod 256]
  end.
Definition be64 (n : N) : bytes := be_n 8 n.

Definition is_byte (b : N) : bool := b <? 256.
Definition all_bytes (l : bytes) : bool := forallb is_byte l.

(* read exactly n bytes (read_exact / read_uN): None = io::Error (UnexpectedEof) *)
Fixpoint take_n (l : bytes) (n : N) : option (bytes * bytes) :=
  if n =? 0 then Some ([], l)
  else match l with
       | [] => None
       | x :: r => match take_n r (n - 1) with
                   | Some (a, b) => Some (x :: a, b)
                   | None => None
                   end
       end.

