(* Model of rtmp/src/time.rs : RtmpTimestamp arithmetic and ordering on u32 values.
   Values are N < 2^32; wrap-around is explicit. *)
From RML Require Import Model.Base Gen.Consts.

Definition add_values (a b : N) : N := (a + b) mod two32.          (* Wrapping(a) + Wrapping(b) *)
Definition sub_values (a b : N) : N := (a + two32 - b) mod two32.  (* Wrapping(a) - Wrapping(b), a b < 2^32 *)

(* fn compare(value1, value2) *)
Definition compare_values (v1 v2 : N) : comparison :=
  let max_val := N.max v1 v2 in
  let min_val := N.min v1 v2 in
  let difference := max_val - min_val in     (* never underflows: max >= min *)
  if difference <=? MAX_ADJACENT_VALUE then N.compare v1 v2 else N.compare v2 v1.

(* The checked version of the subtraction in [compare] (DESIGN 4.2): Some d, or None = panic *)
Definition compare_difference_checked (v1 v2 : N) : option N :=
  let max_val := N.max v1 v2 in
  let min_val := N.min v1 v2 in
  if min_val <=? max_val then Some (max_val - min_val) else None.

(* The operator families of the public API. *)
Definition ts_cmp (a b : N) : comparison := compare_values a b.               (* Ord::cmp *)
Definition ts_partial_cmp (a b : N) : option comparison := Some (compare_values a b).
Definition ts_partial_cmp_u32 (a b : N) : option comparison := Some (compare_values a b).  (* RtmpTimestamp vs u32 *)
Definition u32_partial_cmp_ts (a b : N) : option comparison := Some (compare_values a b).  (* u32 vs RtmpTimestamp *)
Definition ts_eq (a b : N) : bool := a =? b.
Definition ts_eq_u32 (a b : N) : bool := a =? b.
Definition u32_eq_ts (a b : N) : bool := a =? b.
