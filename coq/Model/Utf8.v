(* Acceptance rules of String::from_utf8 (Rust std): well-formed UTF-8 per Unicode table 3-7:
   shortest form, no surrogates, <= U+10FFFF. *)
From RML Require Import Model.Base.

Definition in_range (lo hi b : N) : bool := (lo <=? b) && (b <=? hi).
Definition cont (b : N) : bool := in_range 128 191 b.

(* Structural on the list: each step consumes 1-4 bytes. *)
Fixpoint utf8_valid_fuel (fuel : nat) (l : bytes) : bool :=
  match fuel with
  | O => match l with [] => true | _ => false end
  | S f =>
    match l with
    | [] => true
    | b0 :: r0 =>
      if b0 <? 128 then utf8_valid_fuel f r0
      else if in_range 194 223 b0 then
        match r0 with b1 :: r1 => cont b1 && utf8_valid_fuel f r1 | _ => false end
      else if b0 =? 224 then
        match r0 with b1 :: b2 :: r2 => in_range 160 191 b1 && cont b2 && utf8_valid_fuel f r2 | _ => false end
      else if in_range 225 236 b0 || in_range 238 239 b0 then
        match r0 with b1 :: b2 :: r2 => cont b1 && cont b2 && utf8_valid_fuel f r2 | _ => false end
      else if b0 =? 237 then
        match r0 with b1 :: b2 :: r2 => in_range 128 159 b1 && cont b2 && utf8_valid_fuel f r2 | _ => false end
      else if b0 =? 240 then
        match r0 with b1 :: b2 :: b3 :: r3 => in_range 144 191 b1 && cont b2 && cont b3 && utf8_valid_fuel f r3 | _ => false end
      else if in_range 241 243 b0 then
        match r0 with b1 :: b2 :: b3 :: r3 => cont b1 && cont b2 && cont b3 && utf8_valid_fuel f r3 | _ => false end
      else if b0 =? 244 then
        match r0 with b1 :: b2 :: b3 :: r3 => in_range 128 143 b1 && cont b2 && cont b3 && utf8_valid_fuel f r3 | _ => false end
      else false
    end
  end.

Definition utf8_valid (l : bytes) : bool := utf8_valid_fuel (length l) l.
