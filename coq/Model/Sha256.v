(* SHA-256 (FIPS 180-4) and HMAC-SHA256 (RFC 2104) over byte lists, words as N < 2^32.
   Executable reference used to instantiate the handshake model; validated against published vectors
   (Proofs/HandshakeProofs.v) and against the hmac / sha2 crates in the correspondence check. *)
From RML Require Import Model.Base.

Definition w32 : N := 4294967296.
Definition add32 (a b : N) : N := (a + b) mod w32.
Definition rotr (n x : N) : N := N.lor (N.shiftr x n) ((N.shiftl x (32 - n)) mod w32).
Definition shr (n x : N) : N := N.shiftr x n.
Definition not32 (x : N) : N := w32 - 1 - x.

Definition ch (x y z : N) : N := N.lxor (N.land x y) (N.land (not32 x) z).
Definition maj (x y z : N) : N := N.lxor (N.lxor (N.land x y) (N.land x z)) (N.land y z).
Definition bsig0 (x : N) : N := N.lxor (N.lxor (rotr 2 x) (rotr 13 x)) (rotr 22 x).
Definition bsig1 (x : N) : N := N.lxor (N.lxor (rotr 6 x) (rotr 11 x)) (rotr 25 x).
Definition ssig0 (x : N) : N := N.lxor (N.lxor (rotr 7 x) (rotr 18 x)) (shr 3 x).
Definition ssig1 (x : N) : N := N.lxor (N.lxor (rotr 17 x) (rotr 19 x)) (shr 10 x).

Definition K256 : list N :=
  [1116352408; 1899447441; 3049323471; 3921009573; 961987163; 1508970993; 2453635748; 2870763221;
   3624381080; 310598401; 607225278; 1426881987; 1925078388; 2162078206; 2614888103; 3248222580;
   3835390401; 4022224774; 264347078; 604807628; 770255983; 1249150122; 1555081692; 1996064986;
   2554220882; 2821834349; 2952996808; 3210313671; 3336571891; 3584528711; 113926993; 338241895;
   666307205; 773529912; 1294757372; 1396182291; 1695183700; 1986661051; 2177026350; 2456956037;
   2730485921; 2820302411; 3259730800; 3345764771; 3516065817; 3600352804; 4094571909; 275423344;
   430227734; 506948616; 659060556; 883997877; 958139571; 1322822218; 1537002063; 1747873779;
   1955562222; 2024104815; 2227730452; 2361852424; 2428436474; 2756734187; 3204031479; 3329325298].

Definition H256 : list N :=
  [1779033703; 3144134277; 1013904242; 2773480762; 1359893119; 2600822924; 528734635; 1541459225].

(* message schedule: w is kept most-recent-first; extend from 16 to 64 words *)
Fixpoint extend (n : nat) (w : list N) : list N :=
  match n with
  | O => w
  | S n' =>
    match w with
    | w1 :: w2 :: _ :: _ :: _ :: _ :: w7 :: _ :: _ :: _ :: _ :: _ :: _ :: _ :: w15 :: w16 :: _ =>
      extend n' (add32 (add32 (ssig1 w2) w7) (add32 (ssig0 w15) w16) :: w)
    | _ => w
    end
  end.

Definition round (st : list N) (k w : N) : list N :=
  match st with
  | [a; b; c; d; e; f; g; h] =>
    let t1 := add32 (add32 (add32 h (bsig1 e)) (add32 (ch e f g) k)) w in
    let t2 := add32 (bsig0 a) (maj a b c) in
    [add32 t1 t2; a; b; c; add32 d t1; e; f; g]
  | _ => st
  end.

Fixpoint rounds (st : list N) (ks ws : list N) : list N :=
  match ks, ws with
  | k :: ks', w :: ws' => rounds (round st k w) ks' ws'
  | _, _ => st
  end.

Fixpoint words_of (l : bytes) : list N :=
  match l with
  | a :: b :: c :: d :: r => (((a * 256 + b) * 256 + c) * 256 + d) :: words_of r
  | _ => []
  end.

Definition compress (h : list N) (block : bytes) : list N :=
  let w16 := words_of block in
  let w64 := rev (extend 48 (rev w16)) in
  let out := rounds h K256 w64 in
  map (fun p => add32 (fst p) (snd p)) (combine h out).

Fixpoint blocks (fuel : nat) (h : list N) (l : bytes) : list N :=
  match fuel with
  | O => h
  | S f =>
    match l with
    | [] => h
    | _ => let '(b, r) := (firstn 64 l, skipn 64 l) in blocks f (compress h b) r
    end
  end.

Definition pad (l : bytes) : bytes :=
  let n := length l in
  let zeros := Nat.modulo (119 - Nat.modulo n 64) 64 in
  l ++ [128] ++ repeat 0 zeros ++ be64 (N.of_nat n * 8).

Definition sha256 (l : bytes) : bytes :=
  let p := pad l in
  concat (map be32 (blocks (S (Nat.div (length p) 64)) H256 p)).

Definition hmac_sha256 (key msg : bytes) : bytes :=
  let k0 := if Nat.ltb 64 (length key) then sha256 key else key in
  let k := k0 ++ repeat 0 (Nat.sub 64 (length k0)) in
  let ipad := map (fun b => N.lxor b 54) k in
  let opad := map (fun b => N.lxor b 92) k in
  sha256 (opad ++ sha256 (ipad ++ msg)).
