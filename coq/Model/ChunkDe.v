(* Model of rtmp/src/chunk_io/deserializer.rs (ChunkDeserializer): the staged parser as written. *)
From RML Require Import Model.Base Model.Time Model.Chunk Gen.Consts.

Record dhdr := { d_csid : N; d_ts : N; d_field : N; d_len : N; d_tid : N; d_sid : N }.
Definition dhdr_new : dhdr := {| d_csid := 0; d_ts := 0; d_field := 0; d_len := 0; d_tid := 0; d_sid := 0 |}.

Inductive stage := StCsid | StInitialTimestamp | StMessageLength | StMessageTypeId | StMessageStreamId
                 | StExtendedTimestamp | StMessagePayload.

Record dstate := {
  d_max : N;                          (* max_chunk_size *)
  d_fmt : fmt;                        (* current_header_format *)
  d_cur : dhdr;                       (* current_header *)
  d_stage : stage;                    (* current_stage *)
  d_buf : bytes;                      (* buffer *)
  d_prev : list (N * dhdr);           (* previous_headers *)
  d_partial : list (N * bytes)        (* partial_payloads *)
}.

Definition de_init : dstate :=
  {| d_max := DE_INITIAL_MAX_CHUNK_SIZE; d_fmt := Full; d_cur := dhdr_new; d_stage := StCsid; d_buf := [];
     d_prev := []; d_partial := [] |}.

Inductive de_err := NoPreviousChunkOnStream (csid : N) | DeInvalidMaxChunkSize (n : N) | InvalidMessageLength (csid len : N).

Inductive stage_result := Success | NotEnoughBytes.

Definition set_stage (st : dstate) (s : stage) : dstate :=
  {| d_max := d_max st; d_fmt := d_fmt st; d_cur := d_cur st; d_stage := s; d_buf := d_buf st; d_prev := d_prev st; d_partial := d_partial st |}.
Definition set_buf (st : dstate) (b : bytes) : dstate :=
  {| d_max := d_max st; d_fmt := d_fmt st; d_cur := d_cur st; d_stage := d_stage st; d_buf := b; d_prev := d_prev st; d_partial := d_partial st |}.
Definition set_cur (st : dstate) (h : dhdr) : dstate :=
  {| d_max := d_max st; d_fmt := d_fmt st; d_cur := h; d_stage := d_stage st; d_buf := d_buf st; d_prev := d_prev st; d_partial := d_partial st |}.
Definition set_fmt (st : dstate) (f : fmt) : dstate :=
  {| d_max := d_max st; d_fmt := f; d_cur := d_cur st; d_stage := d_stage st; d_buf := d_buf st; d_prev := d_prev st; d_partial := d_partial st |}.
Definition set_prev (st : dstate) (p : list (N * dhdr)) : dstate :=
  {| d_max := d_max st; d_fmt := d_fmt st; d_cur := d_cur st; d_stage := d_stage st; d_buf := d_buf st; d_prev := p; d_partial := d_partial st |}.
Definition set_partial (st : dstate) (p : list (N * bytes)) : dstate :=
  {| d_max := d_max st; d_fmt := d_fmt st; d_cur := d_cur st; d_stage := d_stage st; d_buf := d_buf st; d_prev := d_prev st; d_partial := p |}.

Definition hdr_with_ts (h : dhdr) (ts : N) : dhdr :=
  {| d_csid := d_csid h; d_ts := ts; d_field := d_field h; d_len := d_len h; d_tid := d_tid h; d_sid := d_sid h |}.
Definition hdr_with_field (h : dhdr) (f : N) : dhdr :=
  {| d_csid := d_csid h; d_ts := d_ts h; d_field := f; d_len := d_len h; d_tid := d_tid h; d_sid := d_sid h |}.
Definition hdr_with_len (h : dhdr) (l : N) : dhdr :=
  {| d_csid := d_csid h; d_ts := d_ts h; d_field := d_field h; d_len := l; d_tid := d_tid h; d_sid := d_sid h |}.
Definition hdr_with_tid (h : dhdr) (t : N) : dhdr :=
  {| d_csid := d_csid h; d_ts := d_ts h; d_field := d_field h; d_len := d_len h; d_tid := t; d_sid := d_sid h |}.
Definition hdr_with_sid (h : dhdr) (s : N) : dhdr :=
  {| d_csid := d_csid h; d_ts := d_ts h; d_field := d_field h; d_len := d_len h; d_tid := d_tid h; d_sid := s |}.

(* fn get_format(byte) / fn get_csid(buffer) *)
Definition get_format (b : N) : fmt :=
  match b / 64 with 0 => Full | 1 => NoSid | 2 => DeltaOnly | _ => Empty end.
Definition get_csid (buf : bytes) : option (N * N) :=      (* Some (csid, next_index) | None = NotEnoughBytes *)
  match buf with
  | [] => None
  | b0 :: r =>
    match b0 mod 64 with
    | 0 => match r with b1 :: _ => Some (b1 + 64, 2) | [] => None end
    | 1 => match r with b1 :: b2 :: _ => Some (b2 * 256 + b1 + 64, 3) | _ => None end
    | x => Some (x, 1)
    end
  end.

Definition partial_len (st : dstate) : N :=      (* fn current_partial_payload_length *)
  match lookup (d_csid (d_cur st)) (d_partial st) with Some p => lenN p | None => 0 end.

Definition res := outcome (stage_result * dstate * option msg) de_err.

(* fn form_header *)
Definition form_header (st : dstate) : res :=
  match d_buf st with
  | [] => Ok (NotEnoughBytes, st, None)
  | b0 :: _ =>
    let st1 := set_fmt st (get_format b0) in
    match get_csid (d_buf st) with
    | None => Ok (NotEnoughBytes, st, None)     (* the Rust code has already written current_header_format here; the field is
                                                    overwritten by the next form_header before anything reads it, so the model
                                                    leaves the state untouched (keeps "not enough bytes" a no-op) *)
    | Some (csid, next) =>
      match d_fmt st1 with
      | Full =>
        let h := {| d_csid := csid; d_ts := 0; d_field := 0; d_len := 0; d_tid := 0; d_sid := 0 |} in
        Ok (Success, set_stage (set_buf (set_cur st1 h) (drop_n next (d_buf st))) StInitialTimestamp, None)
      | _ =>
        match lookup csid (d_prev st1) with
        | None => Err (NoPreviousChunkOnStream csid)
        | Some h =>
          Ok (Success, set_stage (set_buf (set_cur (set_prev st1 (remove csid (d_prev st1))) h)
                                          (drop_n next (d_buf st))) StInitialTimestamp, None)
        end
      end
    end
  end.

(* fn get_initial_timestamp *)
Definition get_initial_timestamp (st : dstate) : res :=
  match d_fmt st with
  | Empty =>
    let cur := d_cur st in
    let cur' := if partial_len st =? 0 then hdr_with_ts cur (add_values (d_ts cur) (d_field cur)) else cur in
    Ok (Success, set_stage (set_cur st cur') StMessageLength, None)
  | f =>
    match take_n (d_buf st) 3 with
    | None => Ok (NotEnoughBytes, st, None)
    | Some (b, rest) =>
      let timestamp := of_be b in
      let cur := d_cur st in
      let ts := match f with Full => timestamp | _ => add_values (d_ts cur) timestamp end in
      let cur' := hdr_with_field (hdr_with_ts cur ts) timestamp in
      Ok (Success, set_stage (set_buf (set_cur st cur') rest) StMessageLength, None)
    end
  end.

(* fn get_message_length *)
Definition get_message_length (st : dstate) : res :=
  match d_fmt st with
  | DeltaOnly | Empty => Ok (Success, set_stage st StMessageTypeId, None)
  | _ =>
    match take_n (d_buf st) 3 with
    | None => Ok (NotEnoughBytes, st, None)
    | Some (b, rest) =>
         Ok (Success, set_stage (set_buf (set_cur st (hdr_with_len (d_cur st) (of_be b))) rest) StMessageTypeId, None)
    end
  end.

(* fn get_message_type_id *)
Definition get_message_type_id (st : dstate) : res :=
  match d_fmt st with
  | DeltaOnly | Empty => Ok (Success, set_stage st StMessageStreamId, None)
  | _ =>
    match d_buf st with
    | [] => Ok (NotEnoughBytes, st, None)
    | b :: rest => Ok (Success, set_stage (set_buf (set_cur st (hdr_with_tid (d_cur st) b)) rest) StMessageStreamId, None)
    end
  end.

(* fn get_message_stream_id *)
Definition get_message_stream_id (st : dstate) : res :=
  match d_fmt st with
  | Full =>
    match take_n (d_buf st) 4 with
    | None => Ok (NotEnoughBytes, st, None)
    | Some (b, rest) =>
         Ok (Success, set_stage (set_buf (set_cur st (hdr_with_sid (d_cur st) (of_le b))) rest) StExtendedTimestamp, None)
    end
  | _ => Ok (Success, set_stage st StExtendedTimestamp, None)
  end.

(* fn get_extended_timestamp *)
Definition get_extended_timestamp (st : dstate) : res :=
  if d_field (d_cur st) <? DE_MAX_INITIAL_TIMESTAMP then Ok (Success, set_stage st StMessagePayload, None)
  else match take_n (d_buf st) 4 with
  | None => Ok (NotEnoughBytes, st, None)
  | Some (b, rest) =>
    let timestamp := of_be b in
    let cur := d_cur st in
    let cur' :=
      match d_fmt st with
      | Full => hdr_with_ts cur timestamp
      | _ => if partial_len st =? 0
             then hdr_with_ts cur (add_values (d_ts cur) (sub_values timestamp DE_MAX_INITIAL_TIMESTAMP))   (* wrapping_sub *)
             else cur
      end in
    Ok (Success, set_stage (set_buf (set_cur st cur') rest) StMessagePayload, None)
  end.

(* fn get_message_data *)
Definition get_message_data (st : dstate) : res :=
  let cur := d_cur st in
  let csid := d_csid cur in
  let have := partial_len st in
  if d_len cur <? have then Err (InvalidMessageLength csid (d_len cur))      (* checked_sub *)
  else
    let remaining := d_len cur - have in
    let length := N.min remaining (d_max st) in
    match take_n (d_buf st) length with
    | None => Ok (NotEnoughBytes, st, None)
    | Some (b, rest) =>
      let old := match lookup csid (d_partial st) with Some p => p | None => [] end in
      let data := old ++ b in
      let complete := lenN data =? d_len cur in
      let out := if complete then Some {| m_ts := d_ts cur; m_tid := d_tid cur; m_sid := d_sid cur; m_data := data |} else None in
      let partial' := if complete then remove csid (d_partial st) else insert csid data (d_partial st) in
      Ok (Success,
          {| d_max := d_max st; d_fmt := d_fmt st; d_cur := dhdr_new; d_stage := StCsid; d_buf := rest;
             d_prev := insert csid cur (d_prev st); d_partial := partial' |},
          out)
    end.

Definition run_stage (st : dstate) : res :=
  match d_stage st with
  | StCsid => form_header st
  | StInitialTimestamp => get_initial_timestamp st
  | StMessageLength => get_message_length st
  | StMessageTypeId => get_message_type_id st
  | StMessageStreamId => get_message_stream_id st
  | StExtendedTimestamp => get_extended_timestamp st
  | StMessagePayload => get_message_data st
  end.

(* the loop of get_next_message; the state is returned also on error (the struct was mutated in place) *)
Inductive de_result := DMsg (m : msg) | DNone | DErr (e : de_err) | DOutOfFuel.

Fixpoint stage_loop (fuel : nat) (st : dstate) : dstate * de_result :=
  match fuel with
  | O => (st, DOutOfFuel)
  | S f =>
    match run_stage st with
    | Err e => (st, DErr e)
    | Panic _ | OutOfFuel => (st, DOutOfFuel)
    | Ok (r, st', om) =>
      match om with
      | Some m => (st', DMsg m)
      | None => match r with NotEnoughBytes => (st', DNone) | Success => stage_loop f st' end
      end
    end
  end.

(* pub fn get_next_message(&mut self, bytes) *)
Definition get_next_message (st : dstate) (input : bytes) : dstate * de_result :=
  let st1 := set_buf st (d_buf st ++ input) in
  stage_loop (7 * (length (d_buf st1) + 2)) st1.

(* pub fn set_max_chunk_size(&mut self, new_size: usize) *)
Definition de_set_max_chunk_size (st : dstate) (n : N) : outcome dstate de_err :=
  if (n =? 0) || (2147483647 <? n) then Err (DeInvalidMaxChunkSize n)
  else Ok {| d_max := n; d_fmt := d_fmt st; d_cur := d_cur st; d_stage := d_stage st; d_buf := d_buf st;
             d_prev := d_prev st; d_partial := d_partial st |}.

(* The documented driving loop: feed a piece, then call with empty input until no message is returned; a decoded
   Set Chunk Size message (type 1) is applied to the deserializer before the next call (what both sessions do). *)
Inductive drive_err := DrvDe (e : de_err) | DrvBadChunkSize | DrvFuel.

Definition driver_apply (st : dstate) (m : msg) : outcome dstate drive_err :=
  if m_tid m =? 1 then
    match take_n (m_data m) 4 with
    | None => Err DrvBadChunkSize
    | Some (b, _) =>
      match de_set_max_chunk_size st (of_be b) with
      | Ok st' => Ok st'
      | _ => Err DrvBadChunkSize
      end
    end
  else Ok st.

(* drain: repeated get_next_message with no new input *)
Fixpoint drain (fuel : nat) (st : dstate) (acc : list msg) : dstate * list msg * option drive_err :=
  match fuel with
  | O => (st, acc, Some DrvFuel)
  | S f =>
    match get_next_message st [] with
    | (st', DNone) => (st', acc, None)
    | (st', DErr e) => (st', acc, Some (DrvDe e))
    | (st', DOutOfFuel) => (st', acc, Some DrvFuel)
    | (st', DMsg m) =>
      match driver_apply st' m with
      | Ok st'' => drain f st'' (acc ++ [m])
      | _ => (st', acc ++ [m], Some DrvBadChunkSize)
      end
    end
  end.

(* one input call followed by draining: every complete message consumes at least one byte of the buffer *)
Definition feed (st : dstate) (piece : bytes) (acc : list msg) : dstate * list msg * option drive_err :=
  drain (S (S (length (d_buf st) + length piece))) (set_buf st (d_buf st ++ piece)) acc.

Fixpoint feed_all (st : dstate) (pieces : list bytes) (acc : list msg) : dstate * list msg * option drive_err :=
  match pieces with
  | [] => (st, acc, None)
  | p :: r =>
    match feed st p acc with
    | (st', ms, None) => feed_all st' r ms
    | (st', ms, Some e) => (st', ms, Some e)
    end
  end.
