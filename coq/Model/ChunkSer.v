(* Model of rtmp/src/chunk_io/serializer.rs (ChunkSerializer). *)
From RML Require Import Model.Base Model.Time Model.Chunk Gen.Consts.

(* ChunkHeader as the serializer stores it in previous_headers *)
Record shdr := { s_ts : N; s_field : N; s_len : N; s_tid : N; s_sid : N; s_drop : bool }.

Record sstate := { s_prev : list (N * shdr); s_max : N }.

Definition ser_init : sstate := {| s_prev := []; s_max := SER_INITIAL_MAX_CHUNK_SIZE |}.

Inductive ser_err := MessageTooLong (size : N) | InvalidMaxChunkSize (n : N) | SetChunkSizeMessageCreationFailure.

(* fn get_csid_for_message_type *)
Definition get_csid_for_message_type (tid : N) : N :=
  match lookup tid csid_table with Some c => c | None => csid_default end.

(* fn get_header_format(current, previous) *)
Definition get_header_format (cur prev : shdr) : fmt :=
  if negb (s_sid cur =? s_sid prev) then Full
  else if negb (s_tid cur =? s_tid prev) || negb (s_len cur =? s_len prev) then NoSid
  else if negb (s_field cur =? s_field prev) then DeltaOnly
  else Empty.

(* add_basic_header: only the 1-byte form is ever written (csids are 2..6); the panic guard is modelled *)
Definition basic_header (f : fmt) (csid : N) : option bytes :=
  if (csid <=? 1) || (65600 <=? csid) then None
  else Some [ fmt_num f * 64 + (if csid <=? 63 then csid else if csid <=? 319 then 0 else 1) ].

Definition initial_timestamp (f : fmt) (field : N) : bytes :=
  match f with Empty => [] | _ => be24 (N.min field SER_MAX_INITIAL_TIMESTAMP) end.
Definition length_and_type (f : fmt) (len tid : N) : bytes :=
  match f with Empty | DeltaOnly => [] | _ => be24 len ++ [tid] end.
Definition stream_id_bytes (f : fmt) (sid : N) : bytes :=
  match f with Full => le32 sid | _ => [] end.
Definition extended_timestamp (field : N) : bytes :=
  if field <? SER_MAX_INITIAL_TIMESTAMP then [] else be32 field.

Definition with_field (h : shdr) (fld : N) : shdr :=
  {| s_ts := s_ts h; s_field := fld; s_len := s_len h; s_tid := s_tid h; s_sid := s_sid h; s_drop := s_drop h |}.

(* the header-format decision of add_chunk: format and the header that is written and remembered *)
Definition decide_header (st : sstate) (force : bool) (m : msg) (continued : bool) (drop : bool) : fmt * shdr :=
  let csid := get_csid_for_message_type (m_tid m) in
  let hdr0 := {| s_ts := m_ts m; s_field := 0; s_len := lenN (m_data m); s_tid := m_tid m; s_sid := m_sid m; s_drop := drop |} in
  let '(f, hdr1) :=
    if force then (Full, hdr0)
    else match lookup csid (s_prev st) with
         | None => (Full, hdr0)
         | Some prev =>
             if continued then (Empty, with_field hdr0 (s_field prev))
             else if s_drop prev then (Full, hdr0)
             else let h := with_field hdr0 (sub_values (m_ts m) (s_ts prev)) in (get_header_format h prev, h)
         end in
  (f, match f with Full => with_field hdr1 (s_ts hdr1) | _ => hdr1 end).

(* fn add_chunk: returns the bytes of one chunk and the new state; Panic 1 = csid guard *)
Definition add_chunk (st : sstate) (force : bool) (m : msg) (continued : bool) (data : bytes) (drop : bool)
  : outcome (bytes * sstate) ser_err :=
  let csid := get_csid_for_message_type (m_tid m) in
  let '(f, hdr) := decide_header st force m continued drop in
  match basic_header f csid with
  | None => Panic 1
  | Some bh =>
      Ok (bh ++ initial_timestamp f (s_field hdr) ++ length_and_type f (s_len hdr) (s_tid hdr)
             ++ stream_id_bytes f (s_sid hdr) ++ extended_timestamp (s_field hdr) ++ data,
          {| s_prev := insert csid hdr (s_prev st); s_max := s_max st |})
  end.

(* the slicing loop of serialize(); None = the loop does not terminate within the fuel (max_chunk_size = 0) *)
Fixpoint slices (fuel : nat) (max : N) (data : bytes) : option (list bytes) :=
  match data with
  | [] => Some []
  | _ :: _ =>
    match fuel with
    | O => None
    | S f => let '(a, b) := split_at max data in
             match slices f max b with Some r => Some (a :: r) | None => None end
    end
  end.

Fixpoint add_chunks (st : sstate) (force : bool) (m : msg) (idx : N) (sl : list bytes) (drop : bool)
  : outcome (list bytes * sstate) ser_err :=
  match sl with
  | [] => Ok ([], st)
  | s :: r => obind (add_chunk st force m (0 <? idx) s drop) (fun '(b, st') =>
              obind (add_chunks st' force m (idx + 1) r drop) (fun '(bs, st'') => Ok (b :: bs, st'')))
  end.

(* pub fn serialize(&mut self, message, force_uncompressed, can_be_dropped) -> Packet{bytes, can_be_dropped} *)
Definition serialize (st : sstate) (m : msg) (force drop : bool) : outcome (bytes * sstate) ser_err :=
  if 16777215 <? lenN (m_data m) then Err (MessageTooLong (lenN (m_data m) mod two32))
  else match slices (length (m_data m)) (s_max st) (m_data m) with
       | None => OutOfFuel
       | Some sl =>
           let sl := match sl with [] => [[]] | _ => sl end in    (* a message without payload: one header-only chunk *)
           obind (add_chunks st force m 0 sl drop) (fun '(bs, st') => Ok (concat bs, st'))
       end.

(* pub fn set_max_chunk_size(&mut self, new_size, time) *)
Definition set_max_chunk_size (st : sstate) (n : N) (time : N) : outcome (bytes * sstate) ser_err :=
  if (n =? 0) || (2147483647 <? n) then Err (InvalidMaxChunkSize n)
  else
    let m := {| m_ts := time; m_tid := TID_SetChunkSize; m_sid := 0; m_data := be32 n |} in
    obind (serialize st m true false) (fun '(b, st') =>
      Ok (b, {| s_prev := s_prev st'; s_max := n |})).

(* a run of the serializer: one packet (bytes) per operation *)
Inductive ser_op := OpMsg (m : msg) (force drop : bool) | OpSize (n ts : N).

Definition ser_step (st : sstate) (op : ser_op) : outcome (bytes * sstate) ser_err :=
  match op with
  | OpMsg m f d => serialize st m f d
  | OpSize n ts => set_max_chunk_size st n ts
  end.

Fixpoint ser_run (st : sstate) (ops : list ser_op) : outcome (list bytes * sstate) ser_err :=
  match ops with
  | [] => Ok ([], st)
  | op :: r => obind (ser_step st op) (fun '(b, st') => obind (ser_run st' r) (fun '(bs, st'') => Ok (b :: bs, st'')))
  end.

(* the message an operation puts on the wire, and whether its packet is marked droppable *)
Definition op_msg (op : ser_op) : msg :=
  match op with
  | OpMsg m _ _ => m
  | OpSize n ts => {| m_ts := ts; m_tid := TID_SetChunkSize; m_sid := 0; m_data := be32 n |}
  end.
Definition op_drop (op : ser_op) : bool := match op with OpMsg _ _ d => d | OpSize _ _ => false end.
