(* Model of rtmp/src/sessions/client/mod.rs (ClientSession). The clock reading (get_epoch) is an input. *)
From Coq Require Import String.
From RML Require Import Model.Base Model.Time Model.Amf0 Model.Chunk Model.ChunkSer Model.ChunkDe Model.Messages Model.Float
  Model.SessionCommon.
Local Open Scope string_scope.
Local Open Scope list_scope.
Local Open Scope N_scope.

Inductive cstate := Disconnected | Connected | PlayRequested | Playing | PublishRequested | Publishing.
Inductive publish_type := TLive | TRecord | TAppend.
Inductive purpose := PurposePlay (key : bytes) | PurposePublish (key : bytes) (t : publish_type).
Inductive transaction := TConnection (app : bytes) | TCreateStream (p : purpose).

Inductive cevent :=
| CConnectionAccepted
| CConnectionRejected (description : bytes)
| CPlaybackAccepted
| CPublishAccepted
| CMetadata (md : metadata)
| CVideo (ts : N) (data : bytes)
| CAudio (ts : N) (data : bytes)
| CUnhandleableCommand (name : bytes) (transaction : N) (obj : value) (args : list value)
| CUnknownTransaction (transaction : N) (obj : value) (args : list value)
| CUnhandleableStatus (code : bytes)
| CAcknowledgement (n : N)
| CPingResponse (ts : N).

Inductive cresult := CPacket (b : bytes) (drop : bool) | CEvent (e : cevent) | CUnhandleable (m : msg).

Inductive cerr :=
| CWire (e : wire_err) | CCantConnect | CInvalidState (s : cstate) | CNoActiveStream | CCreateStreamFailed
| CNoStreamNumber | CInvalidOnStatus.

Record cconfig := { cc_flash : bytes; cc_buffer : N; cc_window : N; cc_chunk : N; cc_tcurl : option bytes }.

Record client := {
  cl_ser : ChunkSer.sstate; cl_de : ChunkDe.dstate; cl_cfg : cconfig; cl_next_tr : N;
  cl_trs : list (N * transaction); cl_state : cstate; cl_app : option bytes; cl_stream : option N; cl_ack : ack_state
}.

Definition cupd_ser (c : client) (x : ChunkSer.sstate) : client :=
  {| cl_ser := x; cl_de := cl_de c; cl_cfg := cl_cfg c; cl_next_tr := cl_next_tr c; cl_trs := cl_trs c; cl_state := cl_state c;
     cl_app := cl_app c; cl_stream := cl_stream c; cl_ack := cl_ack c |}.
Definition cupd_de (c : client) (x : ChunkDe.dstate) : client :=
  {| cl_ser := cl_ser c; cl_de := x; cl_cfg := cl_cfg c; cl_next_tr := cl_next_tr c; cl_trs := cl_trs c; cl_state := cl_state c;
     cl_app := cl_app c; cl_stream := cl_stream c; cl_ack := cl_ack c |}.
Definition cupd_trs (c : client) (t : list (N * transaction)) (n : N) : client :=
  {| cl_ser := cl_ser c; cl_de := cl_de c; cl_cfg := cl_cfg c; cl_next_tr := n; cl_trs := t; cl_state := cl_state c;
     cl_app := cl_app c; cl_stream := cl_stream c; cl_ack := cl_ack c |}.
Definition cupd_state (c : client) (s : cstate) : client :=
  {| cl_ser := cl_ser c; cl_de := cl_de c; cl_cfg := cl_cfg c; cl_next_tr := cl_next_tr c; cl_trs := cl_trs c; cl_state := s;
     cl_app := cl_app c; cl_stream := cl_stream c; cl_ack := cl_ack c |}.
Definition cupd_app (c : client) (a : option bytes) : client :=
  {| cl_ser := cl_ser c; cl_de := cl_de c; cl_cfg := cl_cfg c; cl_next_tr := cl_next_tr c; cl_trs := cl_trs c; cl_state := cl_state c;
     cl_app := a; cl_stream := cl_stream c; cl_ack := cl_ack c |}.
Definition cupd_stream (c : client) (s : option N) : client :=
  {| cl_ser := cl_ser c; cl_de := cl_de c; cl_cfg := cl_cfg c; cl_next_tr := cl_next_tr c; cl_trs := cl_trs c; cl_state := cl_state c;
     cl_app := cl_app c; cl_stream := s; cl_ack := cl_ack c |}.
Definition cupd_ack (c : client) (a : ack_state) : client :=
  {| cl_ser := cl_ser c; cl_de := cl_de c; cl_cfg := cl_cfg c; cl_next_tr := cl_next_tr c; cl_trs := cl_trs c; cl_state := cl_state c;
     cl_app := cl_app c; cl_stream := cl_stream c; cl_ack := a |}.

Inductive creply := COk (rs : list cresult) | CErr (e : cerr) | CPanic.
Definition ccall := (client * creply)%type.

Definition csending (c : client) (m : rtmp_message) (ts sid : N) (force drop : bool) (k : client -> bytes -> ccall) : ccall :=
  match send_message (cl_ser c) m ts sid force drop with
  | Ok (b, ser') => k (cupd_ser c ser') b
  | Err e => (c, CErr (CWire e))
  | Panic _ | OutOfFuel => (c, CPanic)
  end.
Definition cone_packet (c : client) (m : rtmp_message) (ts sid : N) (drop : bool) : ccall :=
  csending c m ts sid false drop (fun c' b => (c', COk [CPacket b drop])).

Definition client_new (cfg : cconfig) : client :=
  {| cl_ser := ser_init; cl_de := de_init; cl_cfg := cfg; cl_next_tr := 1; cl_trs := []; cl_state := Disconnected;
     cl_app := None; cl_stream := None; cl_ack := {| ack_window := None; ack_since := 0 |} |}.

Definition new_transaction (c : client) (t : transaction) : client * N :=
  let n := cl_next_tr c in (cupd_trs c (insert n t (cl_trs c)) (n + 1), n).

(* pub fn request_connection(app_name) *)
Definition client_request_connection (c : client) (app : bytes) (clock : N) : ccall :=
  match cl_state c with
  | Disconnected =>
    let '(c1, n) := new_transaction c (TConnection app) in
    let props := [(str "app", VString app); (str "flashVer", VString (cc_flash (cl_cfg c))); (str "objectEncoding", VNumber 0)]
                 ++ match cc_tcurl (cl_cfg c) with Some u => [(str "tcUrl", VString u)] | None => [] end in
    cone_packet c1 (MAmf0Command (str "connect") (u32_to_f64 n) (VObject props) []) clock 0 false
  | _ => (c, CErr CCantConnect)
  end.

Definition create_stream_request (c : client) (p : purpose) (clock : N) : ccall :=
  match cl_state c with
  | Connected =>
    let '(c1, n) := new_transaction c (TCreateStream p) in
    cone_packet c1 (MAmf0Command (str "createStream") (u32_to_f64 n) VNull []) clock 0 false
  | s => (c, CErr (CInvalidState s))
  end.
Definition client_request_playback (c : client) (key : bytes) (clock : N) : ccall := create_stream_request c (PurposePlay key) clock.
Definition client_request_publishing (c : client) (key : bytes) (t : publish_type) (clock : N) : ccall :=
  create_stream_request c (PurposePublish key t) clock.

Definition stop (c : client) (clock : N) : ccall :=
  let c1 := cupd_state c Connected in
  match cl_stream c with
  | None => (c1, COk [])
  | Some sid =>
    cone_packet (cupd_stream c1 None) (MAmf0Command (str "deleteStream") 0 VNull [VNumber (u32_to_f64 sid)]) clock sid false
  end.
Definition client_stop_playback (c : client) (clock : N) : ccall :=
  match cl_state c with Playing | PlayRequested => stop c clock | _ => (c, COk []) end.
Definition client_stop_publishing (c : client) (clock : N) : ccall :=
  match cl_state c with Publishing | PublishRequested => stop c clock | _ => (c, COk []) end.

Definition client_send_ping (c : client) (clock : N) : ccall :=
  cone_packet c (MUserControl PingRequest None None (Some clock)) clock 0 false.

Definition publishing_stream (c : client) : outcome N cerr :=
  match cl_state c with
  | Publishing => match cl_stream c with Some sid => Ok sid | None => Err CNoActiveStream end
  | s => Err (CInvalidState s)
  end.

Definition metadata_props_client (m : metadata) : list (bytes * value) :=
  opt_prop "width" (md_width m) (fun x => VNumber (u32_to_f64 x)) ++
  opt_prop "height" (md_height m) (fun x => VNumber (u32_to_f64 x)) ++
  opt_prop "videocodecid" (md_vcodec m) (fun x => VNumber (u32_to_f64 x)) ++
  opt_prop "framerate" (md_framerate m) (fun x => VNumber (f32_to_f64 x)) ++
  opt_prop "videodatarate" (md_vbitrate m) (fun x => VNumber (u32_to_f64 x)) ++
  opt_prop "audiocodecid" (md_acodec m) (fun x => VNumber (u32_to_f64 x)) ++
  opt_prop "audiodatarate" (md_abitrate m) (fun x => VNumber (u32_to_f64 x)) ++
  opt_prop "audiosamplerate" (md_asamplerate m) (fun x => VNumber (u32_to_f64 x)) ++
  opt_prop "audiochannels" (md_achannels m) (fun x => VNumber (u32_to_f64 x)) ++
  opt_prop "stereo" (md_stereo m) VBoolean ++
  opt_prop "encoder" (md_encoder m) VString.

Definition client_publish_metadata (c : client) (md : metadata) (clock : N) : ccall :=
  match publishing_stream c with
  | Ok sid => cone_packet c (MAmf0Data [VString (str "@setDataFrame"); VString (str "onMetaData"); VObject (metadata_props_client md)]) clock sid false
  | Err e => (c, CErr e)
  | _ => (c, CPanic)
  end.
Definition client_publish_media (video : bool) (c : client) (data : bytes) (ts : N) (drop : bool) : ccall :=
  match publishing_stream c with
  | Ok sid => cone_packet c (if video then MVideoData data else MAudioData data) ts sid drop
  | Err e => (c, CErr e)
  | _ => (c, CPanic)
  end.

(* --- inbound --- *)
Definition ch_media (video : bool) (c : client) (sid : N) (data : bytes) (ts : N) : ccall :=
  match cl_state c with
  | PlayRequested | Playing =>
    match cl_stream c with
    | Some a => if a =? sid then (c, COk [CEvent (if video then CVideo ts data else CAudio ts data)]) else (c, COk [])
    | None => (c, COk [])
    end
  | s => (c, CErr (CInvalidState s))
  end.

Definition ch_data (c : client) (vs : list value) (sid : N) : ccall :=
  match vs with
  | [] => (c, COk [])
  | first :: rest =>
    match cl_stream c with
    | Some a =>
      if a =? sid then
        match first with
        | VString tag =>
          if bytes_eqb tag (str "onMetaData") then
            match rest with
            | VObject ps :: _ => (c, COk [CEvent (CMetadata (metadata_of_props ps))])
            | _ => (c, COk [])
            end
          else (c, COk [])
        | _ => (c, COk [])
        end
      else (c, COk [])
    | None => (c, COk [])
    end
  end.

Definition take_transaction (c : client) (tr : N) : option (client * transaction) :=
  let key := f64_to_u32 tr in
  match lookup key (cl_trs c) with
  | Some t => Some (cupd_trs c (remove key (cl_trs c)) (cl_next_tr c), t)
  | None => None
  end.

Definition ch_error (c : client) (tr : N) (obj : value) (args : list value) : ccall :=
  match take_transaction c tr with
  | None => (c, COk [CEvent (CUnknownTransaction tr obj args)])
  | Some (c1, TConnection _) =>
    let description := match args with
                       | VObject ps :: _ => match prop_get (str "description") ps with Some (VString d) => d | _ => [] end
                       | _ => []
                       end in
    (c1, COk [CEvent (CConnectionRejected description)])
  | Some (c1, TCreateStream _) => (c1, CErr CCreateStreamFailed)
  end.

Definition ch_result (c : client) (tr : N) (obj : value) (args : list value) (clock : N) : ccall :=
  match take_transaction c tr with
  | None => (c, COk [CEvent (CUnknownTransaction tr obj args)])
  | Some (c1, TConnection app) =>
    let c2 := cupd_app (cupd_state c1 Connected) (Some app) in
    csending c2 (MWindowAcknowledgement (cc_window (cl_cfg c))) clock 0 false false (fun c3 b1 =>
    match ChunkSer.set_max_chunk_size (cl_ser c3) (cc_chunk (cl_cfg c)) 0 with
    | Ok (b2, ser') => (cupd_ser c3 ser', COk [CPacket b1 false; CEvent CConnectionAccepted; CPacket b2 false])
    | Err e => (c3, CErr (CWire (WChunkSer e)))
    | Panic _ | OutOfFuel => (c3, CPanic)
    end)
  | Some (c1, TCreateStream p) =>
    match args with
    | VNumber x :: _ =>
      let sid := f64_to_u32 x in
      let c2 := cupd_stream c1 (Some sid) in
      match p with
      | PurposePlay key =>
        let c3 := cupd_state c2 PlayRequested in
        csending c3 (MUserControl SetBufferLength (Some sid) (Some (cc_buffer (cl_cfg c))) None) clock 0 false false (fun c4 b1 =>
        csending c4 (MAmf0Command (str "play") 0 VNull [VString key]) clock sid false false (fun c5 b2 =>
        (c5, COk [CPacket b1 false; CPacket b2 false])))
      | PurposePublish key t =>
        let c3 := cupd_state c2 PublishRequested in
        let ts := match t with TLive => str "live" | TRecord => str "record" | TAppend => str "append" end in
        cone_packet c3 (MAmf0Command (str "publish") 0 VNull [VString key; VString ts]) clock sid false
      end
    | _ => (c1, CErr CNoStreamNumber)
    end
  end.

Definition ch_status (c : client) (args : list value) : ccall :=
  match args with
  | VObject ps :: _ =>
    match prop_get (str "code") ps with
    | Some (VString code) =>
      if bytes_eqb code (str "NetStream.Play.Start") then
        match cl_state c with PlayRequested => (cupd_state c Playing, COk [CEvent CPlaybackAccepted]) | s => (c, CErr (CInvalidState s)) end
      else if bytes_eqb code (str "NetStream.Publish.Start") then
        match cl_state c with PublishRequested => (cupd_state c Publishing, COk [CEvent CPublishAccepted]) | s => (c, CErr (CInvalidState s)) end
      else (c, COk [CEvent (CUnhandleableStatus code)])
    | _ => (c, CErr CInvalidOnStatus)
    end
  | _ => (c, CErr CInvalidOnStatus)
  end.

Definition ch_command (c : client) (name : bytes) (tr : N) (obj : value) (args : list value) (clock : N) : ccall :=
  if bytes_eqb name (str "_result") then ch_result c tr obj args clock
  else if bytes_eqb name (str "_error") then ch_error c tr obj args
  else if bytes_eqb name (str "onStatus") then ch_status c args
  else (c, COk [CEvent (CUnhandleableCommand name tr obj args)]).

Definition ch_message (c : client) (p : msg) (clock : N) : ccall :=
  match of_payload (m_tid p) (m_data p) with
  | Err e => (c, CErr (CWire (WMsgDe e)))
  | Panic _ | OutOfFuel => (c, CPanic)
  | Ok m =>
    match m with
    | MAcknowledgement n => (c, COk [CEvent (CAcknowledgement n)])
    | MAmf0Command name tr obj args => ch_command c name tr obj args clock
    | MAmf0Data vs => ch_data c vs (m_sid p)
    | MAudioData d => ch_media false c (m_sid p) d (m_ts p)
    | MVideoData d => ch_media true c (m_sid p) d (m_ts p)
    | MUserControl ev _ _ ts =>
      match ev with
      | PingRequest => cone_packet c (MUserControl PingResponse None None ts) clock 0 false
      | PingResponse => (c, COk [CEvent (CPingResponse (opt0 ts))])
      | _ => (c, COk [])
      end
    | MWindowAcknowledgement n => (cupd_ack c (ack_learn (cl_ack c) n), COk [])
    | MSetChunkSize n =>
      match de_set_max_chunk_size (cl_de c) n with
      | Ok d => (cupd_de c d, COk [])
      | Err e => (c, CErr (CWire (WChunkDe e)))
      | Panic _ | OutOfFuel => (c, CPanic)
      end
    | _ => (c, COk [CUnhandleable p])       (* Abort, SetPeerBandwidth, Unknown *)
    end
  end.

Fixpoint ch_loop (fuel : nat) (c : client) (input : bytes) (clock : N) (acc : list cresult) : ccall :=
  match fuel with
  | O => (c, CPanic)
  | S f =>
    match get_next_message (cl_de c) input with
    | (d, DErr e) => (cupd_de c d, CErr (CWire (WChunkDe e)))
    | (d, DOutOfFuel) => (cupd_de c d, CPanic)
    | (d, DNone) => (cupd_de c d, COk acc)
    | (d, DMsg p) =>
      match ch_message (cupd_de c d) p clock with
      | (c1, COk rs) => ch_loop f c1 [] clock (acc ++ rs)
      | (c1, CErr e) => (c1, CErr e)
      | (c1, CPanic) => (c1, CPanic)
      end
    end
  end.

(* pub fn handle_input *)
Definition client_handle_input (c : client) (input : bytes) (clock : N) : ccall :=
  let '(a, oseq) := ack_step (cl_ack c) (lenN input) in
  let fuel := S (S (length (d_buf (cl_de c)) + length input)) in
  match oseq with
  | None => ch_loop fuel (cupd_ack c a) input clock []
  | Some n =>
    match send_message (cl_ser c) (MAcknowledgement n) clock 0 false false with
    | Ok (b, ser') => ch_loop fuel (cupd_ack (cupd_ser c ser') a) input clock [CPacket b false]
    | Err e => (cupd_ack c {| ack_window := ack_window (cl_ack c); ack_since := n |}, CErr (CWire e))
    | Panic _ | OutOfFuel => (c, CPanic)
    end
  end.
