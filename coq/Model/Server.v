(* Model of rtmp/src/sessions/server/mod.rs (ServerSession). The clock reading (get_epoch) is an input. *)
From Coq Require Import String.
From RML Require Import Model.Base Model.Time Model.Amf0 Model.Chunk Model.ChunkSer Model.ChunkDe Model.Messages Model.Float
  Model.SessionCommon.
Local Open Scope string_scope.
Local Open Scope list_scope.
Local Open Scope N_scope.

Inductive publish_mode := PLive | PRecord | PAppend.
Inductive stream_state := StCreated | StPublishing (key : bytes) (mode : publish_mode) | StPlaying (key : bytes) | StCompleted.
Inductive request :=
| RConnection (app : bytes) (transaction : N)
| RPublish (key : bytes) (mode : publish_mode) (stream_id : N)
| RPlay (key : bytes) (stream_id : N).

Inductive play_start := LiveOrRecorded | LiveOnly | StartTime (secs : N).

Inductive sevent :=
| EvConnectionRequested (request_id : N) (app : bytes)
| EvPublishRequested (request_id : N) (app key : bytes) (mode : publish_mode)
| EvPublishFinished (app key : bytes)
| EvMetadata (app key : bytes) (md : metadata)
| EvAudio (app key : bytes) (data : bytes) (ts : N)
| EvVideo (app key : bytes) (data : bytes) (ts : N)
| EvUnhandleableCommand (name : bytes) (transaction : N) (obj : value) (args : list value)
| EvPlayRequested (request_id : N) (app key : bytes) (start : play_start) (duration : option N) (reset : bool) (stream_id : N)
| EvPlayFinished (app key : bytes)
| EvAcknowledgement (n : N)
| EvPingResponse (ts : N).

Inductive sresult := SPacket (b : bytes) (drop : bool) | SEvent (e : sevent) | SUnhandleable (m : msg).

Inductive serr :=
| SWire (e : wire_err) | SInvalidRequestId | SNoAppName | SInactiveStream (stream_id : N).

Record config := { cfg_fms : bytes; cfg_chunk : N; cfg_bandwidth : N; cfg_window : N; cfg_bwdone : bool }.

Record server := {
  sv_ser : ChunkSer.sstate; sv_de : ChunkDe.dstate;
  sv_app : option bytes; sv_reqs : list (N * request); sv_next_req : N; sv_connected : bool;
  sv_fms : bytes; sv_objenc : N; sv_streams : list (N * stream_state); sv_next_stream : N;
  sv_ack : ack_state
}.

Definition upd_ser (s : server) (x : ChunkSer.sstate) : server :=
  {| sv_ser := x; sv_de := sv_de s; sv_app := sv_app s; sv_reqs := sv_reqs s; sv_next_req := sv_next_req s; sv_connected := sv_connected s;
     sv_fms := sv_fms s; sv_objenc := sv_objenc s; sv_streams := sv_streams s; sv_next_stream := sv_next_stream s; sv_ack := sv_ack s |}.
Definition upd_de (s : server) (x : ChunkDe.dstate) : server :=
  {| sv_ser := sv_ser s; sv_de := x; sv_app := sv_app s; sv_reqs := sv_reqs s; sv_next_req := sv_next_req s; sv_connected := sv_connected s;
     sv_fms := sv_fms s; sv_objenc := sv_objenc s; sv_streams := sv_streams s; sv_next_stream := sv_next_stream s; sv_ack := sv_ack s |}.
Definition upd_reqs (s : server) (r : list (N * request)) (n : N) : server :=
  {| sv_ser := sv_ser s; sv_de := sv_de s; sv_app := sv_app s; sv_reqs := r; sv_next_req := n; sv_connected := sv_connected s;
     sv_fms := sv_fms s; sv_objenc := sv_objenc s; sv_streams := sv_streams s; sv_next_stream := sv_next_stream s; sv_ack := sv_ack s |}.
Definition upd_streams (s : server) (st : list (N * stream_state)) (n : N) : server :=
  {| sv_ser := sv_ser s; sv_de := sv_de s; sv_app := sv_app s; sv_reqs := sv_reqs s; sv_next_req := sv_next_req s; sv_connected := sv_connected s;
     sv_fms := sv_fms s; sv_objenc := sv_objenc s; sv_streams := st; sv_next_stream := n; sv_ack := sv_ack s |}.
Definition upd_ack (s : server) (a : ack_state) : server :=
  {| sv_ser := sv_ser s; sv_de := sv_de s; sv_app := sv_app s; sv_reqs := sv_reqs s; sv_next_req := sv_next_req s; sv_connected := sv_connected s;
     sv_fms := sv_fms s; sv_objenc := sv_objenc s; sv_streams := sv_streams s; sv_next_stream := sv_next_stream s; sv_ack := a |}.
Definition upd_conn (s : server) (app : option bytes) (connected : bool) : server :=
  {| sv_ser := sv_ser s; sv_de := sv_de s; sv_app := app; sv_reqs := sv_reqs s; sv_next_req := sv_next_req s; sv_connected := connected;
     sv_fms := sv_fms s; sv_objenc := sv_objenc s; sv_streams := sv_streams s; sv_next_stream := sv_next_stream s; sv_ack := sv_ack s |}.
Definition upd_objenc (s : server) (x : N) : server :=
  {| sv_ser := sv_ser s; sv_de := sv_de s; sv_app := sv_app s; sv_reqs := sv_reqs s; sv_next_req := sv_next_req s; sv_connected := sv_connected s;
     sv_fms := sv_fms s; sv_objenc := x; sv_streams := sv_streams s; sv_next_stream := sv_next_stream s; sv_ack := sv_ack s |}.

(* a call's outcome: the session after the call (mutated also when the call fails) and results or the error *)
Inductive reply := ROk (rs : list sresult) | RErr (e : serr) | RPanic.
Definition call := (server * reply)%type.

(* serialize one message through the session's serializer; continue with k *)
Definition sending (s : server) (m : rtmp_message) (ts sid : N) (force drop : bool)
  (k : server -> bytes -> call) : call :=
  match send_message (sv_ser s) m ts sid force drop with
  | Ok (b, ser') => k (upd_ser s ser') b
  | Err e => (s, RErr (SWire e))
  | Panic _ | OutOfFuel => (s, RPanic)
  end.

Definition one_packet (s : server) (m : rtmp_message) (ts sid : N) (force drop : bool) : call :=
  sending s m ts sid force drop (fun s' b => (s', ROk [SPacket b drop])).

Definition onstatus (level code : string) (description : bytes) : rtmp_message :=
  MAmf0Command (str "onStatus") 0 VNull [status_object level code description].

(* fn create_error_packet(code, description, transaction_id, stream_id) *)
Definition error_message (code : string) (description : bytes) (transaction : N) : rtmp_message :=
  MAmf0Command (str "_error") transaction VNull [status_object "_error" code description].

(* ServerSession::new *)
Definition server_new (c : config) (clock : N) : call :=
  let s0 := {| sv_ser := ser_init; sv_de := de_init; sv_app := None; sv_reqs := []; sv_next_req := 0; sv_connected := false;
               sv_fms := cfg_fms c; sv_objenc := 0; sv_streams := []; sv_next_stream := 1;
               sv_ack := {| ack_window := None; ack_since := 0 |} |} in
  match ChunkSer.set_max_chunk_size (sv_ser s0) (cfg_chunk c) 0 with
  | Err e => (s0, RErr (SWire (WChunkSer e)))
  | Panic _ | OutOfFuel => (s0, RPanic)
  | Ok (b1, ser1) =>
    let s1 := upd_ser s0 ser1 in
    sending s1 (MWindowAcknowledgement (cfg_window c)) clock 0 true false (fun s2 b2 =>
    sending s2 (MUserControl StreamBegin (Some 0) None None) clock 0 true false (fun s3 b3 =>
    sending s3 (MSetPeerBandwidth (cfg_bandwidth c) Dynamic) clock 0 true false (fun s4 b4 =>
    if cfg_bwdone c then
      sending s4 (MAmf0Command (str "onBWDone") 0 VNull [VNumber 4665729213955833856 (* 8192.0 *)]) clock 0 true false (fun s5 b5 =>
      (s5, ROk [SPacket b1 false; SPacket b2 false; SPacket b3 false; SPacket b4 false; SPacket b5 false]))
    else (s4, ROk [SPacket b1 false; SPacket b2 false; SPacket b3 false; SPacket b4 false]))))
  end.

Definition mode_of (raw : bytes) : option publish_mode :=
  let lower := map (fun b => if (65 <=? b) && (b <=? 90) then b + 32 else b) raw in     (* to_lowercase, ASCII fold *)
  if bytes_eqb lower (str "live") then Some PLive
  else if bytes_eqb lower (str "append") then Some PAppend
  else if bytes_eqb lower (str "record") then Some PRecord
  else None.

Definition new_request (s : server) (r : request) : server * N :=
  let n := sv_next_req s in (upd_reqs s (insert n r (sv_reqs s)) (n + 1), n).

(* handle_command_connect *)
Definition h_connect (s : server) (transaction : N) (obj : value) : call :=
  match obj with
  | VObject ps =>
    match prop_get (str "app") ps with
    | Some (VString app0) =>
      let app := match rev app0 with 47 :: r => rev r | _ => app0 end in        (* strip one trailing '/' *)
      let oe := match prop_get (str "objectEncoding") ps with Some (VNumber n) => n | _ => 0 end in
      let '(s1, n) := new_request (upd_objenc s oe) (RConnection app transaction) in
      (s1, ROk [SEvent (EvConnectionRequested n app)])
    | _ => (s, RErr SNoAppName)
    end
  | _ => (s, RErr SNoAppName)
  end.

Definition finished_event (app : bytes) (st : stream_state) : list sresult :=
  match st with
  | StPublishing key _ => [SEvent (EvPublishFinished app key)]
  | StPlaying key => [SEvent (EvPlayFinished app key)]
  | _ => []
  end.

(* handle_command_close_stream / handle_command_delete_stream *)
Definition h_close_or_delete (delete : bool) (s : server) (args : list value) : call :=
  if negb (sv_connected s) then (s, ROk []) else
  match sv_app s with
  | None => (s, ROk [])
  | Some app =>
    match args with
    | VNumber x :: _ =>
      let sid := f64_to_u32 x in
      match lookup sid (sv_streams s) with
      | None => (s, ROk [])
      | Some st =>
        let streams' := if delete then remove sid (sv_streams s) else insert sid StCreated (sv_streams s) in
        (upd_streams s streams' (sv_next_stream s), ROk (finished_event app st))
      end
    | _ => (s, ROk [])
    end
  end.

(* handle_command_create_stream *)
Definition h_create_stream (s : server) (transaction : N) (clock : N) : call :=
  let id := sv_next_stream s in
  let s1 := upd_streams s (insert id StCreated (sv_streams s)) (id + 1) in
  one_packet s1 (MAmf0Command (str "_result") transaction VNull [VNumber (u32_to_f64 id)]) clock 0 false false.

Definition h_publish (s : server) (sid transaction : N) (args : list value) (clock : N) : call :=
  let bad (d : string) := one_packet s (error_message "NetStream.Publish.Start" (str d) transaction) clock sid false false in
  match args with
  | a0 :: a1 :: _ =>
    if negb (sv_connected s) then bad "Can't publish before connecting" else
    match sv_app s with
    | None => bad "Can't publish before connecting"
    | Some app =>
      match a0 with
      | VString key =>
        match a1 with
        | VString raw =>
          match mode_of raw with
          | Some mode =>
            let '(s1, n) := new_request s (RPublish key mode sid) in
            (s1, ROk [SEvent (EvPublishRequested n app key mode)])
          | None =>
            one_packet s (MAmf0Command (str "_error") transaction VNull
                            [status_object "error" "NetStream.Publish.Start" (str "Invalid publish mode given")]) clock sid false false
          end
        | _ => bad "Invalid publish arguments"
        end
      | _ => bad "Invalid publish arguments"
      end
    end
  | _ => bad "Invalid publish arguments"
  end.

Definition h_play (s : server) (sid transaction : N) (args : list value) (clock : N) : call :=
  let bad (d : string) := one_packet s (error_message "NetStream.Play.Start" (str d) transaction) clock sid false false in
  match args with
  | [] => bad "Invalid play arguments"
  | a0 :: rest =>
    if negb (sv_connected s) then bad "Can't play before connecting" else
    match sv_app s with
    | None => bad "Can't play before connecting"
    | Some app =>
      match a0 with
      | VString key =>
        let start := match rest with
                     | VNumber x :: _ => if f64_eq_neg2 x then LiveOrRecorded else if f64_eq_neg1 x then LiveOnly
                                         else if f64_ge_zero x then StartTime (f64_to_u32 x) else LiveOrRecorded
                     | _ => LiveOrRecorded
                     end in
        let rest1 := match rest with _ :: r => r | [] => [] end in
        let duration := match rest1 with VNumber x :: _ => if f64_ge_zero x then Some (f64_to_u32 x) else None | _ => None end in
        let rest2 := match rest1 with _ :: r => r | [] => [] end in
        let reset := match rest2 with VBoolean b :: _ => b | _ => false end in
        let '(s1, n) := new_request s (RPlay key sid) in
        (s1, ROk [SEvent (EvPlayRequested n app key start duration reset sid)])
      | _ => bad "Invalid play arguments"
      end
    end
  end.

Definition h_command (s : server) (sid : N) (name : bytes) (transaction : N) (obj : value) (args : list value) (clock : N) : call :=
  if bytes_eqb name (str "connect") then h_connect s transaction obj
  else if bytes_eqb name (str "closeStream") then h_close_or_delete false s args
  else if bytes_eqb name (str "createStream") then h_create_stream s transaction clock
  else if bytes_eqb name (str "deleteStream") then h_close_or_delete true s args
  else if bytes_eqb name (str "play") then h_play s sid transaction args clock
  else if bytes_eqb name (str "publish") then h_publish s sid transaction args clock
  else (s, ROk [SEvent (EvUnhandleableCommand name transaction obj args)]).

Definition publishing_key (s : server) (sid : N) : option (bytes * bytes) :=      (* app, key *)
  match sv_app s with
  | None => None
  | Some app =>
    match lookup sid (sv_streams s) with
    | Some (StPublishing key _) => Some (app, key)
    | _ => None
    end
  end.

(* handle_amf0_data *)
Definition h_data (s : server) (vs : list value) (sid : N) : call :=
  match vs with
  | VString tag :: rest =>
    if bytes_eqb tag (str "@setDataFrame") then
      match rest with
      | VString tag2 :: obj :: _ =>
        if bytes_eqb tag2 (str "onMetaData") then
          match publishing_key s sid with
          | Some (app, key) =>
            let md := match obj with VObject ps => metadata_of_props ps | _ => md_empty end in
            (s, ROk [SEvent (EvMetadata app key md)])
          | None => (s, ROk [])
          end
        else (s, ROk [])
      | _ => (s, ROk [])
      end
    else (s, ROk [])
  | _ => (s, ROk [])
  end.

Definition h_media (audio : bool) (s : server) (data : bytes) (sid ts : N) : call :=
  if negb (sv_connected s) then (s, ROk []) else
  match publishing_key s sid with
  | Some (app, key) => (s, ROk [SEvent (if audio then EvAudio app key data ts else EvVideo app key data ts)])
  | None => (s, ROk [])
  end.

(* one decoded message *)
Definition h_message (s : server) (p : msg) (clock : N) : call :=
  match of_payload (m_tid p) (m_data p) with
  | Err e => (s, RErr (SWire (WMsgDe e)))
  | Panic _ | OutOfFuel => (s, RPanic)
  | Ok m =>
    match m with
    | MAbort _ => (s, ROk [])
    | MAcknowledgement n => (s, ROk [SEvent (EvAcknowledgement n)])
    | MAmf0Command name tr obj args => h_command s (m_sid p) name tr obj args clock
    | MAmf0Data vs => h_data s vs (m_sid p)
    | MAudioData d => h_media true s d (m_sid p) (m_ts p)
    | MVideoData d => h_media false s d (m_sid p) (m_ts p)
    | MSetChunkSize n =>
      match de_set_max_chunk_size (sv_de s) n with
      | Ok d => (upd_de s d, ROk [])
      | Err e => (s, RErr (SWire (WChunkDe e)))
      | Panic _ | OutOfFuel => (s, RPanic)
      end
    | MSetPeerBandwidth _ _ => (s, ROk [])
    | MUserControl ev _ _ ts =>
      match ev with
      | PingRequest => one_packet s (MUserControl PingResponse None None ts) clock 0 false false
      | PingResponse => (s, ROk [SEvent (EvPingResponse (opt0 ts))])
      | _ => (s, ROk [])
      end
    | MWindowAcknowledgement n => (upd_ack s (ack_learn (sv_ack s) n), ROk [])
    | MUnknown _ _ => (s, ROk [SUnhandleable p])
    end
  end.

(* the message loop of handle_input: fuel = messages that can complete, one per byte at most *)
Fixpoint h_loop (fuel : nat) (s : server) (input : bytes) (clock : N) (acc : list sresult) : call :=
  match fuel with
  | O => (s, RPanic)
  | S f =>
    match get_next_message (sv_de s) input with
    | (d, DErr e) => (upd_de s d, RErr (SWire (WChunkDe e)))
    | (d, DOutOfFuel) => (upd_de s d, RPanic)
    | (d, DNone) => (upd_de s d, ROk acc)
    | (d, DMsg p) =>
      match h_message (upd_de s d) p clock with
      | (s1, ROk rs) => h_loop f s1 [] clock (acc ++ rs)
      | (s1, RErr e) => (s1, RErr e)
      | (s1, RPanic) => (s1, RPanic)
      end
    end
  end.

(* pub fn handle_input *)
Definition server_handle_input (s : server) (input : bytes) (clock : N) : call :=
  let '(a, oseq) := ack_step (sv_ack s) (lenN input) in
  let fuel := S (S (length (d_buf (sv_de s)) + length input)) in
  match oseq with
  | None => h_loop fuel (upd_ack s a) input clock []
  | Some n =>
    (* the counter is reset only after the acknowledgement was serialized *)
    match send_message (sv_ser s) (MAcknowledgement n) clock 0 false false with
    | Ok (b, ser') => h_loop fuel (upd_ack (upd_ser s ser') a) input clock [SPacket b false]
    | Err e => (upd_ack s {| ack_window := ack_window (sv_ack s); ack_since := n |}, RErr (SWire e))
    | Panic _ | OutOfFuel => (s, RPanic)
    end
  end.

(* pub fn accept_request *)
Definition accept_connection (s : server) (app : bytes) (transaction : N) (clock : N) : call :=
  let s1 := upd_conn s (Some app) true in
  let obj := VObject [(str "fmsVer", VString (sv_fms s)); (str "capabilities", VNumber 4629418941960159232 (* 31.0 *))] in
  let info := VObject [(str "level", VString (str "status")); (str "code", VString (str "NetConnection.Connect.Success"));
                       (str "description", VString (str "Successfully connected on app: " ++ app));
                       (str "objectEncoding", VNumber (sv_objenc s))] in
  one_packet s1 (MAmf0Command (str "_result") transaction obj [info]) clock 0 false false.

Definition accept_publish (s : server) (sid : N) (key : bytes) (mode : publish_mode) (clock : N) : call :=
  match lookup sid (sv_streams s) with
  | None => (s, RErr (SInactiveStream sid))
  | Some _ =>
    let s1 := upd_streams s (insert sid (StPublishing key mode) (sv_streams s)) (sv_next_stream s) in
    sending s1 (MUserControl StreamBegin (Some sid) None None) clock sid false false (fun s2 b1 =>
    sending s2 (onstatus "status" "NetStream.Publish.Start" (str "Successfully started publishing on stream key " ++ key)) clock sid false false (fun s3 b2 =>
    (s3, ROk [SPacket b1 false; SPacket b2 false])))
  end.

Definition accept_play (s : server) (sid : N) (key : bytes) (clock : N) : call :=
  match lookup sid (sv_streams s) with
  | None => (s, RErr (SInactiveStream sid))
  | Some _ =>
    let s1 := upd_streams s (insert sid (StPlaying key) (sv_streams s)) (sv_next_stream s) in
    sending s1 (onstatus "status" "NetStream.Play.Reset" (str "Reset stream")) clock sid false false (fun s2 b_reset =>
    sending s2 (MUserControl StreamBegin (Some sid) None None) clock sid false false (fun s3 b_begin =>
    sending s3 (onstatus "status" "NetStream.Play.Start" (str "Successfully started playback on stream key " ++ key)) clock sid false false (fun s4 b_start =>
    sending s4 (MAmf0Data [VString (str "|RtmpSampleAccess"); VBoolean false; VBoolean false]) clock sid false false (fun s5 b_d1 =>
    sending s5 (MAmf0Data [VString (str "onStatus"); VObject [(str "code", VString (str "NetStream.Data.Start"))]]) clock sid false false (fun s6 b_d2 =>
    (s6, ROk [SPacket b_reset false; SPacket b_begin false; SPacket b_start false; SPacket b_d1 false; SPacket b_d2 false]))))))
  end.

Definition server_accept (s : server) (id : N) (clock : N) : call :=
  match lookup id (sv_reqs s) with
  | None => (s, RErr SInvalidRequestId)
  | Some r =>
    let s1 := upd_reqs s (remove id (sv_reqs s)) (sv_next_req s) in
    match r with
    | RConnection app tr => accept_connection s1 app tr clock
    | RPublish key mode sid => accept_publish s1 sid key mode clock
    | RPlay key sid => accept_play s1 sid key clock
    end
  end.

(* pub fn reject_request(request_id, code, description) *)
Definition server_reject (s : server) (id : N) (code description : bytes) (clock : N) : call :=
  match lookup id (sv_reqs s) with
  | None => (s, RErr SInvalidRequestId)
  | Some r =>
    let s1 := upd_reqs s (remove id (sv_reqs s)) (sv_next_req s) in
    let '(tr, sid) := match r with RConnection _ tr => (tr, 0) | RPublish _ _ sid => (0, sid) | RPlay _ sid => (0, sid) end in
    one_packet s1 (MAmf0Command (str "_error") tr VNull
                     [VObject [(str "level", VString (str "_error")); (str "code", VString code); (str "description", VString description)]])
               clock sid false false
  end.

Definition server_send_metadata (s : server) (sid : N) (md : metadata) (clock : N) : call :=
  one_packet s (MAmf0Data [VString (str "onMetaData"); VObject (metadata_props_server md)]) clock sid false false.
Definition server_send_video (s : server) (sid : N) (data : bytes) (ts : N) (drop : bool) : call :=
  one_packet s (MVideoData data) ts sid false drop.
Definition server_send_audio (s : server) (sid : N) (data : bytes) (ts : N) (drop : bool) : call :=
  one_packet s (MAudioData data) ts sid false drop.
Definition server_send_ping (s : server) (clock : N) : call :=
  one_packet s (MUserControl PingRequest None None (Some clock)) clock 0 false false.

Definition server_finish_playing (s : server) (sid : N) (clock : N) : call :=
  match lookup sid (sv_streams s) with
  | Some (StPlaying key) =>
    let s1 := upd_streams s (insert sid StCompleted (sv_streams s)) (sv_next_stream s) in
    one_packet s1 (onstatus "status" "NetStream.Play.Complete" (str "Stream playback is completed for " ++ key)) clock sid false false
  | _ => (s, RErr (SInactiveStream sid))
  end.
