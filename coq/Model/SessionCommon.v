(* Shared by the server and client session models: strings, metadata mapping (sessions/mod.rs), sending a message. *)
From Coq Require Import String Ascii.
From RML Require Import Model.Base Model.Time Model.Amf0 Model.Chunk Model.ChunkSer Model.ChunkDe Model.Messages Model.Float.
Local Open Scope string_scope.
Local Open Scope list_scope.
Local Open Scope N_scope.

Fixpoint str (s : string) : bytes :=
  match s with EmptyString => [] | String a r => N_of_ascii a :: str r end.

Fixpoint bytes_eqb (a b : bytes) : bool :=
  match a, b with
  | [], [] => true
  | x :: a', y :: b' => (x =? y) && bytes_eqb a' b'
  | _, _ => false
  end.

(* HashMap<String, Amf0Value>::remove / get on a decoded object (unique keys) *)
Fixpoint prop_get (k : bytes) (ps : list (bytes * value)) : option value :=
  match ps with
  | [] => None
  | (k', v) :: r => if bytes_eqb k k' then Some v else prop_get k r
  end.

(* StreamMetadata *)
Record metadata := {
  md_width : option N; md_height : option N; md_vcodec : option N; md_framerate : option N (* f32 bits *);
  md_vbitrate : option N; md_acodec : option N; md_abitrate : option N; md_asamplerate : option N;
  md_achannels : option N; md_stereo : option bool; md_encoder : option bytes
}.
Definition md_empty : metadata :=
  {| md_width := None; md_height := None; md_vcodec := None; md_framerate := None; md_vbitrate := None; md_acodec := None;
     md_abitrate := None; md_asamplerate := None; md_achannels := None; md_stereo := None; md_encoder := None |}.

Definition num_u32 (ov : option value) : option N :=
  match ov with Some (VNumber b) => Some (f64_to_u32 b) | _ => None end.

(* StreamMetadata::apply_metadata_values on a fresh instance (keys are unique, so the drain order is irrelevant) *)
Definition metadata_of_props (ps : list (bytes * value)) : metadata :=
  {| md_width := num_u32 (prop_get (str "width") ps);
     md_height := num_u32 (prop_get (str "height") ps);
     md_vcodec := num_u32 (prop_get (str "videocodecid") ps);
     md_framerate := match prop_get (str "framerate") ps with Some (VNumber b) => Some (f64_to_f32 b) | _ => None end;
     md_vbitrate := num_u32 (prop_get (str "videodatarate") ps);
     md_acodec := num_u32 (prop_get (str "audiocodecid") ps);
     md_abitrate := num_u32 (prop_get (str "audiodatarate") ps);
     md_asamplerate := num_u32 (prop_get (str "audiosamplerate") ps);
     md_achannels := num_u32 (prop_get (str "audiochannels") ps);
     md_stereo := match prop_get (str "stereo") ps with Some (VBoolean b) => Some b | _ => None end;
     md_encoder := match prop_get (str "encoder") ps with Some (VString s) => Some s | _ => None end |}.

Definition opt_prop {A} (name : string) (o : option A) (f : A -> value) : list (bytes * value) :=
  match o with Some x => [(str name, f x)] | None => [] end.

(* the properties object both sessions build from a StreamMetadata (insertion order of the source) *)
Definition metadata_props_server (m : metadata) : list (bytes * value) :=
  opt_prop "width" (md_width m) (fun x => VNumber (u32_to_f64 x)) ++
  opt_prop "height" (md_height m) (fun x => VNumber (u32_to_f64 x)) ++
  opt_prop "videocodecid" (md_vcodec m) (fun x => VNumber (u32_to_f64 x)) ++
  opt_prop "videodatarate" (md_vbitrate m) (fun x => VNumber (u32_to_f64 x)) ++
  opt_prop "framerate" (md_framerate m) (fun x => VNumber (f32_to_f64 x)) ++
  opt_prop "audiocodecid" (md_acodec m) (fun x => VNumber (u32_to_f64 x)) ++
  opt_prop "audiodatarate" (md_abitrate m) (fun x => VNumber (u32_to_f64 x)) ++
  opt_prop "audiosamplerate" (md_asamplerate m) (fun x => VNumber (u32_to_f64 x)) ++
  opt_prop "audiochannels" (md_achannels m) (fun x => VNumber (u32_to_f64 x)) ++
  opt_prop "stereo" (md_stereo m) VBoolean ++
  opt_prop "encoder" (md_encoder m) VString.

(* fn create_status_object(level, code, description) *)
Definition status_object (level code : string) (description : bytes) : value :=
  VObject [(str "level", VString (str level)); (str "code", VString (str code)); (str "description", VString description)].

(* errors shared by both sessions: the #[from] conversions *)
Inductive wire_err :=
| WChunkDe (e : de_err) | WChunkSer (e : ser_err) | WMsgSer (e : msg_ser_err) | WMsgDe (e : msg_de_err).

(* message.into_message_payload(ts, sid)? ; serializer.serialize(&payload, force, drop)? *)
Definition send_message (ser : ChunkSer.sstate) (m : rtmp_message) (ts sid : N) (force drop : bool)
  : outcome (bytes * ChunkSer.sstate) wire_err :=
  match to_payload m with
  | Err e => Err (WMsgSer e)
  | Panic s => Panic s
  | OutOfFuel => OutOfFuel
  | Ok (tid, body) =>
    match ChunkSer.serialize ser {| m_ts := ts; m_tid := tid; m_sid := sid; m_data := body |} force drop with
    | Ok r => Ok r
    | Err e => Err (WChunkSer e)
    | Panic s => Panic s
    | OutOfFuel => OutOfFuel
    end
  end.

(* the acknowledgement window counter shared by both sessions (top of handle_input) *)
Record ack_state := { ack_window : option N; ack_since : N }.
Definition u32_sat_add (a b : N) : N := N.min (a + b) 4294967295.
(* returns the new counter and the sequence number to acknowledge, if any *)
Definition ack_step (a : ack_state) (len : N) : ack_state * option N :=
  match ack_window a with
  | None => (a, None)
  | Some w =>
    let since := u32_sat_add (ack_since a) (N.min len 4294967295) in
    if w <=? since then ({| ack_window := ack_window a; ack_since := 0 |}, Some since)
    else ({| ack_window := ack_window a; ack_since := since |}, None)
  end.
Definition ack_learn (a : ack_state) (w : N) : ack_state := {| ack_window := Some w; ack_since := ack_since a |}.
