(* Model of rml_amf0 (amf0/src/{lib,serialization,deserialization,errors}.rs). *)
From RML Require Import Model.Base Model.Utf8 Gen.Consts.

Inductive value : Type :=
| VNumber (bits : N)                       (* f64 as its 64-bit pattern *)
| VBoolean (b : bool)
| VString (s : bytes)                      (* Rust String: always valid UTF-8 *)
| VObject (props : list (bytes * value))   (* HashMap<String, Amf0Value>: list order = iteration order *)
| VStrictArray (vs : list value)
| VNull
| VUndefined.

Inductive enc_err := NormalStringTooLong | EmptyObjectPropertyName.
Inductive dec_err :=
| UnknownMarker (m : N)
| UnexpectedEmptyObjectPropertyName
| UnexpectedEof
| BufferReadError
| StringParseError.

(* ---------------------------------------------------------------- serialization.rs *)
Definition u16_max : N := 65535.

Fixpoint encode_value (v : value) : outcome bytes enc_err :=
  match v with
  | VNumber b => Ok (NUMBER_MARKER :: be64 b)
  | VBoolean b => Ok [BOOLEAN_MARKER; if b then 1 else 0]
  | VString s =>
      if u16_max <? lenN s then Err NormalStringTooLong
      else Ok (STRING_MARKER :: be16 (lenN s) ++ s)
  | VNull => Ok [NULL_MARKER]
  | VUndefined => Ok [UNDEFINED_MARKER]
  | VObject ps =>
      let fix props (ps : list (bytes * value)) : outcome bytes enc_err :=
        match ps with
        | [] => Ok []
        | (name, pv) :: rest =>
            if u16_max <? lenN name then Err NormalStringTooLong
            else if lenN name =? 0 then Err EmptyObjectPropertyName
            else obind (encode_value pv) (fun bv =>
                 obind (props rest) (fun br =>
                 Ok (be16 (lenN name) ++ name ++ bv ++ br)))
        end in
      obind (props ps) (fun b => Ok (OBJECT_MARKER :: b ++ be16 UTF_8_EMPTY_MARKER ++ [OBJECT_END_MARKER]))
  | VStrictArray vs =>
      let fix elems (vs : list value) : outcome bytes enc_err :=
        match vs with
        | [] => Ok []
        | x :: rest => obind (encode_value x) (fun bx => obind (elems rest) (fun br => Ok (bx ++ br)))
        end in
      obind (elems vs) (fun b => Ok (STRICT_ARRAY_MARKER :: be32 (lenN vs mod two32) ++ b))
  end.

Fixpoint encode_props (ps : list (bytes * value)) : outcome bytes enc_err :=
  match ps with
  | [] => Ok []
  | (name, pv) :: rest =>
      if u16_max <? lenN name then Err NormalStringTooLong
      else if lenN name =? 0 then Err EmptyObjectPropertyName
      else obind (encode_value pv) (fun bv =>
           obind (encode_props rest) (fun br =>
           Ok (be16 (lenN name) ++ name ++ bv ++ br)))
  end.

Fixpoint encode_values (vs : list value) : outcome bytes enc_err :=
  match vs with
  | [] => Ok []
  | x :: rest => obind (encode_value x) (fun bx => obind (encode_values rest) (fun br => Ok (bx ++ br)))
  end.

(* pub fn serialize(values: &Vec<Amf0Value>) *)
Definition serialize (vs : list value) : outcome bytes enc_err := encode_values vs.

(* ---------------------------------------------------------------- deserialization.rs *)
(* HashMap::insert : last value wins, one entry per key *)
Fixpoint map_insert (k : bytes) (v : value) (m : list (bytes * value)) : list (bytes * value) :=
  match m with
  | [] => [(k, v)]
  | (k', v') :: r => if list_eq_dec N.eq_dec k k' then (k, v) :: r else (k', v') :: map_insert k v r
  end.

Definition res (A : Type) := outcome A dec_err.

Fixpoint read_next_value (fuel : nat) (bs : bytes) : res (option value * bytes) :=
  match fuel with
  | O => OutOfFuel
  | S f =>
    match bs with
    | [] => Ok (None, [])                                   (* bytes_read == 0 *)
    | m :: r =>
      if m =? OBJECT_END_MARKER then Ok (None, r)
      else if m =? BOOLEAN_MARKER then
        match r with
        | [] => Err BufferReadError
        | b :: r' => Ok (Some (VBoolean (negb (b =? 0))), r')
        end
      else if m =? NULL_MARKER then Ok (Some VNull, r)
      else if m =? UNDEFINED_MARKER then Ok (Some VUndefined, r)
      else if m =? NUMBER_MARKER then
        match take_n r 8 with
        | None => Err BufferReadError
        | Some (b, r') => Ok (Some (VNumber (of_be b)), r')
        end
      else if m =? OBJECT_MARKER then
        obind (read_props f r []) (fun '(ps, r') => Ok (Some (VObject ps), r'))
      else if m =? ECMA_ARRAY_MARKER then
        match take_n r 4 with
        | None => Err BufferReadError
        | Some (_, r1) => obind (read_props f r1 []) (fun '(ps, r') => Ok (Some (VObject ps), r'))
        end
      else if m =? STRING_MARKER then
        match take_n r 2 with
        | None => Err BufferReadError
        | Some (lb, r1) =>
          match take_n r1 (of_be lb) with
          | None => Err BufferReadError
          | Some (s, r2) => if utf8_valid s then Ok (Some (VString s), r2) else Err StringParseError
          end
        end
      else if m =? STRICT_ARRAY_MARKER then
        match take_n r 4 with
        | None => Err BufferReadError
        | Some (cb, r1) => obind (read_array f (of_be cb) r1 []) (fun '(vs, r') => Ok (Some (VStrictArray vs), r'))
        end
      else Err (UnknownMarker m)
    end
  end

(* parse_object: loop over parse_object_property; acc in insertion order *)
with read_props (fuel : nat) (bs : bytes) (acc : list (bytes * value)) : res (list (bytes * value) * bytes) :=
  match fuel with
  | O => OutOfFuel
  | S f =>
    match take_n bs 2 with
    | None => Err BufferReadError
    | Some (lb, r1) =>
      if of_be lb =? 0 then
        match r1 with
        | [] => Err BufferReadError
        | b :: r2 => if b =? OBJECT_END_MARKER then Ok (acc, r2) else Err UnexpectedEmptyObjectPropertyName
        end
      else
        match take_n r1 (of_be lb) with
        | None => Err BufferReadError
        | Some (label, r2) =>
          if utf8_valid label then
            obind (read_next_value f r2) (fun '(ov, r3) =>
              match ov with
              | None => Err UnexpectedEof
              | Some pv => read_props f r3 (map_insert label pv acc)
              end)
          else Err StringParseError
        end
    end
  end

(* parse_strict_array: for _ in 0..count { match read_next_value { Some -> push, None -> break } } *)
with read_array (fuel : nat) (count : N) (bs : bytes) (acc : list value) : res (list value * bytes) :=
  match fuel with
  | O => OutOfFuel
  | S f =>
    if count =? 0 then Ok (rev acc, bs)
    else obind (read_next_value f bs) (fun '(ov, r) =>
      match ov with
      | None => Ok (rev acc, r)
      | Some x => read_array f (count - 1) r (x :: acc)
      end)
  end.

(* pub fn deserialize: loop { match read_next_value { Some(x) => push, None => break } } *)
Fixpoint read_all (fuel : nat) (bs : bytes) (acc : list value) : res (list value * bytes) :=
  match fuel with
  | O => OutOfFuel
  | S f =>
    obind (read_next_value (S (length bs)) bs) (fun '(ov, r) =>
      match ov with
      | None => Ok (rev acc, r)
      | Some x => read_all f r (x :: acc)
      end)
  end.

(* fuel: one unit per value/property/element visited, each consuming >= 1 byte *)
Definition deserialize_rest (bs : bytes) : res (list value * bytes) := read_all (S (length bs)) bs [].
Definition deserialize (bs : bytes) : res (list value) :=
  obind (deserialize_rest bs) (fun '(vs, _) => Ok vs).

(* recursion depth of the real decoder on an input = nesting depth reached (C14) *)
Fixpoint value_depth (v : value) : nat :=
  match v with
  | VObject ps => S (fold_right (fun p d => Nat.max (value_depth (snd p)) d) O ps)
  | VStrictArray vs => S (fold_right (fun x d => Nat.max (value_depth x) d) O vs)
  | _ => 1%nat
  end.
