(* Model of rtmp/src/messages/{mod.rs, message_payload.rs, types/*.rs}: RtmpMessage <-> (type id, body). *)
From RML Require Import Model.Base Model.Amf0 Gen.Consts.

Inductive limit_type := Hard | Soft | Dynamic.
Inductive uc_event := StreamBegin | StreamEof | StreamDry | SetBufferLength | StreamIsRecorded
                    | PingRequest | PingResponse | BufferEmpty | BufferReady.

Inductive rtmp_message :=
| MUnknown (tid : N) (data : bytes)
| MAbort (stream_id : N)
| MAcknowledgement (sequence_number : N)
| MAmf0Command (name : bytes) (transaction_id : N) (command_object : value) (args : list value)   (* f64 as bits *)
| MAmf0Data (values : list value)
| MAudioData (data : bytes)
| MSetChunkSize (size : N)
| MSetPeerBandwidth (size : N) (lt : limit_type)
| MUserControl (ev : uc_event) (stream_id : option N) (buffer_length : option N) (timestamp : option N)
| MVideoData (data : bytes)
| MWindowAcknowledgement (size : N).

Inductive msg_ser_err := InvalidChunkSize | SerAmf0 (e : enc_err).
Inductive msg_de_err := InvalidMessageFormat | DeAmf0 (e : dec_err) | DeIo.

(* RtmpMessage::get_message_type_id *)
Definition message_type_id (m : rtmp_message) : N :=
  match m with
  | MUnknown tid _ => tid
  | MAbort _ => TID_Abort
  | MAcknowledgement _ => TID_Acknowledgement
  | MAmf0Command _ _ _ _ => TID_Amf0Command
  | MAmf0Data _ => TID_Amf0Data
  | MAudioData _ => TID_AudioData
  | MSetChunkSize _ => TID_SetChunkSize
  | MSetPeerBandwidth _ _ => TID_SetPeerBandwidth
  | MUserControl _ _ _ _ => TID_UserControl
  | MVideoData _ => TID_VideoData
  | MWindowAcknowledgement _ => TID_WindowAcknowledgement
  end.

Definition uc_code (e : uc_event) : N :=
  match e with
  | StreamBegin => UC_StreamBegin | StreamEof => UC_StreamEof | StreamDry => UC_StreamDry
  | SetBufferLength => UC_SetBufferLength | StreamIsRecorded => UC_StreamIsRecorded
  | PingRequest => UC_PingRequest | PingResponse => UC_PingResponse
  | BufferEmpty => UC_BufferEmpty | BufferReady => UC_BufferReady
  end.

Definition limit_code (l : limit_type) : N := match l with Hard => LIMIT_Hard | Soft => LIMIT_Soft | Dynamic => LIMIT_Dynamic end.

Definition opt0 (o : option N) : N := match o with Some x => x | None => 0 end.

(* MessagePayload::from_rtmp_message : body bytes *)
Definition message_body (m : rtmp_message) : outcome bytes msg_ser_err :=
  match m with
  | MUnknown _ d => Ok d
  | MAbort sid => Ok (be32 sid)
  | MAcknowledgement n => Ok (be32 n)
  | MAmf0Command name tr obj args =>
      match Amf0.serialize (VString name :: VNumber tr :: obj :: args) with
      | Ok b => Ok b | Err e => Err (SerAmf0 e) | Panic s => Panic s | OutOfFuel => OutOfFuel
      end
  | MAmf0Data vs =>
      match Amf0.serialize vs with
      | Ok b => Ok b | Err e => Err (SerAmf0 e) | Panic s => Panic s | OutOfFuel => OutOfFuel
      end
  | MAudioData d => Ok d
  | MVideoData d => Ok d
  | MSetChunkSize n => if MAX_CHUNK_SIZE_MSG <? n then Err InvalidChunkSize else Ok (be32 n)
  | MSetPeerBandwidth size lt => Ok (be32 size ++ [limit_code lt])
  | MUserControl ev sid bl ts =>
      match ev with
      | SetBufferLength => Ok (be16 (uc_code ev) ++ be32 (opt0 sid) ++ be32 (opt0 bl))
      | PingRequest | PingResponse => Ok (be16 (uc_code ev) ++ be32 (opt0 ts))
      | _ => Ok (be16 (uc_code ev) ++ be32 (opt0 sid))
      end
  | MWindowAcknowledgement n => Ok (be32 n)
  end.

Definition to_payload (m : rtmp_message) : outcome (N * bytes) msg_ser_err :=
  obind (message_body m) (fun b => Ok (message_type_id m, b)).

(* read_u32::<BigEndian> on a cursor: None = io error *)
Definition read_u32 (bs : bytes) : option (N * bytes) :=
  match take_n bs 4 with Some (b, r) => Some (of_be b, r) | None => None end.
Definition read_u16 (bs : bytes) : option (N * bytes) :=
  match take_n bs 2 with Some (b, r) => Some (of_be b, r) | None => None end.

Definition uc_of_code (c : N) : option uc_event :=
  if c =? UCD_StreamBegin then Some StreamBegin else if c =? UCD_StreamEof then Some StreamEof
  else if c =? UCD_StreamDry then Some StreamDry else if c =? UCD_SetBufferLength then Some SetBufferLength
  else if c =? UCD_StreamIsRecorded then Some StreamIsRecorded else if c =? UCD_PingRequest then Some PingRequest
  else if c =? UCD_PingResponse then Some PingResponse else if c =? UCD_BufferEmpty then Some BufferEmpty
  else if c =? UCD_BufferReady then Some BufferReady else None.

Definition de_user_control (data : bytes) : outcome rtmp_message msg_de_err :=
  match read_u16 data with
  | None => Err DeIo
  | Some (code, r) =>
    match uc_of_code code with
    | None => Err InvalidMessageFormat
    | Some ev =>
      match read_u32 r with
      | None => Err DeIo
      | Some (a, r2) =>
        match ev with
        | SetBufferLength =>
          match read_u32 r2 with
          | None => Err DeIo
          | Some (b, _) => Ok (MUserControl ev (Some a) (Some b) None)
          end
        | PingRequest | PingResponse => Ok (MUserControl ev None None (Some a))
        | _ => Ok (MUserControl ev (Some a) None None)
        end
      end
    end
  end.

Definition de_amf0_command (data : bytes) : outcome rtmp_message msg_de_err :=
  match Amf0.deserialize data with
  | Err e => Err (DeAmf0 e)
  | Panic s => Panic s
  | OutOfFuel => OutOfFuel
  | Ok vs =>
    match vs with
    | VString name :: VNumber tr :: obj :: args => Ok (MAmf0Command name tr obj args)
    | _ => Err InvalidMessageFormat
    end
  end.

Definition de_amf0_data (data : bytes) : outcome rtmp_message msg_de_err :=
  match Amf0.deserialize data with
  | Err e => Err (DeAmf0 e)
  | Panic s => Panic s
  | OutOfFuel => OutOfFuel
  | Ok vs => Ok (MAmf0Data vs)
  end.

Definition de_u32 (f : N -> rtmp_message) (data : bytes) : outcome rtmp_message msg_de_err :=
  match read_u32 data with None => Err DeIo | Some (n, _) => Ok (f n) end.

(* MessagePayload::to_rtmp_message *)
Definition of_payload (tid : N) (data : bytes) : outcome rtmp_message msg_de_err :=
  if tid =? 1 then
    match read_u32 data with
    | None => Err DeIo
    | Some (n, _) => if MAX_CHUNK_SIZE_MSG <? n then Err InvalidMessageFormat else Ok (MSetChunkSize n)
    end
  else if tid =? 2 then de_u32 MAbort data
  else if tid =? 3 then de_u32 MAcknowledgement data
  else if tid =? 4 then de_user_control data
  else if tid =? 5 then de_u32 MWindowAcknowledgement data
  else if tid =? 6 then
    match read_u32 data with
    | None => Err DeIo
    | Some (n, r) =>
      match r with
      | [] => Err DeIo
      | c :: _ => if c =? LIMITD_Hard then Ok (MSetPeerBandwidth n Hard)
                  else if c =? LIMITD_Soft then Ok (MSetPeerBandwidth n Soft)
                  else if c =? LIMITD_Dynamic then Ok (MSetPeerBandwidth n Dynamic)
                  else Err InvalidMessageFormat
      end
    end
  else if tid =? 8 then Ok (MAudioData data)
  else if tid =? 9 then Ok (MVideoData data)
  else if tid =? 18 then de_amf0_data data
  else if tid =? 20 then de_amf0_command data
  else if tid =? 15 then de_amf0_data data
  else if tid =? 17 then
    match data with
    | 0 :: r => de_amf0_command r
    | _ => de_amf0_command data
    end
  else Ok (MUnknown tid data).
