(* Types shared by the chunk serializer and deserializer models (rtmp/src/chunk_io/chunk_header.rs,
   messages/message_payload.rs: MessagePayload). *)
From RML Require Import Model.Base Model.Time.

(* MessagePayload { timestamp, type_id, message_stream_id, data } *)
Record msg := { m_ts : N; m_tid : N; m_sid : N; m_data : bytes }.

(* ChunkHeaderFormat: Full = 0, TimeDeltaWithoutMessageStreamId = 1, TimeDeltaOnly = 2, Empty = 3 *)
Inductive fmt := Full | NoSid | DeltaOnly | Empty.
Definition fmt_num (f : fmt) : N := match f with Full => 0 | NoSid => 1 | DeltaOnly => 2 | Empty => 3 end.
Definition fmt_eqb (a b : fmt) : bool := fmt_num a =? fmt_num b.

(* association lists standing for HashMap<u32, _> (keys unique by construction: insert replaces) *)
Fixpoint lookup {A} (k : N) (m : list (N * A)) : option A :=
  match m with
  | [] => None
  | (k', v) :: r => if k =? k' then Some v else lookup k r
  end.
Fixpoint remove {A} (k : N) (m : list (N * A)) : list (N * A) :=
  match m with
  | [] => []
  | (k', v) :: r => if k =? k' then remove k r else (k', v) :: remove k r
  end.
Definition insert {A} (k : N) (v : A) (m : list (N * A)) : list (N * A) := (k, v) :: remove k m.

(* split a list at position n (n : N), total: takes what is there *)
Fixpoint split_at (n : N) (l : bytes) : bytes * bytes :=
  if n =? 0 then ([], l)
  else match l with
       | [] => ([], [])
       | x :: r => let '(a, b) := split_at (n - 1) r in (x :: a, b)
       end.

Fixpoint drop_n (n : N) (l : bytes) : bytes :=
  if n =? 0 then l else match l with [] => [] | _ :: r => drop_n (n - 1) r end.
