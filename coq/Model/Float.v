(* IEEE-754 casts used by the sessions, on bit patterns (f64 = N < 2^64, f32 = N < 2^32).
   Rust semantics: `f as u32` truncates toward zero and saturates (NaN -> 0); `u as f64` is exact for u32;
   `f64 as f32` rounds to nearest, ties to even; `f32 as f64` is exact. *)
From RML Require Import Model.Base.

Definition f64_sign (b : N) : bool := 9223372036854775808 <=? b.                (* bit 63 *)
Definition f64_exp (b : N) : N := (b / 4503599627370496) mod 2048.              (* bits 52..62 *)
Definition f64_man (b : N) : N := b mod 4503599627370496.                        (* bits 0..51 *)

Definition f64_is_nan (b : N) : bool := (f64_exp b =? 2047) && negb (f64_man b =? 0).

(* magnitude truncated toward zero, for finite values (0 for subnormals and |x| < 1) *)
Definition f64_trunc_mag (b : N) : N :=
  let e := f64_exp b in
  let m := f64_man b + 4503599627370496 in       (* implicit leading 1 *)
  if e <? 1023 then 0
  else if e <=? 1075 then m / 2 ^ (1075 - e)
  else m * 2 ^ (e - 1075).

(* `x as u32` *)
Definition f64_to_u32 (b : N) : N :=
  if f64_is_nan b then 0
  else if f64_sign b then 0
  else if f64_exp b =? 2047 then 4294967295
  else if 1055 <=? f64_exp b then 4294967295        (* >= 2^32 *)
  else f64_trunc_mag b.

(* `n as f64` for n < 2^32 (exact) *)
Definition u32_to_f64 (n : N) : N :=
  if n =? 0 then 0
  else let p := N.log2 n in (1023 + p) * 4503599627370496 + (n - 2 ^ p) * 2 ^ (52 - p).

(* comparisons with constants: -2.0 = 0xC000000000000000, -1.0 = 0xBFF0000000000000 *)
Definition f64_eq_neg2 (b : N) : bool := b =? 13835058055282163712.
Definition f64_eq_neg1 (b : N) : bool := b =? 13830554455654793216.
(* x >= 0.0 : false for NaN; true for +0, -0 and positive values *)
Definition f64_ge_zero (b : N) : bool :=
  if f64_is_nan b then false else negb (f64_sign b) || (b =? 9223372036854775808).

(* `x as f32` : round to nearest even; result as f32 bits.  NaN -> canonical quiet NaN 0x7FC00000 with sign *)
Definition f64_to_f32 (b : N) : N :=
  let s := if f64_sign b then 2147483648 else 0 in
  let e := f64_exp b in
  let m := f64_man b in
  if e =? 2047 then (if m =? 0 then s + 2139095040 else s + 2143289344)
  else
    (* value = sig * 2^(e - 1075) with sig = m + 2^52 (normal) or m (subnormal, e = 0 -> exponent 1) *)
    let sig := if e =? 0 then m else m + 4503599627370496 in
    let e1 := if e =? 0 then 1 else e in                (* unbiased exponent of the lsb: e1 - 1075 *)
    (* target: f32 normal numbers have 24-bit significand with lsb exponent (E32 - 150), E32 in 1..254 *)
    (* E32 for a normal result = e1 - 1023 + 127 = e1 - 896 ; shift = 29 bits for normals *)
    let round_shift (sg sh : N) : N :=
      let q := sg / 2 ^ sh in
      let r := sg mod 2 ^ sh in
      let half := 2 ^ (sh - 1) in
      if sh =? 0 then q
      else if (half <? r) || ((r =? half) && N.odd q) then q + 1 else q in
    if 897 <=? e1 then
      (* candidate normal: E32 = e1 - 896 *)
      let q := round_shift sig 29 in                    (* 24-bit significand, maybe 2^24 after rounding *)
      let E32 := e1 - 896 in
      let '(q2, E2) := if q =? 16777216 then (8388608, E32 + 1) else (q, E32) in
      if 255 <=? E2 then s + 2139095040                 (* overflow -> inf *)
      else s + E2 * 8388608 + (q2 - 8388608)
    else
      (* subnormal or zero in f32: lsb exponent fixed at -149 ; shift = 29 + (897 - e1) *)
      let sh := 29 + (897 - e1) in
      if 80 <? sh then s                                 (* far below the smallest subnormal *)
      else
        let q := round_shift sig sh in
        s + q.                                           (* q = 2^23 encodes the smallest normal correctly *)

(* `x as f64` for f32 bits (exact) *)
Definition f32_to_f64 (b : N) : N :=
  let s := if 2147483648 <=? b then 9223372036854775808 else 0 in
  let e := (b / 8388608) mod 256 in
  let m := b mod 8388608 in
  if e =? 255 then (if m =? 0 then s + 9218868437227405312 else s + 9221120237041090560 + m * 536870912 mod 2251799813685248)
  else if e =? 0 then
    (if m =? 0 then s
     else let p := N.log2 m in                           (* subnormal: m * 2^-149 = 2^(p-149) * (m / 2^p) *)
          s + (1023 + p - 149) * 4503599627370496 + (m - 2 ^ p) * 2 ^ (52 - p))
  else s + (e + 896) * 4503599627370496 + m * 536870912.
