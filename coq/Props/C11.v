(* C11 - generated handshake packets carry valid Flash-Player-9 digests and signatures.
   Every theorem is parametric in the HMAC function: it holds for EVERY function with a 32-byte output; the executable
   instance is the Gallina HMAC-SHA256 of Model/Sha256.v (published vectors as Examples; compared with the hmac / sha2
   crates and with Python's hashlib in the correspondence check).  The random fill is universally quantified. *)
From Coq Require Import String.
From RML Require Import Model.Base Model.SessionCommon Model.Sha256 Model.Handshake Gen.Consts Proofs.Sha256Vectors Proofs.HandshakeProofs.
Local Open Scope N_scope.

(* packet 1: 1536 bytes, zero time field, version, a digest keyed for the role at the position selected by the packet's
   own pointer bytes, which lie outside the digest *)
Theorem C11_p1_digest : forall hmac, (forall k m, length (hmac k m) = 32%nat) -> forall r rand,
  let p1 := h_sent_p1 (snd (gen_p0p1 hmac (hs_new r rand))) in
  let off := N.to_nat (own_offset r p1) in
  length p1 = 1536%nat /\ firstn 4 p1 = [0; 0; 0; 0] /\ firstn 4 (skipn 4 p1) = ADOBE_VERSION /\
  (off + 32 <= 1536)%nat /\
  firstn 32 (skipn off p1) = hmac (own_key r) (firstn off p1 ++ skipn (off + 32) p1) /\
  own_offset r p1 = own_offset r (pre_p1 rand).
Proof. exact p1_digest. Qed.

Theorem C11_offset_range : forall hmac : bytes -> bytes -> bytes, (forall k m, length (hmac k m) = 32%nat) -> forall r p,
  match r with
  | RClient => 12 <= own_offset r p < 740
  | RServer => 776 <= own_offset r p < 1504
  end.
Proof. exact offset_range. Qed.

(* a received packet 1 with a valid digest under either position scheme is recognised (scheme 1 first); none -> None *)
Theorem C11_find_digest_complete : forall hmac p key,
  let '(b1, d1, a1) := message_parts p (client_digest_offset p) in
  let '(b2, d2, a2) := message_parts p (server_digest_offset p) in
  (hmac key (b1 ++ a1) = d1 -> find_digest hmac p key = Some d1) /\
  (hmac key (b1 ++ a1) <> d1 -> hmac key (b2 ++ a2) = d2 -> find_digest hmac p key = Some d2) /\
  (hmac key (b1 ++ a1) <> d1 -> hmac key (b2 ++ a2) <> d2 -> find_digest hmac p key = None).
Proof. exact find_digest_complete. Qed.

(* packet 2: signed answer to a digest-bearing packet 1, exact echo of a digest-less one *)
Theorem C11_p2_reply : forall hmac, (forall k m, length (hmac k m) = 32%nat) -> forall h p1 rest,
  h_stage h = WaitingForPacket1 -> length p1 = 1536%nat -> h_buf h = p1 ++ rest ->
  match find_digest hmac p1 (peer_key (h_role h)) with
  | Some d =>
      let body := firstn 1504 (fst (take_rand 1536 (h_rand h))) in
      snd (hs_step hmac h) = SProgress (body ++ hmac (hmac (own_key (h_role h) ++ HS_RANDOM_CRUD) d) body) /\
      length body = 1504%nat
  | None => snd (hs_step hmac h) = SProgress p1
  end /\ h_stage (fst (hs_step hmac h)) = WaitingForPacket2 /\ h_buf (fst (hs_step hmac h)) = rest.
Proof. exact p2_reply. Qed.

(* the executable instance has the required output length *)
Theorem C11_hmac_sha256_length : forall k m, length (hmac_sha256 k m) = 32%nat.
Proof. exact hmac_sha256_length. Qed.

Print Assumptions C11_p1_digest.
Print Assumptions C11_offset_range.
Print Assumptions C11_find_digest_complete.
Print Assumptions C11_p2_reply.
(* the instance: published vectors (FIPS 180-4 "abc", RFC 4231 case 2) *)
Theorem C11_sha256_vector_abc :
  sha256 [97; 98; 99] = [186; 120; 22; 191; 143; 1; 207; 234; 65; 65; 64; 222; 93; 174; 34; 35; 176; 3; 97; 163; 150; 23; 122; 156; 180; 16; 255; 97; 242; 0; 21; 173].
Proof. exact sha256_abc. Qed.

Theorem C11_hmac_vector_rfc4231_2 :
  hmac_sha256 (str "Jefe") (str "what do ya want for nothing?") =
  [91; 220; 193; 70; 191; 96; 117; 78; 106; 4; 36; 38; 8; 149; 117; 199; 90; 0; 63; 8; 157; 39; 57; 131; 157; 236; 88; 185; 100; 236; 56; 67].
Proof. exact hmac_rfc4231_2. Qed.

Print Assumptions C11_hmac_sha256_length.
Print Assumptions C11_sha256_vector_abc.
Print Assumptions C11_hmac_vector_rfc4231_2.
