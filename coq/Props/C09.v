(* C09 - the server session follows the request / stream state machine in every history.
   Model/Server.v is the message-level model of ServerSession (tied to the code by the correspondence check on
   operation scripts).  Inv is proved for EVERY state reachable by any sequence of inputs and application calls
   (Inv_reachable); the per-handler theorems then hold in all of them.  Counters (request ids, stream ids) are
   unbounded in the model: the statements hold for histories with fewer than 2^32 requests / streams (DESIGN 10.8). *)
From Coq Require Import String.
From RML Require Import Model.Base Model.Amf0 Model.Chunk Model.Messages Model.Float Model.SessionCommon Model.Server Proofs.ServerProofs Proofs.ServerAccepted.
Local Open Scope list_scope.
Local Open Scope N_scope.

Theorem C09_invariant_reachable : forall c clock s r ops, server_new c clock = (s, r) -> Inv (server_run s ops).
Proof. exact Inv_from_new. Qed.

(* publish is surfaced only on an accepted connection, with a fresh request id that becomes outstanding *)
Theorem C09_publish_gate : forall s sid tr args clock s' rs,
  h_publish s sid tr args clock = (s', ROk rs) -> existsb is_request_event rs = true ->
  sv_connected s = true /\ exists app key mode, sv_app s = Some app /\
    rs = [SEvent (EvPublishRequested (sv_next_req s) app key mode)] /\
    lookup (sv_next_req s) (sv_reqs s') = Some (RPublish key mode sid).
Proof. exact h_publish_gate. Qed.

Theorem C09_play_gate : forall s sid tr args clock s' rs,
  h_play s sid tr args clock = (s', ROk rs) -> existsb is_request_event rs = true ->
  sv_connected s = true /\ exists app key, sv_app s = Some app /\
    lookup (sv_next_req s) (sv_reqs s') = Some (RPlay key sid) /\
    exists start dur reset, rs = [SEvent (EvPlayRequested (sv_next_req s) app key start dur reset sid)].
Proof. exact h_play_gate. Qed.

(* otherwise the answer is one packet carrying an _error command *)
Theorem C09_publish_before_connect : forall s sid tr args clock s' r,
  sv_connected s = false -> h_publish s sid tr args clock = (s', r) ->
  exists m, one_packet s m clock sid false false = (s', r) /\
            match m with MAmf0Command name _ _ _ => name = str "_error" | _ => False end.
Proof. exact h_publish_not_connected. Qed.

Theorem C09_play_before_connect : forall s sid tr args clock s' r,
  sv_connected s = false -> h_play s sid tr args clock = (s', r) ->
  exists m, one_packet s m clock sid false false = (s', r) /\
            match m with MAmf0Command name _ _ _ => name = str "_error" | _ => False end.
Proof. exact h_play_not_connected. Qed.

(* request ids: fresh (never issued before), strictly increasing *)
Theorem C09_request_ids_fresh : forall s r s' n,
  Inv s -> new_request s r = (s', n) ->
  n = sv_next_req s /\ lookup n (sv_reqs s) = None /\ lookup n (sv_reqs s') = Some r /\ sv_next_req s' = n + 1 /\ Inv s'.
Proof. exact new_request_fresh. Qed.

(* accept / reject: an id that is not outstanding is refused without side effects; an outstanding id is consumed *)
Theorem C09_accept_unknown : forall s id clock, lookup id (sv_reqs s) = None -> server_accept s id clock = (s, RErr SInvalidRequestId).
Proof. exact accept_unknown_id. Qed.
Theorem C09_reject_unknown : forall s id code d clock, lookup id (sv_reqs s) = None -> server_reject s id code d clock = (s, RErr SInvalidRequestId).
Proof. exact reject_unknown_id. Qed.
Theorem C09_accept_once : forall s id clock s' r req,
  lookup id (sv_reqs s) = Some req -> server_accept s id clock = (s', r) -> lookup id (sv_reqs s') = None.
Proof. exact accept_removes. Qed.
Theorem C09_reject_once : forall s id code d clock s' r req,
  lookup id (sv_reqs s) = Some req -> server_reject s id code d clock = (s', r) -> lookup id (sv_reqs s') = None.
Proof. exact reject_removes. Qed.

(* createStream: an id never issued before, returned in a _result under the caller's transaction id *)
Theorem C09_create_stream_fresh : forall s tr clock s' r,
  Inv s -> h_create_stream s tr clock = (s', r) ->
  lookup (sv_next_stream s) (sv_streams s) = None /\
  sv_next_stream s' = sv_next_stream s + 1 /\ lookup (sv_next_stream s) (sv_streams s') = Some StCreated /\
  (forall rs, r = ROk rs -> exists b ser',
      send_message (sv_ser s) (MAmf0Command (str "_result") tr VNull [VNumber (u32_to_f64 (sv_next_stream s))]) clock 0 false false = Ok (b, ser') /\
      rs = [SPacket b false]).
Proof. exact create_stream_fresh. Qed.

(* audio / video events exactly on a stream whose publish request is currently accepted, tagged with its key and the app *)
Theorem C09_media_gate : forall audio s data sid ts,
  h_media audio s data sid ts =
  (s, ROk (if sv_connected s
           then match publishing_key s sid with
                | Some (app, key) => [SEvent (if audio then EvAudio app key data ts else EvVideo app key data ts)]
                | None => []
                end
           else [])).
Proof. exact media_gate. Qed.

Theorem C09_publishing_key_spec : forall s sid app key,
  publishing_key s sid = Some (app, key) <-> sv_app s = Some app /\ exists mode, lookup sid (sv_streams s) = Some (StPublishing key mode).
Proof. exact publishing_key_spec. Qed.

(* closing or deleting a publishing / playing stream: exactly one matching finished event; afterwards the stream is
   Created (close) or gone (delete), so a second close or delete raises nothing *)
Theorem C09_finished_once : forall delete s args,
  sv_connected s = true -> forall app x, sv_app s = Some app -> args = VNumber x :: tl args ->
  let sid := f64_to_u32 x in
  match lookup sid (sv_streams s) with
  | None => h_close_or_delete delete s args = (s, ROk [])
  | Some st =>
    exists s', h_close_or_delete delete s args = (s', ROk (finished_event app st)) /\
      (if delete then lookup sid (sv_streams s') = None else lookup sid (sv_streams s') = Some StCreated) /\
      (forall k, k <> sid -> lookup k (sv_streams s') = lookup k (sv_streams s)) /\ sv_reqs s' = sv_reqs s
  end.
Proof. exact close_or_delete_spec. Qed.

Theorem C09_finished_event_shape : forall app st, (length (finished_event app st) <= 1)%nat /\ finished_event app StCreated = [].
Proof. exact finished_event_once. Qed.

(* every ping request is answered with a ping response carrying the same timestamp *)
Theorem C09_ping_echo : forall s p clock ts,
  of_payload (m_tid p) (m_data p) = Ok (MUserControl PingRequest None None (Some ts)) ->
  h_message s p clock = one_packet s (MUserControl PingResponse None None (Some ts)) clock 0 false false.
Proof. exact ping_echo. Qed.

(* the application name the events are tagged with is the one accepted LAST: accepting a registered connection request stores that
   request's name whatever an earlier accepted request left behind (C09_publish_gate / C09_play_gate read it from there) *)
Theorem C09_accept_connection_stores_app : forall s id app tr clock s' rs,
  lookup id (sv_reqs s) = Some (RConnection app tr) -> server_accept s id clock = (s', ROk rs) ->
  sv_app s' = Some app /\ sv_connected s' = true /\ (exists b, rs = [SPacket b false]) /\
  sv_streams s' = sv_streams s /\ sv_next_stream s' = sv_next_stream s.
Proof. exact accept_connection_stores_app. Qed.

Theorem C09_accept_connection_failure_no_event : forall s id app tr clock s' e,
  lookup id (sv_reqs s) = Some (RConnection app tr) -> server_accept s id clock = (s', RErr e) -> exists w, e = SWire w.
Proof. exact accept_connection_failure_no_event. Qed.

(* rejecting a request - of any kind, outstanding or not - never connects the session, never changes the application name and
   never touches a stream *)
Theorem C09_reject_keeps_connection : forall s id code d clock s' r,
  server_reject s id code d clock = (s', r) ->
  sv_app s' = sv_app s /\ sv_connected s' = sv_connected s /\ sv_streams s' = sv_streams s /\ sv_next_stream s' = sv_next_stream s /\
  sv_next_req s' = sv_next_req s.
Proof. exact reject_keeps_connection. Qed.

Print Assumptions C09_reject_keeps_connection.
Print Assumptions C09_accept_connection_stores_app.
Print Assumptions C09_accept_connection_failure_no_event.
Print Assumptions C09_invariant_reachable.
Print Assumptions C09_publish_gate.
Print Assumptions C09_play_gate.
Print Assumptions C09_publish_before_connect.
Print Assumptions C09_play_before_connect.
Print Assumptions C09_request_ids_fresh.
Print Assumptions C09_accept_unknown.
Print Assumptions C09_reject_unknown.
Print Assumptions C09_accept_once.
Print Assumptions C09_reject_once.
Print Assumptions C09_create_stream_fresh.
Print Assumptions C09_media_gate.
Print Assumptions C09_publishing_key_spec.
Print Assumptions C09_finished_once.
Print Assumptions C09_finished_event_shape.
Print Assumptions C09_ping_echo.
