(* C20 - RTMP timestamps form a wrap-around clock. Only statements pinned with Check, closed by
   [exact lemma], and Print Assumptions.  See DESIGN.md section 6 (C20) and 10.1. *)
From RML Require Import Model.Base Model.Time Proofs.TimeProofs.
Local Open Scope N_scope.

Theorem C20_add_exact : forall a b, a < two32 -> b < two32 ->
  add_values a b = (a + b) mod 2^32 /\ add_values a b < two32.
Proof. exact add_exact. Qed.

Theorem C20_sub_exact : forall a b, a < two32 -> b < two32 ->
  sub_values a b < two32 /\ (sub_values a b + b) mod 2^32 = a.
Proof. exact sub_exact. Qed.

Theorem C20_add_sub_inverse : forall a d, a < two32 -> d < two32 -> sub_values (add_values a d) d = a.
Proof. exact add_sub_inverse. Qed.

Theorem C20_sub_add_inverse : forall a d, a < two32 -> d < two32 -> add_values (sub_values a d) d = a.
Proof. exact sub_add_inverse. Qed.

Theorem C20_cmp_eq_iff : forall a b, a < two32 -> b < two32 -> (compare_values a b = Eq <-> a = b).
Proof. exact cmp_eq_iff. Qed.

Theorem C20_cmp_antisym : forall a b, compare_values b a = CompOpp (compare_values a b).
Proof. exact cmp_antisym. Qed.

Theorem C20_cmp_later_iff : forall a b, a < two32 -> b < two32 -> sub_values b a <> two31 ->
  (compare_values a b = Lt <-> 1 <= sub_values b a <= two31 - 1).
Proof. exact cmp_later_iff. Qed.

Theorem C20_cmp_earlier_iff : forall a b, a < two32 -> b < two32 -> sub_values b a <> two31 ->
  (compare_values a b = Gt <-> two31 + 1 <= sub_values b a <= two32 - 1).
Proof. exact cmp_earlier_iff. Qed.

Theorem C20_cmp_antipode : forall a b, a < two32 -> b < two32 -> sub_values b a = two31 ->
  compare_values a b = CompOpp (N.compare a b) /\ a <> b.
Proof. exact cmp_antipode. Qed.

Theorem C20_antipode_impossible : forall cmp : N -> N -> comparison,
  (forall a b, a < two32 -> b < two32 -> (cmp a b = Eq <-> a = b)) ->
  (forall a b, cmp b a = CompOpp (cmp a b)) ->
  ~ (forall a b, a < two32 -> b < two32 -> (cmp a b = Lt <-> 1 <= sub_values b a <= two31 - 1)).
Proof. exact antipode_impossible. Qed.

Theorem C20_compare_no_underflow : forall a b,
  exists d, compare_difference_checked a b = Some d /\ d = N.max a b - N.min a b.
Proof. exact compare_no_underflow. Qed.

Theorem C20_u32_impls_agree : forall a b,
  ts_partial_cmp a b = Some (ts_cmp a b) /\
  ts_partial_cmp_u32 a b = Some (ts_cmp a b) /\
  u32_partial_cmp_ts a b = Some (ts_cmp a b) /\
  ts_eq_u32 a b = ts_eq a b /\ u32_eq_ts a b = ts_eq a b /\
  (a < two32 -> b < two32 -> (ts_eq a b = true <-> ts_cmp a b = Eq)).
Proof. exact u32_impls_agree. Qed.

Print Assumptions C20_add_exact.
Print Assumptions C20_sub_exact.
Print Assumptions C20_add_sub_inverse.
Print Assumptions C20_sub_add_inverse.
Print Assumptions C20_cmp_eq_iff.
Print Assumptions C20_cmp_antisym.
Print Assumptions C20_cmp_later_iff.
Print Assumptions C20_cmp_earlier_iff.
Print Assumptions C20_cmp_antipode.
Print Assumptions C20_antipode_impossible.
Print Assumptions C20_compare_no_underflow.
Print Assumptions C20_u32_impls_agree.
