(* C04 - AMF0 encode then decode is the identity; an error exactly for what AMF0 cannot express.
   Objects are association lists whose order is the HashMap iteration order: the theorems hold for
   EVERY order (the list is universally quantified), and the decoded list equals the encoded one. *)
From RML Require Import Model.Base Model.Amf0 Spec.Amf0Wire Proofs.Amf0Proofs.

Theorem C04_roundtrip : forall vs, wf_values vs ->
  (expressible_all vs = true ->
     exists bs, serialize vs = Ok bs /\ deserialize_rest bs = Ok (vs, [])) /\
  (expressible_all vs = false -> exists e, serialize vs = Err e).
Proof. exact roundtrip. Qed.

Theorem C04_roundtrip_ok : forall vs bs, wf_values vs -> serialize vs = Ok bs -> deserialize_rest bs = Ok (vs, []).
Proof. exact roundtrip_ok. Qed.

(* non-vacuity: a nested value with a NaN payload, signed zero, multi-byte UTF-8, two properties *)
Example C04_example :
  let v := [VObject [([97], VNumber 9221120237041090561); ([195; 169], VStrictArray [VBoolean true; VString [226; 130; 172]; VNumber 9223372036854775808])]; VNull] in
  expressible_all v = true /\ exists bs, serialize v = Ok bs /\ deserialize_rest bs = Ok (v, []).
Proof. split; [reflexivity|]. eexists. split; vm_compute; reflexivity. Qed.

Print Assumptions C04_roundtrip.
Print Assumptions C04_roundtrip_ok.
