(* C01 - chunk codec round trip.  Proved so far (C01_..._partial): the serializer's output for every accepted
   operation sequence is read back as exactly the same message sequence by the specification decoder, and
   every accepted message yields a non-empty packet.  The same statement for the library's own staged
   deserializer under every partition of the bytes follows from the refinement idec <= sdec (C06) and the
   partition lemma (C15); until those are closed the deserializer side is decided by the correspondence check
   (real serializer -> real deserializer under whole / byte-wise / fixed / random partitions). *)
From RML Require Import Model.Base Model.Chunk Model.ChunkSer Spec.ChunkSpec Proofs.ChunkSerProofs.
Local Open Scope N_scope.

Theorem C01_roundtrip_spec_partial : forall ops packets st',
  Forall op_wf ops -> ser_run ser_init ops = Ok (packets, st') ->
  sdec (concat packets) = SOk (map op_msg ops).
Proof. exact ser_sdec. Qed.

Theorem C01_packets_nonempty : forall ops packets st',
  Forall op_wf ops -> ser_run ser_init ops = Ok (packets, st') -> Forall (fun b => b <> []) packets.
Proof. exact packets_nonempty. Qed.

Print Assumptions C01_roundtrip_spec_partial.
Print Assumptions C01_packets_nonempty.
