(* C01 - chunk codec round trip, proved end to end on the models of serializer.rs and deserializer.rs:
   for EVERY operation sequence the serializer accepts (messages with any type id, stream id, timestamp, payload of
   0..16777215 bytes, force_uncompressed / can_be_dropped flags, chunk-size changes in between) and EVERY partition of
   the produced bytes into input calls, the documented driving loop of the deserializer (which applies each decoded
   Set Chunk Size) returns exactly the sequence of payloads, without error and within its fuel.
   Proof chain: T1 (serializer output = chunk records the independent specification decoder reads back, ChunkSerProofs),
   T2 (the staged deserializer refines the specification decoder on every accepted record, ChunkRefineProofs),
   C15 (partition independence, ChunkDeProofs), fuel adequacy (ChunkDeFuel).  op_wf bounds the fields to their wire
   types (u8 type id, u32 ids/timestamps, bytes < 256, chunk sizes 1..2^31-1).
   The models are tied to the Rust code by the correspondence check (real serializer -> real deserializer). *)
From RML Require Import Model.Base Model.Chunk Model.ChunkSer Model.ChunkDe Spec.ChunkSpec Proofs.ChunkSerProofs Proofs.ChunkEndToEnd.
Local Open Scope N_scope.

Theorem C01_roundtrip_any_partition : forall ops packets st' pieces,
  Forall op_wf ops -> ser_run ser_init ops = Ok (packets, st') -> concat pieces = concat packets ->
  exists s1, feed_all de_init pieces [] = (s1, map op_msg ops, None).
Proof. exact roundtrip_all. Qed.

Theorem C01_roundtrip_spec_decoder : forall ops packets st',
  Forall op_wf ops -> ser_run ser_init ops = Ok (packets, st') ->
  sdec (concat packets) = SOk (map op_msg ops).
Proof. exact ser_sdec. Qed.

Theorem C01_packets_nonempty : forall ops packets st',
  Forall op_wf ops -> ser_run ser_init ops = Ok (packets, st') -> Forall (fun b => b <> []) packets.
Proof. exact packets_nonempty. Qed.

Print Assumptions C01_roundtrip_any_partition.
Print Assumptions C01_roundtrip_spec_decoder.
Print Assumptions C01_packets_nonempty.
