(* C06 - the deserializer decodes every specification-conformant foreign chunk stream.
   "Conformant stream carrying ms" is defined by the independent specification decoder (Spec/ChunkSpec.v, written from
   RTMP 1.0 section 5.3.1 with literal constants): a sequence of chunk records cs - any chunk stream id 2..65599 in its
   1-, 2- or 3-byte form, any header format 0-3 legal at that point, extended timestamps on first and continuation
   chunks, zero-length messages, in-band Set Chunk Size - that sdec_run accepts with messages ms.
   Theorem: for every such cs and EVERY partition of its bytes into input calls, the library's deserializer returns
   exactly ms (type, stream id, absolute timestamp mod 2^32, payload), in order, with no error, within its fuel.
   The statement is about all record sequences, not the ones an encoder of ours happens to emit; parse_emit
   (ChunkSpecProofs) shows the records are what the byte-level front end of the spec decoder reads from these bytes. *)
From RML Require Import Model.Base Model.Chunk Model.ChunkDe Spec.ChunkSpec Proofs.ChunkDeProofs Proofs.ChunkRefineProofs Proofs.ChunkEndToEnd.
Local Open Scope N_scope.

Theorem C06_conformant_stream_decoded : forall cs sd' ms pieces,
  sdec_run sdec_init cs = Some (sd', ms) -> concat pieces = concat (map emit_chunk cs) ->
  exists s1, feed_all de_init pieces [] = (s1, ms, None).
Proof. exact deserializer_conformance. Qed.

(* one accepted chunk: the staged parser consumes exactly its bytes, reaches a related state and returns the same message *)
Theorem C06_chunk_refinement : forall sd c sd' om max f cur prev part rest,
  Rel sd (mk max f cur StCsid (emit_chunk c ++ rest) prev part) ->
  dec_chunk sd c = Some (sd', om) ->
  exists f' prev' part',
    let dst' := mk max f' dhdr_new StCsid rest prev' part' in
    Rel sd' dst' /\
    G (mk max f cur StCsid (emit_chunk c ++ rest) prev part) = match om with Some m => (dst', DMsg m) | None => G dst' end.
Proof. exact idec_chunk. Qed.

Print Assumptions C06_conformant_stream_decoded.
Print Assumptions C06_chunk_refinement.
