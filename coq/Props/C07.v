(* C07 - the chunk serializer's output is a specification-conformant chunk stream.
   sdec (Spec/ChunkSpec.v) is the independent specification-following decoder: it enforces legal and
   minimally-formed chunk stream ids per basic-header form, compressed headers only relative to the previous
   chunk of the same chunk stream, the saturating 24-bit field with the extended field present exactly then,
   per-chunk payload = min(remaining, chunk size in force), and applies a Set Chunk Size message only to the
   chunks that follow it.  The theorem: for EVERY operation sequence the serializer accepts, that decoder reads
   the concatenated packets as exactly the messages, in order.  Spec/ does not mention Gen/Consts.v. *)
From RML Require Import Model.Base Model.Chunk Model.ChunkSer Spec.ChunkSpec Proofs.ChunkSerProofs.
Local Open Scope N_scope.

Theorem C07_conformant : forall ops packets st',
  Forall op_wf ops -> ser_run ser_init ops = Ok (packets, st') ->
  sdec (concat packets) = SOk (map op_msg ops).
Proof. exact ser_sdec. Qed.

(* each chunk the serializer writes is the encoding of a chunk record with a 1-byte basic header (csid 2..63) *)
Theorem C07_chunk_form : forall st force m cont data drop,
  add_chunk st force m cont data drop =
  let csid := get_csid_for_message_type (m_tid m) in
  let '(f, h) := decide_header st force m cont drop in
  Ok (emit_chunk (chunk_of f csid h data), {| s_prev := insert csid h (s_prev st); s_max := s_max st |}).
Proof. exact add_chunk_emit. Qed.

Theorem C07_csid_minimal : forall tid, 2 <= get_csid_for_message_type tid <= 63.
Proof. exact csid_range. Qed.

Print Assumptions C07_conformant.
Print Assumptions C07_chunk_form.
Print Assumptions C07_csid_minimal.
