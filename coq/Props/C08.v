(* C08 - dropping any subset of the droppable packets leaves the stream decodable.
   Proved here against the independent specification decoder (sdec): for every accepted operation sequence
   and EVERY keep-mask that withholds only packets returned as droppable (the 2^k subsets are quantified,
   not enumerated), the remaining packets decode to exactly the messages of the kept packets.
   The library's own deserializer is tied to sdec by C06 (refinement) and by the correspondence check. *)
From RML Require Import Model.Base Model.Chunk Model.ChunkSer Spec.ChunkSpec Proofs.ChunkSerProofs.
Local Open Scope N_scope.

Theorem C08_drop : forall ops keep packets st',
  Forall op_wf ops -> ser_run ser_init ops = Ok (packets, st') -> keep_ok keep ops ->
  sdec (concat (select keep packets)) = SOk (map op_msg (select keep ops)).
Proof. exact ser_sdec_drop. Qed.

Example C08_example :
  match ser_run ser_init example_ops with
  | Ok (packets, _) => sdec (concat (select example_mask packets)) = SOk (map op_msg (select example_mask example_ops))
  | _ => False
  end.
Proof. exact example_run. Qed.

Print Assumptions C08_drop.
