(* C08 - dropping any subset of the droppable packets leaves the stream decodable.
   Proved here against the independent specification decoder (sdec): for every accepted operation sequence
   and EVERY keep-mask that withholds only packets returned as droppable (the 2^k subsets are quantified,
   not enumerated), the remaining packets decode to exactly the messages of the kept packets.
   C08_drop_own_deserializer: the same for the library's own deserializer, under every partition of the remaining bytes
   (composition with the refinement C06 and partition independence C15). *)
From RML Require Import Model.Base Model.Chunk Model.ChunkSer Model.ChunkDe Spec.ChunkSpec Proofs.ChunkSerProofs Proofs.ChunkEndToEnd.
Local Open Scope N_scope.

Theorem C08_drop : forall ops keep packets st',
  Forall op_wf ops -> ser_run ser_init ops = Ok (packets, st') -> keep_ok keep ops ->
  sdec (concat (select keep packets)) = SOk (map op_msg (select keep ops)).
Proof. exact ser_sdec_drop. Qed.

Theorem C08_drop_own_deserializer : forall ops keep packets st' pieces,
  Forall op_wf ops -> ser_run ser_init ops = Ok (packets, st') -> keep_ok keep ops ->
  concat pieces = concat (select keep packets) ->
  exists s1, feed_all de_init pieces [] = (s1, map op_msg (select keep ops), None).
Proof. exact roundtrip_any_partition. Qed.

Example C08_example :
  match ser_run ser_init example_ops with
  | Ok (packets, _) => sdec (concat (select example_mask packets)) = SOk (map op_msg (select example_mask example_ops))
  | _ => False
  end.
Proof. exact example_run. Qed.

Print Assumptions C08_drop.
Print Assumptions C08_drop_own_deserializer.
