(* C03 - no network input can panic, overflow, hang or exhaust memory.
   Proved on the models (every Rust panic site is a checked operation, DESIGN 4.2; after repairs F2-F7 none remains
   reachable): the message decoder returns a value or an error for every type id and body; the AMF0 decoder for every byte
   string (termination, C14); every parse stage of the chunk deserializer in every state; get_next_message terminates within
   its fuel for every buffer and state (no loop without consuming input); the handshake step has no failure other than its
   two declared errors (digest offsets always inside the packet, C11).  Sessions: C03_server_never_panics /
   C03_client_never_panics - no call in any reachable state reaches a panic site of the model or exhausts a loop's fuel; the
   acknowledgement counter saturates (C17).  Allocation follows the input at model level: C03_deserializer_call_memory /
   C03_deserializer_history_memory (stored bytes + delivered payload <= bytes fed, ChunkDeMemory.v), C03_serializer_output_bounded,
   and the AMF0 decoder's size bound (C14).  PARTIAL for what a Gallina model cannot exhibit: real panics / overflow checks (harness builds the library
   with overflow-checks and catches unwinds), hangs (20 s watchdog) and peak heap per case (counting allocator) are
   observations of the harness on generated, mutated and random input for every entry point. *)
From RML Require Import Model.Base Model.Amf0 Model.Chunk Model.ChunkDe Model.Messages Model.Handshake
  Proofs.Amf0Total Proofs.TotalProofs Proofs.ChunkDeProofs Proofs.ChunkDeFuel Proofs.ServerProofs Proofs.SessionFrame.
From RML Require Import Model.Server Model.Client Proofs.ChunkDeMemory Proofs.SerSizeProofs Proofs.SessionMemory Model.ChunkSer.
Local Open Scope N_scope.

Theorem C03_message_decoder_total : forall tid data, is_value_or_error (of_payload tid data).
Proof. exact of_payload_total. Qed.

Theorem C03_amf0_decoder_total : forall bs,
  match Amf0.deserialize bs with
  | Ok vs => (lsize vs <= length bs)%nat
  | Err _ => True
  | Panic _ | OutOfFuel => False
  end.
Proof. exact deserialize_total. Qed.

Theorem C03_chunk_stage_total : forall st, is_value_or_error (run_stage st).
Proof. exact run_stage_total. Qed.

Theorem C03_chunk_call_terminates : forall st input, snd (get_next_message st input) <> DOutOfFuel.
Proof. exact get_next_message_terminates. Qed.

(* the documented driving loop (call again until nothing is returned) ends for every input: each returned message costs
   at least one byte of buffer or a pending stage *)
Theorem C03_chunk_driving_loop_terminates : forall pieces s acc, snd (feed_all s pieces acc) <> Some DrvFuel.
Proof. exact feed_all_fuel_adequate. Qed.

(* sessions: every public call, in every state reachable from new() by any history of inputs and application calls, returns
   results or a declared error - no checked operation fails and no loop runs out of fuel (the message loop of handle_input
   ends because handlers never touch the deserializer's buffer: SessionFrame.h_message_de / ch_message_de) *)
Theorem C03_server_never_panics : forall c clock ops op,
  snd (server_new c clock) <> RPanic /\
  snd (server_step (server_run (fst (server_new c clock)) ops) op) <> RPanic.
Proof. exact server_never_panics. Qed.

Theorem C03_client_never_panics : forall cfg ops op, snd (client_step (client_run (client_new cfg) ops) op) <> CPanic.
Proof. exact client_never_panics. Qed.

Theorem C03_handshake_step_total : forall hmac h, match snd (hs_step hmac h) with SProgress _ | SDone _ | SFail _ => True end.
Proof. exact hs_step_total. Qed.

(* allocation follows the input (model level): what the chunk deserializer stores - input buffer plus the partial payloads of all
   chunk streams - plus the payload it delivered never exceeds what it stored before plus the bytes of the call; over any history
   of calls from a new deserializer, stored + delivered <= bytes fed, whether the run completes or stops at an error *)
Theorem C03_deserializer_call_memory : forall st input st' r, get_next_message st input = (st', r) ->
  (stored st' + match r with DMsg m => length (m_data m) | _ => 0 end <= stored st + length input)%nat.
Proof. exact get_next_message_memory. Qed.

Theorem C03_deserializer_history_memory : forall pieces st' ms r, feed_all de_init pieces [] = (st', ms, r) ->
  (stored st' + paylen ms <= length (concat pieces))%nat.
Proof. exact history_memory. Qed.

(* the same for the sessions' own deserializers: an input call adds at most its own bytes to what the session holds *)
Theorem C03_server_input_memory : forall s input clock,
  (stored (sv_de (fst (server_handle_input s input clock))) <= stored (sv_de s) + length input)%nat.
Proof. exact server_input_memory. Qed.

Theorem C03_client_input_memory : forall c input clock,
  (stored (cl_de (fst (client_handle_input c input clock))) <= stored (cl_de c) + length input)%nat.
Proof. exact client_input_memory. Qed.

(* and what a session writes is bounded by what it was asked to send: a packet is at most 17 * payload + 16 bytes *)
Theorem C03_serializer_output_bounded : forall (st : ChunkSer.sstate) m force drop b st',
  (1 <= s_max st)%N -> ChunkSer.serialize st m force drop = Ok (b, st') -> (lenN b <= 17 * lenN (m_data m) + 16)%N.
Proof. exact serialize_size. Qed.

Print Assumptions C03_message_decoder_total.
Print Assumptions C03_amf0_decoder_total.
Print Assumptions C03_chunk_stage_total.
Print Assumptions C03_chunk_call_terminates.
Print Assumptions C03_chunk_driving_loop_terminates.
Print Assumptions C03_server_never_panics.
Print Assumptions C03_client_never_panics.
Print Assumptions C03_handshake_step_total.
Print Assumptions C03_deserializer_call_memory.
Print Assumptions C03_deserializer_history_memory.
Print Assumptions C03_serializer_output_bounded.
Print Assumptions C03_server_input_memory.
Print Assumptions C03_client_input_memory.
