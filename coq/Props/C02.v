(* C02 - client and server sessions interoperate: media arrives byte-exact and tagged.
   Proved on the models of ClientSession, ServerSession and the chunk layer (all chunk-size configurations; they enter only
   through the Link invariant, which the in-band Set Chunk Size preserves):
   - C02_link_preserved: whatever one session's serializer writes (a message or a chunk-size change), the peer's
     deserializer - fed that packet - returns exactly that message and the two chunk layers remain linked (T1 + T2);
   - C02_publish_sequence: for EVERY sequence of audio/video items (any payload 0..16777215 bytes, any u32 timestamps,
     any droppable flags) sent by a publishing client, the server raises exactly one event per item, in order, with
     identical payload bytes and timestamp, under the connected application name and the stream key, whatever the
     acknowledgement windows; C02_play_sequence: the same from the server to a playing client.
   - C02_publish_any_partition / C02_play_any_partition: the same when the sender's packets are cut into input calls in ANY
     way (composition with C15 for sessions): exactly one event per item, in order, byte-exact, no error.  The two directions
     are independent streams, so every interleaving of deliveries is covered.
   - C02_transport / C02_client_call_transport / C02_server_call_transport: the transport layer in full generality - the packets
     returned by ANY successful call of either session (commands, replies, control messages, chunk-size changes, media), delivered
     in ANY fragmentation to a deserializer linked with that session's serializer, are decoded as exactly one message per packet,
     in order, without error, and the link holds again: the two chunk layers never desynchronize in any schedule.
   - C02_connect_completes (ProtocolProofs.v): the message-level connect exchange, proved for EVERY application name, client
     configuration and clock readings: request_connection's packet, handed to a server linked with the client, raises exactly
     ConnectionRequested with the application name (trailing slash stripped) under a fresh request id and nothing else; the
     server's accept of that id produces one packet which, handed to the client, completes its connect transaction - the client
     raises ConnectionAccepted, is Connected to the application it asked for, announces its window and chunk size, and the two
     chunk layers are linked again.  The only other outcomes are the declared body-too-large errors (an application name of
     megabytes).  C02_connect_request_delivered / C02_connect_accept_delivered are the two halves with any acknowledgement state.
   PARTIAL: the message-level protocol of the remaining command phases (createStream / publish / play / stop) is exercised, not proved: the composed model
   Model/Interop.v (extracted and compared with the two real sessions wired back to back on every case) runs them under
   byte-wise / fixed / mixed fragmentation with the oracles C02.* on the real events, and scenario_publish / scenario_play
   are computed instances reaching the states the theorems start from; metadata items are covered by the same runs. *)
From RML Require Import Model.Base Model.Utf8 Model.Float Model.Amf0 Model.Chunk Model.ChunkSer Model.ChunkDe Model.Messages Model.SessionCommon Model.Server Model.Client
  Model.Interop Proofs.ChunkSerProofs Proofs.InteropProofs Proofs.SessionPartition Proofs.ClientPartition Proofs.InteropPartition Proofs.MetadataProofs Proofs.InteropMetadata Proofs.Transport Proofs.ServerProofs Proofs.SessionFrame Proofs.SessionTrace Proofs.ClientTrace Proofs.SessionTransport Proofs.ProtocolProofs Proofs.FloatProofs.
From Coq Require Import String.
Local Open Scope N_scope.

Theorem C02_link_preserved : forall ser de op b ser',
  Link ser de -> op_wf op -> ser_step ser op = Ok (b, ser') ->
  exists de1 de2 de3, get_next_message de b = (de1, DMsg (op_msg op)) /\ driver_apply de1 (op_msg op) = Ok de2 /\
                      get_next_message de2 [] = (de3, DNone) /\ Link ser' de3.
Proof. exact link_op. Qed.

Theorem C02_link_initially : Link ser_init de_init.
Proof. exact Link_init. Qed.

Theorem C02_publish_sequence : forall items c s clock sid app key,
  Link (cl_ser c) (sv_de s) -> ser_ok (sv_ser s) -> publishing_stream c = Ok sid -> sid < 4294967296 ->
  sv_connected s = true -> publishing_key s sid = Some (app, key) -> Forall item_wf items ->
  exists c' s', publish_run c s items clock =
    Some (c', s', map (fun i => match i with Item video data ts _ => media_event video app key data ts end) items).
Proof. exact publish_sequence_delivered. Qed.

Theorem C02_play_sequence : forall items s c clock sid,
  Link (sv_ser s) (cl_de c) -> ser_ok (cl_ser c) -> playing_on c sid -> sid < 4294967296 -> Forall item_wf items ->
  exists s' c', play_run s c sid items clock =
    Some (s', c', map (fun i => match i with Item video data ts _ => cmedia_event video data ts end) items).
Proof. exact play_sequence_delivered. Qed.

Theorem C02_publish_any_partition : forall items c s clock sid app key pieces,
  Link (cl_ser c) (sv_de s) -> ser_ok (sv_ser s) -> publishing_stream c = Ok sid -> sid < 4294967296 ->
  sv_connected s = true -> publishing_key s sid = Some (app, key) -> Forall item_wf items ->
  exists c' packets s',
    client_packets c items = Some (c', packets) /\
    (List.concat pieces = List.concat packets ->
     feed_server s pieces clock [] = (s', map (fun i => match i with Item video data ts _ => media_event video app key data ts end) items, VOk)).
Proof. exact publish_sequence_any_partition. Qed.

Theorem C02_play_any_partition : forall items s c clock sid pieces,
  Link (sv_ser s) (cl_de c) -> ser_ok (cl_ser c) -> playing_on c sid -> sid < 4294967296 -> Forall item_wf items ->
  exists s' packets c',
    server_packets s sid items = Some (s', packets) /\
    (List.concat pieces = List.concat packets ->
     feed_client c pieces clock [] = (c', map (fun i => match i with Item video data ts _ => cmedia_event video data ts end) items, CVOk)).
Proof. exact play_sequence_any_partition. Qed.

(* metadata: what the client publishes is what the server raises (u32 fields and flags exactly; the f32 frame rate whenever its bits
   survive f32 -> f64 -> f32, i.e. for every non-NaN value); the call fails only when the AMF0 body exceeds the chunk layer's limit *)
Theorem C02_publish_metadata : forall c s md clock sclock sid app key,
  Link (cl_ser c) (sv_de s) -> ser_ok (sv_ser s) ->
  publishing_stream c = Ok sid -> sid < 4294967296 -> clock < 4294967296 -> md_ok md -> enc_ok md ->
  sv_connected s = true -> publishing_key s sid = Some (app, key) ->
  (exists e, client_publish_metadata c md clock = (c, CErr e)) \/
  exists b c' s' rs,
    client_publish_metadata c md clock = (c', COk [CPacket b false]) /\
    server_handle_input s b sclock = (s', ROk rs) /\
    events rs = [EvMetadata app key md] /\
    Link (cl_ser c') (sv_de s') /\ ser_ok (sv_ser s') /\ publishing_stream c' = Ok sid /\
    sv_connected s' = true /\ publishing_key s' sid = Some (app, key).
Proof. exact publish_metadata_delivered. Qed.

Theorem C02_metadata_mapping_identity : forall m, md_ok m -> metadata_of_props (metadata_props_client m) = m.
Proof. exact metadata_roundtrip_client. Qed.

Theorem C02_transport : forall ser de ops packets ser' pieces,
  Link ser de -> Forall op_wf ops -> ser_run ser ops = Ok (packets, ser') -> List.concat pieces = List.concat packets ->
  exists de', feed_all de pieces [] = (de', map op_msg ops, None) /\ Link ser' de'.
Proof. exact link_run. Qed.

Theorem C02_client_call_transport : forall c op de pieces,
  cop_ok op -> cinv c -> ser_ok (cl_ser c) -> Link (cl_ser c) de ->
  match client_step c op with
  | (c', COk rs) =>
      List.concat pieces = List.concat (map fst (cpkts rs)) ->
      exists de' msgs, feed_all de pieces [] = (de', msgs, None) /\ List.length msgs = List.length (cpkts rs) /\ Link (cl_ser c') de' /\ cinv c'
  | _ => True
  end.
Proof. exact client_call_transport. Qed.

Theorem C02_server_call_transport : forall s op de pieces,
  sop_ok op -> sinv s -> ser_ok (sv_ser s) -> Link (sv_ser s) de ->
  match server_step s op with
  | (s', ROk rs) =>
      List.concat pieces = List.concat (map fst (pkts rs)) ->
      exists de' msgs, feed_all de pieces [] = (de', msgs, None) /\ List.length msgs = List.length (pkts rs) /\ Link (sv_ser s') de' /\ sinv s'
  | _ => True
  end.
Proof. exact server_call_transport. Qed.

Theorem C02_connect_request_delivered : forall c s app clock sclock,
  Link (cl_ser c) (sv_de s) -> ser_ok (sv_ser s) -> cl_state c = Disconnected -> strings_ok c app -> clock < 4294967296 ->
  (exists e, client_request_connection c app clock = (fst (client_request_connection c app clock), CErr e)) \/
  exists b c1 s1 rs,
    client_request_connection c app clock = (c1, COk [CPacket b false]) /\
    cl_state c1 = Disconnected /\ lookup (cl_next_tr c) (cl_trs c1) = Some (TConnection app) /\
    server_handle_input s b sclock = (s1, ROk rs) /\
    events rs = [EvConnectionRequested (sv_next_req s) (strip_slash app)] /\
    lookup (sv_next_req s) (sv_reqs s1) = Some (RConnection (strip_slash app) (u32_to_f64 (cl_next_tr c))) /\
    sv_connected s1 = sv_connected s /\ sv_fms s1 = sv_fms s /\ sv_objenc s1 = 0 /\
    Link (cl_ser c1) (sv_de s1) /\ ser_ok (sv_ser s1) /\ cl_de c1 = cl_de c /\ cl_cfg c1 = cl_cfg c /\
    (ack_window (sv_ack s) = None -> sv_ser s1 = sv_ser s /\ rs = [SEvent (EvConnectionRequested (sv_next_req s) (strip_slash app))]).
Proof. exact connect_request_delivered. Qed.

Theorem C02_connect_accept_delivered : forall s c n app' trn app clock cclock,
  Link (sv_ser s) (cl_de c) -> ser_ok (cl_ser c) -> ser_ok (sv_ser s) ->
  lookup n (sv_reqs s) = Some (RConnection app' (u32_to_f64 trn)) -> trn < 4294967296 ->
  lookup trn (cl_trs c) = Some (TConnection app) ->
  accept_strings_ok s app' -> clock < 4294967296 -> cclock < 4294967296 ->
  1 <= cc_chunk (cl_cfg c) <= 2147483647 ->
  (exists e, snd (server_accept s n clock) = RErr e) \/
  exists b s2 c2 rs b1 b2 pre,
    server_accept s n clock = (s2, ROk [SPacket b false]) /\
    sv_connected s2 = true /\ sv_app s2 = Some app' /\ lookup n (sv_reqs s2) = None /\
    client_handle_input c b cclock = (c2, COk rs) /\
    rs = pre ++ [CPacket b1 false; CEvent CConnectionAccepted; CPacket b2 false] /\ cevents pre = [] /\
    cl_state c2 = Connected /\ cl_app c2 = Some app /\ lookup trn (cl_trs c2) = None /\
    Link (sv_ser s2) (cl_de c2) /\ ser_ok (cl_ser c2) /\ s_max (cl_ser c2) = cc_chunk (cl_cfg c).
Proof. exact connect_accept_delivered. Qed.

Theorem C02_connect_completes : forall c s app clock sclock aclock cclock,
  Link (cl_ser c) (sv_de s) -> Link (sv_ser s) (cl_de c) -> ser_ok (cl_ser c) -> ser_ok (sv_ser s) ->
  cl_state c = Disconnected -> strings_ok c app -> ack_window (sv_ack s) = None ->
  utf8_valid (sv_fms s) = true -> utf8_valid (str "Successfully connected on app: " ++ strip_slash app) = true ->
  clock < 4294967296 -> aclock < 4294967296 -> cclock < 4294967296 -> 1 <= cc_chunk (cl_cfg c) <= 2147483647 ->
  (exists e, client_request_connection c app clock = (fst (client_request_connection c app clock), CErr e)) \/
  (exists b c1 s1 rs e, client_request_connection c app clock = (c1, COk [CPacket b false]) /\
     server_handle_input s b sclock = (s1, ROk rs) /\ snd (server_accept s1 (sv_next_req s) aclock) = RErr e) \/
  exists b1 c1 s1 b2 s2 c2 rs pre w1 w2,
    client_request_connection c app clock = (c1, COk [CPacket b1 false]) /\
    server_handle_input s b1 sclock = (s1, ROk [SEvent (EvConnectionRequested (sv_next_req s) (strip_slash app))]) /\
    server_accept s1 (sv_next_req s) aclock = (s2, ROk [SPacket b2 false]) /\
    client_handle_input c1 b2 cclock = (c2, COk rs) /\
    rs = pre ++ [CPacket w1 false; CEvent CConnectionAccepted; CPacket w2 false] /\ cevents pre = [] /\
    cl_state c2 = Connected /\ cl_app c2 = Some app /\
    sv_connected s2 = true /\ sv_app s2 = Some (strip_slash app) /\
    Link (sv_ser s2) (cl_de c2) /\ s_max (cl_ser c2) = cc_chunk (cl_cfg c).
Proof. exact connect_completes. Qed.

Example C02_scenario_publish :
  filter is_media_or_lifecycle (server_events_of (ex_run ex_publish_ops)) =
  [ EvConnectionRequested 0 (str "live");
    EvPublishRequested 1 (str "live") (str "key") PLive;
    EvVideo (str "live") (str "key") [1; 2; 3; 4; 5] 10;
    EvAudio (str "live") (str "key") [] 4294967295;
    EvVideo (str "live") (str "key") [9] 0;
    EvPublishFinished (str "live") (str "key") ] /\
  filter (fun e => match e with CConnectionAccepted | CPublishAccepted => true | _ => false end)
         (client_events_of (ex_run ex_publish_ops)) = [CConnectionAccepted; CPublishAccepted].
Proof. exact scenario_publish. Qed.

Example C02_scenario_play :
  filter (fun e => match e with CVideo _ _ | CAudio _ _ | CPlaybackAccepted | CConnectionAccepted => true | _ => false end)
         (client_events_of (ex_run ex_play_ops)) =
  [ CConnectionAccepted; CPlaybackAccepted; CVideo 10 [1; 2; 3; 4; 5]; CAudio 16777215 [7; 7] ] /\
  filter (fun e => match e with EvPlayFinished _ _ => true | _ => false end) (server_events_of (ex_run ex_play_ops)) =
  [ EvPlayFinished (str "live") (str "key") ].
Proof. exact scenario_play. Qed.

Print Assumptions C02_link_preserved.
Print Assumptions C02_link_initially.
Print Assumptions C02_publish_sequence.
Print Assumptions C02_play_sequence.
Print Assumptions C02_publish_any_partition.
Print Assumptions C02_play_any_partition.
Print Assumptions C02_publish_metadata.
Print Assumptions C02_transport.
Print Assumptions C02_client_call_transport.
Print Assumptions C02_server_call_transport.
Print Assumptions C02_metadata_mapping_identity.
Print Assumptions C02_connect_request_delivered.
Print Assumptions C02_connect_accept_delivered.
Print Assumptions C02_connect_completes.
