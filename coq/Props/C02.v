(* C02 - client and server sessions interoperate: media arrives byte-exact and tagged.
   Proved on the models of ClientSession, ServerSession and the chunk layer (all chunk-size configurations; they enter only
   through the Link invariant, which the in-band Set Chunk Size preserves):
   - C02_link_preserved: whatever one session's serializer writes (a message or a chunk-size change), the peer's
     deserializer - fed that packet - returns exactly that message and the two chunk layers remain linked (T1 + T2);
   - C02_publish_sequence: for EVERY sequence of audio/video items (any payload 0..16777215 bytes, any u32 timestamps,
     any droppable flags) sent by a publishing client, the server raises exactly one event per item, in order, with
     identical payload bytes and timestamp, under the connected application name and the stream key, whatever the
     acknowledgement windows; C02_play_sequence: the same from the server to a playing client.
   - C02_publish_any_partition / C02_play_any_partition: the same when the sender's packets are cut into input calls in ANY
     way (composition with C15 for sessions): exactly one event per item, in order, byte-exact, no error.  The two directions
     are independent streams, so every interleaving of deliveries is covered.
   - C02_transport / C02_client_call_transport / C02_server_call_transport: the transport layer in full generality - the packets
     returned by ANY successful call of either session (commands, replies, control messages, chunk-size changes, media), delivered
     in ANY fragmentation to a deserializer linked with that session's serializer, are decoded as exactly one message per packet,
     in order, without error, and the link holds again: the two chunk layers never desynchronize in any schedule.
   - C02_connect_completes (ProtocolProofs.v): the message-level connect exchange, proved for EVERY application name, client
     configuration and clock readings: request_connection's packet, handed to a server linked with the client, raises exactly
     ConnectionRequested with the application name (trailing slash stripped) under a fresh request id and nothing else; the
     server's accept of that id produces one packet which, handed to the client, completes its connect transaction - the client
     raises ConnectionAccepted, is Connected to the application it asked for, announces its window and chunk size, and the two
     chunk layers are linked again.  The only other outcomes are the declared body-too-large errors (an application name of
     megabytes).  C02_connect_request_delivered / C02_connect_accept_delivered are the two halves with any acknowledgement state.
   - C02_publish_completes / C02_play_completes (ProtocolFlow.v): the publish and the play workflow at message level, for every
     stream key of at most 65000 bytes, every configuration and clock reading, from any connected pair with linked chunk layers:
     request_publishing / request_playback emits createStream, the server creates a fresh stream and answers under the client's
     transaction id, the client sends publish (or the buffer length and play) on that stream, the server raises exactly
     PublishRequested / PlayRequested with the application, the key and the stream, the application's accept produces the status
     packets, and the client raises PublishAccepted / PlaybackAccepted and ends Publishing / Playing on that stream while the
     server has it registered under the application and the key - the states C02_publish_sequence / C02_play_sequence start from.
     Every call of the exchange SUCCEEDS (no hypothesis on outcomes) and raises exactly the events listed; the exact result lists
     are stated for receiving calls in which no acknowledgement falls due (`quiet`; C17 decides when one does - then one
     Acknowledgement packet precedes the results, events and states being the same).  Packets are delivered one per input call;
     C15 for sessions carries events, verdict and state to any other fragmentation.
   - C02_publish_session / C02_play_session (SessionScenario.v): the property's sentence as ONE theorem per direction, from any
     connected pair with linked chunk layers and window headroom for the command exchange: publish (play) completes on both sides
     with exactly the listed packets and events; then EVERY sequence of audio/video items (any payload 0..16777215 bytes, any u32
     timestamps, any droppable flags) is raised on the receiving side exactly once, in order, byte-exact, under the application
     name and stream key - whatever the acknowledgement windows do during the media phase; then stopping raises exactly the
     matching finished event at the server.  On the play side the Acknowledgements the client owes after the media phase are
     read by the server first (C02_server_absorbs_control_packets), as they are on a real connection.
     C02_publish_media_phase / C02_play_media_phase: the media phase keeps everything the stop needs.
     C02_publish_session_all_items / C02_play_session_all_items: the same with METADATA items anywhere in the sequence (every
     StreamMetadata whose frame rate survives f32 -> f64 -> f32 and whose encoder string is valid UTF-8 of at most 65535 bytes):
     a metadata message always fits (its encoded size is a few hundred bytes plus the encoder string, Amf0Size.v / MetadataFits.v),
     so C02_publish_metadata_always_delivered / C02_play_metadata_always_delivered have no error alternative.
   - C02_publish_completes_windows / C02_play_completes_windows (AckHeadroom.v): the same two workflows with NO per-call premise: if
     each side's announced acknowledgement window exceeds its outstanding count by a few packets' worth (a packet of these
     exchanges is at most 17 * (|key| + 200) + 16 bytes, SerSizeProofs.v), every call returns exactly the listed packets and
     events and the final states are reached; sessions that were never told a window satisfy the premise trivially.
     C02_quiet_of_headroom / C02_quiet_when_headroom: the arithmetic criterion behind it.
   - C02_play_metadata: a metadata item the server sends is raised by the playing client as exactly that metadata
     (C02_metadata_mapping_identity_server: the server's property mapping read by the client is the identity).
   - C02_server_packet_any_fragmentation / C02_client_packet_any_fragmentation: a packet that a one-call delivery accepts gives the
     same events, verdict and protocol state when it arrives cut into pieces in any way (C15 for sessions + the link's quiescence).
   - C02_server_notes_acknowledgement / C02_client_notes: the Acknowledgement a peer emits when its counter reaches the window, and
     the other control messages of the opening, are reported and change nothing of the workflow state.
   - C02_stop_publishing_raises_finished / C02_stop_playback_raises_finished: stop emits deleteStream for the active stream, the
     client returns to Connected, and the server raises exactly the matching finished event and forgets the stream.
   - C02_sessions_start, C02_connect_completes_decided, C02_connect_ready (ProtocolStart.v): the chain from two FRESHLY CREATED
     sessions to the workflow theorems: server_new's control packets, read by a new client one per call, all succeed and leave it
     Disconnected with linked chunk layers (the premises of the connect theorem); the connect exchange with every outcome decided
     (names and version strings within AMF0's 16-bit length: no error alternative is left); after the accept, the client's window
     and chunk-size announcements read by the server leave the pair Connected / connected with both directions linked - the
     premises of C02_publish_completes / C02_play_completes.  C02_server_receives_chunk_size / C02_client_receives_chunk_size: a
     Set Chunk Size announcement is applied by the peer's handle_input and the chunk layers are linked again.
   - C02_server_receives_message / C02_client_receives_message: the general step - any message one session sends (Set Chunk Size
     apart, which C02_link_preserved covers) is handled by the peer's handle_input as exactly that decoded message, after the
     acknowledgement prelude, with the chunk layers linked again.
   What remains outside these theorems and is decided by the correspondence check only: whole scenarios in which acknowledgements
   fall due DURING the command exchange (the session theorems ask for window headroom there; the media phase and the stop are
   proved for every window behaviour), application rejects and the play-side finish call at the composed level (their per-session
   behaviour is C09/C10/C18), and arbitrary interleavings of the two directions' deliveries within the command exchange.  For
   these the composed model Model/Interop.v (extracted, compared with the two REAL sessions wired back to back on every case) runs
   canonical and free scenarios under byte-wise / fixed / mixed fragmentation with the oracles C02.* on the real events;
   C02_scenario_publish / C02_scenario_play are computed instances of whole scenarios on that model.
*)
From RML Require Import Model.Base Model.Utf8 Model.Float Model.Amf0 Model.Chunk Model.ChunkSer Model.ChunkDe Model.Messages Model.SessionCommon Model.Server Model.Client
  Model.Interop Proofs.ChunkSerProofs Proofs.InteropProofs Proofs.SessionPartition Proofs.ClientPartition Proofs.InteropPartition Proofs.MetadataProofs Proofs.InteropMetadata Proofs.Transport Proofs.ServerProofs Proofs.SessionFrame Proofs.SessionTrace Proofs.ClientTrace Proofs.SessionTransport Proofs.ProtocolProofs Proofs.ProtocolFlow Proofs.ProtocolStart Proofs.PlayMetadata Proofs.ProtocolFragments Proofs.AckHeadroom Proofs.SessionScenario Proofs.MetadataFits Proofs.Amf0Size Proofs.ConfigProofs Proofs.FloatProofs Proofs.MessageProofs Proofs.ServerProofs.
From Coq Require Import String.
Local Open Scope N_scope.

Theorem C02_link_preserved : forall ser de op b ser',
  Link ser de -> op_wf op -> ser_step ser op = Ok (b, ser') ->
  exists de1 de2 de3, get_next_message de b = (de1, DMsg (op_msg op)) /\ driver_apply de1 (op_msg op) = Ok de2 /\
                      get_next_message de2 [] = (de3, DNone) /\ Link ser' de3.
Proof. exact link_op. Qed.

Theorem C02_link_initially : Link ser_init de_init.
Proof. exact Link_init. Qed.

Theorem C02_publish_sequence : forall items c s clock sid app key,
  Link (cl_ser c) (sv_de s) -> ser_ok (sv_ser s) -> publishing_stream c = Ok sid -> sid < 4294967296 ->
  sv_connected s = true -> publishing_key s sid = Some (app, key) -> Forall item_wf items ->
  exists c' s', publish_run c s items clock =
    Some (c', s', map (fun i => match i with Item video data ts _ => media_event video app key data ts end) items).
Proof. exact publish_sequence_delivered. Qed.

Theorem C02_play_sequence : forall items s c clock sid,
  Link (sv_ser s) (cl_de c) -> ser_ok (cl_ser c) -> playing_on c sid -> sid < 4294967296 -> Forall item_wf items ->
  exists s' c', play_run s c sid items clock =
    Some (s', c', map (fun i => match i with Item video data ts _ => cmedia_event video data ts end) items).
Proof. exact play_sequence_delivered. Qed.

Theorem C02_publish_any_partition : forall items c s clock sid app key pieces,
  Link (cl_ser c) (sv_de s) -> ser_ok (sv_ser s) -> publishing_stream c = Ok sid -> sid < 4294967296 ->
  sv_connected s = true -> publishing_key s sid = Some (app, key) -> Forall item_wf items ->
  exists c' packets s',
    client_packets c items = Some (c', packets) /\
    (List.concat pieces = List.concat packets ->
     feed_server s pieces clock [] = (s', map (fun i => match i with Item video data ts _ => media_event video app key data ts end) items, VOk)).
Proof. exact publish_sequence_any_partition. Qed.

Theorem C02_play_any_partition : forall items s c clock sid pieces,
  Link (sv_ser s) (cl_de c) -> ser_ok (cl_ser c) -> playing_on c sid -> sid < 4294967296 -> Forall item_wf items ->
  exists s' packets c',
    server_packets s sid items = Some (s', packets) /\
    (List.concat pieces = List.concat packets ->
     feed_client c pieces clock [] = (c', map (fun i => match i with Item video data ts _ => cmedia_event video data ts end) items, CVOk)).
Proof. exact play_sequence_any_partition. Qed.

(* metadata: what the client publishes is what the server raises (u32 fields and flags exactly; the f32 frame rate whenever its bits
   survive f32 -> f64 -> f32, i.e. for every non-NaN value); the call fails only when the AMF0 body exceeds the chunk layer's limit *)
Theorem C02_publish_metadata : forall c s md clock sclock sid app key,
  Link (cl_ser c) (sv_de s) -> ser_ok (sv_ser s) ->
  publishing_stream c = Ok sid -> sid < 4294967296 -> clock < 4294967296 -> md_ok md -> enc_ok md ->
  sv_connected s = true -> publishing_key s sid = Some (app, key) ->
  (exists e, client_publish_metadata c md clock = (c, CErr e)) \/
  exists b c' s' rs,
    client_publish_metadata c md clock = (c', COk [CPacket b false]) /\
    server_handle_input s b sclock = (s', ROk rs) /\
    events rs = [EvMetadata app key md] /\
    Link (cl_ser c') (sv_de s') /\ ser_ok (sv_ser s') /\ publishing_stream c' = Ok sid /\
    sv_connected s' = true /\ publishing_key s' sid = Some (app, key).
Proof. exact publish_metadata_delivered. Qed.

Theorem C02_metadata_mapping_identity : forall m, md_ok m -> metadata_of_props (metadata_props_client m) = m.
Proof. exact metadata_roundtrip_client. Qed.

Theorem C02_transport : forall ser de ops packets ser' pieces,
  Link ser de -> Forall op_wf ops -> ser_run ser ops = Ok (packets, ser') -> List.concat pieces = List.concat packets ->
  exists de', feed_all de pieces [] = (de', map op_msg ops, None) /\ Link ser' de'.
Proof. exact link_run. Qed.

Theorem C02_client_call_transport : forall c op de pieces,
  cop_ok op -> cinv c -> ser_ok (cl_ser c) -> Link (cl_ser c) de ->
  match client_step c op with
  | (c', COk rs) =>
      List.concat pieces = List.concat (map fst (cpkts rs)) ->
      exists de' msgs, feed_all de pieces [] = (de', msgs, None) /\ List.length msgs = List.length (cpkts rs) /\ Link (cl_ser c') de' /\ cinv c'
  | _ => True
  end.
Proof. exact client_call_transport. Qed.

Theorem C02_server_call_transport : forall s op de pieces,
  sop_ok op -> sinv s -> ser_ok (sv_ser s) -> Link (sv_ser s) de ->
  match server_step s op with
  | (s', ROk rs) =>
      List.concat pieces = List.concat (map fst (pkts rs)) ->
      exists de' msgs, feed_all de pieces [] = (de', msgs, None) /\ List.length msgs = List.length (pkts rs) /\ Link (sv_ser s') de' /\ sinv s'
  | _ => True
  end.
Proof. exact server_call_transport. Qed.

Theorem C02_connect_request_delivered : forall c s app clock sclock,
  Link (cl_ser c) (sv_de s) -> ser_ok (sv_ser s) -> cl_state c = Disconnected -> strings_ok c app -> clock < 4294967296 ->
  (exists e, client_request_connection c app clock = (fst (client_request_connection c app clock), CErr e)) \/
  exists b c1 s1 rs,
    client_request_connection c app clock = (c1, COk [CPacket b false]) /\
    cl_state c1 = Disconnected /\ lookup (cl_next_tr c) (cl_trs c1) = Some (TConnection app) /\
    server_handle_input s b sclock = (s1, ROk rs) /\
    events rs = [EvConnectionRequested (sv_next_req s) (strip_slash app)] /\
    lookup (sv_next_req s) (sv_reqs s1) = Some (RConnection (strip_slash app) (u32_to_f64 (cl_next_tr c))) /\
    sv_connected s1 = sv_connected s /\ sv_fms s1 = sv_fms s /\ sv_objenc s1 = 0 /\
    Link (cl_ser c1) (sv_de s1) /\ ser_ok (sv_ser s1) /\ cl_de c1 = cl_de c /\ cl_cfg c1 = cl_cfg c /\
    (ack_window (sv_ack s) = None -> sv_ser s1 = sv_ser s /\ rs = [SEvent (EvConnectionRequested (sv_next_req s) (strip_slash app))]).
Proof. exact connect_request_delivered. Qed.

Theorem C02_connect_accept_delivered : forall s c n app' trn app clock cclock,
  Link (sv_ser s) (cl_de c) -> ser_ok (cl_ser c) -> ser_ok (sv_ser s) ->
  lookup n (sv_reqs s) = Some (RConnection app' (u32_to_f64 trn)) -> trn < 4294967296 ->
  lookup trn (cl_trs c) = Some (TConnection app) ->
  accept_strings_ok s app' -> clock < 4294967296 -> cclock < 4294967296 ->
  1 <= cc_chunk (cl_cfg c) <= 2147483647 ->
  (exists e, snd (server_accept s n clock) = RErr e) \/
  exists b s2 c2 rs b1 b2 pre,
    server_accept s n clock = (s2, ROk [SPacket b false]) /\
    sv_connected s2 = true /\ sv_app s2 = Some app' /\ lookup n (sv_reqs s2) = None /\
    client_handle_input c b cclock = (c2, COk rs) /\
    rs = pre ++ [CPacket b1 false; CEvent CConnectionAccepted; CPacket b2 false] /\ cevents pre = [] /\
    cl_state c2 = Connected /\ cl_app c2 = Some app /\ lookup trn (cl_trs c2) = None /\
    Link (sv_ser s2) (cl_de c2) /\ ser_ok (cl_ser c2) /\ s_max (cl_ser c2) = cc_chunk (cl_cfg c) /\
    cl_cfg c2 = cl_cfg c /\ cl_next_tr c2 = cl_next_tr c /\ cl_stream c2 = cl_stream c /\
    sv_de s2 = sv_de s /\ sv_ack s2 = sv_ack s /\ sv_streams s2 = sv_streams s /\ sv_next_stream s2 = sv_next_stream s /\ ser_ok (sv_ser s2) /\
    (snd (ack_step (cl_ack c) (lenN b)) = None -> pre = [] /\ exists ser1,
       send_message (cl_ser c) (MWindowAcknowledgement (cc_window (cl_cfg c))) cclock 0 false false = Ok (b1, ser1) /\
       ChunkSer.set_max_chunk_size ser1 (cc_chunk (cl_cfg c)) 0 = Ok (b2, cl_ser c2)).
Proof. exact connect_accept_delivered. Qed.

Theorem C02_connect_completes : forall c s app clock sclock aclock cclock,
  Link (cl_ser c) (sv_de s) -> Link (sv_ser s) (cl_de c) -> ser_ok (cl_ser c) -> ser_ok (sv_ser s) ->
  cl_state c = Disconnected -> strings_ok c app -> ack_window (sv_ack s) = None ->
  utf8_valid (sv_fms s) = true -> utf8_valid (str "Successfully connected on app: " ++ strip_slash app) = true ->
  clock < 4294967296 -> aclock < 4294967296 -> cclock < 4294967296 -> 1 <= cc_chunk (cl_cfg c) <= 2147483647 ->
  (* either a declared error (a body exceeding the chunk layer's 16 MiB limit) ... *)
  (exists e, client_request_connection c app clock = (fst (client_request_connection c app clock), CErr e)) \/
  (exists b c1 s1 rs e, client_request_connection c app clock = (c1, COk [CPacket b false]) /\
     server_handle_input s b sclock = (s1, ROk rs) /\ snd (server_accept s1 (sv_next_req s) aclock) = RErr e) \/
  (* ... or the whole exchange *)
  exists b1 c1 s1 b2 s2 c2 rs pre w1 w2,
    client_request_connection c app clock = (c1, COk [CPacket b1 false]) /\
    server_handle_input s b1 sclock = (s1, ROk [SEvent (EvConnectionRequested (sv_next_req s) (strip_slash app))]) /\
    server_accept s1 (sv_next_req s) aclock = (s2, ROk [SPacket b2 false]) /\
    client_handle_input c1 b2 cclock = (c2, COk rs) /\
    rs = pre ++ [CPacket w1 false; CEvent CConnectionAccepted; CPacket w2 false] /\ cevents pre = [] /\
    cl_state c2 = Connected /\ cl_app c2 = Some app /\
    sv_connected s2 = true /\ sv_app s2 = Some (strip_slash app) /\
    Link (sv_ser s2) (cl_de c2) /\ s_max (cl_ser c2) = cc_chunk (cl_cfg c).
Proof. exact connect_completes. Qed.

Theorem C02_server_receives_message : forall s ser m ts sid f d b ser' clock,
  Link ser (sv_de s) -> ser_ok (sv_ser s) -> msg_ok m -> plain m -> ts < 4294967296 -> sid < 4294967296 ->
  send_message ser m ts sid f d = Ok (b, ser') ->
  exists p de1 de3 s0 pre,
    of_payload (m_tid p) (m_data p) = Ok m /\ m_sid p = sid /\ m_ts p = ts /\
    same_core s s0 /\ sv_de s0 = sv_de s /\ ser_ok (sv_ser s0) /\ events pre = [] /\
    (quiet (sv_ack s) b -> pre = [] /\ sv_ser s0 = sv_ser s) /\
    sv_ack s0 = fst (ack_step (sv_ack s) (lenN b)) /\
    Link ser' de3 /\
    server_handle_input s b clock =
      (let '(s1, r) := h_message (upd_de s0 de1) p clock in
       match r with ROk rs => (upd_de s1 de3, ROk (pre ++ rs)) | _ => (s1, r) end).
Proof. exact server_receives. Qed.

Theorem C02_client_receives_message : forall c ser m ts sid f d b ser' clock,
  Link ser (cl_de c) -> ser_ok (cl_ser c) -> msg_ok m -> plain m -> ts < 4294967296 -> sid < 4294967296 ->
  send_message ser m ts sid f d = Ok (b, ser') ->
  exists p de1 de3 c0 pre,
    of_payload (m_tid p) (m_data p) = Ok m /\ m_sid p = sid /\ m_ts p = ts /\
    (cl_cfg c0 = cl_cfg c /\ cl_next_tr c0 = cl_next_tr c /\ cl_trs c0 = cl_trs c /\ cl_state c0 = cl_state c /\
     cl_app c0 = cl_app c /\ cl_stream c0 = cl_stream c) /\ cl_de c0 = cl_de c /\ ser_ok (cl_ser c0) /\ cevents pre = [] /\
    (quiet (cl_ack c) b -> pre = [] /\ cl_ser c0 = cl_ser c) /\
    cl_ack c0 = fst (ack_step (cl_ack c) (lenN b)) /\
    Link ser' de3 /\
    client_handle_input c b clock =
      (let '(c1, r) := ch_message (cupd_de c0 de1) p clock in
       match r with COk rs => (cupd_de c1 de3, COk (pre ++ rs)) | _ => (c1, r) end).
Proof. exact client_receives. Qed.

Theorem C02_publish_completes : forall c s app key t k1 k2 k3 k4 k5 k6 k7,
  Link (cl_ser c) (sv_de s) -> Link (sv_ser s) (cl_de c) -> ser_ok (cl_ser c) -> ser_ok (sv_ser s) ->
  cl_state c = Connected -> cl_next_tr c < 4294967296 -> sv_next_stream s < 4294967296 ->
  sv_connected s = true -> sv_app s = Some app -> utf8_valid key = true -> lenN key <= 65000 ->
  k1 < 4294967296 -> k2 < 4294967296 -> k3 < 4294967296 -> k5 < 4294967296 ->
  exists c1 b1 s1 r2,
    client_request_publishing c key t k1 = (c1, COk [CPacket b1 false]) /\
    server_handle_input s b1 k2 = (s1, ROk r2) /\ events r2 = [] /\
  (quiet (sv_ack s) b1 ->
  exists b2 c2 r3, r2 = [SPacket b2 false] /\
    client_handle_input c1 b2 k3 = (c2, COk r3) /\ cevents r3 = [] /\
  (quiet (cl_ack c1) b2 ->
  exists b3 s2 r4, r3 = [CPacket b3 false] /\
    server_handle_input s1 b3 k4 = (s2, ROk r4) /\ events r4 = [EvPublishRequested (sv_next_req s) app key (mode_of_type t)] /\
  (quiet (sv_ack s1) b3 ->
  r4 = [SEvent (EvPublishRequested (sv_next_req s) app key (mode_of_type t))] /\
  exists s3 b4 b5, server_accept s2 (sv_next_req s) k5 = (s3, ROk [SPacket b4 false; SPacket b5 false]) /\
  exists c3 r6, client_handle_input c2 b4 k6 = (c3, COk r6) /\ cevents r6 = [] /\
  (quiet (cl_ack c2) b4 -> r6 = [] /\
  exists c4 r7, client_handle_input c3 b5 k7 = (c4, COk r7) /\ cevents r7 = [CPublishAccepted] /\
  (quiet (cl_ack c3) b5 -> r7 = [CEvent CPublishAccepted] /\
  publishing_stream c4 = Ok (sv_next_stream s) /\ publishing_key s3 (sv_next_stream s) = Some (app, key) /\
  Link (cl_ser c4) (sv_de s3) /\ Link (sv_ser s3) (cl_de c4) /\ ser_ok (cl_ser c4) /\ ser_ok (sv_ser s3) /\ sv_connected s3 = true))))).
Proof. exact publish_completes. Qed.

Theorem C02_play_completes : forall c s app key k1 k2 k3 k4 k5 k6 t1 t2 t3 t4 t5,
  Link (cl_ser c) (sv_de s) -> Link (sv_ser s) (cl_de c) -> ser_ok (cl_ser c) -> ser_ok (sv_ser s) ->
  cl_state c = Connected -> cl_next_tr c < 4294967296 -> sv_next_stream s < 4294967296 -> cc_buffer (cl_cfg c) < 4294967296 ->
  sv_connected s = true -> sv_app s = Some app -> utf8_valid key = true -> lenN key <= 65000 ->
  k1 < 4294967296 -> k2 < 4294967296 -> k3 < 4294967296 -> k6 < 4294967296 ->
  exists c1 b1 s1 r2,
    client_request_playback c key k1 = (c1, COk [CPacket b1 false]) /\
    server_handle_input s b1 k2 = (s1, ROk r2) /\ events r2 = [] /\
  (quiet (sv_ack s) b1 ->
  exists b2 c2 r3, r2 = [SPacket b2 false] /\
    client_handle_input c1 b2 k3 = (c2, COk r3) /\ cevents r3 = [] /\
  (quiet (cl_ack c1) b2 ->
  exists b3 b4 s2 r4, r3 = [CPacket b3 false; CPacket b4 false] /\
    server_handle_input s1 b3 k4 = (s2, ROk r4) /\ events r4 = [] /\
  (quiet (sv_ack s1) b3 -> r4 = [] /\
  exists s3 r5, server_handle_input s2 b4 k5 = (s3, ROk r5) /\
    events r5 = [EvPlayRequested (sv_next_req s) app key LiveOrRecorded None false (sv_next_stream s)] /\
  (quiet (sv_ack s2) b4 ->
  r5 = [SEvent (EvPlayRequested (sv_next_req s) app key LiveOrRecorded None false (sv_next_stream s))] /\
  exists s4 p1 p2 p3 p4 p5,
    server_accept s3 (sv_next_req s) k6 = (s4, ROk [SPacket p1 false; SPacket p2 false; SPacket p3 false; SPacket p4 false; SPacket p5 false]) /\
  exists c3 q1, client_handle_input c2 p1 t1 = (c3, COk q1) /\ cevents q1 = [CUnhandleableStatus (str "NetStream.Play.Reset")] /\
  (quiet (cl_ack c2) p1 -> q1 = [CEvent (CUnhandleableStatus (str "NetStream.Play.Reset"))] /\
  exists c4 q2, client_handle_input c3 p2 t2 = (c4, COk q2) /\ cevents q2 = [] /\
  (quiet (cl_ack c3) p2 -> q2 = [] /\
  exists c5 q3, client_handle_input c4 p3 t3 = (c5, COk q3) /\ cevents q3 = [CPlaybackAccepted] /\
  (quiet (cl_ack c4) p3 -> q3 = [CEvent CPlaybackAccepted] /\
  exists c6 q4, client_handle_input c5 p4 t4 = (c6, COk q4) /\ cevents q4 = [] /\
  (quiet (cl_ack c5) p4 -> q4 = [] /\
  exists c7 q5, client_handle_input c6 p5 t5 = (c7, COk q5) /\ cevents q5 = [] /\
  (quiet (cl_ack c6) p5 -> q5 = [] /\
  cl_state c7 = Playing /\ playing_on c7 (sv_next_stream s) /\
  lookup (sv_next_stream s) (sv_streams s4) = Some (StPlaying key) /\ sv_app s4 = Some app /\ sv_connected s4 = true /\
  Link (cl_ser c7) (sv_de s4) /\ Link (sv_ser s4) (cl_de c7) /\ ser_ok (cl_ser c7) /\ ser_ok (sv_ser s4)))))))))).
Proof. exact play_completes. Qed.

Theorem C02_stop_publishing_raises_finished : forall c s sid app key mode clock sclock,
  Link (cl_ser c) (sv_de s) -> ser_ok (cl_ser c) -> ser_ok (sv_ser s) ->
  cl_state c = Publishing -> cl_stream c = Some sid -> sid < 4294967296 -> clock < 4294967296 ->
  sv_connected s = true -> sv_app s = Some app -> lookup sid (sv_streams s) = Some (StPublishing key mode) ->
  exists c1 b s1 r2, client_stop_publishing c clock = (c1, COk [CPacket b false]) /\ cl_state c1 = Connected /\ cl_stream c1 = None /\
    server_handle_input s b sclock = (s1, ROk r2) /\
    events r2 = [EvPublishFinished app key] /\ lookup sid (sv_streams s1) = None /\ Link (cl_ser c1) (sv_de s1) /\
    (quiet (sv_ack s) b -> r2 = [SEvent (EvPublishFinished app key)]).
Proof. exact stop_publishing_raises_finished. Qed.

Theorem C02_stop_playback_raises_finished : forall c s sid app key clock sclock,
  Link (cl_ser c) (sv_de s) -> ser_ok (cl_ser c) -> ser_ok (sv_ser s) ->
  cl_state c = Playing -> cl_stream c = Some sid -> sid < 4294967296 -> clock < 4294967296 ->
  sv_connected s = true -> sv_app s = Some app -> lookup sid (sv_streams s) = Some (StPlaying key) ->
  exists c1 b s1 r2, client_stop_playback c clock = (c1, COk [CPacket b false]) /\ cl_state c1 = Connected /\ cl_stream c1 = None /\
    server_handle_input s b sclock = (s1, ROk r2) /\
    events r2 = [EvPlayFinished app key] /\ lookup sid (sv_streams s1) = None /\ Link (cl_ser c1) (sv_de s1) /\
    (quiet (sv_ack s) b -> r2 = [SEvent (EvPlayFinished app key)]).
Proof. exact stop_playback_raises_finished. Qed.

Example C02_publish_run_example :
  Link (cl_ser ex_client) (sv_de ex_server) /\ Link (sv_ser ex_server) (cl_de ex_client) /\
  exists c1 b1 s1 b2 c2 b3 s2 ev s3 b4 b5 c3 c4,
    client_request_publishing ex_client (str "key") TLive 10 = (c1, COk [CPacket b1 false]) /\
    server_handle_input ex_server b1 11 = (s1, ROk [SPacket b2 false]) /\ quiet (sv_ack ex_server) b1 /\
    client_handle_input c1 b2 12 = (c2, COk [CPacket b3 false]) /\ quiet (cl_ack c1) b2 /\
    server_handle_input s1 b3 13 = (s2, ROk [SEvent ev]) /\ quiet (sv_ack s1) b3 /\
    ev = EvPublishRequested 1 (str "live") (str "key") PLive /\
    server_accept s2 1 14 = (s3, ROk [SPacket b4 false; SPacket b5 false]) /\
    client_handle_input c2 b4 15 = (c3, COk []) /\ quiet (cl_ack c2) b4 /\
    client_handle_input c3 b5 16 = (c4, COk [CEvent CPublishAccepted]) /\ quiet (cl_ack c3) b5 /\
    publishing_stream c4 = Ok 1 /\ publishing_key s3 1 = Some (str "live", str "key").
Proof. exact publish_premises_satisfiable. Qed.

Example C02_play_run_example :
  exists c1 b1 s1 b2 c2 b3 b4 s2 s3 s4 p1 p2 p3 p4 p5 c3 c4 c5 c6 c7,
    client_request_playback ex_client (str "key") 10 = (c1, COk [CPacket b1 false]) /\
    server_handle_input ex_server b1 11 = (s1, ROk [SPacket b2 false]) /\ quiet (sv_ack ex_server) b1 /\
    client_handle_input c1 b2 12 = (c2, COk [CPacket b3 false; CPacket b4 false]) /\ quiet (cl_ack c1) b2 /\
    server_handle_input s1 b3 13 = (s2, ROk []) /\ quiet (sv_ack s1) b3 /\
    server_handle_input s2 b4 14 = (s3, ROk [SEvent (EvPlayRequested 1 (str "live") (str "key") LiveOrRecorded None false 1)]) /\ quiet (sv_ack s2) b4 /\
    server_accept s3 1 15 = (s4, ROk [SPacket p1 false; SPacket p2 false; SPacket p3 false; SPacket p4 false; SPacket p5 false]) /\
    client_handle_input c2 p1 16 = (c3, COk [CEvent (CUnhandleableStatus (str "NetStream.Play.Reset"))]) /\ quiet (cl_ack c2) p1 /\
    client_handle_input c3 p2 17 = (c4, COk []) /\ quiet (cl_ack c3) p2 /\
    client_handle_input c4 p3 18 = (c5, COk [CEvent CPlaybackAccepted]) /\ quiet (cl_ack c4) p3 /\
    client_handle_input c5 p4 19 = (c6, COk []) /\ quiet (cl_ack c5) p4 /\
    client_handle_input c6 p5 20 = (c7, COk []) /\ quiet (cl_ack c6) p5 /\
    cl_state c7 = Playing /\ cl_stream c7 = Some 1 /\ lookup 1 (sv_streams s4) = Some (StPlaying (str "key")).
Proof. exact play_premises_satisfiable. Qed.

Theorem C02_sessions_start : forall cfg ccfg clock k,
  1 <= cfg_chunk cfg <= 2147483647 -> cfg_window cfg < 4294967296 -> cfg_bandwidth cfg < 4294967296 -> clock < 4294967296 ->
  exists s0 rs c',
    server_new cfg clock = (s0, ROk rs) /\ events rs = [] /\
    cdeliver (client_new ccfg) (spackets rs) k = Some c' /\
    cl_state c' = Disconnected /\ cl_trs c' = [] /\ cl_next_tr c' = 1 /\ cl_cfg c' = ccfg /\ cl_stream c' = None /\
    Link (sv_ser s0) (cl_de c') /\ ser_ok (cl_ser c') /\ ser_ok (sv_ser s0) /\
    ack_window (sv_ack s0) = None /\ sv_connected s0 = false /\ sv_next_req s0 = 0 /\ sv_next_stream s0 = 1 /\ sv_fms s0 = cfg_fms cfg /\
    (cquiet (client_new ccfg) (spackets rs) k -> Link (cl_ser c') (sv_de s0)).
Proof. exact sessions_start. Qed.

Theorem C02_connect_ready : forall s c n app' trn app clock cclock k1 k2,
  Link (sv_ser s) (cl_de c) -> Link (cl_ser c) (sv_de s) -> ser_ok (cl_ser c) -> ser_ok (sv_ser s) ->
  lookup n (sv_reqs s) = Some (RConnection app' (u32_to_f64 trn)) -> trn < 4294967296 ->
  lookup trn (cl_trs c) = Some (TConnection app) ->
  accept_strings_ok s app' -> lenN (sv_fms s) <= 65535 -> lenN app' <= 65000 ->
  clock < 4294967296 -> cclock < 4294967296 ->
  1 <= cc_chunk (cl_cfg c) <= 2147483647 -> cc_window (cl_cfg c) < 4294967296 ->
  exists b s2 c2 rs,
    server_accept s n clock = (s2, ROk [SPacket b false]) /\
    client_handle_input c b cclock = (c2, COk rs) /\ cevents rs = [CConnectionAccepted] /\
    cl_state c2 = Connected /\ cl_app c2 = Some app /\ sv_connected s2 = true /\ sv_app s2 = Some app' /\
  (quiet (cl_ack c) b ->
  exists w1 w2, rs = [CPacket w1 false; CEvent CConnectionAccepted; CPacket w2 false] /\
  exists s3 r3, server_handle_input s2 w1 k1 = (s3, ROk r3) /\ events r3 = [] /\
  (quiet (sv_ack s2) w1 -> r3 = [] /\
  exists s4 r4, server_handle_input s3 w2 k2 = (s4, ROk r4) /\ events r4 = [] /\
  (quiet (sv_ack s3) w2 -> r4 = [] /\
   Link (cl_ser c2) (sv_de s4) /\ Link (sv_ser s4) (cl_de c2) /\ ser_ok (cl_ser c2) /\ ser_ok (sv_ser s4) /\
   sv_connected s4 = true /\ sv_app s4 = Some app' /\ sv_next_stream s4 = sv_next_stream s /\
   cl_next_tr c2 = cl_next_tr c /\ cl_cfg c2 = cl_cfg c /\ ack_window (sv_ack s4) = Some (cc_window (cl_cfg c))))).
Proof. exact connect_ready. Qed.

Theorem C02_server_receives_chunk_size : forall s ser n ts b ser' clock,
  Link ser (sv_de s) -> ser_ok (sv_ser s) -> 1 <= n <= 2147483647 -> ts < 4294967296 ->
  ChunkSer.set_max_chunk_size ser n ts = Ok (b, ser') ->
  exists s2 r, server_handle_input s b clock = (s2, ROk r) /\
  events r = [] /\ same_core s s2 /\ Link ser' (sv_de s2) /\ ser_ok (sv_ser s2) /\
  (quiet (sv_ack s) b -> r = [] /\ sv_ser s2 = sv_ser s /\ sv_ack s2 = fst (ack_step (sv_ack s) (lenN b))).
Proof. exact server_receives_chunk_size. Qed.

Theorem C02_client_receives_chunk_size : forall c ser n ts b ser' clock,
  Link ser (cl_de c) -> ser_ok (cl_ser c) -> 1 <= n <= 2147483647 -> ts < 4294967296 ->
  ChunkSer.set_max_chunk_size ser n ts = Ok (b, ser') ->
  exists c2 r, client_handle_input c b clock = (c2, COk r) /\
  cevents r = [] /\
  (cl_cfg c2 = cl_cfg c /\ cl_next_tr c2 = cl_next_tr c /\ cl_trs c2 = cl_trs c /\ cl_state c2 = cl_state c /\
   cl_app c2 = cl_app c /\ cl_stream c2 = cl_stream c) /\ Link ser' (cl_de c2) /\ ser_ok (cl_ser c2) /\
  (quiet (cl_ack c) b -> r = [] /\ cl_ser c2 = cl_ser c /\ cl_ack c2 = fst (ack_step (cl_ack c) (lenN b))).
Proof. exact client_receives_chunk_size. Qed.

Example C02_start_quiet :
  let cfg := {| cfg_fms := str "FMS/3,0,1,123"; cfg_chunk := 4096; cfg_bandwidth := 2500000; cfg_window := 2500000; cfg_bwdone := true |} in
  let ccfg := {| cc_flash := str "v"; cc_buffer := 1000; cc_window := 2500000; cc_chunk := 4096; cc_tcurl := None |} in
  match server_new cfg 0 with
  | (_, ROk rs) => cquiet (client_new ccfg) (spackets rs) 1 /\ List.length (spackets rs) = 5%nat
  | _ => False
  end.
Proof. exact start_quiet. Qed.

Theorem C02_connect_completes_decided : forall c s app clock sclock aclock cclock,
  Link (cl_ser c) (sv_de s) -> Link (sv_ser s) (cl_de c) -> ser_ok (cl_ser c) -> ser_ok (sv_ser s) ->
  cl_state c = Disconnected -> strings_ok c app -> sizes_ok c app -> ack_window (sv_ack s) = None ->
  utf8_valid (sv_fms s) = true -> lenN (sv_fms s) <= 65535 ->
  clock < 4294967296 -> aclock < 4294967296 -> cclock < 4294967296 -> 1 <= cc_chunk (cl_cfg c) <= 2147483647 ->
  exists b1 c1 s1 b2 s2 c2 rs pre w1 w2,
    client_request_connection c app clock = (c1, COk [CPacket b1 false]) /\
    server_handle_input s b1 sclock = (s1, ROk [SEvent (EvConnectionRequested (sv_next_req s) (strip_slash app))]) /\
    server_accept s1 (sv_next_req s) aclock = (s2, ROk [SPacket b2 false]) /\
    client_handle_input c1 b2 cclock = (c2, COk rs) /\
    rs = pre ++ [CPacket w1 false; CEvent CConnectionAccepted; CPacket w2 false] /\ cevents pre = [] /\
    cl_state c2 = Connected /\ cl_app c2 = Some app /\
    sv_connected s2 = true /\ sv_app s2 = Some (strip_slash app) /\
    Link (sv_ser s2) (cl_de c2) /\ s_max (cl_ser c2) = cc_chunk (cl_cfg c).
Proof. exact connect_completes_decided. Qed.

Theorem C02_publish_completes_windows : forall c s app key t k1 k2 k3 k4 k5 k6 k7,
  Link (cl_ser c) (sv_de s) -> Link (sv_ser s) (cl_de c) -> ser_ok (cl_ser c) -> ser_ok (sv_ser s) ->
  cl_state c = Connected -> cl_next_tr c < 4294967296 -> sv_next_stream s < 4294967296 ->
  sv_connected s = true -> sv_app s = Some app -> utf8_valid key = true -> lenN key <= 65000 ->
  k1 < 4294967296 -> k2 < 4294967296 -> k3 < 4294967296 -> k5 < 4294967296 ->
  (forall w, ack_window (sv_ack s) = Some w -> ack_since (sv_ack s) + 2 * (17 * (lenN key + 200) + 16) < w) ->
  (forall w, ack_window (cl_ack c) = Some w -> ack_since (cl_ack c) + 3 * (17 * (lenN key + 200) + 16) < w) ->
  exists c1 b1 s1 b2 c2 b3 s2 s3 b4 b5 c3 c4,
    client_request_publishing c key t k1 = (c1, COk [CPacket b1 false]) /\
    server_handle_input s b1 k2 = (s1, ROk [SPacket b2 false]) /\
    client_handle_input c1 b2 k3 = (c2, COk [CPacket b3 false]) /\
    server_handle_input s1 b3 k4 = (s2, ROk [SEvent (EvPublishRequested (sv_next_req s) app key (mode_of_type t))]) /\
    server_accept s2 (sv_next_req s) k5 = (s3, ROk [SPacket b4 false; SPacket b5 false]) /\
    client_handle_input c2 b4 k6 = (c3, COk []) /\
    client_handle_input c3 b5 k7 = (c4, COk [CEvent CPublishAccepted]) /\
    publishing_stream c4 = Ok (sv_next_stream s) /\ publishing_key s3 (sv_next_stream s) = Some (app, key) /\
    Link (cl_ser c4) (sv_de s3) /\ Link (sv_ser s3) (cl_de c4) /\ ser_ok (cl_ser c4) /\ ser_ok (sv_ser s3) /\ sv_connected s3 = true.
Proof. exact publish_completes_windows. Qed.

Theorem C02_play_completes_windows : forall c s app key k1 k2 k3 k4 k5 k6 t1 t2 t3 t4 t5,
  Link (cl_ser c) (sv_de s) -> Link (sv_ser s) (cl_de c) -> ser_ok (cl_ser c) -> ser_ok (sv_ser s) ->
  cl_state c = Connected -> cl_next_tr c < 4294967296 -> sv_next_stream s < 4294967296 -> cc_buffer (cl_cfg c) < 4294967296 ->
  sv_connected s = true -> sv_app s = Some app -> utf8_valid key = true -> lenN key <= 65000 ->
  k1 < 4294967296 -> k2 < 4294967296 -> k3 < 4294967296 -> k6 < 4294967296 ->
  (forall w, ack_window (sv_ack s) = Some w -> ack_since (sv_ack s) + 3 * (17 * (lenN key + 200) + 16) < w) ->
  (forall w, ack_window (cl_ack c) = Some w -> ack_since (cl_ack c) + 6 * (17 * (lenN key + 200) + 16) < w) ->
  exists c1 b1 s1 b2 c2 b3 b4 s2 s3 s4 p1 p2 p3 p4 p5 c3 c4 c5 c6 c7,
    client_request_playback c key k1 = (c1, COk [CPacket b1 false]) /\
    server_handle_input s b1 k2 = (s1, ROk [SPacket b2 false]) /\
    client_handle_input c1 b2 k3 = (c2, COk [CPacket b3 false; CPacket b4 false]) /\
    server_handle_input s1 b3 k4 = (s2, ROk []) /\
    server_handle_input s2 b4 k5 = (s3, ROk [SEvent (EvPlayRequested (sv_next_req s) app key LiveOrRecorded None false (sv_next_stream s))]) /\
    server_accept s3 (sv_next_req s) k6 = (s4, ROk [SPacket p1 false; SPacket p2 false; SPacket p3 false; SPacket p4 false; SPacket p5 false]) /\
    client_handle_input c2 p1 t1 = (c3, COk [CEvent (CUnhandleableStatus (str "NetStream.Play.Reset"))]) /\
    client_handle_input c3 p2 t2 = (c4, COk []) /\
    client_handle_input c4 p3 t3 = (c5, COk [CEvent CPlaybackAccepted]) /\
    client_handle_input c5 p4 t4 = (c6, COk []) /\
    client_handle_input c6 p5 t5 = (c7, COk []) /\
    cl_state c7 = Playing /\ playing_on c7 (sv_next_stream s) /\
    lookup (sv_next_stream s) (sv_streams s4) = Some (StPlaying key) /\ sv_app s4 = Some app /\ sv_connected s4 = true /\
    Link (cl_ser c7) (sv_de s4) /\ Link (sv_ser s4) (cl_de c7) /\ ser_ok (cl_ser c7) /\ ser_ok (sv_ser s4).
Proof. exact play_completes_windows. Qed.

Theorem C02_quiet_of_headroom : forall a b,
  (forall w, ack_window a = Some w -> ack_since a + lenN b < w) -> quiet a b.
Proof. exact quiet_of_headroom. Qed.

Theorem C02_quiet_when_headroom : forall ser m ts sid f d b ser' a tid body,
  ser_ok ser -> send_message ser m ts sid f d = Ok (b, ser') -> to_payload m = Ok (tid, body) ->
  (forall w, ack_window a = Some w -> ack_since a + 17 * lenN body + 16 < w) -> quiet a b.
Proof. exact quiet_when_headroom. Qed.

Theorem C02_play_metadata : forall s c sid md clock cclock s1 r1,
  Link (sv_ser s) (cl_de c) -> ser_ok (cl_ser c) -> playing_on c sid -> sid < 4294967296 -> clock < 4294967296 ->
  md_ok md -> enc_ok md ->
  server_send_metadata s sid md clock = (s1, ROk r1) ->
  exists b c2 r2, r1 = [SPacket b false] /\ same_core s s1 /\ sv_de s1 = sv_de s /\
    client_handle_input c b cclock = (c2, COk r2) /\
    cevents r2 = [CMetadata md] /\ playing_on c2 sid /\ cl_state c2 = cl_state c /\
    Link (sv_ser s1) (cl_de c2) /\ ser_ok (cl_ser c2) /\
    (quiet (cl_ack c) b -> r2 = [CEvent (CMetadata md)] /\ cl_ser c2 = cl_ser c).
Proof. exact play_metadata_delivered. Qed.

Theorem C02_metadata_mapping_identity_server : forall m,
  md_ok m -> metadata_of_props (metadata_props_server m) = m.
Proof. exact metadata_roundtrip_server. Qed.

Theorem C02_server_packet_any_fragmentation : forall s ser b pieces clock s' rs,
  Link ser (sv_de s) -> ser_ok (sv_ser s) -> List.concat pieces = b ->
  server_handle_input s b clock = (s', ROk rs) ->
  exists s2, feed_server s pieces clock [] = (s2, events rs, VOk) /\ same_core s' s2.
Proof. exact server_packet_any_fragmentation. Qed.

Theorem C02_client_packet_any_fragmentation : forall c ser b pieces clock c' rs,
  Link ser (cl_de c) -> ser_ok (cl_ser c) -> List.concat pieces = b ->
  client_handle_input c b clock = (c', COk rs) ->
  exists c2, feed_client c pieces clock [] = (c2, cevents rs, CVOk) /\ csame_core c' c2.
Proof. exact client_packet_any_fragmentation. Qed.

Theorem C02_server_notes_acknowledgement : forall ser ser' b s n ts f sclock,
  Link ser (sv_de s) -> ser_ok (sv_ser s) -> n < 4294967296 -> ts < 4294967296 ->
  send_message ser (MAcknowledgement n) ts 0 f false = Ok (b, ser') ->
  exists s2 r, server_handle_input s b sclock = (s2, ROk r) /\
  events r = [EvAcknowledgement n] /\ same_core s s2 /\ Link ser' (sv_de s2) /\ ser_ok (sv_ser s2) /\
  (quiet (sv_ack s) b -> r = [SEvent (EvAcknowledgement n)] /\ sv_ser s2 = sv_ser s).
Proof. exact server_notes_acknowledgement. Qed.

Theorem C02_client_notes : forall ser ser' b c m ts cclock f,
  noted m -> Link ser (cl_de c) -> ser_ok (cl_ser c) -> ts < 4294967296 ->
  send_message ser m ts 0 f false = Ok (b, ser') ->
  exists c2 r, client_handle_input c b cclock = (c2, COk r) /\
  (forall e, In e (cevents r) -> match e with CConnectionAccepted | CConnectionRejected _ | CPublishAccepted | CPlaybackAccepted | CVideo _ _ | CAudio _ _ | CMetadata _ => False | _ => True end) /\
  ccore c c2 /\ Link ser' (cl_de c2) /\ ser_ok (cl_ser c2) /\
  (quiet (cl_ack c) b -> cl_ser c2 = cl_ser c).
Proof. exact client_notes. Qed.

Theorem C02_publish_session : forall c s app key t items k1 k2 k3 k4 k5 k6 k7 km ks1 ks2,
  Link (cl_ser c) (sv_de s) -> Link (sv_ser s) (cl_de c) -> ser_ok (cl_ser c) -> ser_ok (sv_ser s) ->
  cl_state c = Connected -> cl_next_tr c < 4294967296 -> sv_next_stream s < 4294967296 ->
  sv_connected s = true -> sv_app s = Some app -> utf8_valid key = true -> lenN key <= 65000 ->
  k1 < 4294967296 -> k2 < 4294967296 -> k3 < 4294967296 -> k5 < 4294967296 -> ks1 < 4294967296 ->
  (forall w, ack_window (sv_ack s) = Some w -> ack_since (sv_ack s) + 2 * (17 * (lenN key + 200) + 16) < w) ->
  (forall w, ack_window (cl_ack c) = Some w -> ack_since (cl_ack c) + 3 * (17 * (lenN key + 200) + 16) < w) ->
  Forall item_wf items ->
  exists c1 b1 s1 b2 c2 b3 s2 s3 b4 b5 c3 c4 c5 s4 c6 b6 s5 r,
    (* publish completes on both sides *)
    client_request_publishing c key t k1 = (c1, COk [CPacket b1 false]) /\
    server_handle_input s b1 k2 = (s1, ROk [SPacket b2 false]) /\
    client_handle_input c1 b2 k3 = (c2, COk [CPacket b3 false]) /\
    server_handle_input s1 b3 k4 = (s2, ROk [SEvent (EvPublishRequested (sv_next_req s) app key (mode_of_type t))]) /\
    server_accept s2 (sv_next_req s) k5 = (s3, ROk [SPacket b4 false; SPacket b5 false]) /\
    client_handle_input c2 b4 k6 = (c3, COk []) /\
    client_handle_input c3 b5 k7 = (c4, COk [CEvent CPublishAccepted]) /\
    (* every item is raised exactly once, in order, byte-exact, under the application name and the stream key *)
    publish_run c4 s3 items km =
      Some (c5, s4, map (fun i => match i with Item video data ts _ => media_event video app key data ts end) items) /\
    (* stopping raises the matching finished event *)
    client_stop_publishing c5 ks1 = (c6, COk [CPacket b6 false]) /\ cl_state c6 = Connected /\
    server_handle_input s4 b6 ks2 = (s5, ROk r) /\ events r = [EvPublishFinished app key].
Proof. exact publish_session. Qed.

Theorem C02_play_session : forall c s app key items k1 k2 k3 k4 k5 k6 t1 t2 t3 t4 t5 km kd ks1 ks2,
  Link (cl_ser c) (sv_de s) -> Link (sv_ser s) (cl_de c) -> ser_ok (cl_ser c) -> ser_ok (sv_ser s) ->
  cl_state c = Connected -> cl_next_tr c < 4294967296 -> sv_next_stream s < 4294967296 -> cc_buffer (cl_cfg c) < 4294967296 ->
  sv_connected s = true -> sv_app s = Some app -> utf8_valid key = true -> lenN key <= 65000 ->
  k1 < 4294967296 -> k2 < 4294967296 -> k3 < 4294967296 -> k6 < 4294967296 -> km < 4294967296 -> ks1 < 4294967296 ->
  (forall w, ack_window (sv_ack s) = Some w -> ack_since (sv_ack s) + 3 * (17 * (lenN key + 200) + 16) < w) ->
  (forall w, ack_window (cl_ack c) = Some w -> ack_since (cl_ack c) + 6 * (17 * (lenN key + 200) + 16) < w) ->
  Forall item_wf items ->
  exists c1 b1 s1 b2 c2 b3 b4 s2 s3 s4 p1 p2 p3 p4 p5 c3 c4 c5 c6 c7 s5 c8 out s6 c9 b9 s7 r,
    (* play completes on both sides *)
    client_request_playback c key k1 = (c1, COk [CPacket b1 false]) /\
    server_handle_input s b1 k2 = (s1, ROk [SPacket b2 false]) /\
    client_handle_input c1 b2 k3 = (c2, COk [CPacket b3 false; CPacket b4 false]) /\
    server_handle_input s1 b3 k4 = (s2, ROk []) /\
    server_handle_input s2 b4 k5 = (s3, ROk [SEvent (EvPlayRequested (sv_next_req s) app key LiveOrRecorded None false (sv_next_stream s))]) /\
    server_accept s3 (sv_next_req s) k6 = (s4, ROk [SPacket p1 false; SPacket p2 false; SPacket p3 false; SPacket p4 false; SPacket p5 false]) /\
    client_handle_input c2 p1 t1 = (c3, COk [CEvent (CUnhandleableStatus (str "NetStream.Play.Reset"))]) /\
    client_handle_input c3 p2 t2 = (c4, COk []) /\
    client_handle_input c4 p3 t3 = (c5, COk [CEvent CPlaybackAccepted]) /\
    client_handle_input c5 p4 t4 = (c6, COk []) /\
    client_handle_input c6 p5 t5 = (c7, COk []) /\
    (* every item the server sends is raised by the client exactly once, in order, byte-exact; `out` = what the client wrote meanwhile
       (Acknowledgements, whenever its counter reached the server's window) *)
    play_run2 s4 c7 (sv_next_stream s) items km =
      Some (s5, c8, map (fun i => match i with Item video data ts _ => cmedia_event video data ts end) items, out) /\
    (* the server reads those, then the stop: exactly the matching finished event *)
    sdeliver s5 out kd = Some s6 /\
    client_stop_playback c8 ks1 = (c9, COk [CPacket b9 false]) /\ cl_state c9 = Connected /\
    server_handle_input s6 b9 ks2 = (s7, ROk r) /\ events r = [EvPlayFinished app key].
Proof. exact play_session. Qed.

Theorem C02_play_media_phase : forall items,
forall s c sid clock,
  Link (sv_ser s) (cl_de c) -> ser_ok (cl_ser c) -> ser_ok (sv_ser s) -> playing_on c sid -> sid < 4294967296 -> clock < 4294967296 ->
  Forall item_wf items ->
  exists s' c' out,
    play_run2 s c sid items clock =
      Some (s', c', map (fun i => match i with Item video data ts _ => cmedia_event video data ts end) items, out) /\
    Link (sv_ser s') (cl_de c') /\ ser_ok (cl_ser c') /\ ser_ok (sv_ser s') /\ playing_on c' sid /\ cl_state c' = cl_state c /\
    sends (cl_ser c) out (cl_ser c') /\ same_core s s' /\ sv_de s' = sv_de s.
Proof. exact play_run_keeps. Qed.

Theorem C02_publish_media_phase : forall items,
forall c s clock sid app key,
  Link (cl_ser c) (sv_de s) -> ser_ok (cl_ser c) -> ser_ok (sv_ser s) -> publishing_stream c = Ok sid -> sid < 4294967296 ->
  sv_connected s = true -> publishing_key s sid = Some (app, key) -> Forall item_wf items ->
  exists c' s', publish_run c s items clock =
    Some (c', s', map (fun i => match i with Item video data ts _ => media_event video app key data ts end) items) /\
    Link (cl_ser c') (sv_de s') /\ ser_ok (cl_ser c') /\ ser_ok (sv_ser s') /\ publishing_stream c' = Ok sid /\
    sv_connected s' = true /\ publishing_key s' sid = Some (app, key).
Proof. exact publish_run_keeps. Qed.

Theorem C02_server_absorbs_control_packets : forall ser bs ser',
sends ser bs ser' -> forall s clock,
  Link ser (sv_de s) -> ser_ok (sv_ser s) ->
  exists s', sdeliver s bs clock = Some s' /\ same_core s s' /\ Link ser' (sv_de s') /\ ser_ok (sv_ser s').
Proof. exact server_absorbs. Qed.

Theorem C02_server_notes : forall ser ser' b s m ts sclock f,
  noted m -> Link ser (sv_de s) -> ser_ok (sv_ser s) -> ts < 4294967296 ->
  send_message ser m ts 0 f false = Ok (b, ser') ->
  exists s2 r, server_handle_input s b sclock = (s2, ROk r) /\ same_core s s2 /\ Link ser' (sv_de s2) /\ ser_ok (sv_ser s2).
Proof. exact server_notes. Qed.

Theorem C02_publish_session_all_items : forall c s app key t items k1 k2 k3 k4 k5 k6 k7 km ks1 ks2,
  Link (cl_ser c) (sv_de s) -> Link (sv_ser s) (cl_de c) -> ser_ok (cl_ser c) -> ser_ok (sv_ser s) ->
  cl_state c = Connected -> cl_next_tr c < 4294967296 -> sv_next_stream s < 4294967296 ->
  sv_connected s = true -> sv_app s = Some app -> utf8_valid key = true -> lenN key <= 65000 ->
  k1 < 4294967296 -> k2 < 4294967296 -> k3 < 4294967296 -> k5 < 4294967296 -> ks1 < 4294967296 ->
  (forall w, ack_window (sv_ack s) = Some w -> ack_since (sv_ack s) + 2 * (17 * (lenN key + 200) + 16) < w) ->
  (forall w, ack_window (cl_ack c) = Some w -> ack_since (cl_ack c) + 3 * (17 * (lenN key + 200) + 16) < w) ->
  Forall pitem_wf items ->
  exists c1 b1 s1 b2 c2 b3 s2 s3 b4 b5 c3 c4 c5 s4 c6 b6 s5 r,
    client_request_publishing c key t k1 = (c1, COk [CPacket b1 false]) /\
    server_handle_input s b1 k2 = (s1, ROk [SPacket b2 false]) /\
    client_handle_input c1 b2 k3 = (c2, COk [CPacket b3 false]) /\
    server_handle_input s1 b3 k4 = (s2, ROk [SEvent (EvPublishRequested (sv_next_req s) app key (mode_of_type t))]) /\
    server_accept s2 (sv_next_req s) k5 = (s3, ROk [SPacket b4 false; SPacket b5 false]) /\
    client_handle_input c2 b4 k6 = (c3, COk []) /\
    client_handle_input c3 b5 k7 = (c4, COk [CEvent CPublishAccepted]) /\
    publish_run3 c4 s3 items km = Some (c5, s4, map (pitem_event app key) items) /\
    client_stop_publishing c5 ks1 = (c6, COk [CPacket b6 false]) /\ cl_state c6 = Connected /\
    server_handle_input s4 b6 ks2 = (s5, ROk r) /\ events r = [EvPublishFinished app key].
Proof. exact publish_session_all_items. Qed.

Theorem C02_play_session_all_items : forall c s app key items k1 k2 k3 k4 k5 k6 t1 t2 t3 t4 t5 km kd ks1 ks2,
  Link (cl_ser c) (sv_de s) -> Link (sv_ser s) (cl_de c) -> ser_ok (cl_ser c) -> ser_ok (sv_ser s) ->
  cl_state c = Connected -> cl_next_tr c < 4294967296 -> sv_next_stream s < 4294967296 -> cc_buffer (cl_cfg c) < 4294967296 ->
  sv_connected s = true -> sv_app s = Some app -> utf8_valid key = true -> lenN key <= 65000 ->
  k1 < 4294967296 -> k2 < 4294967296 -> k3 < 4294967296 -> k6 < 4294967296 -> km < 4294967296 -> ks1 < 4294967296 ->
  (forall w, ack_window (sv_ack s) = Some w -> ack_since (sv_ack s) + 3 * (17 * (lenN key + 200) + 16) < w) ->
  (forall w, ack_window (cl_ack c) = Some w -> ack_since (cl_ack c) + 6 * (17 * (lenN key + 200) + 16) < w) ->
  Forall pitem_wf items ->
  exists c1 b1 s1 b2 c2 b3 b4 s2 s3 s4 p1 p2 p3 p4 p5 c3 c4 c5 c6 c7 s5 c8 out s6 c9 b9 s7 r,
    client_request_playback c key k1 = (c1, COk [CPacket b1 false]) /\
    server_handle_input s b1 k2 = (s1, ROk [SPacket b2 false]) /\
    client_handle_input c1 b2 k3 = (c2, COk [CPacket b3 false; CPacket b4 false]) /\
    server_handle_input s1 b3 k4 = (s2, ROk []) /\
    server_handle_input s2 b4 k5 = (s3, ROk [SEvent (EvPlayRequested (sv_next_req s) app key LiveOrRecorded None false (sv_next_stream s))]) /\
    server_accept s3 (sv_next_req s) k6 = (s4, ROk [SPacket p1 false; SPacket p2 false; SPacket p3 false; SPacket p4 false; SPacket p5 false]) /\
    client_handle_input c2 p1 t1 = (c3, COk [CEvent (CUnhandleableStatus (str "NetStream.Play.Reset"))]) /\
    client_handle_input c3 p2 t2 = (c4, COk []) /\
    client_handle_input c4 p3 t3 = (c5, COk [CEvent CPlaybackAccepted]) /\
    client_handle_input c5 p4 t4 = (c6, COk []) /\
    client_handle_input c6 p5 t5 = (c7, COk []) /\
    play_run3 s4 c7 (sv_next_stream s) items km = Some (s5, c8, map pitem_cevent items, out) /\
    sdeliver s5 out kd = Some s6 /\
    client_stop_playback c8 ks1 = (c9, COk [CPacket b9 false]) /\ cl_state c9 = Connected /\
    server_handle_input s6 b9 ks2 = (s7, ROk r) /\ events r = [EvPlayFinished app key].
Proof. exact play_session_all_items. Qed.

Theorem C02_publish_metadata_always_delivered : forall c s md clock sclock sid app key,
  Link (cl_ser c) (sv_de s) -> ser_ok (cl_ser c) -> ser_ok (sv_ser s) ->
  publishing_stream c = Ok sid -> sid < 4294967296 -> clock < 4294967296 -> md_ok md -> enc_ok md ->
  sv_connected s = true -> publishing_key s sid = Some (app, key) ->
  exists b c' s' rs,
    client_publish_metadata c md clock = (c', COk [CPacket b false]) /\
    server_handle_input s b sclock = (s', ROk rs) /\
    events rs = [EvMetadata app key md] /\
    Link (cl_ser c') (sv_de s') /\ ser_ok (cl_ser c') /\ ser_ok (sv_ser s') /\ publishing_stream c' = Ok sid /\
    sv_connected s' = true /\ publishing_key s' sid = Some (app, key).
Proof. exact publish_metadata_always_delivered. Qed.

Theorem C02_play_metadata_always_delivered : forall s c sid md clock cclock,
  Link (sv_ser s) (cl_de c) -> ser_ok (cl_ser c) -> ser_ok (sv_ser s) -> playing_on c sid -> sid < 4294967296 ->
  clock < 4294967296 -> cclock < 4294967296 -> md_ok md -> enc_ok md ->
  exists b ser' c' pre,
    server_send_metadata s sid md clock = (upd_ser s ser', ROk [SPacket b false]) /\
    client_handle_input c b cclock = (c', COk (pre ++ [CEvent (CMetadata md)])) /\ cevents pre = [] /\
    Link ser' (cl_de c') /\ ser_ok (cl_ser c') /\ ser_ok ser' /\ playing_on c' sid /\ cl_state c' = cl_state c /\
    sends (cl_ser c) (cpacket_list pre) (cl_ser c').
Proof. exact play_metadata_out. Qed.

Example C02_scenario_publish :
  filter is_media_or_lifecycle (server_events_of (ex_run ex_publish_ops)) =
  [ EvConnectionRequested 0 (str "live");
    EvPublishRequested 1 (str "live") (str "key") PLive;
    EvVideo (str "live") (str "key") [1; 2; 3; 4; 5] 10;
    EvAudio (str "live") (str "key") [] 4294967295;
    EvVideo (str "live") (str "key") [9] 0;
    EvPublishFinished (str "live") (str "key") ] /\
  filter (fun e => match e with CConnectionAccepted | CPublishAccepted => true | _ => false end)
         (client_events_of (ex_run ex_publish_ops)) = [CConnectionAccepted; CPublishAccepted].
Proof. exact scenario_publish. Qed.

Example C02_scenario_play :
  filter (fun e => match e with CVideo _ _ | CAudio _ _ | CPlaybackAccepted | CConnectionAccepted => true | _ => false end)
         (client_events_of (ex_run ex_play_ops)) =
  [ CConnectionAccepted; CPlaybackAccepted; CVideo 10 [1; 2; 3; 4; 5]; CAudio 16777215 [7; 7] ] /\
  filter (fun e => match e with EvPlayFinished _ _ => true | _ => false end) (server_events_of (ex_run ex_play_ops)) =
  [ EvPlayFinished (str "live") (str "key") ].
Proof. exact scenario_play. Qed.

Print Assumptions C02_link_preserved.
Print Assumptions C02_link_initially.
Print Assumptions C02_publish_sequence.
Print Assumptions C02_play_sequence.
Print Assumptions C02_publish_any_partition.
Print Assumptions C02_play_any_partition.
Print Assumptions C02_publish_metadata.
Print Assumptions C02_transport.
Print Assumptions C02_client_call_transport.
Print Assumptions C02_server_call_transport.
Print Assumptions C02_metadata_mapping_identity.
Print Assumptions C02_connect_request_delivered.
Print Assumptions C02_connect_accept_delivered.
Print Assumptions C02_connect_completes.
Print Assumptions C02_server_receives_message.
Print Assumptions C02_client_receives_message.
Print Assumptions C02_publish_completes.
Print Assumptions C02_play_completes.
Print Assumptions C02_stop_publishing_raises_finished.
Print Assumptions C02_stop_playback_raises_finished.
Print Assumptions C02_sessions_start.
Print Assumptions C02_connect_ready.
Print Assumptions C02_server_receives_chunk_size.
Print Assumptions C02_client_receives_chunk_size.
Print Assumptions C02_connect_completes_decided.
Print Assumptions C02_publish_session_all_items.
Print Assumptions C02_play_session_all_items.
Print Assumptions C02_publish_metadata_always_delivered.
Print Assumptions C02_play_metadata_always_delivered.
Print Assumptions C02_publish_session.
Print Assumptions C02_play_session.
Print Assumptions C02_play_media_phase.
Print Assumptions C02_publish_media_phase.
Print Assumptions C02_server_absorbs_control_packets.
Print Assumptions C02_server_notes.
Print Assumptions C02_publish_completes_windows.
Print Assumptions C02_play_completes_windows.
Print Assumptions C02_quiet_of_headroom.
Print Assumptions C02_quiet_when_headroom.
Print Assumptions C02_play_metadata.
Print Assumptions C02_metadata_mapping_identity_server.
Print Assumptions C02_server_packet_any_fragmentation.
Print Assumptions C02_client_packet_any_fragmentation.
Print Assumptions C02_server_notes_acknowledgement.
Print Assumptions C02_client_notes.
