(* C17 - acknowledgement accounting.  ack_step / ack_learn (Model/SessionCommon.v) are the counter both session
   models run first in handle_input (Model/Server.v server_handle_input, Model/Client.v client_handle_input).
   A history is a sequence of input calls (by size) and window announcements; the window is learned while a
   message is processed, i.e. after the counting step of the call that carries it (DESIGN 10.3).
   The u32 counter saturates at 2^32-1 (repaired behaviour); exactness is stated below that limit. *)
From RML Require Import Model.Base Model.Chunk Model.Messages Model.SessionCommon Model.Server Model.Client Proofs.AckProofs Proofs.InteropProofs Proofs.SessionAck.
Local Open Scope N_scope.

Theorem C17_step : forall a w len,
  ack_window a = Some w -> ack_since a + len < 4294967296 ->
  (w <= ack_since a + len ->
     ack_step a len = ({| ack_window := Some w; ack_since := 0 |}, Some (ack_since a + len))) /\
  (ack_since a + len < w ->
     ack_step a len = ({| ack_window := Some w; ack_since := ack_since a + len |}, None)).
Proof. exact ack_step_spec. Qed.

Theorem C17_exactly_those_calls : forall evs a,
  no_saturation a evs ->
  forall pre len post, evs = pre ++ ACall len :: post ->
  let a_before := fst (ack_run a pre) in
  nth_error (snd (ack_run a evs)) (length (filter (fun e => match e with ACall _ => true | _ => false end) pre)) =
    Some (match ack_window a_before with
          | Some w => if w <=? ack_since a_before + len then Some (ack_since a_before + len) else None
          | None => None
          end).
Proof. exact ack_exactly. Qed.

Theorem C17_conservation : forall evs a,
  no_saturation a evs ->
  let '(a', os) := ack_run a evs in
  sum_acks os + ack_since a' = ack_since a + counted a evs.
Proof. exact ack_conservation. Qed.

Theorem C17_outstanding_below_window : forall a w len a' o,
  ack_window a = Some w -> 1 <= w -> ack_step a len = (a', o) -> ack_window a' = Some w /\ ack_since a' < w.
Proof. exact ack_step_bound. Qed.

Theorem C17_saturation : forall a w len a' n,
  ack_window a = Some w -> ack_step a len = (a', Some n) -> n <= 4294967295 /\ w <= n /\ n <= ack_since a + len.
Proof. exact ack_step_saturates. Qed.

(* the sessions run exactly this counter: once per handle_input call, first, on the size of the input; a due Acknowledgement is the
   first result of the call and carries the counted bytes; afterwards only the windows announced by the call's own messages are
   learned (the byte count is not touched by any handler) *)
Theorem C17_server_session_runs_the_counter : forall s input clock, ser_ok (sv_ser s) ->
  let '(a, due) := ack_step (sv_ack s) (lenN input) in
  ack_since (sv_ack (fst (server_handle_input s input clock))) = ack_since a /\
  match due, snd (server_handle_input s input clock) with
  | Some n, ROk rs => exists b ser' more, send_message (sv_ser s) (MAcknowledgement n) clock 0 false false = Ok (b, ser') /\ rs = SPacket b false :: more
  | _, _ => True
  end.
Proof. exact server_input_ack. Qed.

Theorem C17_server_session_state : forall s input clock, ser_ok (sv_ser s) ->
  exists ws, sv_ack (fst (server_handle_input s input clock)) = fold_left ack_learn ws (fst (ack_step (sv_ack s) (lenN input))).
Proof. exact server_input_ack_state. Qed.

Theorem C17_client_session_runs_the_counter : forall c input clock, ser_ok (cl_ser c) ->
  let '(a, due) := ack_step (cl_ack c) (lenN input) in
  (exists ws, cl_ack (fst (client_handle_input c input clock)) = fold_left ack_learn ws a) /\
  match due, snd (client_handle_input c input clock) with
  | Some n, COk rs => exists b ser' more, send_message (cl_ser c) (MAcknowledgement n) clock 0 false false = Ok (b, ser') /\ rs = CPacket b false :: more
  | _, _ => True
  end.
Proof. exact client_input_ack. Qed.

Example C17_example :
  ack_run {| ack_window := None; ack_since := 0 |} [ACall 10; ALearn 5; ACall 3; ACall 3; ACall 1; ALearn 2; ACall 1; ACall 1] =
  ({| ack_window := Some 2; ack_since := 1 |}, [None; None; Some 6; None; Some 2; None]).
Proof. exact ack_example. Qed.

Print Assumptions C17_step.
Print Assumptions C17_exactly_those_calls.
Print Assumptions C17_conservation.
Print Assumptions C17_outstanding_below_window.
Print Assumptions C17_saturation.
Print Assumptions C17_server_session_runs_the_counter.
Print Assumptions C17_server_session_state.
Print Assumptions C17_client_session_runs_the_counter.
