(* C10 - the client session follows the connect / createStream / publish|play workflow.
   Model/Client.v is the message-level model of ClientSession (tied to the code by the correspondence check).
   Transaction ids are matched as the code matches them: the f64 of the reply truncated to u32 (f64_to_u32). *)
From Coq Require Import String.
From RML Require Import Model.Base Model.Amf0 Model.Chunk Model.Messages Model.Float Model.SessionCommon Model.Client Proofs.ClientProofs Proofs.ClientRefusals.
Local Open Scope list_scope.
Local Open Scope N_scope.

(* requests outside their state are refused: same session value, an error, no bytes *)
Theorem C10_connect_refused : forall c app clock, cl_state c <> Disconnected -> client_request_connection c app clock = (c, CErr CCantConnect).
Proof. exact connect_refused. Qed.
Theorem C10_create_stream_refused : forall c p clock, cl_state c <> Connected -> create_stream_request c p clock = (c, CErr (CInvalidState (cl_state c))).
Proof. exact create_stream_refused. Qed.
Theorem C10_publish_media_refused : forall video c data ts drop, cl_state c <> Publishing ->
  client_publish_media video c data ts drop = (c, CErr (CInvalidState (cl_state c))).
Proof. exact publish_media_refused. Qed.
Theorem C10_publish_metadata_refused : forall c md clock, cl_state c <> Publishing ->
  client_publish_metadata c md clock = (c, CErr (CInvalidState (cl_state c))).
Proof. exact publish_metadata_refused. Qed.
Theorem C10_publish_media_on_active_stream : forall video c data ts drop sid,
  cl_state c = Publishing -> cl_stream c = Some sid ->
  client_publish_media video c data ts drop = cone_packet c (if video then MVideoData data else MAudioData data) ts sid drop.
Proof. exact publish_media_on_active_stream. Qed.
Theorem C10_connect_emits : forall c app clock c' r,
  cl_state c = Disconnected -> client_request_connection c app clock = (c', r) ->
  cl_state c' = Disconnected /\ lookup (cl_next_tr c) (cl_trs c') = Some (TConnection app) /\ cl_next_tr c' = cl_next_tr c + 1.
Proof. exact connect_emits. Qed.

(* answers to unknown transactions are reported and not applied *)
Theorem C10_unknown_result : forall c tr obj args clock,
  lookup (f64_to_u32 tr) (cl_trs c) = None -> ch_result c tr obj args clock = (c, COk [CEvent (CUnknownTransaction tr obj args)]).
Proof. exact unknown_result. Qed.
Theorem C10_unknown_error : forall c tr obj args,
  lookup (f64_to_u32 tr) (cl_trs c) = None -> ch_error c tr obj args = (c, COk [CEvent (CUnknownTransaction tr obj args)]).
Proof. exact unknown_error. Qed.

(* each result / error advances exactly the transaction it answers *)
Theorem C10_connect_result : forall c tr obj args clock app c' rs,
  lookup (f64_to_u32 tr) (cl_trs c) = Some (TConnection app) -> ch_result c tr obj args clock = (c', COk rs) ->
  cl_state c' = Connected /\ cl_app c' = Some app /\ lookup (f64_to_u32 tr) (cl_trs c') = None /\
  exists b1 b2, rs = [CPacket b1 false; CEvent CConnectionAccepted; CPacket b2 false].
Proof. exact connect_result. Qed.
Theorem C10_connect_error : forall c tr obj args app,
  lookup (f64_to_u32 tr) (cl_trs c) = Some (TConnection app) ->
  exists c' d, ch_error c tr obj args = (c', COk [CEvent (CConnectionRejected d)]) /\
               cl_state c' = cl_state c /\ lookup (f64_to_u32 tr) (cl_trs c') = None.
Proof. exact connect_error. Qed.
Theorem C10_create_stream_result : forall c tr obj x rest clock p c' rs,
  lookup (f64_to_u32 tr) (cl_trs c) = Some (TCreateStream p) -> ch_result c tr obj (VNumber x :: rest) clock = (c', COk rs) ->
  let sid := f64_to_u32 x in
  cl_stream c' = Some sid /\ lookup (f64_to_u32 tr) (cl_trs c') = None /\
  match p with
  | PurposePlay key =>
      cl_state c' = PlayRequested /\ exists b1 b2 ser1 ser2,
        rs = [CPacket b1 false; CPacket b2 false] /\
        send_message ser1 (MAmf0Command (str "play") 0 VNull [VString key]) clock sid false false = Ok (b2, ser2)
  | PurposePublish key t =>
      cl_state c' = PublishRequested /\ exists b ser1 ser2,
        rs = [CPacket b false] /\
        send_message ser1 (MAmf0Command (str "publish") 0 VNull
                             [VString key; VString (match t with TLive => str "live" | TRecord => str "record" | TAppend => str "append" end)])
                     clock sid false false = Ok (b, ser2)
  end.
Proof. exact create_stream_result. Qed.

(* start statuses *)
Theorem C10_play_start : forall c ps rest, status_args (str "NetStream.Play.Start") ps ->
  ch_status c (VObject ps :: rest) =
    match cl_state c with PlayRequested => (cupd_state c Playing, COk [CEvent CPlaybackAccepted]) | s => (c, CErr (CInvalidState s)) end.
Proof. exact play_start. Qed.
Theorem C10_publish_start : forall c ps rest, status_args (str "NetStream.Publish.Start") ps ->
  ch_status c (VObject ps :: rest) =
    match cl_state c with PublishRequested => (cupd_state c Publishing, COk [CEvent CPublishAccepted]) | s => (c, CErr (CInvalidState s)) end.
Proof. exact publish_start. Qed.

(* media events only for the active stream while play is requested or running *)
Theorem C10_media_gate : forall video c sid data ts,
  ch_media video c sid data ts =
  match cl_state c with
  | PlayRequested | Playing =>
      (c, COk (match cl_stream c with
               | Some a => if a =? sid then [CEvent (if video then CVideo ts data else CAudio ts data)] else []
               | None => []
               end))
  | s => (c, CErr (CInvalidState s))
  end.
Proof. exact media_gate_client. Qed.
Theorem C10_metadata_gate : forall c vs sid rs c', ch_data c vs sid = (c', COk rs) -> rs <> [] -> cl_stream c = Some sid /\ c' = c.
Proof. exact metadata_gate_client. Qed.

(* stopping emits a deleteStream for the active stream and returns to Connected with no active stream *)
Theorem C10_stop_playback : forall c clock sid c' r,
  (cl_state c = Playing \/ cl_state c = PlayRequested) -> cl_stream c = Some sid -> client_stop_playback c clock = (c', r) ->
  cl_state c' = Connected /\ cl_stream c' = None /\
  ((exists b ser', send_message (cl_ser c) (MAmf0Command (str "deleteStream") 0 VNull [VNumber (u32_to_f64 sid)]) clock sid false false = Ok (b, ser') /\
                   r = COk [CPacket b false]) \/ (exists e, r = CErr (CWire e)) \/ r = CPanic).
Proof. exact stop_playback_spec. Qed.
Theorem C10_stop_publishing : forall c clock sid c' r,
  (cl_state c = Publishing \/ cl_state c = PublishRequested) -> cl_stream c = Some sid -> client_stop_publishing c clock = (c', r) ->
  cl_state c' = Connected /\ cl_stream c' = None /\
  ((exists b ser', send_message (cl_ser c) (MAmf0Command (str "deleteStream") 0 VNull [VNumber (u32_to_f64 sid)]) clock sid false false = Ok (b, ser') /\
                   r = COk [CPacket b false]) \/ (exists e, r = CErr (CWire e)) \/ r = CPanic).
Proof. exact stop_publishing_spec. Qed.

Theorem C10_ping_echo : forall c p clock ts,
  of_payload (m_tid p) (m_data p) = Ok (MUserControl PingRequest None None (Some ts)) ->
  ch_message c p clock = cone_packet c (MUserControl PingResponse None None (Some ts)) clock 0 false.
Proof. exact ping_echo_client. Qed.

Print Assumptions C10_connect_refused.
Print Assumptions C10_create_stream_refused.
Print Assumptions C10_publish_media_refused.
Print Assumptions C10_publish_metadata_refused.
Print Assumptions C10_publish_media_on_active_stream.
Print Assumptions C10_connect_emits.
Print Assumptions C10_unknown_result.
Print Assumptions C10_unknown_error.
Print Assumptions C10_connect_result.
Print Assumptions C10_connect_error.
(* an answer that is refused changes nothing but the consumed transaction: no play / publish state is entered, no stream becomes
   active, nothing is sent (the serializer is untouched) *)
Theorem C10_create_stream_result_without_number : forall c tr obj args clock p,
  lookup (f64_to_u32 tr) (cl_trs c) = Some (TCreateStream p) -> no_stream_number args ->
  exists c', ch_result c tr obj args clock = (c', CErr CNoStreamNumber) /\
    cl_state c' = cl_state c /\ cl_stream c' = cl_stream c /\ cl_app c' = cl_app c /\ cl_ser c' = cl_ser c /\
    cl_de c' = cl_de c /\ cl_ack c' = cl_ack c /\ cl_next_tr c' = cl_next_tr c /\
    lookup (f64_to_u32 tr) (cl_trs c') = None.
Proof. exact create_stream_result_without_number. Qed.

Theorem C10_create_stream_error_refused : forall c tr obj args p,
  lookup (f64_to_u32 tr) (cl_trs c) = Some (TCreateStream p) ->
  exists c', ch_error c tr obj args = (c', CErr CCreateStreamFailed) /\
    cl_state c' = cl_state c /\ cl_stream c' = cl_stream c /\ cl_app c' = cl_app c /\ cl_ser c' = cl_ser c /\
    lookup (f64_to_u32 tr) (cl_trs c') = None.
Proof. exact create_stream_error_refused. Qed.

Example C10_no_stream_number_examples :
  no_stream_number [] /\ no_stream_number [VNull; VNumber 4607182418800017408] /\ no_stream_number [VString (str "1")].
Proof. exact no_stream_number_examples. Qed.

(* an onStatus message can do exactly three things: nothing to the session (unknown code reported, malformed or out-of-state status
   refused), PlayRequested -> Playing, PublishRequested -> Publishing *)
Theorem C10_status_effect : forall c args c' r,
  ch_status c args = (c', r) ->
  c' = c \/
  (cl_state c = PlayRequested /\ c' = cupd_state c Playing /\ r = COk [CEvent CPlaybackAccepted]) \/
  (cl_state c = PublishRequested /\ c' = cupd_state c Publishing /\ r = COk [CEvent CPublishAccepted]).
Proof. exact status_effect. Qed.

Theorem C10_status_malformed : forall c args,
  (forall ps rest code, args = VObject ps :: rest -> prop_get (str "code") ps <> Some (VString code)) ->
  ch_status c args = (c, CErr CInvalidOnStatus).
Proof. exact status_malformed. Qed.

(* an _error answer never advances the workflow, whatever transaction it names: at most that transaction is consumed *)
Theorem C10_error_effect : forall c tr obj args c' r,
  ch_error c tr obj args = (c', r) ->
  cl_state c' = cl_state c /\ cl_stream c' = cl_stream c /\ cl_app c' = cl_app c /\ cl_ser c' = cl_ser c /\
  cl_de c' = cl_de c /\ cl_ack c' = cl_ack c /\ cl_next_tr c' = cl_next_tr c /\
  (forall k, k <> f64_to_u32 tr -> lookup k (cl_trs c') = lookup k (cl_trs c)).
Proof. exact error_effect. Qed.

Print Assumptions C10_error_effect.
Print Assumptions C10_status_effect.
Print Assumptions C10_status_malformed.
Print Assumptions C10_create_stream_result_without_number.
Print Assumptions C10_create_stream_error_refused.
Print Assumptions C10_create_stream_result.
Print Assumptions C10_play_start.
Print Assumptions C10_publish_start.
Print Assumptions C10_media_gate.
Print Assumptions C10_metadata_gate.
Print Assumptions C10_stop_playback.
Print Assumptions C10_stop_publishing.
Print Assumptions C10_ping_echo.
