(* C05 - the handshake completes under any fragmentation and hands trailing bytes back intact.
   Proved on the model of handshake/mod.rs, for every HMAC function with 32-byte output (instantiated in C11 with the
   Gallina HMAC-SHA256), every random fill, either role, every peer packet 1 (digest-bearing under either scheme, or
   digest-less = original RTMP handshake) and every peer packet 2:
   - C05_any_partition: a fresh handshake fed ANY partition of the peer's version byte + packet 1 + packet 2 + trailing
     bytes (1-byte pieces, pieces spanning packet boundaries, trailing data with or after packet 2) reports no error, its
     responses add up to exactly its version byte and two 1536-byte packets (C05_own_p1_shape, C11), it reports completion
     exactly once, and the bytes after the handshake come back exactly once and in order: those of the completing call as
     `remaining`, the later pieces never consumed;
   - C05_completion_not_early: when completion is reported, the pieces consumed are the peer's 3073 bytes followed by
     exactly the returned remaining bytes;
   - C05_any_partition_after_generate: the same for the side that starts by calling generate_outbound_p0_and_p1.
   Each side's behaviour depends only on its own input stream and call partition, so every interleaving of the two
   directions and either side starting first are covered by quantifying over the peer's packets.
   Proof: every step looks only at a prefix of the buffer (step_ext), the stage rank bounds the loop, a call on a ++ b is the
   call on a followed by the call on b (call_split), induction over the pieces. *)
From RML Require Import Model.Base Model.Sha256 Model.Handshake Gen.Consts Proofs.HandshakeProofs Proofs.HandshakeFrag.
Local Open Scope N_scope.

Theorem C05_any_partition : forall hmac, (forall k m, length (hmac k m) = 32%nat) -> forall r rand p1 p2 trailing pieces,
  length p1 = 1536%nat -> length p2 = 1536%nat ->
  concat pieces = HS_VERSION_BYTE :: p1 ++ p2 ++ trailing ->
  let own := gen_p0p1 hmac (hs_new r rand) in
  exists remaining unfed,
    snd (hs_feed hmac (hs_new r rand) pieces []) = FCompleted (fst own ++ own_p2 hmac r (h_rand (snd own)) p1) remaining unfed /\
    remaining ++ concat unfed = trailing.
Proof. exact fresh_any_partition. Qed.

Theorem C05_completion_not_early : forall hmac, (forall k m, length (hmac k m) = 32%nat) -> forall r rand p1 p2 trailing pieces resp remaining unfed,
  length p1 = 1536%nat -> length p2 = 1536%nat ->
  concat pieces = HS_VERSION_BYTE :: p1 ++ p2 ++ trailing ->
  snd (hs_feed hmac (hs_new r rand) pieces []) = FCompleted resp remaining unfed ->
  exists fed, pieces = fed ++ unfed /\ concat fed = HS_VERSION_BYTE :: p1 ++ p2 ++ remaining /\ (3073 <= length (concat fed))%nat.
Proof. exact fresh_completion_not_early. Qed.

Theorem C05_any_partition_after_generate : forall hmac, (forall k m, length (hmac k m) = 32%nat) -> forall r rand p1 p2 trailing pieces,
  length p1 = 1536%nat -> length p2 = 1536%nat ->
  concat pieces = HS_VERSION_BYTE :: p1 ++ p2 ++ trailing ->
  let own := gen_p0p1 hmac (hs_new r rand) in
  exists remaining unfed,
    snd (hs_feed hmac (snd own) pieces []) = FCompleted (own_p2 hmac r (h_rand (snd own)) p1) remaining unfed /\ remaining ++ concat unfed = trailing.
Proof. exact after_gen_any_partition. Qed.

(* a call on a ++ b is the call on a followed (unless it ended the handshake) by the call on b - from every state *)
Theorem C05_call_split : forall hmac, (forall k m, length (hmac k m) = 32%nat) -> forall h a b,
  match process_bytes hmac h a with
  | (h1, HInProgress ra) =>
      process_bytes hmac h (a ++ b) = (fst (process_bytes hmac h1 b), with_prefix ra (snd (process_bytes hmac h1 b)))
  | (h1, HCompleted ra rem) => process_bytes hmac h (a ++ b) = (h1, HCompleted ra (rem ++ b))
  | (h1, HError e) => process_bytes hmac h (a ++ b) = (hext h1 b, HError e)
  end.
Proof. exact call_split. Qed.

Theorem C05_whole_stream : forall hmac, (forall k m, length (hmac k m) = 32%nat) -> forall r rand p1 p2 trailing,
  length p1 = 1536%nat -> length p2 = 1536%nat ->
  let own := gen_p0p1 hmac (hs_new r rand) in
  snd (process_bytes hmac (hs_new r rand) (HS_VERSION_BYTE :: p1 ++ p2 ++ trailing)) =
    HCompleted (fst own ++ own_p2 hmac r (h_rand (snd own)) p1) trailing.
Proof. exact whole_stream_fresh. Qed.

Theorem C05_own_p1_shape : forall hmac, (forall k m, length (hmac k m) = 32%nat) -> forall r rand,
  let p1 := h_sent_p1 (snd (gen_p0p1 hmac (hs_new r rand))) in
  let off := N.to_nat (own_offset r p1) in
  length p1 = 1536%nat /\ firstn 4 p1 = [0; 0; 0; 0] /\ firstn 4 (skipn 4 p1) = ADOBE_VERSION /\
  (off + 32 <= 1536)%nat /\
  firstn 32 (skipn off p1) = hmac (own_key r) (firstn off p1 ++ skipn (off + 32) p1) /\
  own_offset r p1 = own_offset r (pre_p1 rand).
Proof. exact p1_digest. Qed.

Print Assumptions C05_any_partition.
Print Assumptions C05_completion_not_early.
Print Assumptions C05_any_partition_after_generate.
Print Assumptions C05_call_split.
Print Assumptions C05_whole_stream.
Print Assumptions C05_own_p1_shape.
