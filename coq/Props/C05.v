(* C05 - the handshake completes and hands trailing bytes back intact.
   Proved so far (PARTIAL): a fresh handshake of either role that receives the peer's version byte, packet 1, packet 2 and
   ANY trailing bytes in one call emits exactly its version byte and two 1536-byte packets (packet 2 signed or an exact
   echo, C11), reports completion and returns exactly the trailing bytes - for every random fill, every peer packet 1
   (digest-bearing under either scheme, or digest-less = original RTMP handshake) and every HMAC function with 32-byte
   output.  Independence from the fragmentation of the peer's bytes (1-byte pieces, pieces spanning packet boundaries,
   trailing data arriving with or after packet 2) is not yet a theorem: it is decided by the correspondence check, where
   the real Handshake, the model and an independent Python reference are run under random fragmentations. *)
From RML Require Import Model.Base Model.Sha256 Model.Handshake Gen.Consts Proofs.HandshakeProofs.
Local Open Scope N_scope.

Theorem C05_whole_stream_partial : forall hmac, (forall k m, length (hmac k m) = 32%nat) -> forall r rand p1 p2 trailing,
  length p1 = 1536%nat -> length p2 = 1536%nat ->
  let own := gen_p0p1 hmac (hs_new r rand) in
  snd (process_bytes hmac (hs_new r rand) (HS_VERSION_BYTE :: p1 ++ p2 ++ trailing)) =
    HCompleted (fst own ++ own_p2 hmac r (h_rand (snd own)) p1) trailing.
Proof. exact whole_stream_fresh. Qed.

Theorem C05_own_p1_shape : forall hmac, (forall k m, length (hmac k m) = 32%nat) -> forall r rand,
  let p1 := h_sent_p1 (snd (gen_p0p1 hmac (hs_new r rand))) in
  let off := N.to_nat (own_offset r p1) in
  length p1 = 1536%nat /\ firstn 4 p1 = [0; 0; 0; 0] /\ firstn 4 (skipn 4 p1) = ADOBE_VERSION /\
  (off + 32 <= 1536)%nat /\
  firstn 32 (skipn off p1) = hmac (own_key r) (firstn off p1 ++ skipn (off + 32) p1) /\
  own_offset r p1 = own_offset r (pre_p1 rand).
Proof. exact p1_digest. Qed.

Print Assumptions C05_whole_stream_partial.
Print Assumptions C05_own_p1_shape.
