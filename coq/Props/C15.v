(* C15 - results do not depend on how the input byte stream is split across calls.
   Chunk deserializer (proved, all byte streams): the documented driving loop - feed a piece, call again with empty input
   until nothing is returned, apply decoded Set Chunk Size messages - returns the same message sequence and the same verdict
   (completed / the same error at the same message / the same refused chunk size) for ANY two partitions of the same bytes.
   The proof: every parse stage looks only at a prefix of the buffer (stage_ext: "not enough bytes" is a no-op, a successful
   stage and an error are unaffected by bytes that arrive later), the stage loop terminates within its fuel for every buffer
   (get_next_message_terminates), hence draining-then-more-bytes equals draining with the bytes already there (induction
   over the relational driving loop).  Sessions (proved, SessionPartition.v / ClientPartition.v): for a server or client session with a quiescent deserializer, ANY two
   partitions of the same byte stream fed call after call to handle_input (same clock reading) give the same verdict - completed, or
   the same error at the same message; when the stream is accepted, exactly the same events in the same order and the same protocol
   state; when it is rejected, what either partition delivered before the failing call is a prefix of one common event sequence
   (DESIGN 10.2).  Outbound packets are not compared byte for byte: acknowledgements are emitted as a function of call sizes (C17,
   DESIGN 10.4) and shift the header compression of later packets; that responses decode to the same messages is decided by the
   correspondence check on pairs of partitions (component `pair`).
   Proof: handlers commute with bytes still waiting in the deserializer's buffer (h_message_sext), the acknowledgement prelude only
   changes the serializer and the counter, which no handler's events, verdict or protocol state depend on (h_message_similar), and the
   message loop is the deserializer's driving loop with the handlers in place of the bare chunk-size driver. *)
From RML Require Import Model.Base Model.Chunk Model.ChunkDe Model.Server Model.Client Proofs.ChunkDeProofs Proofs.ChunkDeFuel Proofs.ChunkEndToEnd
  Proofs.ServerProofs Proofs.InteropProofs Proofs.SessionPartition Proofs.ClientPartition.
Local Open Scope N_scope.

Theorem C15_deserializer_partition_independent : forall p1 p2 s1 ms1 r1 s2 ms2 r2,
  concat p1 = concat p2 ->
  feed_all de_init p1 [] = (s1, ms1, r1) -> feed_all de_init p2 [] = (s2, ms2, r2) ->
  r1 <> Some DrvFuel -> r2 <> Some DrvFuel -> ms1 = ms2 /\ r1 = r2.
Proof. exact feed_all_partition_independent. Qed.

(* the same with no side condition: the driving loop's fuel is always adequate *)
Theorem C15_deserializer_partition_independent_total : forall p1 p2,
  concat p1 = concat p2 ->
  snd (fst (feed_all de_init p1 [])) = snd (fst (feed_all de_init p2 [])) /\
  snd (feed_all de_init p1 []) = snd (feed_all de_init p2 []).
Proof. exact feed_all_partition_independent_total. Qed.

Theorem C15_driving_loop_fuel_adequate : forall pieces s acc, snd (feed_all s pieces acc) <> Some DrvFuel.
Proof. exact feed_all_fuel_adequate. Qed.

(* from any quiescent state, in the relational (fuel-free) form *)
Theorem C15_partition_independent_from_any_quiescent_state : forall s p1 p2 acc s1 ms1 r1 s2 ms2 r2,
  get_next_message s [] = (s, DNone) -> concat p1 = concat p2 ->
  feeds s p1 acc s1 ms1 r1 -> feeds s p2 acc s2 ms2 r2 -> ms1 = ms2 /\ r1 = r2.
Proof. exact partition_independent. Qed.

Theorem C15_server_session_partition_independent : forall s p1 p2 clock,
  ser_ok (sv_ser s) -> G (sv_de s) = (sv_de s, DNone) -> concat p1 = concat p2 ->
  let r1 := feed_server s p1 clock [] in
  let r2 := feed_server s p2 clock [] in
  snd r1 = snd r2 /\
  (exists common d1 d2, common = snd (fst r1) ++ d1 /\ common = snd (fst r2) ++ d2 /\
     (snd r1 = VOk -> d1 = [] /\ d2 = [] /\ same_core (fst (fst r1)) (fst (fst r2)))).
Proof. exact server_partition_independent. Qed.

Theorem C15_client_session_partition_independent : forall s p1 p2 clock,
  ser_ok (cl_ser s) -> G (cl_de s) = (cl_de s, DNone) -> concat p1 = concat p2 ->
  let r1 := feed_client s p1 clock [] in
  let r2 := feed_client s p2 clock [] in
  snd r1 = snd r2 /\
  (exists common d1 d2, common = snd (fst r1) ++ d1 /\ common = snd (fst r2) ++ d2 /\
     (snd r1 = CVOk -> d1 = [] /\ d2 = [] /\ csame_core (fst (fst r1)) (fst (fst r2)))).
Proof. exact client_partition_independent. Qed.

(* handlers commute with bytes that arrive later / do not depend on serializer and acknowledgement state *)
Theorem C15_server_handler_commutes : forall x s p clock, commutes x (h_message (sext s x) p clock) (h_message s p clock).
Proof. exact h_message_sext. Qed.

Theorem C15_stage_prefix_stable : forall st x,
  match run_stage st with
  | Ok (Success, st', om) => run_stage (ext st x) = Ok (Success, ext st' x, om)
  | Ok (NotEnoughBytes, st', om) => st' = st /\ om = None
  | Err e => run_stage (ext st x) = Err e
  | Panic _ | OutOfFuel => False
  end.
Proof. exact stage_ext. Qed.

Theorem C15_call_terminates : forall st input, snd (get_next_message st input) <> DOutOfFuel.
Proof. exact get_next_message_terminates. Qed.

Print Assumptions C15_deserializer_partition_independent.
Print Assumptions C15_deserializer_partition_independent_total.
Print Assumptions C15_driving_loop_fuel_adequate.
Print Assumptions C15_partition_independent_from_any_quiescent_state.
Print Assumptions C15_server_session_partition_independent.
Print Assumptions C15_client_session_partition_independent.
Print Assumptions C15_server_handler_commutes.
Print Assumptions C15_stage_prefix_stable.
Print Assumptions C15_call_terminates.
