(* C19 - every configuration value is either honoured or refused, never a hang.
   Chunk size: refused exactly for 0 and above 2^31-1 by serializer and deserializer, propagated by the session constructor;
   payloads: refused exactly above 16,777,215 bytes; AMF0 strings / names: C04 (refused exactly above 65,535 bytes or empty name).
   The slicing loop of serialize terminates for every accepted chunk size (>= 1) - and provably never for 0, which is why 0 is
   refused - and every reachable serializer state has a chunk size >= 1.  "Accepted values yield a working codec" is C01/C07;
   "accepted configurations yield a working session": C19_accepted_configs_connect (ConfigWorks.v) - for EVERY accepted pair of
   configurations two freshly created sessions complete the connect exchange (the workflows after it: C02).
   Bounded memory of the output: a packet is at most 17 * payload + 16 bytes, a chunk-size announcement at most 84 (SerSizeProofs.v). *)
From Coq Require Import String.
From RML Require Import Model.Base Model.Chunk Model.ChunkSer Model.ChunkDe Model.SessionCommon Model.Server Model.Amf0 Spec.Amf0Wire
  Proofs.ChunkSerProofs Proofs.ConfigProofs Proofs.Amf0Proofs Proofs.SerSizeProofs Proofs.Amf0Size
  Model.Utf8 Model.Client Proofs.InteropProofs Proofs.ProtocolProofs Proofs.ProtocolStart Proofs.ConfigWorks.
Local Open Scope N_scope.

Theorem C19_ser_chunk_size : forall st n ts, 1 <= s_max st ->
  ((n = 0 \/ 2147483647 < n) -> set_max_chunk_size st n ts = Err (InvalidMaxChunkSize n)) /\
  (1 <= n <= 2147483647 -> exists b st', set_max_chunk_size st n ts = Ok (b, st') /\ s_max st' = n).
Proof. exact ser_chunk_size_refused. Qed.

Theorem C19_de_chunk_size : forall st n,
  ((n = 0 \/ 2147483647 < n) -> de_set_max_chunk_size st n = Err (DeInvalidMaxChunkSize n)) /\
  (1 <= n <= 2147483647 -> exists st', de_set_max_chunk_size st n = Ok st' /\ d_max st' = n).
Proof. exact de_chunk_size_refused. Qed.

Theorem C19_payload : forall (st : ChunkSer.sstate) m force drop, 1 <= s_max st ->
  (16777215 < lenN (m_data m) -> ChunkSer.serialize st m force drop = Err (MessageTooLong (lenN (m_data m) mod two32))) /\
  (lenN (m_data m) <= 16777215 -> exists b st', ChunkSer.serialize st m force drop = Ok (b, st') /\ s_max st' = s_max st).
Proof. exact serialize_refused_or_ok. Qed.

Theorem C19_slicing_terminates : forall max, 1 <= max -> forall fuel data, (length data <= fuel)%nat -> exists sl, slices fuel max data = Some sl.
Proof. exact slices_terminates. Qed.

Theorem C19_slicing_never_terminates_for_zero : forall fuel x l, slices fuel 0 (x :: l) = None.
Proof. exact slices_zero_never. Qed.

Theorem C19_chunk_size_always_positive : forall ops st packets st', 1 <= s_max st -> ser_run st ops = Ok (packets, st') -> 1 <= s_max st'.
Proof. exact ser_max_positive. Qed.

Theorem C19_server_config_chunk_refused : forall c clock,
  (cfg_chunk c = 0 \/ 2147483647 < cfg_chunk c) ->
  snd (server_new c clock) = RErr (SWire (WChunkSer (InvalidMaxChunkSize (cfg_chunk c)))).
Proof. exact server_config_chunk_refused. Qed.

Theorem C19_amf0_refused : forall vs, wf_values vs ->
  (expressible_all vs = true -> exists bs, Amf0.serialize vs = Ok bs /\ deserialize_rest bs = Ok (vs, [])) /\
  (expressible_all vs = false -> exists e, Amf0.serialize vs = Err e).
Proof. exact roundtrip. Qed.

(* bounded output: every chunk adds at most 16 header bytes and carries at least one payload byte *)
Theorem C19_serialize_output_bounded : forall (st : ChunkSer.sstate) m force drop b st',
  1 <= s_max st -> ChunkSer.serialize st m force drop = Ok (b, st') -> lenN b <= 17 * lenN (m_data m) + 16.
Proof. exact serialize_size. Qed.

Theorem C19_set_chunk_size_output_bounded : forall (st : ChunkSer.sstate) n ts b st',
  1 <= s_max st -> set_max_chunk_size st n ts = Ok (b, st') -> lenN b <= 84.
Proof. exact set_max_chunk_size_size. Qed.


(* the size of what the AMF0 encoder writes is a function of the value alone *)
Theorem C19_amf0_encoded_size : forall v b, encode_value v = Ok b -> lenN b = vsize v.
Proof. exact encode_value_size. Qed.

Theorem C19_amf0_serialized_size : forall vs b, Amf0.serialize vs = Ok b -> lenN b = vssize vs.
Proof. exact serialize_size_exact. Qed.

(* every accepted pair of configurations: the fresh sessions connect.  cquiet = no Acknowledgement falls due while the client reads
   the server's opening packets (k = how those packets are grouped into input calls); sconfig_ok / cconfig_ok say: chunk size in
   1..2^31-1, u32 window and bandwidth, strings valid UTF-8 of at most 65535 (app name: 65000) bytes *)
Theorem C19_accepted_configs_connect : forall cfg ccfg app clock k rclock sclock aclock cclock,
  sconfig_ok cfg -> cconfig_ok ccfg app ->
  clock < 4294967296 -> rclock < 4294967296 -> aclock < 4294967296 -> cclock < 4294967296 ->
  exists s0 rs c0,
    server_new cfg clock = (s0, ROk rs) /\ events rs = [] /\
    cdeliver (client_new ccfg) (spackets rs) k = Some c0 /\ cl_state c0 = Disconnected /\
    (cquiet (client_new ccfg) (spackets rs) k ->
     exists b1 c1 s1 b2 s2 c2 rs2 pre w1 w2,
       client_request_connection c0 app rclock = (c1, COk [CPacket b1 false]) /\
       server_handle_input s0 b1 sclock = (s1, ROk [SEvent (EvConnectionRequested 0 (strip_slash app))]) /\
       server_accept s1 0 aclock = (s2, ROk [SPacket b2 false]) /\
       client_handle_input c1 b2 cclock = (c2, COk rs2) /\
       rs2 = pre ++ [CPacket w1 false; CEvent CConnectionAccepted; CPacket w2 false] /\ cevents pre = [] /\
       cl_state c2 = Connected /\ cl_app c2 = Some app /\
       sv_connected s2 = true /\ sv_app s2 = Some (strip_slash app) /\
       Link (sv_ser s2) (cl_de c2) /\ s_max (cl_ser c2) = cc_chunk ccfg).
Proof. exact accepted_configs_connect. Qed.

Example C19_accepted_configs_example :
  let cfg := {| cfg_fms := str "FMS/3,0,1,123"; cfg_chunk := 1; cfg_bandwidth := 0; cfg_window := 4294967295; cfg_bwdone := true |} in
  let ccfg := {| cc_flash := str "v"; cc_buffer := 1000; cc_window := 2500000; cc_chunk := 2147483647; cc_tcurl := Some (str "rtmp://h/live") |} in
  sconfig_ok cfg /\ cconfig_ok ccfg (str "live") /\
  match server_new cfg 0 with
  | (_, ROk rs) => cquiet (client_new ccfg) (spackets rs) 7
  | _ => False
  end.
Proof. exact accepted_configs_example. Qed.

Print Assumptions C19_ser_chunk_size.
Print Assumptions C19_de_chunk_size.
Print Assumptions C19_payload.
Print Assumptions C19_slicing_terminates.
Print Assumptions C19_slicing_never_terminates_for_zero.
Print Assumptions C19_chunk_size_always_positive.
Print Assumptions C19_server_config_chunk_refused.
Print Assumptions C19_amf0_refused.
Print Assumptions C19_serialize_output_bounded.
Print Assumptions C19_set_chunk_size_output_bounded.
Print Assumptions C19_amf0_encoded_size.
Print Assumptions C19_amf0_serialized_size.
Print Assumptions C19_accepted_configs_connect.
