(* C12 - AMF0 wire format conformance in both directions.
   Spec/Amf0Spec.v (reference encoder) and Spec/Amf0Wire.v (conformant encodings and what they denote)
   carry the marker values of the specification as literals and do not mention Gen/Consts.v. *)
From RML Require Import Model.Base Model.Amf0 Spec.Amf0Spec Spec.Amf0Wire Proofs.Amf0Proofs Proofs.Amf0Trunc.
Local Open Scope N_scope.

(* the encoder emits exactly the reference encoding, and refuses exactly what the reference cannot express *)
Theorem C12_encode_is_spec : forall v, wf_value v ->
  match ref_encode v with
  | Some b => encode_value v = Ok b
  | None => exists e, encode_value v = Err e
  end.
Proof. exact encode_is_spec. Qed.

(* the decoder maps every conformant encoding - ECMA arrays with any count, any boolean byte, repeated
   names (last wins), any property order - to the value it denotes, consuming exactly its bytes *)
Theorem C12_decode_complete_value : forall w rest f, wire_ok w -> (length (wire_bytes w) < f)%nat ->
  read_next_value f (wire_bytes w ++ rest) = Ok (Some (wire_value w), rest).
Proof. exact decode_complete_value. Qed.

Theorem C12_decode_complete : forall ws, wire_elems_ok ws ->
  deserialize (wire_elems_bytes ws) = Ok (map wire_value ws).
Proof. exact decode_complete. Qed.

(* markers of unsupported types are errors; 9 at a value position ends the enclosing sequence *)
Theorem C12_unknown_marker : forall m r f, known_marker m = false ->
  read_next_value (S f) (m :: r) = Err (UnknownMarker m).
Proof. exact unknown_marker. Qed.

Theorem C12_unknown_marker_toplevel : forall m r, known_marker m = false ->
  deserialize (m :: r) = Err (UnknownMarker m).
Proof. exact unknown_marker_toplevel. Qed.

Theorem C12_end_marker_stops : forall r f, read_next_value (S f) (9 :: r) = Ok (None, r).
Proof. exact end_marker_stops. Qed.

(* non-vacuity: an ECMA array with a lying count, a repeated name and a boolean byte of 7 *)
(* the truncation clause: at EVERY truncation point of EVERY conformant encoding of a value sequence (arbitrary property order,
   ECMA arrays with any count, any boolean byte) the decoder rejects the input or returns a structural prefix of what was encoded -
   whole leading values, then possibly one strict array cut short (recursively in its last element); scalars, strings and objects
   are never cut and nothing that was not encoded appears *)
Theorem C12_truncated_conformant : forall ws p q,
  wire_elems_ok ws -> wire_elems_bytes ws = p ++ q -> q <> [] ->
  match deserialize p with
  | Ok vs' => lprefix vs' (map wire_value ws)
  | Err _ => True
  | _ => False
  end.
Proof. exact truncated_conformant. Qed.

Theorem C12_truncated_own_encoding : forall vs bs p q,
  wf_values vs -> serialize vs = Ok bs -> bs = p ++ q -> q <> [] ->
  match deserialize p with
  | Ok vs' => lprefix vs' vs
  | Err _ => True
  | _ => False
  end.
Proof. exact truncated_own_encoding. Qed.

Example C12_example :
  let w := WEcmaArray 4294967295 [([97], WBoolean 7); ([98], WNull); ([97], WString [104; 105])] in
  wire_ok w /\ deserialize (wire_bytes w) = Ok [VObject [([97], VString [104; 105]); ([98], VNull)]].
Proof. split; [vm_compute; repeat split; discriminate|vm_compute; reflexivity]. Qed.

Print Assumptions C12_encode_is_spec.
Print Assumptions C12_decode_complete_value.
Print Assumptions C12_decode_complete.
Print Assumptions C12_unknown_marker.
Print Assumptions C12_unknown_marker_toplevel.
Print Assumptions C12_end_marker_stops.
Print Assumptions C12_truncated_conformant.
Print Assumptions C12_truncated_own_encoding.
