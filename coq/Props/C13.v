(* C13 - RTMP message bodies follow the specification and convert back losslessly.
   Spec/MessageSpec.v carries type ids, event codes, limit codes and layouts as literals (RTMP 1.0 5.4 / 7.1). *)
From RML Require Import Model.Base Model.Amf0 Model.Messages Spec.MessageSpec Proofs.MessageProofs.
Local Open Scope N_scope.

Theorem C13_layout_is_spec : forall m, msg_ok m ->
  match spec_layout m with
  | Some p => to_payload m = Ok p
  | None => exists e, to_payload m = Err e
  end.
Proof. exact layout_is_spec. Qed.

Theorem C13_roundtrip : forall m tid b, msg_ok m -> to_payload m = Ok (tid, b) -> of_payload tid b = Ok m.
Proof. exact msg_roundtrip. Qed.

Theorem C13_amf3_data_alias : forall d, of_payload 15 d = of_payload 18 d.
Proof. exact amf3_data_alias. Qed.

Theorem C13_amf3_command_alias : forall d,
  of_payload 17 d = of_payload 20 (match d with 0 :: r => r | _ => d end).
Proof. exact amf3_command_alias. Qed.

Theorem C13_unknown_passthrough : forall tid d, known_tid tid = false -> of_payload tid d = Ok (MUnknown tid d).
Proof. exact unknown_passthrough. Qed.

Theorem C13_chunk_size_bounds : forall n, 2147483647 < n -> n < 4294967296 ->
  to_payload (MSetChunkSize n) = Err InvalidChunkSize /\ of_payload 1 (be32 n) = Err InvalidMessageFormat.
Proof. exact chunk_size_bounds. Qed.

(* non-vacuity *)
Example C13_example :
  let m := MAmf0Command [99; 111; 110; 110; 101; 99; 116] 4607182418800017408 (VObject [([97; 112; 112], VString [108; 105; 118; 101])]) [VNull; VBoolean true] in
  exists b, to_payload m = Ok (20, b) /\ of_payload 20 b = Ok m.
Proof. eexists. split; vm_compute; reflexivity. Qed.

Print Assumptions C13_layout_is_spec.
Print Assumptions C13_roundtrip.
Print Assumptions C13_amf3_data_alias.
Print Assumptions C13_amf3_command_alias.
Print Assumptions C13_unknown_passthrough.
Print Assumptions C13_chunk_size_bounds.
