(* C16 - messages interleaved on different chunk streams are each reassembled intact.
   Let L be ANY interleaving of the chunks of any number of chunk streams (each stream's own chunks in order), with no
   Set Chunk Size completing inside it.  If every chunk stream on its own (proj k L) is a conformant stream, then for
   every partition of the bytes the deserializer accepts L without error, and its output is, chunk for chunk, what each
   stream decodes to on its own: os lists the message completed by each chunk of L (None = not the last chunk), the
   deserializer returns the completed ones in that order, and the outputs at the positions of stream k (pick k L os) are
   exactly the outputs of decoding stream k alone - own header fields, own payload bytes, nothing of another stream.
   Parts: interleave_local (the specification decoder's state is per chunk stream id, InterleaveProofs) and the
   refinement C06.  interleaved_example instantiates the premises (audio inside a video frame). *)
From RML Require Import Model.Base Model.Chunk Model.ChunkDe Spec.ChunkSpec Proofs.InterleaveProofs Proofs.ChunkEndToEnd.
Local Open Scope N_scope.

Theorem C16_interleaved_streams : forall L pieces,
  (forall k, exists stk osk, run_nc sdec_init (proj k L) = Some (stk, osk) /\ Forall (fun m => m_tid m <> 1) (somes osk)) ->
  concat pieces = concat (map emit_chunk L) ->
  exists s1 os, length os = length L /\ feed_all de_init pieces [] = (s1, somes os, None) /\
                forall k, exists stk, run_nc sdec_init (proj k L) = Some (stk, pick k L os).
Proof. exact interleaved_streams. Qed.

Theorem C16_spec_streams_independent : forall L st,
  (forall k, run_nc st (proj k L) <> None) ->
  exists st' os, run_nc st L = Some (st', os) /\ length os = length L /\
    forall k, exists stk, run_nc st (proj k L) = Some (stk, pick k L os) /\ agree_at k stk st'.
Proof. exact interleave_local. Qed.

Example C16_example :
  snd (fst (feed_all de_init [concat (map emit_chunk ex_L)] [])) =
    [ {| m_ts := 40; m_tid := 9; m_sid := 1; m_data := repeat 7 200 |};
      {| m_ts := 41; m_tid := 8; m_sid := 1; m_data := repeat 9 150 |} ] /\
  run_nc sdec_init (proj 6 ex_L) <> None /\ run_nc sdec_init (proj 4 ex_L) <> None.
Proof. exact interleaved_example. Qed.

Print Assumptions C16_interleaved_streams.
Print Assumptions C16_spec_streams_independent.
