(* C18 - everything a session emits stays decodable by a conformant peer, at any uptime.
   Proved so far (PARTIAL):
   * C18_serializer_stream: for EVERY sequence of serialize / set_max_chunk_size calls accepted by the one serializer a
     session owns - any message stream ids, any u32 timestamps (the session clock enters only as such a timestamp, so any
     uptime incl. past 2^24 and 2^32 ms), any droppable flags - and EVERY subset of droppable packets removed, the
     independent spec decoder reads exactly the surviving messages (T1);
   * C18_send_is_serialize: every message a session sends is one serialize call carrying that message's type id and body;
   * C18_server_media_droppable: the droppable mark is the flag the application passed.
   Not yet a theorem: that the packets a successful call RETURNS are, in order, exactly the serializer outputs of that call
   (the obligation that exposed defect D15, now repaired); it is decided by the correspondence check (model vs real
   session, packet for packet) and by the oracles C18.decodable* / C18.messages_carry_expected_timestamp_and_stream on
   the real packets.  Histories with a failed call are known finding K2. *)
From RML Require Import Model.Base Model.Chunk Model.ChunkSer Model.Messages Model.SessionCommon Model.Server Spec.ChunkSpec
  Proofs.ChunkSerProofs Proofs.ServerProofs Proofs.SessionProofs.
Local Open Scope N_scope.

Theorem C18_serializer_stream_partial : forall ops keep packets st',
  Forall op_wf ops -> ser_run ser_init ops = Ok (packets, st') -> keep_ok keep ops ->
  sdec (concat (select keep packets)) = SOk (map op_msg (select keep ops)).
Proof. exact ser_sdec_drop. Qed.

Theorem C18_send_is_serialize : forall ser m ts sid force drop b ser',
  send_message ser m ts sid force drop = Ok (b, ser') ->
  exists body, to_payload m = Ok (message_type_id m, body) /\
    ChunkSer.serialize ser {| m_ts := ts; m_tid := message_type_id m; m_sid := sid; m_data := body |} force drop = Ok (b, ser').
Proof. exact send_message_is_serialize. Qed.

Theorem C18_server_media_droppable : forall s sid data ts drop s' rs (video : bool),
  (if video then server_send_video s sid data ts drop else server_send_audio s sid data ts drop) = (s', ROk rs) ->
  exists b, rs = [SPacket b drop].
Proof. exact server_media_droppable. Qed.

Print Assumptions C18_serializer_stream_partial.
Print Assumptions C18_send_is_serialize.
Print Assumptions C18_server_media_droppable.
