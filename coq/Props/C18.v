(* C18 - everything a session emits stays decodable by a conformant peer, at any uptime.
   Proved:
   * C18_server_history_decodable: for EVERY history of a server session from ServerSession::new in which the calls succeeded -
     any inputs (bytes), any application calls, any clock readings below 2^32 (i.e. any uptime, the clock being a u32), any
     stream ids - and EVERY subset of the packets returned as droppable withheld, the packets returned, concatenated in order,
     are read by the independent specification decoder as exactly the messages of the surviving packets.  Parts: the packets a
     successful call returns are, in order, exactly the outputs of the serializer operations it performed, each well-formed and
     carrying the returned droppable flag (SessionTrace.v: produces / server_step_traced; this is the obligation that exposed
     defect D15), chunk-size changes are serializer operations announced in-band (T1), decoded stream ids are 32-bit;
   * C18_serializer_stream: the same for every sequence of serialize / set_max_chunk_size calls on one serializer (T1);
   * C18_send_is_serialize, C18_server_media_droppable: a sent message is one serialize call with its type id and body; the
     droppable mark is the flag the application passed.
   * C18_client_history_decodable: the same for every history of a client session from ClientSession::new (requests, stops, pings,
     metadata and media, inputs; the chunk size announced after connect is an in-band serializer operation).
   Histories containing a failed call are known finding K2 (the theorems quantify over histories of successful calls).
   "Well-formed messages on the expected message streams" beyond decodability - body layout per message type (C13), stream ids and
   timestamps of specific replies - is decided by the oracles C18.messages_carry_expected_timestamp_and_stream on the real packets. *)
From RML Require Import Model.Base Model.Chunk Model.ChunkSer Model.Messages Model.SessionCommon Model.Server Spec.ChunkSpec
  Proofs.ChunkSerProofs Proofs.ServerProofs Proofs.SessionProofs Proofs.InteropProofs Proofs.SessionFrame Proofs.SessionTrace Proofs.ClientTrace.
From RML Require Import Model.Client.
Local Open Scope N_scope.

Theorem C18_server_history_decodable : forall cfg clock0 ops s0 rs0 s' rs keep,
  clock0 < 4294967296 -> Forall sop_ok ops ->
  server_new cfg clock0 = (s0, ROk rs0) -> server_trace s0 ops = Some (s', rs) ->
  keep_flags_ok keep (map snd (pkts (rs0 ++ rs))) ->
  exists sent, length sent = length (pkts (rs0 ++ rs)) /\
    sdec (concat (select keep (map fst (pkts (rs0 ++ rs))))) = SOk (select keep sent).
Proof. exact server_history_decodable. Qed.

Theorem C18_client_history_decodable : forall cfg ops c' rs keep,
  Forall cop_ok ops -> client_trace (client_new cfg) ops = Some (c', rs) ->
  keep_flags_ok keep (map snd (cpkts rs)) ->
  exists sent, length sent = length (cpkts rs) /\
    sdec (concat (select keep (map fst (cpkts rs)))) = SOk (select keep sent).
Proof. exact client_history_decodable. Qed.

(* one call: what it returns is what its serializer operations produced *)
Theorem C18_server_call_traced : forall s op, sop_ok op -> sinv s -> ser_ok (sv_ser s) ->
  match server_step s op with
  | (s', ROk rs) => produces (sv_ser s) rs (sv_ser s') /\ sinv s'
  | _ => True
  end.
Proof. exact server_step_traced. Qed.

Theorem C18_serializer_stream_partial : forall ops keep packets st',
  Forall op_wf ops -> ser_run ser_init ops = Ok (packets, st') -> keep_ok keep ops ->
  sdec (concat (select keep packets)) = SOk (map op_msg (select keep ops)).
Proof. exact ser_sdec_drop. Qed.

Theorem C18_send_is_serialize : forall ser m ts sid force drop b ser',
  send_message ser m ts sid force drop = Ok (b, ser') ->
  exists body, to_payload m = Ok (message_type_id m, body) /\
    ChunkSer.serialize ser {| m_ts := ts; m_tid := message_type_id m; m_sid := sid; m_data := body |} force drop = Ok (b, ser').
Proof. exact send_message_is_serialize. Qed.

Theorem C18_server_media_droppable : forall s sid data ts drop s' rs (video : bool),
  (if video then server_send_video s sid data ts drop else server_send_audio s sid data ts drop) = (s', ROk rs) ->
  exists b, rs = [SPacket b drop].
Proof. exact server_media_droppable. Qed.

Print Assumptions C18_server_history_decodable.
Print Assumptions C18_client_history_decodable.
Print Assumptions C18_server_call_traced.
Print Assumptions C18_serializer_stream_partial.
Print Assumptions C18_send_is_serialize.
Print Assumptions C18_server_media_droppable.
