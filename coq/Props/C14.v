(* C14 - AMF0 decoding uses bounded stack and memory on every input.
   Proved on the model: termination (the fuel length+1 suffices for EVERY input: never a panic, never out of fuel),
   monotone consumption, and a size bound: what is decoded (one unit per node plus the bytes of its strings and names)
   never exceeds the number of input bytes - declared string lengths, array counts and ECMA-array counts are not
   trusted.  The stack clause is refuted for unbounded nesting (depth_unbounded: 5(d+1) bytes need d+1 nested activations):
   known finding K1.  Runtime part (not expressible in the model): peak heap and largest single request of the real decoder
   under a counting allocator on adversarial counts/lengths, and nesting depths decoded in a child process on a 2 MiB stack. *)
From RML Require Import Model.Base Model.Amf0 Proofs.Amf0Total.
Local Open Scope N_scope.

Theorem C14_decode_terminates_and_is_bounded : forall bs,
  match deserialize bs with
  | Ok vs => (lsize vs <= length bs)%nat
  | Err _ => True
  | Panic _ | OutOfFuel => False
  end.
Proof. exact deserialize_total. Qed.

Theorem C14_readers_total : forall f, T_value f /\ T_props f /\ T_elems f.
Proof. exact total_all. Qed.

Theorem C14_stack_refuted_depth_unbounded : forall d,
  deserialize (nested (S d)) = Ok [nested_value d] /\ length (nested (S d)) = (5 * S d)%nat /\ value_depth (nested_value d) = S d.
Proof. exact depth_unbounded. Qed.

Print Assumptions C14_decode_terminates_and_is_bounded.
Print Assumptions C14_readers_total.
Print Assumptions C14_stack_refuted_depth_unbounded.
