open BinNums

val two32 : coq_N
