
(** val snd : ('a1 * 'a2) -> 'a2 **)

let snd = function
| (_, y) -> y

type comparison =
| Eq
| Lt
| Gt
