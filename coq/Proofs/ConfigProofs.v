(* C19: configuration values are honoured or refused; the slicing loop terminates. *)
From Coq Require Import ZArith Lia ZifyN ZifyBool ZifyNat.
From RML Require Import Model.Base Model.Time Model.Chunk Model.ChunkSer Model.ChunkDe Model.Messages Model.SessionCommon Model.Server Model.Client
  Gen.Consts Proofs.BaseProofs Proofs.ChunkSpecProofs Proofs.ChunkSerProofs.
Local Open Scope N_scope.

(* the slicing loop of serialize(): with a chunk size >= 1 the fuel |data| always suffices; with chunk size 0 it never does *)
Lemma split_at_progress n x l a b : 1 <= n -> split_at n (x :: l) = (a, b) -> (length b < length (x :: l))%nat.
Proof.
  intros Hn H. destruct (split_at_spec _ _ _ _ H) as [Hl Ha]. rewrite lenN_cons in Ha.
  assert (1 <= lenN a) by lia. rewrite Hl. rewrite app_length. unfold lenN in *. lia.
Qed.

Lemma slices_terminates max : 1 <= max -> forall fuel data, (length data <= fuel)%nat -> exists sl, slices fuel max data = Some sl.
Proof.
  intros Hmax. induction fuel as [|f IH]; intros data Hlen.
  - destruct data; [exists []; reflexivity|cbn in Hlen; lia].
  - destruct data as [|x l]; [exists []; reflexivity|]. cbn [slices].
    destruct (split_at max (x :: l)) as [a b] eqn:E. pose proof (split_at_progress _ _ _ _ _ Hmax E) as Hp.
    destruct (IH b ltac:(cbn [length] in *; lia)) as [r Hr]. rewrite Hr. eexists; reflexivity.
Qed.

Lemma slices_zero_never fuel x l : slices fuel 0 (x :: l) = None.
Proof.
  induction fuel as [|f IH]; [reflexivity|]. cbn [slices split_at]. change (0 =? 0) with true. cbv iota. rewrite IH. reflexivity.
Qed.

(* add_chunk / add_chunks never fail (the csid guard cannot fire) *)
Lemma add_chunks_ok sl : forall st force m idx drop, exists bs st', add_chunks st force m idx sl drop = Ok (bs, st') /\ s_max st' = s_max st.
Proof.
  induction sl as [|a r IH]; intros st force m idx drop; [eexists; eexists; split; reflexivity|].
  cbn [add_chunks]. rewrite add_chunk_emit. cbv zeta. destruct (decide_header st force m (0 <? idx) drop) as [f h]. cbn [obind].
  destruct (IH {| s_prev := insert (get_csid_for_message_type (m_tid m)) h (s_prev st); s_max := s_max st |} force m (idx + 1) drop) as [bs [st' [E Hm]]].
  rewrite E. cbn [obind]. eexists; eexists; split; [reflexivity|exact Hm].
Qed.

(* serialize: refused exactly above 16,777,215 bytes; otherwise (chunk size >= 1) it succeeds, keeping the chunk size *)
Theorem serialize_refused_or_ok st m force drop :
  1 <= s_max st ->
  (16777215 < lenN (m_data m) -> serialize st m force drop = Err (MessageTooLong (lenN (m_data m) mod two32))) /\
  (lenN (m_data m) <= 16777215 -> exists b st', serialize st m force drop = Ok (b, st') /\ s_max st' = s_max st).
Proof.
  intros Hmax. unfold serialize. split; intros H.
  - replace (16777215 <? lenN (m_data m)) with true by lia. reflexivity.
  - replace (16777215 <? lenN (m_data m)) with false by lia.
    destruct (slices_terminates (s_max st) Hmax (length (m_data m)) (m_data m) (le_n _)) as [sl Hsl]. rewrite Hsl.
    cbv zeta. set (sl' := match sl with [] => [[]] | _ :: _ => sl end).
    destruct (add_chunks_ok sl' st force m 0 drop) as [bs [st' [E Hm]]].
    rewrite E. cbn [obind]. eexists; eexists; split; [reflexivity|exact Hm].
Qed.

(* set_max_chunk_size: refused exactly for 0 and above 2^31-1, on both sides *)
Theorem ser_chunk_size_refused st n ts :
  1 <= s_max st ->
  ((n = 0 \/ 2147483647 < n) -> set_max_chunk_size st n ts = Err (InvalidMaxChunkSize n)) /\
  (1 <= n <= 2147483647 -> exists b st', set_max_chunk_size st n ts = Ok (b, st') /\ s_max st' = n).
Proof.
  intros Hmax. unfold set_max_chunk_size. split; intros H.
  - replace ((n =? 0) || (2147483647 <? n)) with true by lia. reflexivity.
  - replace ((n =? 0) || (2147483647 <? n)) with false by lia.
    set (m := {| m_ts := ts; m_tid := TID_SetChunkSize; m_sid := 0; m_data := be32 n |}).
    destruct (serialize_refused_or_ok st m true false Hmax) as [_ Hok].
    destruct (Hok ltac:(cbn; lia)) as [b [st' [E _]]]. rewrite E. cbn [obind]. eexists; eexists; split; reflexivity.
Qed.

Theorem de_chunk_size_refused st n :
  ((n = 0 \/ 2147483647 < n) -> de_set_max_chunk_size st n = Err (DeInvalidMaxChunkSize n)) /\
  (1 <= n <= 2147483647 -> exists st', de_set_max_chunk_size st n = Ok st' /\ d_max st' = n).
Proof.
  unfold de_set_max_chunk_size. split; intros H.
  - replace ((n =? 0) || (2147483647 <? n)) with true by lia. reflexivity.
  - replace ((n =? 0) || (2147483647 <? n)) with false by lia. eexists; split; reflexivity.
Qed.

(* the chunk size of every reachable serializer state is >= 1, so serialize always terminates *)
Theorem ser_max_positive ops : forall st packets st', 1 <= s_max st -> ser_run st ops = Ok (packets, st') -> 1 <= s_max st'.
Proof.
  induction ops as [|op r IH]; intros st packets st' Hm H; cbn [ser_run] in H; [inversion H; subst; exact Hm|].
  destruct (ser_step st op) as [[b st1]|e|x|] eqn:E; cbn [obind] in H; try discriminate.
  destruct (ser_run st1 r) as [[bs st2]|e|x|] eqn:E2; cbn [obind] in H; try discriminate. inversion H; subst.
  apply (IH st1 bs st' ); [|exact E2].
  destruct op as [m f d|n ts]; cbn [ser_step] in E.
  - destruct (N.le_gt_cases (lenN (m_data m)) 16777215) as [Hl|Hl].
    + destruct (serialize_refused_or_ok st m f d Hm) as [_ Hok]. destruct (Hok Hl) as [b' [st'' [E' Hs]]]. rewrite E in E'. inversion E'; subst. lia.
    + destruct (serialize_refused_or_ok st m f d Hm) as [Herr _]. rewrite (Herr Hl) in E. discriminate.
  - destruct (N.eq_dec n 0) as [->|Hn0]; [destruct (ser_chunk_size_refused st 0 ts Hm) as [Hr _]; rewrite (Hr (or_introl eq_refl)) in E; discriminate|].
    destruct (N.le_gt_cases n 2147483647) as [Hl|Hl].
    + destruct (ser_chunk_size_refused st n ts Hm) as [_ Hok]. destruct (Hok ltac:(lia)) as [b' [st'' [E' Hs]]]. rewrite E in E'. inversion E'; subst. lia.
    + destruct (ser_chunk_size_refused st n ts Hm) as [Hr _]. rewrite (Hr (or_intror Hl)) in E. discriminate.
Qed.

Lemma ser_init_max : 1 <= s_max ser_init.
Proof. unfold ser_init, SER_INITIAL_MAX_CHUNK_SIZE. cbn. lia. Qed.

(* the sessions propagate a refused chunk size from their configuration *)
Theorem server_config_chunk_refused c clock :
  (cfg_chunk c = 0 \/ 2147483647 < cfg_chunk c) ->
  snd (server_new c clock) = RErr (SWire (WChunkSer (InvalidMaxChunkSize (cfg_chunk c)))).
Proof.
  intros H. unfold server_new. cbn [sv_ser].
  destruct (ser_chunk_size_refused ser_init (cfg_chunk c) 0 ser_init_max) as [Hr _]. rewrite (Hr H). reflexivity.
Qed.
