(* C15 for the client session: same development as SessionPartition.v (server).  Handlers commute with bytes waiting in the
   deserializer's buffer; events, verdict and protocol state do not depend on the serializer / acknowledgement state. *)
From Coq Require Import ZArith Lia ZifyN ZifyBool ZifyNat String.
From RML Require Import Model.Base Model.Time Model.Chunk Model.ChunkSer Model.ChunkDe Model.Amf0 Model.Messages Model.SessionCommon
  Model.Server Model.Client Gen.Consts Proofs.BaseProofs Proofs.ChunkDeProofs Proofs.ChunkDeFuel Proofs.TotalProofs Proofs.ConfigProofs
  Proofs.InteropProofs Proofs.SessionFrame Proofs.SessionPartition.
Local Open Scope N_scope.

Definition cext (c : client) (x : bytes) : client := cupd_de c (ext (cl_de c) x).

Lemma cext_nil c : cext c [] = c.
Proof. unfold cext. rewrite ext_nil. destruct c; reflexivity. Qed.
Lemma cext_cext c a b : cext (cext c a) b = cext c (a ++ b).
Proof. unfold cext. cbn [cl_de cupd_de]. rewrite ext_ext. reflexivity. Qed.

(* ---------------------------------------------------------------- handlers commute with waiting bytes *)
Definition ccommutes (x : bytes) (c1 c2 : ccall) : Prop := c1 = (cext (fst c2) x, snd c2).

Lemma cone_packet_cext x c m ts sid d : ccommutes x (cone_packet (cext c x) m ts sid d) (cone_packet c m ts sid d).
Proof.
  unfold ccommutes, cone_packet, csending. change (cl_ser (cext c x)) with (cl_ser c).
  destruct (send_message _ _ _ _ _ _) as [[b ser']|e|y|]; reflexivity.
Qed.

Ltac ccm_step :=
  first [ progress cbn [cl_ser cl_de cl_cfg cl_next_tr cl_trs cl_state cl_app cl_stream cl_ack cext cupd_de]
        | progress cbv beta iota
        | match goal with
          | |- ccommutes _ (cone_packet (cext ?s ?x) _ _ _ _) (cone_packet ?s _ _ _ _) => apply cone_packet_cext
          | |- ccommutes _ (match (match ?y with _ => _ end) with _ => _ end) (match (match ?y with _ => _ end) with _ => _ end) => destruct y
          | |- ccommutes _ (match ?y with _ => _ end) (match ?y with _ => _ end) => destruct y
          | |- ccommutes _ (if ?y then _ else _) (if ?y then _ else _) => destruct y
          | |- ccommutes _ (_, _) (_, _) => reflexivity
          end ].
Ltac ccm_frame := cbv zeta; repeat ccm_step.

Lemma ch_media_cext x v c sid d ts : ccommutes x (ch_media v (cext c x) sid d ts) (ch_media v c sid d ts).
Proof. unfold ch_media. ccm_frame. Qed.
Lemma ch_data_cext x c vs sid : ccommutes x (ch_data (cext c x) vs sid) (ch_data c vs sid).
Proof. unfold ch_data. ccm_frame. Qed.
Lemma ch_error_cext x c tr obj args : ccommutes x (ch_error (cext c x) tr obj args) (ch_error c tr obj args).
Proof. unfold ch_error, take_transaction. ccm_frame. Qed.
Lemma ch_status_cext x c args : ccommutes x (ch_status (cext c x) args) (ch_status c args).
Proof.
  unfold ch_status. destruct args as [|a r]; [reflexivity|]. destruct a; try reflexivity.
  destruct (prop_get _ _) as [v|]; [|reflexivity]. destruct v; try reflexivity.
  destruct (bytes_eqb _ _); [change (cl_state (cext c x)) with (cl_state c); destruct (cl_state c); reflexivity|].
  destruct (bytes_eqb _ _); [change (cl_state (cext c x)) with (cl_state c); destruct (cl_state c); reflexivity|reflexivity].
Qed.
Lemma ch_result_cext x c tr obj args clock : ccommutes x (ch_result (cext c x) tr obj args clock) (ch_result c tr obj args clock).
Proof.
  unfold ch_result, take_transaction. cbv zeta. change (cl_trs (cext c x)) with (cl_trs c). change (cl_cfg (cext c x)) with (cl_cfg c).
  change (cl_next_tr (cext c x)) with (cl_next_tr c).
  destruct (lookup _ _) as [t|]; [|reflexivity]. destruct t as [app|p].
  - unfold csending. cbn [cl_ser cext cupd_de cupd_app cupd_state cupd_trs cupd_ser].
    destruct (send_message _ _ _ _ _ _) as [[b ser']|e|y|]; try reflexivity.
    cbn [cl_ser cupd_ser]. destruct (ChunkSer.set_max_chunk_size ser' _ 0) as [[b2 ser2]|e|y|]; reflexivity.
  - destruct args as [|a r]; [reflexivity|]. destruct a; try reflexivity. destruct p as [key|key t].
    + unfold csending. cbn [cl_ser cext cupd_de cupd_app cupd_state cupd_trs cupd_ser cupd_stream].
      destruct (send_message _ _ _ _ _ _) as [[b ser']|e|y|]; try reflexivity.
      cbn [cl_ser cupd_ser]. destruct (send_message _ _ _ _ _ _) as [[b2 ser2]|e|y|]; reflexivity.
    + match goal with |- ccommutes _ (cone_packet ?a _ _ _ _) (cone_packet ?b _ _ _ _) => change a with (cext b x) end.
      apply cone_packet_cext.
Qed.

Lemma if_ccommutes x (b : bool) (a1 a2 b1 b2 : ccall) : ccommutes x a1 a2 -> ccommutes x b1 b2 -> ccommutes x (if b then a1 else b1) (if b then a2 else b2).
Proof. destruct b; auto. Qed.

Lemma ch_command_cext x c name tr obj args clock : ccommutes x (ch_command (cext c x) name tr obj args clock) (ch_command c name tr obj args clock).
Proof.
  unfold ch_command. apply if_ccommutes; [apply ch_result_cext|]. apply if_ccommutes; [apply ch_error_cext|].
  apply if_ccommutes; [apply ch_status_cext|reflexivity].
Qed.

Theorem ch_message_cext x c p clock : ccommutes x (ch_message (cext c x) p clock) (ch_message c p clock).
Proof.
  unfold ch_message. destruct (of_payload (m_tid p) (m_data p)) as [m|e|y|]; try reflexivity.
  destruct m as [t d|n|n|name tr obj args|vs|d|n|n lt|ev sid bl ts|d|n]; try reflexivity.
  - apply ch_command_cext.
  - apply ch_data_cext.
  - apply ch_media_cext.
  - change (cl_de (cext c x)) with (ext (cl_de c) x). rewrite de_set_max_ext.
    destruct (de_set_max_chunk_size (cl_de c) n) as [d|e|y|]; reflexivity.
  - destruct ev; try reflexivity. apply cone_packet_cext.
  - apply ch_media_cext.
Qed.


(* ---------------------------------------------------------------- the message loop, relationally (fuel-free) *)
(* cloop clock s acc s' seen r : from s with results acc so far, the loop ends in s' with cverdict r; seen = every result produced,
   including those a failing call drops *)
Inductive cverdict := CVOk | CVErr (e : cerr) | CVPanic.

Inductive cloop (clock : N) : client -> list cresult -> client -> list cresult -> cverdict -> Prop :=
| cl_none s d acc : G (cl_de s) = (d, DNone) -> cloop clock s acc (cupd_de s d) acc CVOk
| cl_err s d e acc : G (cl_de s) = (d, DErr e) -> cloop clock s acc (cupd_de s d) acc (CVErr (CWire (WChunkDe e)))
| cl_ok s d p s1 rs acc s' seen v :
    G (cl_de s) = (d, DMsg p) -> ch_message (cupd_de s d) p clock = (s1, COk rs) -> cloop clock s1 (acc ++ rs) s' seen v ->
    cloop clock s acc s' seen v
| cl_herr s d p s1 e acc : G (cl_de s) = (d, DMsg p) -> ch_message (cupd_de s d) p clock = (s1, CErr e) -> cloop clock s acc s1 acc (CVErr e)
| cl_hpanic s d p s1 acc : G (cl_de s) = (d, DMsg p) -> ch_message (cupd_de s d) p clock = (s1, CPanic) -> cloop clock s acc s1 acc CVPanic.

Definition creply_of (seen : list cresult) (v : cverdict) : creply :=
  match v with CVOk => COk seen | CVErr e => CErr e | CVPanic => CPanic end.

(* the executable loop refines the relation *)
Lemma ch_loop_sound clock fuel : forall s input acc,
  (nu (ext (cl_de s) input) < fuel)%nat ->
  exists s' seen v, ch_loop fuel s input clock acc = (s', creply_of seen v) /\ cloop clock (cext s input) acc s' seen v.
Proof.
  induction fuel as [|f IH]; intros s input acc Hn; [lia|]. cbn [ch_loop].
  pose proof (gnm_G (cl_de s) input) as Hg. pose proof (G_total (ext (cl_de s) input)) as Ht.
  destruct (get_next_message (cl_de s) input) as [d res] eqn:Eg. rewrite <- Hg in Ht. cbn [snd] in Ht.
  assert (Hupd : forall d0, cupd_de (cext s input) d0 = cupd_de s d0) by reflexivity.
  destruct res as [p| |e|]; [| | |contradiction].
  - pose proof (ch_message_nu (cupd_de s d) p clock) as Hnu. change (cl_de (cupd_de s d)) with d in Hnu.
    destruct (ch_message (cupd_de s d) p clock) as [s1 r] eqn:Eh. cbn [fst] in Hnu. destruct r as [rs|e|].
    + assert (Hn1 : (nu (ext (cl_de s1) []) < f)%nat).
      { unfold get_next_message in Eg. apply loop_msg_cost in Eg. fold (ext (cl_de s) input) in Eg. rewrite ext_nil. lia. }
      destruct (IH s1 [] (acc ++ rs) Hn1) as [s' [seen [v [E1 E2]]]]. rewrite cext_nil in E2.
      exists s', seen, v. split; [exact E1|]. eapply cl_ok; [symmetry; exact Hg|rewrite Hupd; exact Eh|exact E2].
    + exists s1, acc, (CVErr e). split; [reflexivity|]. eapply cl_herr; [symmetry; exact Hg|rewrite Hupd; exact Eh].
    + exists s1, acc, CVPanic. split; [reflexivity|]. eapply cl_hpanic; [symmetry; exact Hg|rewrite Hupd; exact Eh].
  - exists (cupd_de s d), acc, CVOk. split; [reflexivity|]. rewrite <- (Hupd d). apply cl_none. symmetry. exact Hg.
  - exists (cupd_de s d), acc, (CVErr (CWire (WChunkDe e))). split; [reflexivity|]. rewrite <- (Hupd d). apply cl_err. symmetry. exact Hg.
Qed.

Lemma cloop_fun clock s acc s1 seen1 v1 : cloop clock s acc s1 seen1 v1 ->
  forall s2 seen2 v2, cloop clock s acc s2 seen2 v2 -> s1 = s2 /\ seen1 = seen2 /\ v1 = v2.
Proof.
  induction 1 as [s d acc Hg|s d e acc Hg|s d p s1 rs acc s' seen v Hg Hh D IH|s d p s1 e acc Hg Hh|s d p s1 acc Hg Hh];
    intros s2 seen2 v2 D2; inversion D2; subst;
    repeat match goal with
    | A : G (cl_de ?s) = _, B : G (cl_de ?s) = _ |- _ => rewrite A in B; inversion B; subst; clear B
    | A : ch_message ?x ?p ?c = _, B : ch_message ?x ?p ?c = _ |- _ => rewrite A in B; inversion B; subst; clear B
    end; try (repeat split; reflexivity); try discriminate.
  apply IH. assumption.
Qed.

(* only the deserializer's next result and the rest of the session matter *)
Lemma cloop_G_eq clock a b acc s' seen v :
  G (cl_de a) = G (cl_de b) -> (forall d, cupd_de a d = cupd_de b d) -> cloop clock b acc s' seen v -> cloop clock a acc s' seen v.
Proof.
  intros HG Hu D. inversion D; subst; rewrite <- HG in *; rewrite <- ?Hu in *.
  - apply cl_none. assumption.
  - apply cl_err. assumption.
  - eapply cl_ok; eassumption.
  - eapply cl_herr; eassumption.
  - eapply cl_hpanic; eassumption.
Qed.

(* a loop that ended quietly, then more bytes: the same as the loop with the bytes already there *)
Lemma cloop_ext_ok clock s acc s' seen : cloop clock s acc s' seen CVOk ->
  forall x s'' seen'' v, cloop clock (cext s' x) seen s'' seen'' v -> cloop clock (cext s x) acc s'' seen'' v.
Proof.
  intros D. remember CVOk as vk eqn:Ev.
  induction D as [s d acc Hg|s d e acc Hg|s d p s1 rs acc s' seen v Hg Hh D IH|s d p s1 e acc Hg Hh|s d p s1 acc Hg Hh]; try discriminate;
    intros x s'' seen'' v'' D2.
  - pose proof (G_ext (cl_de s) x) as He. rewrite Hg in He. destruct He as [He _].
    apply (cloop_G_eq clock (cext s x) (cext (cupd_de s d) x)); [exact He|reflexivity|exact D2].
  - pose proof (G_ext (cl_de s) x) as He. rewrite Hg in He.
    pose proof (ch_message_cext x (cupd_de s d) p clock) as Hc. unfold commutes in Hc. rewrite Hh in Hc. cbn [fst snd] in Hc.
    eapply cl_ok; [exact He|exact Hc|]. apply IH; [exact Ev|exact D2].
Qed.

Lemma cloop_ext_bad clock s acc s' seen v : cloop clock s acc s' seen v -> v <> CVOk ->
  forall x, cloop clock (cext s x) acc (cext s' x) seen v.
Proof.
  induction 1 as [s d acc Hg|s d e acc Hg|s d p s1 rs acc s' seen v Hg Hh D IH|s d p s1 e acc Hg Hh|s d p s1 acc Hg Hh]; intros Hv x;
    try contradiction.
  - pose proof (G_ext (cl_de s) x) as He. rewrite Hg in He. apply (cl_err clock (cext s x) (ext d x) e acc He).
  - pose proof (G_ext (cl_de s) x) as He. rewrite Hg in He.
    pose proof (ch_message_cext x (cupd_de s d) p clock) as Hc. unfold commutes in Hc. rewrite Hh in Hc. cbn [fst snd] in Hc.
    eapply cl_ok; [exact He|exact Hc|]. apply IH. exact Hv.
  - pose proof (G_ext (cl_de s) x) as He. rewrite Hg in He.
    pose proof (ch_message_cext x (cupd_de s d) p clock) as Hc. unfold commutes in Hc. rewrite Hh in Hc. cbn [fst snd] in Hc.
    eapply cl_herr; [exact He|exact Hc].
  - pose proof (G_ext (cl_de s) x) as He. rewrite Hg in He.
    pose proof (ch_message_cext x (cupd_de s d) p clock) as Hc. unfold commutes in Hc. rewrite Hh in Hc. cbn [fst snd] in Hc.
    eapply cl_hpanic; [exact He|exact Hc].
Qed.


(* ================================================================ Step A for the client *)
Definition csame_core (c c' : client) : Prop :=
  cl_cfg c' = cl_cfg c /\ cl_next_tr c' = cl_next_tr c /\ cl_trs c' = cl_trs c /\ cl_state c' = cl_state c /\
  cl_app c' = cl_app c /\ cl_stream c' = cl_stream c.
Lemma csame_core_refl c : csame_core c c.
Proof. repeat split. Qed.

Definition cwith_io (c : client) (ser : sstate) (de : dstate) (a : ack_state) : client :=
  {| cl_ser := ser; cl_de := de; cl_cfg := cl_cfg c; cl_next_tr := cl_next_tr c; cl_trs := cl_trs c; cl_state := cl_state c;
     cl_app := cl_app c; cl_stream := cl_stream c; cl_ack := a |}.

Lemma csame_core_with_io c c' : csame_core c c' -> c' = cwith_io c (cl_ser c') (cl_de c') (cl_ack c').
Proof. intros [H1 [H2 [H3 [H4 [H5 H6]]]]]. destruct c, c'. cbn in *. subst. reflexivity. Qed.

Definition cverdict_of (r : creply) : cverdict := match r with COk _ => CVOk | CErr e => CVErr e | CPanic => CVPanic end.
Definition cresults_of (r : creply) : list cresult := match r with COk rs => rs | _ => [] end.

Definition csimilar (c1 c2 : ccall) : Prop :=
  csame_core (fst c1) (fst c2) /\ cverdict_of (snd c1) = cverdict_of (snd c2) /\ cevents (cresults_of (snd c1)) = cevents (cresults_of (snd c2)) /\
  (ser_ok (cl_ser (fst c1)) /\ ser_ok (cl_ser (fst c2))).

Lemma cone_packet_csimilar c ser2 de2 a2 m ts sid d : ser_ok (cl_ser c) -> ser_ok ser2 ->
  csimilar (cone_packet c m ts sid d) (cone_packet (cwith_io c ser2 de2 a2) m ts sid d).
Proof.
  intros H1 H2. unfold cone_packet, csending. change (cl_ser (cwith_io c ser2 de2 a2)) with ser2.
  pose proof (send_message_similar (cl_ser c) ser2 m ts sid false d H1 H2) as H.
  destruct (send_message (cl_ser c) m ts sid false d) as [[b1 x1]|e1|y|], (send_message ser2 m ts sid false d) as [[b2 x2]|e2|y2|]; try contradiction.
  - destruct H as [Ha Hb]. repeat split; assumption.
  - subst. repeat split; assumption.
Qed.

Ltac csim_leaf := repeat split; try reflexivity; try assumption.
Ltac csim_step :=
  first [ progress cbn [cl_ser cl_de cl_cfg cl_next_tr cl_trs cl_state cl_app cl_stream cl_ack cwith_io]
        | progress cbv beta iota
        | match goal with
          | |- csimilar (cone_packet ?s _ _ _ _) (cone_packet (cwith_io ?s _ _ _) _ _ _ _) => apply cone_packet_csimilar; assumption
          | |- csimilar (match (match ?y with _ => _ end) with _ => _ end) (match (match ?y with _ => _ end) with _ => _ end) => destruct y
          | |- csimilar (match ?y with _ => _ end) (match ?y with _ => _ end) => destruct y
          | |- csimilar (if ?y then _ else _) (if ?y then _ else _) => destruct y
          | |- csimilar (_, _) (_, _) => csim_leaf
          end ].
Ltac csim_frame := cbv zeta; repeat csim_step.

Lemma set_max_similar ser1 ser2 n ts : ser_ok ser1 -> ser_ok ser2 ->
  match ChunkSer.set_max_chunk_size ser1 n ts, ChunkSer.set_max_chunk_size ser2 n ts with
  | Ok (_, a), Ok (_, b) => ser_ok a /\ ser_ok b
  | Err e1, Err e2 => e1 = e2
  | _, _ => False
  end.
Proof.
  intros H1 H2. destruct (ser_chunk_size_refused ser1 n ts H1) as [B1 O1]. destruct (ser_chunk_size_refused ser2 n ts H2) as [B2 O2].
  destruct ((n =? 0) || (2147483647 <? n)) eqn:E.
  - rewrite B1, B2 by lia. reflexivity.
  - destruct (O1 ltac:(lia)) as [b1 [s1 [-> M1]]]. destruct (O2 ltac:(lia)) as [b2 [s2 [-> M2]]]. unfold ser_ok. split; lia.
Qed.

Section CSimilar.
  Variables (c : client) (ser2 : sstate) (de2 : dstate) (a2 : ack_state).
  Hypothesis H1 : ser_ok (cl_ser c).
  Hypothesis H2 : ser_ok ser2.
  Let c2 := cwith_io c ser2 de2 a2.

  Lemma ch_media_csimilar v sid d ts : csimilar (ch_media v c sid d ts) (ch_media v c2 sid d ts).
  Proof. unfold c2, ch_media. csim_frame. Qed.
  Lemma ch_data_csimilar vs sid : csimilar (ch_data c vs sid) (ch_data c2 vs sid).
  Proof. unfold c2, ch_data. csim_frame. Qed.
  Lemma ch_error_csimilar tr obj args : csimilar (ch_error c tr obj args) (ch_error c2 tr obj args).
  Proof. unfold c2, ch_error, take_transaction. csim_frame. Qed.
  Lemma ch_status_csimilar args : csimilar (ch_status c args) (ch_status c2 args).
  Proof.
    unfold c2, ch_status. destruct args as [|a r]; [csim_leaf|]. destruct a; try solve [csim_leaf].
    destruct (prop_get _ _) as [v|]; [|csim_leaf]. destruct v; try solve [csim_leaf].
    destruct (bytes_eqb _ _); [change (cl_state (cwith_io c ser2 de2 a2)) with (cl_state c); destruct (cl_state c); csim_leaf|].
    destruct (bytes_eqb _ _); [change (cl_state (cwith_io c ser2 de2 a2)) with (cl_state c); destruct (cl_state c); csim_leaf|csim_leaf].
  Qed.
  Lemma ch_result_csimilar tr obj args clock : csimilar (ch_result c tr obj args clock) (ch_result c2 tr obj args clock).
  Proof.
    unfold c2, ch_result, take_transaction. cbv zeta. cbn [cl_trs cl_cfg cl_next_tr cwith_io].
    destruct (lookup _ _) as [t|]; [|csim_leaf]. destruct t as [app|p].
    - unfold csending. cbn [cl_ser cwith_io cupd_app cupd_state cupd_trs cupd_ser].
      pose proof (send_message_similar (cl_ser c) ser2 (MWindowAcknowledgement (cc_window (cl_cfg c))) clock 0 false false H1 H2) as H.
      destruct (send_message (cl_ser c) _ _ _ _ _) as [[b1 x1]|e1|y|], (send_message ser2 _ _ _ _ _) as [[b2 x2]|e2|y2|]; try contradiction.
      + destruct H as [Ha Hb]. cbn [cl_ser cupd_ser]. pose proof (set_max_similar x1 x2 (cc_chunk (cl_cfg c)) 0 Ha Hb) as Hm.
        destruct (ChunkSer.set_max_chunk_size x1 _ 0) as [[b3 x3]|e3|y|], (ChunkSer.set_max_chunk_size x2 _ 0) as [[b4 x4]|e4|y4|]; try contradiction.
        * destruct Hm. csim_leaf.
        * subst. csim_leaf.
      + subst. csim_leaf.
    - destruct args as [|a r]; [csim_leaf|]. destruct a; try solve [csim_leaf]. destruct p as [key|key t].
      + unfold csending. cbn [cl_ser cwith_io cupd_app cupd_state cupd_trs cupd_ser cupd_stream].
        match goal with |- context [send_message (cl_ser c) ?m ?a ?b ?f ?d] =>
          pose proof (send_message_similar (cl_ser c) ser2 m a b f d H1 H2) as H;
          destruct (send_message (cl_ser c) m a b f d) as [[b1 x1]|e1|y|], (send_message ser2 m a b f d) as [[b2 x2]|e2|y2|]; try contradiction end.
        * destruct H as [Ha Hb]. cbn [cl_ser cupd_ser].
          match goal with |- context [send_message x1 ?m ?a ?b ?f ?d] =>
            pose proof (send_message_similar x1 x2 m a b f d Ha Hb) as H';
            destruct (send_message x1 m a b f d) as [[b3 x3]|e3|y|], (send_message x2 m a b f d) as [[b4 x4]|e4|y4|]; try contradiction end.
          -- destruct H'. csim_leaf.
          -- subst. csim_leaf.
        * subst. csim_leaf.
      + match goal with |- csimilar (cone_packet ?a _ _ _ _) (cone_packet ?b _ _ _ _) => change b with (cwith_io a ser2 de2 a2) end.
        apply cone_packet_csimilar; assumption.
  Qed.

  Lemma if_csimilar (b : bool) (x1 x2 y1 y2 : ccall) : csimilar x1 x2 -> csimilar y1 y2 -> csimilar (if b then x1 else y1) (if b then x2 else y2).
  Proof. destruct b; auto. Qed.

  Lemma ch_command_csimilar name tr obj args clock : csimilar (ch_command c name tr obj args clock) (ch_command c2 name tr obj args clock).
  Proof.
    unfold ch_command. apply if_csimilar; [apply ch_result_csimilar|]. apply if_csimilar; [apply ch_error_csimilar|].
    apply if_csimilar; [apply ch_status_csimilar|]. unfold c2. csim_leaf.
  Qed.
End CSimilar.

Lemma ch_message_de_after c p clock : cl_de (fst (ch_message c p clock)) = de_after p (cl_de c).
Proof.
  unfold ch_message, de_after. destruct (of_payload (m_tid p) (m_data p)) as [m|e|x|]; try reflexivity.
  destruct m as [t d|n|n|name tr obj args|vs|d|n|n lt|ev sid bl ts|d|n]; try reflexivity.
  - apply ch_command_de.
  - apply ch_data_de.
  - apply ch_media_de.
  - destruct (de_set_max_chunk_size (cl_de c) n); reflexivity.
  - destruct ev; try reflexivity. apply cone_packet_de.
  - apply ch_media_de.
Qed.

Theorem ch_message_similar c ser2 de2 a2 p clock : ser_ok (cl_ser c) -> ser_ok ser2 ->
  csimilar (ch_message c p clock) (ch_message (cwith_io c ser2 de2 a2) p clock).
Proof.
  intros H1 H2. unfold ch_message. destruct (of_payload (m_tid p) (m_data p)) as [m|e|x|]; try solve [unfold csimilar; csim_leaf].
  destruct m as [t d|n|n|name tr obj args|vs|d|n|n lt|ev sid bl ts|d|n]; try solve [unfold csimilar; csim_leaf].
  - apply ch_command_csimilar; assumption.
  - apply ch_data_csimilar; assumption.
  - apply ch_media_csimilar; assumption.
  - change (cl_de (cwith_io c ser2 de2 a2)) with de2. unfold de_set_max_chunk_size.
    destruct (_ || _); unfold csimilar; csim_leaf.
  - destruct ev; try solve [unfold csimilar; csim_leaf]. apply cone_packet_csimilar; assumption.
  - apply ch_media_csimilar; assumption.
Qed.


Lemma cevents_app a b : cevents (a ++ b) = cevents a ++ cevents b.
Proof. unfold cevents. apply flat_map_app. Qed.

(* the whole loop from two sessions with the same core and the same deserializer state: the same new cevents *)
Lemma cloop_similar clock a acc1 a' seen1 v : cloop clock a acc1 a' seen1 v ->
  forall b acc2, csame_core a b -> cl_de b = cl_de a -> ser_ok (cl_ser a) -> ser_ok (cl_ser b) ->
  exists b' seen2 delta, cloop clock b acc2 b' seen2 v /\ csame_core a' b' /\ cl_de b' = cl_de a' /\
                   cevents seen1 = cevents acc1 ++ delta /\ cevents seen2 = cevents acc2 ++ delta /\
                   ser_ok (cl_ser a') /\ ser_ok (cl_ser b').
Proof.
  induction 1 as [s d acc Hg|s d e acc Hg|s d p s1 rs acc s' seen v Hg Hh D IH|s d p s1 e acc Hg Hh|s d p s1 acc Hg Hh];
    intros b acc2 Hc Hd Ha Hb.
  - exists (cupd_de b d), acc2, []. rewrite <- Hd in Hg. split; [apply cl_none; exact Hg|]. rewrite !app_nil_r. repeat split; try apply Hc; assumption.
  - exists (cupd_de b d), acc2, []. rewrite <- Hd in Hg. split; [apply cl_err; exact Hg|]. rewrite !app_nil_r. repeat split; try apply Hc; assumption.
  - pose proof (csame_core_with_io _ _ Hc) as Eb.
    assert (Eb2 : cupd_de b d = cwith_io (cupd_de s d) (cl_ser b) d (cl_ack b)) by (rewrite Eb; reflexivity).
    pose proof (ch_message_similar (cupd_de s d) (cl_ser b) d (cl_ack b) p clock Ha Hb) as Hs. rewrite <- Eb2, Hh in Hs.
    pose proof (ch_message_de_after (cupd_de b d) p clock) as Hd2. pose proof (ch_message_de_after (cupd_de s d) p clock) as Hd1. rewrite Hh in Hd1.
    destruct (ch_message (cupd_de b d) p clock) as [b1 r2] eqn:Eh2. destruct Hs as [Hc1 [Hv [Hev [Hs1 Hs2]]]]. cbn [fst snd] in *.
    destruct r2 as [rs2|e2|]; try discriminate. cbn [cresults_of] in Hev.
    destruct (IH b1 (acc2 ++ rs2) Hc1 ltac:(rewrite Hd1, Hd2; reflexivity) Hs1 Hs2) as [b' [seen2 [delta [D2 [R1 [R2 [R3 [R4 R5]]]]]]]].
    exists b', seen2, (cevents rs ++ delta). split; [rewrite <- Hd in Hg; eapply cl_ok; [exact Hg|exact Eh2|exact D2]|].
    split; [exact R1|]. split; [exact R2|]. split; [rewrite R3, cevents_app, <- app_assoc; reflexivity|].
    split; [rewrite R4, cevents_app, <- app_assoc, Hev; reflexivity|exact R5].
  - pose proof (csame_core_with_io _ _ Hc) as Eb.
    assert (Eb2 : cupd_de b d = cwith_io (cupd_de s d) (cl_ser b) d (cl_ack b)) by (rewrite Eb; reflexivity).
    pose proof (ch_message_similar (cupd_de s d) (cl_ser b) d (cl_ack b) p clock Ha Hb) as Hs. rewrite <- Eb2, Hh in Hs.
    pose proof (ch_message_de_after (cupd_de b d) p clock) as Hd2. pose proof (ch_message_de_after (cupd_de s d) p clock) as Hd1. rewrite Hh in Hd1.
    destruct (ch_message (cupd_de b d) p clock) as [b1 r2] eqn:Eh2. destruct Hs as [Hc1 [Hv [Hev [Hs1 Hs2]]]]. cbn [fst snd] in *.
    destruct r2 as [rs2|e2|]; try discriminate. injection Hv as <-.
    exists b1, acc2, []. split; [rewrite <- Hd in Hg; eapply cl_herr; [exact Hg|exact Eh2]|]. rewrite !app_nil_r.
    repeat split; try apply Hc1; try assumption. rewrite Hd1, Hd2. reflexivity.
  - pose proof (csame_core_with_io _ _ Hc) as Eb.
    assert (Eb2 : cupd_de b d = cwith_io (cupd_de s d) (cl_ser b) d (cl_ack b)) by (rewrite Eb; reflexivity).
    pose proof (ch_message_similar (cupd_de s d) (cl_ser b) d (cl_ack b) p clock Ha Hb) as Hs. rewrite <- Eb2, Hh in Hs.
    pose proof (ch_message_de_after (cupd_de b d) p clock) as Hd2. pose proof (ch_message_de_after (cupd_de s d) p clock) as Hd1. rewrite Hh in Hd1.
    destruct (ch_message (cupd_de b d) p clock) as [b1 r2] eqn:Eh2. destruct Hs as [Hc1 [Hv [Hev [Hs1 Hs2]]]]. cbn [fst snd] in *.
    destruct r2 as [rs2|e2|]; try discriminate.
    exists b1, acc2, []. split; [rewrite <- Hd in Hg; eapply cl_hpanic; [exact Hg|exact Eh2]|]. rewrite !app_nil_r.
    repeat split; try apply Hc1; try assumption. rewrite Hd1, Hd2. reflexivity.
Qed.

(* ================================================================ histories of handle_input calls *)
Lemma cloop_quiescent clock s acc s' seen : cloop clock s acc s' seen CVOk -> G (cl_de s') = (cl_de s', DNone).
Proof.
  intros D. remember CVOk as vk eqn:Ev.
  induction D as [s d acc Hg|s d e acc Hg|s d p s1 rs acc s' seen v Hg Hh D IH|s d p s1 e acc Hg Hh|s d p s1 acc Hg Hh]; try discriminate.
  - pose proof (G_ext (cl_de s) []) as He. rewrite Hg in He. destruct He as [_ Hb]. cbn [cl_de cupd_de]. apply G_blocked. exact Hb.
  - apply IH. exact Ev.
Qed.

(* the acknowledgement-free reference: the message loop alone, call after call; acc accumulates every result *)
Inductive cpfeeds (clock : N) : client -> list bytes -> list cresult -> client -> list cresult -> cverdict -> Prop :=
| cpf_nil s acc : cpfeeds clock s [] acc s acc CVOk
| cpf_ok s p r acc s1 seen1 s' seen v :
    cloop clock (cext s p) acc s1 seen1 CVOk -> cpfeeds clock s1 r seen1 s' seen v -> cpfeeds clock s (p :: r) acc s' seen v
| cpf_bad s p r acc s1 seen1 v : cloop clock (cext s p) acc s1 seen1 v -> v <> CVOk -> cpfeeds clock s (p :: r) acc s1 seen1 v.

Theorem cpfeeds_whole clock pieces : forall s acc s' seen v,
  G (cl_de s) = (cl_de s, DNone) -> cpfeeds clock s pieces acc s' seen v ->
  exists s'', cloop clock (cext s (concat pieces)) acc s'' seen v /\ (v = CVOk -> s'' = s').
Proof.
  induction pieces as [|p r IH]; intros s acc s' seen v Hq F.
  - inversion F as [a b| |]; subst. cbn [concat]. rewrite cext_nil. exists (cupd_de s' (cl_de s')).
    split; [apply cl_none; exact Hq|]. intros _. destruct s'; reflexivity.
  - inversion F as [|a b c d s1 seen1 e f g D1 F2|a b c d s1 seen1 g D1 Hv]; subst; cbn [concat]; rewrite <- cext_cext.
    + destruct (IH s1 seen1 s' seen v (cloop_quiescent _ _ _ _ _ D1) F2) as [s'' [D2 K]].
      exists s''. split; [apply (cloop_ext_ok clock _ _ _ _ D1); exact D2|exact K].
    + eexists. split; [apply (cloop_ext_bad clock _ _ _ _ _ D1 Hv)|]. intros ->. contradiction.
Qed.

Theorem cpfeeds_partition_independent clock s p1 p2 acc s1 seen1 v1 s2 seen2 v2 :
  G (cl_de s) = (cl_de s, DNone) -> concat p1 = concat p2 ->
  cpfeeds clock s p1 acc s1 seen1 v1 -> cpfeeds clock s p2 acc s2 seen2 v2 -> seen1 = seen2 /\ v1 = v2 /\ (v1 = CVOk -> s1 = s2).
Proof.
  intros Hq Hc F1 F2.
  destruct (cpfeeds_whole clock p1 s acc s1 seen1 v1 Hq F1) as [sa [Da Ka]].
  destruct (cpfeeds_whole clock p2 s acc s2 seen2 v2 Hq F2) as [sb [Db Kb]]. rewrite Hc in Da.
  destruct (cloop_fun clock _ _ _ _ _ Da _ _ _ Db) as [Hs [H1 H2]]. split; [exact H1|]. split; [exact H2|].
  intros Hv. rewrite <- (Ka Hv), <- (Kb ltac:(rewrite <- H2; exact Hv)). exact Hs.
Qed.


Fixpoint feed_client (s : client) (pieces : list bytes) (clock : N) (evs : list cevent) : client * list cevent * cverdict :=
  match pieces with
  | [] => (s, evs, CVOk)
  | p :: r =>
    match client_handle_input s p clock with
    | (s', COk rs) => feed_client s' r clock (evs ++ cevents rs)
    | (s', CErr e) => (s', evs, CVErr e)
    | (s', CPanic) => (s', evs, CVPanic)
    end
  end.

(* one real call against one reference call (the message loop alone on a session with the same core and deserializer) *)
Lemma chandle_input_vs_loop clock s p t acc :
  ser_ok (cl_ser s) -> ser_ok (cl_ser t) -> csame_core s t -> cl_de t = cl_de s ->
  exists s' seen v t' seen2,
    client_handle_input s p clock = (s', creply_of seen v) /\
    cloop clock (cext t p) acc t' seen2 v /\ csame_core s' t' /\ cl_de t' = cl_de s' /\
    cevents seen2 = cevents acc ++ cevents seen /\ ser_ok (cl_ser s') /\ ser_ok (cl_ser t').
Proof.
  intros Hs Ht Hc Hd. unfold client_handle_input.
  assert (Hf : forall s0, cl_de s0 = cl_de s -> (nu (ext (cl_de s0) p) < S (S (length (d_buf (cl_de s)) + length p)))%nat).
  { intros s0 ->. unfold nu, ext. cbn [d_buf d_stage set_buf]. rewrite app_length. destruct (d_stage (cl_de s)); cbn [pending]; lia. }
  assert (Main : forall sm acc0, csame_core sm t -> cl_de sm = cl_de s -> ser_ok (cl_ser sm) -> cevents acc0 = [] ->
            exists s' seen v t' seen2,
              ch_loop (S (S (length (d_buf (cl_de s)) + length p))) sm p clock acc0 = (s', creply_of seen v) /\
              cloop clock (cext t p) acc t' seen2 v /\ csame_core s' t' /\ cl_de t' = cl_de s' /\
              cevents seen2 = cevents acc ++ cevents seen /\ ser_ok (cl_ser s') /\ ser_ok (cl_ser t')).
  { intros sm acc0 Hcm Hdm Hsm He0.
    destruct (ch_loop_sound clock _ sm p acc0 (Hf sm Hdm)) as [s' [seen [v [E1 D1]]]].
    assert (Hc2 : csame_core (cext sm p) (cext t p)) by exact Hcm.
    assert (Hd2 : cl_de (cext t p) = cl_de (cext sm p)) by (cbn [cext cl_de cupd_de]; rewrite Hd, Hdm; reflexivity).
    destruct (cloop_similar clock _ _ _ _ _ D1 (cext t p) acc Hc2 Hd2 Hsm Ht) as [t' [seen2 [delta [D2 [C2 [De2 [Ev1 [Ev2 [S1 S2]]]]]]]]].
    exists s', seen, v, t', seen2. rewrite He0 in Ev1. cbn [app] in Ev1.
    split; [exact E1|]. split; [exact D2|]. split; [exact C2|]. split; [exact De2|]. split; [rewrite Ev1; exact Ev2|]. split; assumption. }
  destruct (ack_step (cl_ack s) (lenN p)) as [a [n|]].
  - destruct (ack_send_ok (cl_ser s) n clock Hs) as [b [ser' [E Hser']]]. rewrite E.
    apply (Main (cupd_ack (cupd_ser s ser') a) [CPacket b false]); [exact Hc|reflexivity|exact Hser'|reflexivity].
  - apply (Main (cupd_ack s a) []); [exact Hc|reflexivity|exact Hs|reflexivity].
Qed.

(* a real history against the reference history *)
Lemma feed_client_vs_cpfeeds clock pieces : forall s t evs acc,
  ser_ok (cl_ser s) -> ser_ok (cl_ser t) -> csame_core s t -> cl_de t = cl_de s -> evs = cevents acc ->
  exists t' seen, cpfeeds clock t pieces acc t' seen (snd (feed_client s pieces clock evs)) /\
    exists dropped, cevents seen = snd (fst (feed_client s pieces clock evs)) ++ dropped /\
                    (snd (feed_client s pieces clock evs) = CVOk -> dropped = [] /\ csame_core (fst (fst (feed_client s pieces clock evs))) t').
Proof.
  induction pieces as [|p r IH]; intros s t evs acc Hs Ht Hc Hd He.
  - exists t, acc. cbn [feed_client fst snd]. split; [apply cpf_nil|]. exists []. rewrite app_nil_r. split; [symmetry; exact He|]. intros _. split; [reflexivity|exact Hc].
  - cbn [feed_client].
    destruct (chandle_input_vs_loop clock s p t acc Hs Ht Hc Hd) as [s' [seen [v [t' [seen2 [E [D [C2 [D2 [Ev [S1 S2]]]]]]]]]]].
    rewrite E. destruct v as [|e|]; cbn [creply_of].
    + destruct (IH s' t' (evs ++ cevents seen) seen2 S1 S2 C2 D2 ltac:(rewrite Ev, He; reflexivity)) as [t'' [seenF [F R]]].
      exists t'', seenF. split; [eapply cpf_ok; [exact D|exact F]|exact R].
    + exists t', seen2. cbn [fst snd]. split; [apply cpf_bad; [exact D|discriminate]|].
      exists (cevents seen). split; [rewrite Ev, He; reflexivity|discriminate].
    + exists t', seen2. cbn [fst snd]. split; [apply cpf_bad; [exact D|discriminate]|].
      exists (cevents seen). split; [rewrite Ev, He; reflexivity|discriminate].
Qed.

(* C15 for the client session: any two partitions of the same byte stream, fed call after call to a quiescent session,
   give the same cverdict (completed / the same error at the same message); when the stream is accepted they raise exactly the
   same cevents and end in the same protocol state; when it is rejected, what either partition delivered before the failing call
   is a prefix of one common event sequence (the cevents of the messages before the failing one) *)
Theorem client_partition_independent s p1 p2 clock :
  ser_ok (cl_ser s) -> G (cl_de s) = (cl_de s, DNone) -> concat p1 = concat p2 ->
  let r1 := feed_client s p1 clock [] in
  let r2 := feed_client s p2 clock [] in
  snd r1 = snd r2 /\
  (exists common d1 d2, common = snd (fst r1) ++ d1 /\ common = snd (fst r2) ++ d2 /\
     (snd r1 = CVOk -> d1 = [] /\ d2 = [] /\ csame_core (fst (fst r1)) (fst (fst r2)))).
Proof.
  intros Hs Hq Hc r1 r2.
  destruct (feed_client_vs_cpfeeds clock p1 s s [] [] Hs Hs (csame_core_refl s) eq_refl eq_refl) as [t1 [seen1 [F1 [dr1 [E1 K1]]]]].
  destruct (feed_client_vs_cpfeeds clock p2 s s [] [] Hs Hs (csame_core_refl s) eq_refl eq_refl) as [t2 [seen2 [F2 [dr2 [E2 K2]]]]].
  fold r1 in F1, E1, K1. fold r2 in F2, E2, K2.
  destruct (cpfeeds_partition_independent clock s p1 p2 [] t1 seen1 (snd r1) t2 seen2 (snd r2) Hq Hc F1 F2) as [Hseen [Hv Hst]].
  split; [exact Hv|]. exists (cevents seen1), dr1, dr2. split; [exact E1|]. split; [rewrite Hseen; exact E2|].
  intros Hok. destruct (K1 Hok) as [Z1 C1]. specialize (Hst Hok). rewrite Hv in Hok. destruct (K2 Hok) as [Z2 C2].
  split; [exact Z1|]. split; [exact Z2|]. subst t2.
  destruct C1 as [A1 [A2 [A3 [A4 [A5 A6]]]]]. destruct C2 as [B1 [B2 [B3 [B4 [B5 B6]]]]].
  unfold csame_core. repeat split; congruence.
Qed.
