(* C17 at the sessions: handle_input runs the acknowledgement counter exactly once, first, on the size of the input; the
   Acknowledgement it emits (if due) is the first result of the call; message handlers never touch the byte count (they only learn a
   window).  This ties the abstract history model of AckProofs (ack_run) to both session models. *)
From Coq Require Import ZArith Lia ZifyN ZifyBool ZifyNat String.
From RML Require Import Model.Base Model.Chunk Model.ChunkSer Model.ChunkDe Model.Messages Model.SessionCommon Model.Server Model.Client
  Proofs.ConfigProofs Proofs.InteropProofs Proofs.SessionFrame Proofs.SessionPartition.
Local Open Scope N_scope.

(* ---------------------------------------------------------------- server *)
Lemma one_packet_ack s m ts sid f d : sv_ack (fst (one_packet s m ts sid f d)) = sv_ack s.
Proof. unfold one_packet, sending. destruct (send_message _ _ _ _ _ _) as [[b ser']|e|x|]; reflexivity. Qed.

Ltac ack_step_t :=
  first [ progress cbv beta iota
        | match goal with
          | |- sv_ack (fst (one_packet _ _ _ _ _ _)) = _ => rewrite one_packet_ack
          | |- sv_ack (fst (let '(a, b) := ?x in _)) = _ => destruct x
          | |- sv_ack (fst (match ?x with _ => _ end)) = _ => destruct x
          | |- sv_ack (fst (if ?x then _ else _)) = _ => destruct x
          | |- sv_ack (fst (_, _)) = _ => cbn [fst]
          end ].
Ltac ack_frame := cbv zeta; repeat ack_step_t;
  cbn [sv_ack upd_ser upd_de upd_reqs upd_streams upd_ack upd_conn upd_objenc fst]; try reflexivity.

Lemma h_command_ack s sid name tr obj args clock : sv_ack (fst (h_command s sid name tr obj args clock)) = sv_ack s.
Proof.
  unfold h_command.
  assert (Hif : forall (b : bool) (x y : call), sv_ack (fst x) = sv_ack s -> sv_ack (fst y) = sv_ack s -> sv_ack (fst (if b then x else y)) = sv_ack s)
    by (intros b x y; destruct b; auto).
  apply Hif; [unfold h_connect, new_request; ack_frame|]. apply Hif; [unfold h_close_or_delete; ack_frame|].
  apply Hif; [unfold h_create_stream; ack_frame|]. apply Hif; [unfold h_close_or_delete; ack_frame|].
  apply Hif; [unfold h_play, new_request; ack_frame|]. apply Hif; [unfold h_publish, new_request; ack_frame|reflexivity].
Qed.

(* a handler leaves the acknowledgement state alone, except that a Window Acknowledgement Size message sets the window *)
Lemma h_message_ack s p clock :
  ack_since (sv_ack (fst (h_message s p clock))) = ack_since (sv_ack s) /\
  (sv_ack (fst (h_message s p clock)) = sv_ack s \/ exists w, sv_ack (fst (h_message s p clock)) = ack_learn (sv_ack s) w).
Proof.
  unfold h_message. destruct (of_payload (m_tid p) (m_data p)) as [m|e|x|]; try (split; [reflexivity|left; reflexivity]).
  destruct m as [t d|n|n|name tr obj args|vs|d|n|n lt|ev sid bl ts|d|n]; try (split; [reflexivity|left; reflexivity]).
  - rewrite h_command_ack. split; [reflexivity|left; reflexivity].
  - assert (H : sv_ack (fst (h_data s vs (m_sid p))) = sv_ack s) by (unfold h_data; ack_frame). rewrite H. split; [reflexivity|left; reflexivity].
  - assert (H : sv_ack (fst (h_media true s d (m_sid p) (m_ts p))) = sv_ack s) by (unfold h_media; ack_frame). rewrite H. split; [reflexivity|left; reflexivity].
  - destruct (de_set_max_chunk_size (sv_de s) n); split; try reflexivity; left; reflexivity.
  - destruct ev; try (split; [reflexivity|left; reflexivity]). rewrite one_packet_ack. split; [reflexivity|left; reflexivity].
  - assert (H : sv_ack (fst (h_media false s d (m_sid p) (m_ts p))) = sv_ack s) by (unfold h_media; ack_frame). rewrite H. split; [reflexivity|left; reflexivity].
  - split; [reflexivity|right; exists n; reflexivity].
Qed.

Lemma h_loop_ack clock fuel : forall s input acc, ack_since (sv_ack (fst (h_loop fuel s input clock acc))) = ack_since (sv_ack s).
Proof.
  induction fuel as [|f IH]; intros s input acc; cbn [h_loop]; [reflexivity|].
  destruct (get_next_message (sv_de s) input) as [d res]. destruct res as [p| |e|]; try reflexivity.
  pose proof (h_message_ack (upd_de s d) p clock) as [H _].
  destruct (h_message (upd_de s d) p clock) as [s1 r]. cbn [fst] in H. destruct r as [rs|e|]; cbn [fst]; [rewrite IH|..]; exact H.
Qed.

Lemma h_loop_prefix clock fuel : forall s input acc s' rs, h_loop fuel s input clock acc = (s', ROk rs) -> exists more, rs = acc ++ more.
Proof.
  induction fuel as [|f IH]; intros s input acc s' rs H; cbn [h_loop] in H; [discriminate|].
  destruct (get_next_message (sv_de s) input) as [d res]. destruct res as [p| |e|]; try discriminate.
  - destruct (h_message (upd_de s d) p clock) as [s1 r]. destruct r as [rs1|e|]; try discriminate.
    destruct (IH _ _ _ _ _ H) as [more ->]. exists (rs1 ++ more). rewrite app_assoc. reflexivity.
  - injection H as <- <-. exists []. rewrite app_nil_r. reflexivity.
Qed.

(* C17 for the server session: the counter after the call, and the acknowledgement emitted by the call, are those of ack_step on the
   size of this input; a due acknowledgement is the first result and reports the counted bytes *)
Theorem server_input_ack s input clock : ser_ok (sv_ser s) ->
  let '(a, due) := ack_step (sv_ack s) (lenN input) in
  ack_since (sv_ack (fst (server_handle_input s input clock))) = ack_since a /\
  match due, snd (server_handle_input s input clock) with
  | Some n, ROk rs => exists b ser' more, send_message (sv_ser s) (MAcknowledgement n) clock 0 false false = Ok (b, ser') /\ rs = SPacket b false :: more
  | _, _ => True
  end.
Proof.
  intros Hs. unfold server_handle_input. destruct (ack_step (sv_ack s) (lenN input)) as [a [n|]].
  - destruct (ack_send_ok (sv_ser s) n clock Hs) as [b [ser' [E Hs']]]. rewrite E. split; [apply h_loop_ack|].
    destruct (h_loop _ _ input clock [SPacket b false]) as [s' r] eqn:El. cbn [snd]. destruct r as [rs|e|]; try exact I.
    destruct (h_loop_prefix _ _ _ _ _ _ _ El) as [more ->]. exists b, ser', more. split; reflexivity.
  - split; [apply h_loop_ack|exact I].
Qed.

(* the whole acknowledgement state after a call: the counting step, then the windows announced by the messages of the call *)
Lemma h_loop_learns clock fuel : forall s input acc, exists ws, sv_ack (fst (h_loop fuel s input clock acc)) = fold_left ack_learn ws (sv_ack s).
Proof.
  induction fuel as [|f IH]; intros s input acc; cbn [h_loop]; [exists []; reflexivity|].
  destruct (get_next_message (sv_de s) input) as [d res]. destruct res as [p| |e|]; try (exists []; reflexivity).
  pose proof (h_message_ack (upd_de s d) p clock) as [_ H]. change (sv_ack (upd_de s d)) with (sv_ack s) in H.
  destruct (h_message (upd_de s d) p clock) as [s1 r]. cbn [fst] in H. destruct r as [rs|e|]; cbn [fst].
  - destruct (IH s1 [] (acc ++ rs)) as [ws Hw]. destruct H as [H | [w H]]; rewrite Hw, H; [exists ws|exists (w :: ws)]; reflexivity.
  - destruct H as [H | [w H]]; rewrite H; [exists []|exists [w]]; reflexivity.
  - destruct H as [H | [w H]]; rewrite H; [exists []|exists [w]]; reflexivity.
Qed.

Theorem server_input_ack_state s input clock : ser_ok (sv_ser s) ->
  exists ws, sv_ack (fst (server_handle_input s input clock)) = fold_left ack_learn ws (fst (ack_step (sv_ack s) (lenN input))).
Proof.
  intros Hs. unfold server_handle_input. destruct (ack_step (sv_ack s) (lenN input)) as [a [n|]]; cbn [fst].
  - destruct (ack_send_ok (sv_ser s) n clock Hs) as [b [ser' [E Hs']]]. rewrite E.
    apply (h_loop_learns clock _ (upd_ack (upd_ser s ser') a) input [SPacket b false]).
  - apply (h_loop_learns clock _ (upd_ack s a) input []).
Qed.

(* ---------------------------------------------------------------- client *)
Lemma cone_packet_ack c m ts sid d : cl_ack (fst (cone_packet c m ts sid d)) = cl_ack c.
Proof. unfold cone_packet, csending. destruct (send_message _ _ _ _ _ _) as [[b ser']|e|x|]; reflexivity. Qed.

Lemma ch_message_ack c p clock :
  cl_ack (fst (ch_message c p clock)) = cl_ack c \/ exists w, cl_ack (fst (ch_message c p clock)) = ack_learn (cl_ack c) w.
Proof.
  unfold ch_message. destruct (of_payload (m_tid p) (m_data p)) as [m|e|x|]; try (left; reflexivity).
  destruct m as [t d|n|n|name tr obj args|vs|d|n|n lt|ev sid bl ts|d|n]; try (left; reflexivity).
  - left. unfold ch_command.
    assert (Hif : forall (b : bool) (x y : ccall), cl_ack (fst x) = cl_ack c -> cl_ack (fst y) = cl_ack c -> cl_ack (fst (if b then x else y)) = cl_ack c)
      by (intros b x y; destruct b; auto).
    apply Hif; [|apply Hif; [|apply Hif; [|reflexivity]]].
    + unfold ch_result, take_transaction. cbv zeta. destruct (lookup _ _) as [t|]; [|reflexivity]. destruct t as [app|pp].
      * unfold csending. destruct (send_message _ _ _ _ _ _) as [[b ser']|e|x|]; try reflexivity.
        destruct (ChunkSer.set_max_chunk_size _ _ 0) as [[b2 ser2]|e|x|]; reflexivity.
      * destruct args as [|a r]; [reflexivity|]. destruct a; try reflexivity. destruct pp as [key|key t].
        -- unfold csending. destruct (send_message _ _ _ _ _ _) as [[b ser']|e|x|]; try reflexivity.
           destruct (send_message _ _ _ _ _ _) as [[b2 ser2]|e|x|]; reflexivity.
        -- rewrite cone_packet_ack. reflexivity.
    + unfold ch_error, take_transaction. destruct (lookup _ _) as [t|]; [|reflexivity]. destruct t; reflexivity.
    + unfold ch_status. destruct args as [|a r]; [reflexivity|]. destruct a; try reflexivity.
      destruct (prop_get _ _) as [v|]; [|reflexivity]. destruct v; try reflexivity.
      destruct (bytes_eqb _ _); [destruct (cl_state c); reflexivity|]. destruct (bytes_eqb _ _); [destruct (cl_state c); reflexivity|reflexivity].
  - left. unfold ch_data. destruct vs as [|f r]; [reflexivity|]. destruct (cl_stream c); [|reflexivity]. destruct (_ =? _); [|reflexivity].
    destruct f; try reflexivity. destruct (bytes_eqb _ _); [|reflexivity]. destruct r as [|r0 rr]; [reflexivity|]. destruct r0; reflexivity.
  - left. unfold ch_media. destruct (cl_state c); try reflexivity; (destruct (cl_stream c); [destruct (_ =? _)|]; reflexivity).
  - left. destruct (de_set_max_chunk_size (cl_de c) n); reflexivity.
  - left. destruct ev; try reflexivity. apply cone_packet_ack.
  - left. unfold ch_media. destruct (cl_state c); try reflexivity; (destruct (cl_stream c); [destruct (_ =? _)|]; reflexivity).
  - right. exists n. reflexivity.
Qed.

Lemma ch_loop_learns clock fuel : forall c input acc, exists ws, cl_ack (fst (ch_loop fuel c input clock acc)) = fold_left ack_learn ws (cl_ack c).
Proof.
  induction fuel as [|f IH]; intros c input acc; cbn [ch_loop]; [exists []; reflexivity|].
  destruct (get_next_message (cl_de c) input) as [d res]. destruct res as [p| |e|]; try (exists []; reflexivity).
  pose proof (ch_message_ack (cupd_de c d) p clock) as H. change (cl_ack (cupd_de c d)) with (cl_ack c) in H.
  destruct (ch_message (cupd_de c d) p clock) as [c1 r]. cbn [fst] in H. destruct r as [rs|e|]; cbn [fst].
  - destruct (IH c1 [] (acc ++ rs)) as [ws Hw]. destruct H as [H | [w H]]; rewrite Hw, H; [exists ws|exists (w :: ws)]; reflexivity.
  - destruct H as [H | [w H]]; rewrite H; [exists []|exists [w]]; reflexivity.
  - destruct H as [H | [w H]]; rewrite H; [exists []|exists [w]]; reflexivity.
Qed.

Lemma ch_loop_prefix clock fuel : forall c input acc c' rs, ch_loop fuel c input clock acc = (c', COk rs) -> exists more, rs = acc ++ more.
Proof.
  induction fuel as [|f IH]; intros c input acc c' rs H; cbn [ch_loop] in H; [discriminate|].
  destruct (get_next_message (cl_de c) input) as [d res]. destruct res as [p| |e|]; try discriminate.
  - destruct (ch_message (cupd_de c d) p clock) as [c1 r]. destruct r as [rs1|e|]; try discriminate.
    destruct (IH _ _ _ _ _ H) as [more ->]. exists (rs1 ++ more). rewrite app_assoc. reflexivity.
  - injection H as <- <-. exists []. rewrite app_nil_r. reflexivity.
Qed.

Theorem client_input_ack c input clock : ser_ok (cl_ser c) ->
  let '(a, due) := ack_step (cl_ack c) (lenN input) in
  (exists ws, cl_ack (fst (client_handle_input c input clock)) = fold_left ack_learn ws a) /\
  match due, snd (client_handle_input c input clock) with
  | Some n, COk rs => exists b ser' more, send_message (cl_ser c) (MAcknowledgement n) clock 0 false false = Ok (b, ser') /\ rs = CPacket b false :: more
  | _, _ => True
  end.
Proof.
  intros Hs. unfold client_handle_input. destruct (ack_step (cl_ack c) (lenN input)) as [a [n|]].
  - destruct (ack_send_ok (cl_ser c) n clock Hs) as [b [ser' [E Hs']]]. rewrite E.
    split; [apply (ch_loop_learns clock _ (cupd_ack (cupd_ser c ser') a) input [CPacket b false])|].
    destruct (ch_loop _ _ input clock [CPacket b false]) as [c' r] eqn:El. cbn [snd]. destruct r as [rs|e|]; try exact I.
    destruct (ch_loop_prefix _ _ _ _ _ _ _ El) as [more ->]. exists b, ser', more. split; reflexivity.
  - split; [apply (ch_loop_learns clock _ (cupd_ack c a) input [])|exact I].
Qed.
