(* Frame properties of the session models: message handlers never touch the deserializer (except Set Chunk Size, which
   changes only its chunk size) - the deserializer is driven by handle_input alone.  Consequences: the message loop of
   handle_input always ends within its fuel (no RPanic from fuel), and what a session does with a message does not depend on
   the bytes still buffered behind it. *)
From Coq Require Import ZArith Lia ZifyN ZifyBool ZifyNat String.
From RML Require Import Model.Base Model.Time Model.Chunk Model.ChunkSer Model.ChunkDe Model.Amf0 Model.Messages Model.SessionCommon
  Model.Server Model.Client Gen.Consts Proofs.BaseProofs Proofs.ChunkDeProofs Proofs.ChunkDeFuel.
Local Open Scope N_scope.

(* ---------------------------------------------------------------- server *)
Lemma one_packet_de s m ts sid f d : sv_de (fst (one_packet s m ts sid f d)) = sv_de s.
Proof. unfold one_packet, sending. destruct (send_message _ _ _ _ _ _) as [[b ser']|e|x|]; reflexivity. Qed.

Ltac sv_step :=
  first [ progress cbv beta iota | 
  match goal with
  | |- sv_de (fst (one_packet _ _ _ _ _ _)) = _ => rewrite one_packet_de
  | |- sv_de (fst (let '(a, b) := ?x in _)) = _ => destruct x
  | |- sv_de (fst (match ?x with _ => _ end)) = _ => destruct x
  | |- sv_de (fst (if ?x then _ else _)) = _ => destruct x
  | |- sv_de (fst (_, _)) = _ => cbn [fst]
  end ].
Ltac sv_frame := cbv zeta; repeat sv_step;
  cbn [sv_de upd_ser upd_de upd_reqs upd_streams upd_ack upd_conn upd_objenc fst]; try reflexivity.

Lemma h_connect_de s tr obj : sv_de (fst (h_connect s tr obj)) = sv_de s.
Proof. unfold h_connect, new_request. sv_frame. Qed.
Lemma h_close_or_delete_de d s args : sv_de (fst (h_close_or_delete d s args)) = sv_de s.
Proof. unfold h_close_or_delete. sv_frame. Qed.
Lemma h_create_stream_de s tr clock : sv_de (fst (h_create_stream s tr clock)) = sv_de s.
Proof. unfold h_create_stream. sv_frame. Qed.
Lemma h_publish_de s sid tr args clock : sv_de (fst (h_publish s sid tr args clock)) = sv_de s.
Proof. unfold h_publish, new_request. sv_frame. Qed.
Lemma h_play_de s sid tr args clock : sv_de (fst (h_play s sid tr args clock)) = sv_de s.
Proof. unfold h_play, new_request. sv_frame. Qed.
Lemma if_frame (b : bool) (x y : call) s : sv_de (fst x) = sv_de s -> sv_de (fst y) = sv_de s -> sv_de (fst (if b then x else y)) = sv_de s.
Proof. destruct b; auto. Qed.

Lemma h_command_de s sid name tr obj args clock : sv_de (fst (h_command s sid name tr obj args clock)) = sv_de s.
Proof.
  unfold h_command.
  apply if_frame; [apply h_connect_de|].
  apply if_frame; [apply h_close_or_delete_de|].
  apply if_frame; [apply h_create_stream_de|].
  apply if_frame; [apply h_close_or_delete_de|].
  apply if_frame; [apply h_play_de|].
  apply if_frame; [apply h_publish_de|reflexivity].
Qed.
Lemma h_data_de s vs sid : sv_de (fst (h_data s vs sid)) = sv_de s.
Proof. unfold h_data. sv_frame. Qed.
Lemma h_media_de a s d sid ts : sv_de (fst (h_media a s d sid ts)) = sv_de s.
Proof. unfold h_media. sv_frame. Qed.

(* what a message handler does to the deserializer: nothing, or (Set Chunk Size) exactly what the driving loop does *)
Lemma h_message_de s p clock :
  sv_de (fst (h_message s p clock)) = sv_de s \/
  (exists n, de_set_max_chunk_size (sv_de s) n = Ok (sv_de (fst (h_message s p clock)))).
Proof.
  unfold h_message. destruct (of_payload (m_tid p) (m_data p)) as [m|e|x|]; try (left; reflexivity).
  destruct m as [t d|n|n|name tr obj args|vs|d|n|n lt|ev sid bl ts|d|n]; try (left; reflexivity).
  - left. apply h_command_de.
  - left. apply h_data_de.
  - left. apply h_media_de.
  - destruct (de_set_max_chunk_size (sv_de s) n) as [d|e|x|] eqn:E; try (left; reflexivity). right. exists n. rewrite E. reflexivity.
  - left. destruct ev; try reflexivity. apply one_packet_de.
  - left. apply h_media_de.
Qed.

(* ================================================================ totality: the server model never reaches RPanic *)
From RML Require Import Proofs.Amf0Proofs Proofs.TotalProofs Proofs.ConfigProofs Proofs.InteropProofs.

Lemma obind_total {A B E} (o : outcome A E) (f : A -> outcome B E) :
  is_value_or_error o -> (forall a, is_value_or_error (f a)) -> is_value_or_error (obind o f).
Proof. destruct o; cbn; auto. Qed.

Lemma encode_value_total v : is_value_or_error (encode_value v).
Proof.
  induction v as [b|b|s|ps IH|vs IH| |] using value_ind2; try exact I.
  - cbn [encode_value]. destruct (u16_max <? lenN s); exact I.
  - cbn [encode_value]. apply obind_total; [|intros; exact I].
    induction IH as [|[name pv] r Hp _ IHr]; [exact I|]. cbn [snd] in Hp.
    destruct (u16_max <? lenN name); [exact I|]. destruct (lenN name =? 0); [exact I|].
    apply obind_total; [exact Hp|]. intros bv. apply obind_total; [exact IHr|intros; exact I].
  - cbn [encode_value]. apply obind_total; [|intros; exact I].
    induction IH as [|x r Hx _ IHr]; [exact I|].
    apply obind_total; [exact Hx|]. intros bx. apply obind_total; [exact IHr|intros; exact I].
Qed.

Lemma amf0_serialize_total vs : is_value_or_error (Amf0.serialize vs).
Proof.
  unfold Amf0.serialize. induction vs as [|x r IH]; [exact I|]. cbn [encode_values].
  apply obind_total; [apply encode_value_total|]. intros bx. apply obind_total; [exact IH|intros; exact I].
Qed.

Lemma to_payload_total m : is_value_or_error (to_payload m).
Proof.
  unfold to_payload. apply obind_total; [|intros; exact I].
  destruct m as [t d|n|n|name tr obj args|vs|d|n|n lt|ev sid bl ts|d|n]; cbn [message_body]; try exact I.
  - pose proof (amf0_serialize_total (VString name :: VNumber tr :: obj :: args)) as H.
    destruct (Amf0.serialize _); try exact I; contradiction.
  - pose proof (amf0_serialize_total vs) as H. destruct (Amf0.serialize _); try exact I; contradiction.
  - destruct (MAX_CHUNK_SIZE_MSG <? n); exact I.
  - destruct ev; exact I.
Qed.

(* one message through a serializer whose chunk size is legal: a packet or a declared error, and the chunk size stays legal *)
Lemma send_message_total ser m ts sid f d : ser_ok ser ->
  match send_message ser m ts sid f d with
  | Ok (_, ser') => ser_ok ser'
  | Err _ => True
  | Panic _ | OutOfFuel => False
  end.
Proof.
  intros Hs. unfold send_message. pose proof (to_payload_total m) as Ht.
  destruct (to_payload m) as [[tid body]|e|x|]; try exact I; try contradiction.
  set (msg := {| m_ts := ts; m_tid := tid; m_sid := sid; m_data := body |}).
  destruct (serialize_refused_or_ok ser msg f d Hs) as [Hbig Hok].
  destruct (16777215 <? lenN (m_data msg)) eqn:E.
  - rewrite (Hbig ltac:(lia)). exact I.
  - destruct (Hok ltac:(lia)) as [b [ser' [-> Hm]]]. unfold ser_ok in *. lia.
Qed.

Definition good (c : call) : Prop := snd c <> RPanic /\ ser_ok (sv_ser (fst c)).

Lemma sending_good s m ts sid f d k :
  ser_ok (sv_ser s) -> (forall ser' b, ser_ok ser' -> good (k (upd_ser s ser') b)) -> good (sending s m ts sid f d k).
Proof.
  intros Hs Hk. unfold sending. pose proof (send_message_total (sv_ser s) m ts sid f d Hs) as H.
  destruct (send_message _ _ _ _ _ _) as [[b ser']|e|x|]; try contradiction.
  - apply Hk. exact H.
  - split; [discriminate|exact Hs].
Qed.

Lemma one_packet_good s m ts sid f d : ser_ok (sv_ser s) -> good (one_packet s m ts sid f d).
Proof. intros Hs. unfold one_packet. apply sending_good; [exact Hs|]. intros ser' b H. split; [discriminate|exact H]. Qed.

Lemma good_ok s rs : ser_ok (sv_ser s) -> good (s, ROk rs).
Proof. intros H. split; [discriminate|exact H]. Qed.
Lemma good_err s e : ser_ok (sv_ser s) -> good (s, RErr e).
Proof. intros H. split; [discriminate|exact H]. Qed.

Ltac good_step :=
  first [ progress cbv beta iota
        | match goal with
          | |- good (one_packet _ _ _ _ _ _) => apply one_packet_good
          | |- good (sending _ _ _ _ _ _ _) => apply sending_good; [|intros ? ? ?]
          | |- good (let '(a, b) := ?x in _) => destruct x
          | |- good (match ?x with _ => _ end) => destruct x
          | |- good (if ?x then _ else _) => destruct x
          | |- good (_, ROk _) => apply good_ok
          | |- good (_, RErr _) => apply good_err
          end ].
Ltac good_frame := cbv zeta; repeat good_step;
  cbn [sv_ser upd_ser upd_de upd_reqs upd_streams upd_ack upd_conn upd_objenc fst]; try assumption.

Section ServerTotal.
  Variable s : server.
  Hypothesis Hs : ser_ok (sv_ser s).

  Lemma h_connect_good tr obj : good (h_connect s tr obj).
  Proof. unfold h_connect, new_request. good_frame. Qed.
  Lemma h_close_or_delete_good d args : good (h_close_or_delete d s args).
  Proof. unfold h_close_or_delete. good_frame. Qed.
  Lemma h_create_stream_good tr clock : good (h_create_stream s tr clock).
  Proof. unfold h_create_stream. good_frame. Qed.
  Lemma h_publish_good sid tr args clock : good (h_publish s sid tr args clock).
  Proof. unfold h_publish, new_request. good_frame. Qed.
  Lemma h_play_good sid tr args clock : good (h_play s sid tr args clock).
  Proof. unfold h_play, new_request. good_frame. Qed.
  Lemma h_data_good vs sid : good (h_data s vs sid).
  Proof. unfold h_data. good_frame. Qed.
  Lemma h_media_good a d sid ts : good (h_media a s d sid ts).
  Proof. unfold h_media. good_frame. Qed.

  Lemma if_good (b : bool) (x y : call) : good x -> good y -> good (if b then x else y).
  Proof. destruct b; auto. Qed.

  Lemma h_command_good sid name tr obj args clock : good (h_command s sid name tr obj args clock).
  Proof.
    unfold h_command.
    apply if_good; [apply h_connect_good|]. apply if_good; [apply h_close_or_delete_good|].
    apply if_good; [apply h_create_stream_good|]. apply if_good; [apply h_close_or_delete_good|].
    apply if_good; [apply h_play_good|]. apply if_good; [apply h_publish_good|apply good_ok; exact Hs].
  Qed.

  Lemma h_message_good p clock : good (h_message s p clock).
  Proof.
    unfold h_message. pose proof (of_payload_total (m_tid p) (m_data p)) as Ht.
    destruct (of_payload (m_tid p) (m_data p)) as [m|e|x|]; try contradiction; [|apply good_err; exact Hs].
    destruct m as [t d|n|n|name tr obj args|vs|d|n|n lt|ev sid bl ts|d|n]; try (apply good_ok; exact Hs).
    - apply h_command_good.
    - apply h_data_good.
    - apply h_media_good.
    - unfold de_set_max_chunk_size. destruct (_ || _); [apply good_err; exact Hs|apply good_ok; exact Hs].
    - destruct ev; try (apply good_ok; exact Hs). apply one_packet_good. exact Hs.
    - apply h_media_good.
  Qed.
End ServerTotal.

(* ---------------------------------------------------------------- the message loop and the public calls *)
Lemma de_set_max_nu d n d' : de_set_max_chunk_size d n = Ok d' -> nu d' = nu d.
Proof. unfold de_set_max_chunk_size. destruct (_ || _); [discriminate|]. intros H. injection H as <-. reflexivity. Qed.

Lemma h_message_nu s p clock : nu (sv_de (fst (h_message s p clock))) = nu (sv_de s).
Proof.
  destruct (h_message_de s p clock) as [-> | [n E]]; [reflexivity|]. apply (de_set_max_nu _ _ _ E).
Qed.

Lemma h_loop_good fuel : forall s input clock acc,
  ser_ok (sv_ser s) -> (nu (ext (sv_de s) input) < fuel)%nat -> good (h_loop fuel s input clock acc).
Proof.
  induction fuel as [|f IH]; intros s input clock acc Hs Hn; [lia|]. cbn [h_loop].
  pose proof (get_next_message_terminates (sv_de s) input) as Ht.
  destruct (get_next_message (sv_de s) input) as [d res] eqn:Eg. cbn [snd] in Ht.
  destruct res as [p| |e|]; [| apply good_ok; exact Hs | apply good_err; exact Hs | contradiction].
  pose proof (h_message_good (upd_de s d) Hs p clock) as [Hg1 Hg2].
  pose proof (h_message_nu (upd_de s d) p clock) as Hnu. change (sv_de (upd_de s d)) with d in Hnu.
  destruct (h_message (upd_de s d) p clock) as [s1 r]. cbn [fst snd] in *.
  destruct r as [rs|e|]; [|split; [discriminate|exact Hg2]|contradiction].
  apply IH; [exact Hg2|].
  unfold get_next_message in Eg. apply loop_msg_cost in Eg. fold (ext (sv_de s) input) in Eg.
  rewrite ext_nil. lia.
Qed.

Theorem server_handle_input_good s input clock : ser_ok (sv_ser s) -> good (server_handle_input s input clock).
Proof.
  intros Hs. unfold server_handle_input.
  assert (Hf : forall s0, sv_de s0 = sv_de s -> (nu (ext (sv_de s0) input) < S (S (length (d_buf (sv_de s)) + length input)))%nat).
  { intros s0 ->. unfold nu, ext. cbn [d_buf d_stage set_buf]. rewrite app_length. destruct (d_stage (sv_de s)); cbn [pending]; lia. }
  destruct (ack_step (sv_ack s) (lenN input)) as [a [n|]].
  - pose proof (send_message_total (sv_ser s) (MAcknowledgement n) clock 0 false false Hs) as H.
    destruct (send_message _ _ _ _ _ _) as [[b ser']|e|x|]; try contradiction.
    + apply h_loop_good; [exact H|apply Hf; reflexivity].
    + apply good_err. exact Hs.
  - apply h_loop_good; [exact Hs|apply Hf; reflexivity].
Qed.

Section ServerApi.
  Variable s : server.
  Hypothesis Hs : ser_ok (sv_ser s).

  Theorem server_accept_good id clock : good (server_accept s id clock).
  Proof. unfold server_accept, accept_connection, accept_publish, accept_play. good_frame. Qed.
  Theorem server_reject_good id code d clock : good (server_reject s id code d clock).
  Proof. unfold server_reject. good_frame. Qed.
  Theorem server_send_metadata_good sid md clock : good (server_send_metadata s sid md clock).
  Proof. apply one_packet_good. exact Hs. Qed.
  Theorem server_send_video_good sid d ts drop : good (server_send_video s sid d ts drop).
  Proof. apply one_packet_good. exact Hs. Qed.
  Theorem server_send_audio_good sid d ts drop : good (server_send_audio s sid d ts drop).
  Proof. apply one_packet_good. exact Hs. Qed.
  Theorem server_send_ping_good clock : good (server_send_ping s clock).
  Proof. apply one_packet_good. exact Hs. Qed.
  Theorem server_finish_playing_good sid clock : good (server_finish_playing s sid clock).
  Proof. unfold server_finish_playing. good_frame. Qed.
End ServerApi.

Lemma set_max_total ser n ts : ser_ok ser ->
  match ChunkSer.set_max_chunk_size ser n ts with
  | Ok (_, ser') => ser_ok ser'
  | Err _ => True
  | Panic _ | OutOfFuel => False
  end.
Proof.
  intros Hs. destruct (ser_chunk_size_refused ser n ts Hs) as [Hbad Hok].
  destruct ((n =? 0) || (2147483647 <? n)) eqn:E.
  - rewrite Hbad by lia. exact I.
  - destruct (Hok ltac:(lia)) as [b [st' [-> Hm]]]. unfold ser_ok. lia.
Qed.

Theorem server_new_good c clock : good (server_new c clock).
Proof.
  unfold server_new. cbv zeta.
  match goal with |- good (match ChunkSer.set_max_chunk_size ?ser ?n ?t with _ => _ end) =>
    pose proof (set_max_total ser n t ltac:(unfold ser_ok; vm_compute; discriminate)) as H; destruct (ChunkSer.set_max_chunk_size ser n t) as [[b1 ser1]|e|x|] end;
    try contradiction; [|apply good_err; unfold ser_ok; vm_compute; discriminate].
  good_frame.
Qed.

(* every public call of a server session, in every state reachable from ServerSession::new by any history of inputs and
   application calls, returns results or a declared error: the model never reaches a panic site or exhausts a loop's fuel *)
From RML Require Import Proofs.ServerProofs.

Lemma server_step_good s op : ser_ok (sv_ser s) -> good (server_step s op).
Proof.
  intros Hs. destruct op; cbn [server_step].
  - apply server_handle_input_good; exact Hs.
  - apply server_accept_good; exact Hs.
  - apply server_reject_good; exact Hs.
  - apply server_send_metadata_good; exact Hs.
  - apply server_send_video_good; exact Hs.
  - apply server_send_audio_good; exact Hs.
  - apply server_send_ping_good; exact Hs.
  - apply server_finish_playing_good; exact Hs.
Qed.

Theorem server_never_panics c clock ops op :
  snd (server_new c clock) <> RPanic /\
  snd (server_step (server_run (fst (server_new c clock)) ops) op) <> RPanic.
Proof.
  pose proof (server_new_good c clock) as [H0 H1]. split; [exact H0|].
  assert (Hr : forall ops s, ser_ok (sv_ser s) -> ser_ok (sv_ser (server_run s ops))).
  { induction ops0 as [|o r IH]; intros s Hs; [exact Hs|]. cbn [server_run]. apply IH. apply (server_step_good s o Hs). }
  apply (server_step_good _ op (Hr ops _ H1)).
Qed.

(* ================================================================ client *)
Definition cgood (c : ccall) : Prop := snd c <> CPanic /\ ser_ok (cl_ser (fst c)).

Lemma csending_good c m ts sid f d k :
  ser_ok (cl_ser c) -> (forall ser' b, ser_ok ser' -> cgood (k (cupd_ser c ser') b)) -> cgood (csending c m ts sid f d k).
Proof.
  intros Hs Hk. unfold csending. pose proof (send_message_total (cl_ser c) m ts sid f d Hs) as H.
  destruct (send_message _ _ _ _ _ _) as [[b ser']|e|x|]; try contradiction.
  - apply Hk. exact H.
  - split; [discriminate|exact Hs].
Qed.
Lemma cone_packet_good c m ts sid d : ser_ok (cl_ser c) -> cgood (cone_packet c m ts sid d).
Proof. intros Hs. unfold cone_packet. apply csending_good; [exact Hs|]. intros ser' b H. split; [discriminate|exact H]. Qed.
Lemma cgood_ok c rs : ser_ok (cl_ser c) -> cgood (c, COk rs).
Proof. intros H. split; [discriminate|exact H]. Qed.
Lemma cgood_err c e : ser_ok (cl_ser c) -> cgood (c, CErr e).
Proof. intros H. split; [discriminate|exact H]. Qed.

Ltac cgood_step :=
  first [ progress cbv beta iota
        | match goal with
          | |- cgood (cone_packet _ _ _ _ _) => apply cone_packet_good
          | |- cgood (csending _ _ _ _ _ _ _) => apply csending_good; [|intros ? ? ?]
          | |- cgood (match (match ?y with _ => _ end) with _ => _ end) => destruct y
          | |- cgood (let '(a, b) := ?x in _) => destruct x
          | |- cgood (match ?x with _ => _ end) => destruct x
          | |- cgood (if ?x then _ else _) => destruct x
          | |- cgood (_, COk _) => apply cgood_ok
          | |- cgood (_, CErr _) => apply cgood_err
          end ].
Ltac cgood_frame := cbv zeta; repeat cgood_step;
  cbn [cl_ser cupd_ser cupd_de cupd_trs cupd_state cupd_app cupd_stream cupd_ack fst]; try assumption.

Lemma cone_packet_de c m ts sid d : cl_de (fst (cone_packet c m ts sid d)) = cl_de c.
Proof. unfold cone_packet, csending. destruct (send_message _ _ _ _ _ _) as [[b ser']|e|x|]; reflexivity. Qed.

Ltac cl_step :=
  first [ progress cbv beta iota
        | match goal with
          | |- cl_de (fst (cone_packet _ _ _ _ _)) = _ => rewrite cone_packet_de
          | |- cl_de (fst (csending ?c ?m ?a ?b ?f ?d ?k)) = _ => unfold csending
          | |- cl_de (fst (let '(a, b) := ?x in _)) = _ => destruct x
          | |- cl_de (fst (match ?x with _ => _ end)) = _ => destruct x
          | |- cl_de (fst (if ?x then _ else _)) = _ => destruct x
          | |- cl_de (fst (_, _)) = _ => cbn [fst]
          end ].
Ltac cl_frame := cbv zeta; repeat cl_step;
  cbn [cl_de cupd_ser cupd_de cupd_trs cupd_state cupd_app cupd_stream cupd_ack fst]; try reflexivity.

Section ClientTotal.
  Variable c : client.
  Hypothesis Hs : ser_ok (cl_ser c).

  Lemma ch_media_good v sid d ts : cgood (ch_media v c sid d ts).
  Proof. unfold ch_media. cgood_frame. Qed.
  Lemma ch_data_good vs sid : cgood (ch_data c vs sid).
  Proof. unfold ch_data. cgood_frame. Qed.
  Lemma ch_error_good tr obj args : cgood (ch_error c tr obj args).
  Proof. unfold ch_error, take_transaction. cgood_frame. Qed.
  Lemma ch_status_good args : cgood (ch_status c args).
  Proof.
    unfold ch_status. destruct args as [|a r]; [apply cgood_err; exact Hs|]. destruct a; try (apply cgood_err; exact Hs).
    destruct (prop_get _ _) as [v|]; [|apply cgood_err; exact Hs]. destruct v; try (apply cgood_err; exact Hs).
    destruct (bytes_eqb _ _); [destruct (cl_state c); first [apply cgood_ok; exact Hs|apply cgood_err; exact Hs]|].
    destruct (bytes_eqb _ _); [destruct (cl_state c); first [apply cgood_ok; exact Hs|apply cgood_err; exact Hs]|].
    apply cgood_ok; exact Hs.
  Qed.
  Lemma ch_result_good tr obj args clock : cgood (ch_result c tr obj args clock).
  Proof.
    unfold ch_result, take_transaction. cbv zeta.
    destruct (lookup _ _) as [t|]; [|apply cgood_ok; exact Hs]. destruct t as [app|p].
    - apply csending_good; [exact Hs|]. intros ser' b Hser.
      pose proof (set_max_total ser' (cc_chunk (cl_cfg c)) 0 Hser) as H.
      change (cl_ser (cupd_ser _ ser')) with ser'.
      destruct (ChunkSer.set_max_chunk_size ser' _ 0) as [[b2 ser2]|e|x|]; try contradiction.
      + apply cgood_ok. exact H.
      + apply cgood_err. exact Hser.
    - destruct args as [|a r]; [apply cgood_err; exact Hs|]. destruct a; try (apply cgood_err; exact Hs).
      destruct p as [key|key t].
      + apply csending_good; [exact Hs|]. intros ser' b Hser. apply csending_good; [exact Hser|]. intros ser2 b2 Hser2.
        apply cgood_ok. exact Hser2.
      + apply cone_packet_good. exact Hs.
  Qed.

  Lemma if_cgood (b : bool) (x y : ccall) : cgood x -> cgood y -> cgood (if b then x else y).
  Proof. destruct b; auto. Qed.

  Lemma ch_command_good name tr obj args clock : cgood (ch_command c name tr obj args clock).
  Proof.
    unfold ch_command.
    apply if_cgood; [apply ch_result_good|]. apply if_cgood; [apply ch_error_good|].
    apply if_cgood; [apply ch_status_good|apply cgood_ok; exact Hs].
  Qed.

  Lemma ch_message_good p clock : cgood (ch_message c p clock).
  Proof.
    unfold ch_message. pose proof (of_payload_total (m_tid p) (m_data p)) as Ht.
    destruct (of_payload (m_tid p) (m_data p)) as [m|e|x|]; try contradiction; [|apply cgood_err; exact Hs].
    destruct m as [t d|n|n|name tr obj args|vs|d|n|n lt|ev sid bl ts|d|n]; try (apply cgood_ok; exact Hs).
    - apply ch_command_good.
    - apply ch_data_good.
    - apply ch_media_good.
    - unfold de_set_max_chunk_size. destruct (_ || _); [apply cgood_err; exact Hs|apply cgood_ok; exact Hs].
    - destruct ev; try (apply cgood_ok; exact Hs). apply cone_packet_good. exact Hs.
    - apply ch_media_good.
  Qed.
End ClientTotal.

(* client handlers never touch the deserializer either *)
Lemma ch_media_de v c sid d ts : cl_de (fst (ch_media v c sid d ts)) = cl_de c.
Proof. unfold ch_media. cl_frame. Qed.
Lemma ch_data_de c vs sid : cl_de (fst (ch_data c vs sid)) = cl_de c.
Proof. unfold ch_data. cl_frame. Qed.
Lemma ch_error_de c tr obj args : cl_de (fst (ch_error c tr obj args)) = cl_de c.
Proof. unfold ch_error, take_transaction. destruct (lookup _ _) as [t|]; [|reflexivity]. destruct t; reflexivity. Qed.
Lemma ch_status_de c args : cl_de (fst (ch_status c args)) = cl_de c.
Proof.
  unfold ch_status. destruct args as [|a r]; [reflexivity|]. destruct a; try reflexivity.
  destruct (prop_get _ _) as [v|]; [|reflexivity]. destruct v; try reflexivity.
  destruct (bytes_eqb _ _); [destruct (cl_state c); reflexivity|].
  destruct (bytes_eqb _ _); [destruct (cl_state c); reflexivity|reflexivity].
Qed.
Lemma ch_result_de c tr obj args clock : cl_de (fst (ch_result c tr obj args clock)) = cl_de c.
Proof.
  unfold ch_result, take_transaction. cbv zeta.
  destruct (lookup _ _) as [t|]; [|reflexivity]. destruct t as [app|p].
  - unfold csending. destruct (send_message _ _ _ _ _ _) as [[b ser']|e|x|]; try reflexivity.
    destruct (ChunkSer.set_max_chunk_size _ _ 0) as [[b2 ser2]|e|x|]; reflexivity.
  - destruct args as [|a r]; [reflexivity|]. destruct a; try reflexivity. destruct p as [key|key t].
    + unfold csending. destruct (send_message _ _ _ _ _ _) as [[b ser']|e|x|]; try reflexivity.
      destruct (send_message _ _ _ _ _ _) as [[b2 ser2]|e|x|]; reflexivity.
    + rewrite cone_packet_de. reflexivity.
Qed.
Lemma if_cde (b : bool) (x y : ccall) c : cl_de (fst x) = cl_de c -> cl_de (fst y) = cl_de c -> cl_de (fst (if b then x else y)) = cl_de c.
Proof. destruct b; auto. Qed.
Lemma ch_command_de c name tr obj args clock : cl_de (fst (ch_command c name tr obj args clock)) = cl_de c.
Proof.
  unfold ch_command. apply if_cde; [apply ch_result_de|]. apply if_cde; [apply ch_error_de|]. apply if_cde; [apply ch_status_de|reflexivity].
Qed.

Lemma ch_message_de c p clock :
  cl_de (fst (ch_message c p clock)) = cl_de c \/
  (exists n, de_set_max_chunk_size (cl_de c) n = Ok (cl_de (fst (ch_message c p clock)))).
Proof.
  unfold ch_message. destruct (of_payload (m_tid p) (m_data p)) as [m|e|x|]; try (left; reflexivity).
  destruct m as [t d|n|n|name tr obj args|vs|d|n|n lt|ev sid bl ts|d|n]; try (left; reflexivity).
  - left. apply ch_command_de.
  - left. apply ch_data_de.
  - left. apply ch_media_de.
  - destruct (de_set_max_chunk_size (cl_de c) n) as [d|e|x|] eqn:E; try (left; reflexivity). right. exists n. rewrite E. reflexivity.
  - left. destruct ev; try reflexivity. apply cone_packet_de.
  - left. apply ch_media_de.
Qed.

Lemma ch_message_nu c p clock : nu (cl_de (fst (ch_message c p clock))) = nu (cl_de c).
Proof. destruct (ch_message_de c p clock) as [-> | [n E]]; [reflexivity|]. apply (de_set_max_nu _ _ _ E). Qed.

Lemma ch_loop_good fuel : forall c input clock acc,
  ser_ok (cl_ser c) -> (nu (ext (cl_de c) input) < fuel)%nat -> cgood (ch_loop fuel c input clock acc).
Proof.
  induction fuel as [|f IH]; intros c input clock acc Hs Hn; [lia|]. cbn [ch_loop].
  pose proof (get_next_message_terminates (cl_de c) input) as Ht.
  destruct (get_next_message (cl_de c) input) as [d res] eqn:Eg. cbn [snd] in Ht.
  destruct res as [p| |e|]; [| apply cgood_ok; exact Hs | apply cgood_err; exact Hs | contradiction].
  pose proof (ch_message_good (cupd_de c d) Hs p clock) as [Hg1 Hg2].
  pose proof (ch_message_nu (cupd_de c d) p clock) as Hnu. change (cl_de (cupd_de c d)) with d in Hnu.
  destruct (ch_message (cupd_de c d) p clock) as [c1 r]. cbn [fst snd] in *.
  destruct r as [rs|e|]; [|split; [discriminate|exact Hg2]|contradiction].
  apply IH; [exact Hg2|].
  unfold get_next_message in Eg. apply loop_msg_cost in Eg. fold (ext (cl_de c) input) in Eg.
  rewrite ext_nil. lia.
Qed.

Theorem client_handle_input_good c input clock : ser_ok (cl_ser c) -> cgood (client_handle_input c input clock).
Proof.
  intros Hs. unfold client_handle_input.
  assert (Hf : forall c0, cl_de c0 = cl_de c -> (nu (ext (cl_de c0) input) < S (S (length (d_buf (cl_de c)) + length input)))%nat).
  { intros c0 ->. unfold nu, ext. cbn [d_buf d_stage set_buf]. rewrite app_length. destruct (d_stage (cl_de c)); cbn [pending]; lia. }
  destruct (ack_step (cl_ack c) (lenN input)) as [a [n|]].
  - pose proof (send_message_total (cl_ser c) (MAcknowledgement n) clock 0 false false Hs) as H.
    destruct (send_message _ _ _ _ _ _) as [[b ser']|e|x|]; try contradiction.
    + apply ch_loop_good; [exact H|apply Hf; reflexivity].
    + apply cgood_err. exact Hs.
  - apply ch_loop_good; [exact Hs|apply Hf; reflexivity].
Qed.

Section ClientApi.
  Variable c : client.
  Hypothesis Hs : ser_ok (cl_ser c).
  Theorem client_request_connection_good app clock : cgood (client_request_connection c app clock).
  Proof. unfold client_request_connection, new_transaction. cgood_frame. Qed.
  Theorem create_stream_request_good p clock : cgood (create_stream_request c p clock).
  Proof. unfold create_stream_request, new_transaction. cgood_frame. Qed.
  Theorem stop_good clock : cgood (stop c clock).
  Proof. unfold stop. cgood_frame. Qed.
  Theorem client_stop_playback_good clock : cgood (client_stop_playback c clock).
  Proof. unfold client_stop_playback. destruct (cl_state c); first [apply stop_good|apply cgood_ok; exact Hs]. Qed.
  Theorem client_stop_publishing_good clock : cgood (client_stop_publishing c clock).
  Proof. unfold client_stop_publishing. destruct (cl_state c); first [apply stop_good|apply cgood_ok; exact Hs]. Qed.
  Theorem client_send_ping_good clock : cgood (client_send_ping c clock).
  Proof. apply cone_packet_good. exact Hs. Qed.
  Theorem client_publish_metadata_good md clock : cgood (client_publish_metadata c md clock).
  Proof.
    unfold client_publish_metadata, publishing_stream. destruct (cl_state c); try (apply cgood_err; exact Hs).
    destruct (cl_stream c); [apply cone_packet_good; exact Hs|apply cgood_err; exact Hs].
  Qed.
  Theorem client_publish_media_good v d ts drop : cgood (client_publish_media v c d ts drop).
  Proof.
    unfold client_publish_media, publishing_stream. destruct (cl_state c); try (apply cgood_err; exact Hs).
    destruct (cl_stream c); [apply cone_packet_good; exact Hs|apply cgood_err; exact Hs].
  Qed.
End ClientApi.

Theorem client_new_ok cfg : ser_ok (cl_ser (client_new cfg)).
Proof. unfold ser_ok. vm_compute. discriminate. Qed.

(* client histories *)
Inductive cop :=
| CopInput (input : bytes) (clock : N) | CopConnect (app : bytes) (clock : N) | CopPlay (key : bytes) (clock : N)
| CopPublish (key : bytes) (t : publish_type) (clock : N) | CopStopPlay (clock : N) | CopStopPublish (clock : N) | CopPing (clock : N)
| CopMetadata (md : metadata) (clock : N) | CopMedia (video : bool) (data : bytes) (ts : N) (drop : bool).

Definition client_step (c : client) (op : cop) : ccall :=
  match op with
  | CopInput i k => client_handle_input c i k
  | CopConnect app k => client_request_connection c app k
  | CopPlay key k => client_request_playback c key k
  | CopPublish key t k => client_request_publishing c key t k
  | CopStopPlay k => client_stop_playback c k
  | CopStopPublish k => client_stop_publishing c k
  | CopPing k => client_send_ping c k
  | CopMetadata md k => client_publish_metadata c md k
  | CopMedia v d ts drop => client_publish_media v c d ts drop
  end.

Fixpoint client_run (c : client) (ops : list cop) : client :=
  match ops with [] => c | op :: r => client_run (fst (client_step c op)) r end.

Lemma client_step_good c op : ser_ok (cl_ser c) -> cgood (client_step c op).
Proof.
  intros Hs. destruct op; cbn [client_step].
  - apply client_handle_input_good; exact Hs.
  - apply client_request_connection_good; exact Hs.
  - apply create_stream_request_good; exact Hs.
  - apply create_stream_request_good; exact Hs.
  - apply client_stop_playback_good; exact Hs.
  - apply client_stop_publishing_good; exact Hs.
  - apply client_send_ping_good; exact Hs.
  - apply client_publish_metadata_good; exact Hs.
  - apply client_publish_media_good; exact Hs.
Qed.

Theorem client_never_panics cfg ops op : snd (client_step (client_run (client_new cfg) ops) op) <> CPanic.
Proof.
  assert (Hr : forall ops c, ser_ok (cl_ser c) -> ser_ok (cl_ser (client_run c ops))).
  { induction ops0 as [|o r IH]; intros c Hs; [exact Hs|]. cbn [client_run]. apply IH. apply (client_step_good c o Hs). }
  apply (client_step_good _ op (Hr ops _ (client_new_ok cfg))).
Qed.
