(* The size of what the AMF0 encoder writes is determined by the value alone: 9 bytes per number, 2 per boolean, 3 + length per
   string, 1 for null / undefined, 4 + (2 + name + value) per property for an object, 5 + elements for a strict array.
   (C19: bounded output; used to show that the sessions' command and metadata messages fit a chunk-layer message.) *)
From Coq Require Import ZArith Lia ZifyN ZifyBool ZifyNat List.
From RML Require Import Model.Base Model.Amf0 Proofs.Amf0Proofs.
Import ListNotations.
Local Open Scope N_scope.

Fixpoint vsize (v : value) : N :=
  match v with
  | VNumber _ => 9
  | VBoolean _ => 2
  | VString s => 3 + lenN s
  | VNull | VUndefined => 1
  | VObject ps => 4 + (fix go (ps : list (bytes * value)) : N := match ps with [] => 0 | (k, x) :: r => 2 + lenN k + vsize x + go r end) ps
  | VStrictArray vs => 5 + (fix go (vs : list value) : N := match vs with [] => 0 | x :: r => vsize x + go r end) vs
  end.
Fixpoint psize (ps : list (bytes * value)) : N := match ps with [] => 0 | (k, x) :: r => 2 + lenN k + vsize x + psize r end.
Fixpoint vssize (vs : list value) : N := match vs with [] => 0 | x :: r => vsize x + vssize r end.
Lemma vsize_object ps : vsize (VObject ps) = 4 + psize ps.
Proof.
  change (vsize (VObject ps)) with (4 + (fix go (ps : list (bytes * value)) : N := match ps with [] => 0 | (k, x) :: r => 2 + lenN k + vsize x + go r end) ps).
  apply f_equal. induction ps as [|[k x] r IH]; [reflexivity|]. cbn [psize]. rewrite <- IH. reflexivity.
Qed.
Lemma vsize_array vs : vsize (VStrictArray vs) = 5 + vssize vs.
Proof.
  change (vsize (VStrictArray vs)) with (5 + (fix go (vs : list value) : N := match vs with [] => 0 | x :: r => vsize x + go r end) vs).
  apply f_equal. induction vs as [|x r IH]; [reflexivity|]. cbn [vssize]. rewrite <- IH. reflexivity.
Qed.

Lemma lenN_app2 {A} (a b : list A) : lenN (a ++ b) = lenN a + lenN b.
Proof. unfold lenN. rewrite app_length. lia. Qed.
Lemma lenN_cons2 {A} (x : A) (l : list A) : lenN (x :: l) = 1 + lenN l.
Proof. unfold lenN. cbn [length]. lia. Qed.

Ltac lensimp := unfold be16; cbn [List.app]; repeat rewrite ?lenN_cons2, ?lenN_app2.

Theorem encode_value_size v : forall b, encode_value v = Ok b -> lenN b = vsize v.
Proof.
  induction v as [n|x|s|ps IH|vs IH| |] using value_ind2; intros b H.
  - cbn [encode_value] in H. injection H as <-. rewrite lenN_cons2. change (lenN (be64 n)) with 8. reflexivity.
  - cbn [encode_value] in H. injection H as <-. reflexivity.
  - cbn [encode_value] in H. destruct (u16_max <? lenN s); [discriminate|]. injection H as <-.
    cbn [vsize]. unfold lenN, be16. cbn [length List.app]. lia.
  - rewrite encode_value_object in H. rewrite vsize_object.
    assert (Hp : forall b0, encode_props ps = Ok b0 -> lenN b0 = psize ps).
    { clear H b. induction ps as [|[k x] r IHr]; intros b0 H0.
      - cbn [encode_props] in H0. injection H0 as <-. reflexivity.
      - inversion IH as [|? ? Hx Hr]; subst. cbn [snd] in Hx. cbn [encode_props] in H0.
        destruct (u16_max <? lenN k); [discriminate|]. destruct (lenN k =? 0); [discriminate|].
        destruct (encode_value x) as [bx|e|y|] eqn:Ex; cbn [obind] in H0; try discriminate.
        destruct (encode_props r) as [br|e|y|] eqn:Er; cbn [obind] in H0; try discriminate. injection H0 as <-.
        lensimp. rewrite (Hx bx eq_refl), (IHr Hr br eq_refl). cbn [psize]. change (lenN (@nil N)) with 0. lia. }
    destruct (encode_props ps) as [bp|e|y|] eqn:Ep; cbn [obind] in H; try discriminate. injection H as <-.
    lensimp. rewrite (Hp bp eq_refl). change (lenN (@nil N)) with 0. lia.
  - rewrite encode_value_array in H. rewrite vsize_array.
    assert (Hp : forall b0, encode_values vs = Ok b0 -> lenN b0 = vssize vs).
    { clear H b. induction vs as [|x r IHr]; intros b0 H0.
      - cbn [encode_values] in H0. injection H0 as <-. reflexivity.
      - inversion IH as [|? ? Hx Hr]; subst. cbn [encode_values] in H0.
        destruct (encode_value x) as [bx|e|y|] eqn:Ex; cbn [obind] in H0; try discriminate.
        destruct (encode_values r) as [br|e|y|] eqn:Er; cbn [obind] in H0; try discriminate. injection H0 as <-.
        rewrite lenN_app2. rewrite (Hx bx eq_refl), (IHr Hr br eq_refl). cbn [vssize]. lia. }
    destruct (encode_values vs) as [bp|e|y|] eqn:Ep; cbn [obind] in H; try discriminate. injection H as <-.
    unfold be32. lensimp. rewrite (Hp bp eq_refl). lia.
  - cbn [encode_value] in H. injection H as <-. reflexivity.
  - cbn [encode_value] in H. injection H as <-. reflexivity.
Qed.

Theorem serialize_size_exact vs b : serialize vs = Ok b -> lenN b = vssize vs.
Proof.
  unfold serialize. revert b. induction vs as [|x r IH]; intros b H.
  - cbn [encode_values] in H. injection H as <-. reflexivity.
  - cbn [encode_values] in H. destruct (encode_value x) as [bx|e|y|] eqn:Ex; cbn [obind] in H; try discriminate.
    destruct (encode_values r) as [br|e|y|] eqn:Er; cbn [obind] in H; try discriminate. injection H as <-.
    rewrite lenN_app2, (encode_value_size x bx Ex), (IH br eq_refl). reflexivity.
Qed.
