(* C19, last clause: every ACCEPTED configuration yields a working session.  For every server configuration whose chunk size the
   serializer accepts (1 .. 2^31-1; any window, bandwidth, version string, either setting of the onBWDone flag) and every client
   configuration with an accepted chunk size, two freshly created sessions complete the connect exchange: composition of
   sessions_start (the client absorbs the server's opening packets) and connect_completes_decided. *)
From Coq Require Import ZArith Lia ZifyN ZifyBool ZifyNat String.
From RML Require Import Model.Base Model.Utf8 Model.Chunk Model.ChunkSer Model.ChunkDe Model.Amf0 Model.Messages Model.Float Model.SessionCommon
  Model.Server Model.Client Proofs.ChunkSerProofs Proofs.InteropProofs Proofs.ProtocolProofs Proofs.ProtocolFlow Proofs.ProtocolStart.
Local Open Scope N_scope.

Definition cconfig_ok (ccfg : cconfig) (app : bytes) : Prop :=
  1 <= cc_chunk ccfg <= 2147483647 /\
  utf8_valid app = true /\ lenN app <= 65000 /\
  utf8_valid (cc_flash ccfg) = true /\ lenN (cc_flash ccfg) <= 65535 /\
  (forall u, cc_tcurl ccfg = Some u -> utf8_valid u = true /\ lenN u <= 65535).

Definition sconfig_ok (cfg : config) : Prop :=
  1 <= cfg_chunk cfg <= 2147483647 /\ cfg_window cfg < 4294967296 /\ cfg_bandwidth cfg < 4294967296 /\
  utf8_valid (cfg_fms cfg) = true /\ lenN (cfg_fms cfg) <= 65535.

Theorem accepted_configs_connect cfg ccfg app clock k rclock sclock aclock cclock :
  sconfig_ok cfg -> cconfig_ok ccfg app ->
  clock < 4294967296 -> rclock < 4294967296 -> aclock < 4294967296 -> cclock < 4294967296 ->
  exists s0 rs c0,
    server_new cfg clock = (s0, ROk rs) /\ events rs = [] /\
    cdeliver (client_new ccfg) (spackets rs) k = Some c0 /\ cl_state c0 = Disconnected /\
    (cquiet (client_new ccfg) (spackets rs) k ->
     exists b1 c1 s1 b2 s2 c2 rs2 pre w1 w2,
       client_request_connection c0 app rclock = (c1, COk [CPacket b1 false]) /\
       server_handle_input s0 b1 sclock = (s1, ROk [SEvent (EvConnectionRequested 0 (strip_slash app))]) /\
       server_accept s1 0 aclock = (s2, ROk [SPacket b2 false]) /\
       client_handle_input c1 b2 cclock = (c2, COk rs2) /\
       rs2 = pre ++ [CPacket w1 false; CEvent CConnectionAccepted; CPacket w2 false] /\ cevents pre = [] /\
       cl_state c2 = Connected /\ cl_app c2 = Some app /\
       sv_connected s2 = true /\ sv_app s2 = Some (strip_slash app) /\
       Link (sv_ser s2) (cl_de c2) /\ s_max (cl_ser c2) = cc_chunk ccfg).
Proof.
  intros [Hc [Hw [Hb [Hfu Hfl]]]] [Hcc [Hau [Hal [Hvu [Hvl Hturl]]]]] Hclk Hrclk Haclk Hcclk.
  destruct (sessions_start cfg ccfg clock k Hc Hw Hb Hclk)
    as [s0 [rs [c0 [Hnew [Hev [Hd [Hst [Htrs [Hntr [Hcfg [Hstream [HL2 [Hcs [Hss [Hwin [Hconn [Hreq [Hns [Hfms HL1]]]]]]]]]]]]]]]]]]].
  exists s0, rs, c0. split; [exact Hnew|]. split; [exact Hev|]. split; [exact Hd|]. split; [exact Hst|].
  intros Q. specialize (HL1 Q).
  assert (Hstr : strings_ok c0 app).
  { unfold strings_ok. rewrite Hcfg, Hntr. split; [exact Hau|]. split; [exact Hvu|]. split; [|lia].
    intros u Eu. exact (proj1 (Hturl u Eu)). }
  assert (Hsz : sizes_ok c0 app).
  { unfold sizes_ok. rewrite Hcfg. split; [exact Hal|]. split; [exact Hvl|]. intros u Eu. exact (proj2 (Hturl u Eu)). }
  destruct (connect_completes_decided c0 s0 app rclock sclock aclock cclock HL1 HL2 Hcs Hss Hst Hstr Hsz Hwin
              ltac:(rewrite Hfms; exact Hfu) ltac:(rewrite Hfms; exact Hfl) Hrclk Haclk Hcclk ltac:(rewrite Hcfg; exact Hcc))
    as [b1 [c1 [s1 [b2 [s2 [c2 [rs2 [pre [w1 [w2 H]]]]]]]]]].
  rewrite Hreq, Hcfg in H.
  exists b1, c1, s1, b2, s2, c2, rs2, pre, w1, w2. exact H.
Qed.

(* the premises are satisfiable, also at the extreme accepted chunk sizes 1 and 2^31-1 *)
Example accepted_configs_example :
  let cfg := {| cfg_fms := str "FMS/3,0,1,123"; cfg_chunk := 1; cfg_bandwidth := 0; cfg_window := 4294967295; cfg_bwdone := true |} in
  let ccfg := {| cc_flash := str "v"; cc_buffer := 1000; cc_window := 2500000; cc_chunk := 2147483647; cc_tcurl := Some (str "rtmp://h/live") |} in
  sconfig_ok cfg /\ cconfig_ok ccfg (str "live") /\
  match server_new cfg 0 with
  | (_, ROk rs) => cquiet (client_new ccfg) (spackets rs) 7
  | _ => False
  end.
Proof.
  split; [|split].
  - unfold sconfig_ok. cbn [cfg_chunk cfg_window cfg_bandwidth cfg_fms]. repeat split; try lia; vm_compute; try reflexivity; intro; discriminate.
  - unfold cconfig_ok. cbn [cc_chunk cc_flash cc_tcurl].
    split; [lia|]. split; [vm_compute; reflexivity|]. split; [vm_compute; intro; discriminate|].
    split; [vm_compute; reflexivity|]. split; [vm_compute; intro; discriminate|].
    intros u Eu. injection Eu as <-. split; [vm_compute; reflexivity|vm_compute; intro; discriminate].
  - vm_compute. repeat split.
Qed.
