(* When is a receiving call `quiet` (no acknowledgement falls due)?  Whenever the peer's window exceeds the outstanding count by
   more than the packet, and a packet is at most 17 * body + 16 bytes (SerSizeProofs).  This turns the quiet premises of the C02
   workflow theorems into arithmetic on window sizes. *)
From Coq Require Import ZArith Lia ZifyN ZifyBool ZifyNat String.
From RML Require Import Model.Base Model.Chunk Model.ChunkSer Model.Messages Model.SessionCommon Proofs.SerSizeProofs
  Proofs.InteropProofs Proofs.ProtocolFlow Model.Server Model.Client Model.Amf0 Model.Utf8 Model.ChunkDe Proofs.ServerProofs.
Local Open Scope N_scope.

Lemma quiet_of_headroom a b : (forall w, ack_window a = Some w -> ack_since a + lenN b < w) -> quiet a b.
Proof.
  intros H. unfold quiet, ack_step. destruct (ack_window a) as [w|] eqn:E; [|reflexivity]. specialize (H w eq_refl). cbv zeta.
  replace (w <=? u32_sat_add (ack_since a) (N.min (lenN b) 4294967295)) with false; [reflexivity|]. unfold u32_sat_add. lia.
Qed.

Theorem send_message_size ser m ts sid f d b ser' :
  ser_ok ser -> send_message ser m ts sid f d = Ok (b, ser') ->
  exists tid body, to_payload m = Ok (tid, body) /\ lenN b <= 17 * lenN body + 16.
Proof.
  intros Hs Hsend. destruct (send_message_inv _ _ _ _ _ _ _ _ Hsend) as [tid [body [Etp Es]]].
  exists tid, body. split; [exact Etp|]. apply (serialize_size _ _ _ _ _ _ Hs Es).
Qed.

Theorem quiet_when_headroom ser m ts sid f d b ser' a tid body :
  ser_ok ser -> send_message ser m ts sid f d = Ok (b, ser') -> to_payload m = Ok (tid, body) ->
  (forall w, ack_window a = Some w -> ack_since a + 17 * lenN body + 16 < w) -> quiet a b.
Proof.
  intros Hs Hsend Etp H. destruct (send_message_size _ _ _ _ _ _ _ _ Hs Hsend) as [tid' [body' [E' Hl]]].
  rewrite Etp in E'. injection E' as <- <-. apply quiet_of_headroom. intros w Hw. specialize (H w Hw). lia.
Qed.

Lemma ack_step_bound a n : ack_window (fst (ack_step a n)) = ack_window a /\ ack_since (fst (ack_step a n)) <= ack_since a + n.
Proof.
  unfold ack_step. destruct (ack_window a) as [w|] eqn:E; [|cbn [fst]; split; [exact E|lia]]. cbv zeta.
  destruct (w <=? u32_sat_add (ack_since a) (N.min n 4294967295)); cbn [fst ack_window ack_since]; (split; [reflexivity|]); unfold u32_sat_add; lia.
Qed.

Lemma packet_bound ser m ts sid f d b ser' L :
  ser_ok ser -> send_message ser m ts sid f d = Ok (b, ser') ->
  (exists tid body, to_payload m = Ok (tid, body) /\ lenN body <= L) -> lenN b <= 17 * L + 16.
Proof.
  intros Hs Hsend [tid [body [E Hl]]]. destruct (send_message_size _ _ _ _ _ _ _ _ Hs Hsend) as [tid' [body' [E' Hb]]].
  rewrite E in E'. injection E' as <- <-. lia.
Qed.

Lemma headroom_quiet a b P k : (forall w, ack_window a = Some w -> ack_since a + k * P < w) -> 1 <= k -> lenN b <= P -> quiet a b.
Proof. intros H Hk Hb. apply quiet_of_headroom. intros w Hw. specialize (H w Hw). nia. Qed.

(* the bodies of the publish workflow's messages, in terms of the key length *)
Lemma publish_cmd_body key t : lenN key <= 65535 ->
  exists tid body, to_payload (publish_cmd key t) = Ok (tid, body) /\ lenN body <= lenN key + 200.
Proof.
  intros H. unfold to_payload, publish_cmd. cbn [message_body Amf0.serialize Amf0.encode_values Amf0.encode_value obind].
  replace (Amf0.u16_max <? lenN key) with false by (unfold Amf0.u16_max; lia).
  assert (Ht : lenN (type_str t) <= 6 /\ (Amf0.u16_max <? lenN (type_str t)) = false) by (destruct t; split; vm_compute; try reflexivity; discriminate).
  destruct Ht as [Ht1 Ht2]. rewrite Ht2. closed_strs. cbn [obind message_type_id]. eexists. eexists. split; [reflexivity|]. len_norm. lia.
Qed.
Lemma publish_start_body key : lenN key <= 65000 ->
  exists tid body, to_payload (publish_start key) = Ok (tid, body) /\ lenN body <= lenN key + 200.
Proof.
  intros H. unfold publish_start, to_payload, Server.onstatus, status_object. cbn [message_body Amf0.serialize Amf0.encode_values Amf0.encode_value obind].
  replace (Amf0.u16_max <? lenN (str "Successfully started publishing on stream key " ++ key)) with false by (rewrite lenN_app; len_norm; unfold Amf0.u16_max; lia).
  closed_strs. cbn [obind message_type_id]. eexists. eexists. split; [reflexivity|]. len_norm. lia.
Qed.

Lemma create_cmd_body x : exists tid body, to_payload (MAmf0Command (str "createStream") x VNull []) = Ok (tid, body) /\ lenN body <= 200.
Proof. destruct (create_cmd_payload x) as [b [E L]]. exists 20, b. split; [exact E|lia]. Qed.
Lemma create_reply_body x id : exists tid body, to_payload (create_reply x id) = Ok (tid, body) /\ lenN body <= 200.
Proof. destruct (create_reply_payload x id) as [b [E L]]. exists 20, b. split; [exact E|lia]. Qed.
Lemma stream_begin_body id : exists tid body, to_payload (MUserControl StreamBegin (Some id) None None) = Ok (tid, body) /\ lenN body <= 200.
Proof. eexists. eexists. split; [reflexivity|]. cbn [message_body opt0]. len_norm. change (lenN (be32 id)) with 4. lia. Qed.

(* ================================================================ the publish workflow with windows instead of per-call premises *)
(* If each side's announced window exceeds its outstanding count by a few packets' worth (a packet of this exchange is at most
   17 * (|key| + 200) + 16 bytes), no acknowledgement falls due and the exchange is exactly the one listed.  Sessions that have
   not been told a window (ack_window = None) satisfy the premise trivially. *)
Theorem publish_completes_windows c s app key t k1 k2 k3 k4 k5 k6 k7 :
  Link (cl_ser c) (sv_de s) -> Link (sv_ser s) (cl_de c) -> ser_ok (cl_ser c) -> ser_ok (sv_ser s) ->
  cl_state c = Connected -> cl_next_tr c < 4294967296 -> sv_next_stream s < 4294967296 ->
  sv_connected s = true -> sv_app s = Some app -> utf8_valid key = true -> lenN key <= 65000 ->
  k1 < 4294967296 -> k2 < 4294967296 -> k3 < 4294967296 -> k5 < 4294967296 ->
  (forall w, ack_window (sv_ack s) = Some w -> ack_since (sv_ack s) + 2 * (17 * (lenN key + 200) + 16) < w) ->
  (forall w, ack_window (cl_ack c) = Some w -> ack_since (cl_ack c) + 3 * (17 * (lenN key + 200) + 16) < w) ->
  exists c1 b1 s1 b2 c2 b3 s2 s3 b4 b5 c3 c4,
    client_request_publishing c key t k1 = (c1, COk [CPacket b1 false]) /\
    server_handle_input s b1 k2 = (s1, ROk [SPacket b2 false]) /\
    client_handle_input c1 b2 k3 = (c2, COk [CPacket b3 false]) /\
    server_handle_input s1 b3 k4 = (s2, ROk [SEvent (EvPublishRequested (sv_next_req s) app key (mode_of_type t))]) /\
    server_accept s2 (sv_next_req s) k5 = (s3, ROk [SPacket b4 false; SPacket b5 false]) /\
    client_handle_input c2 b4 k6 = (c3, COk []) /\
    client_handle_input c3 b5 k7 = (c4, COk [CEvent CPublishAccepted]) /\
    publishing_stream c4 = Ok (sv_next_stream s) /\ publishing_key s3 (sv_next_stream s) = Some (app, key) /\
    Link (cl_ser c4) (sv_de s3) /\ Link (sv_ser s3) (cl_de c4) /\ ser_ok (cl_ser c4) /\ ser_ok (sv_ser s3) /\ sv_connected s3 = true.
Proof.
  intros HL1 HL2 Hcs Hss Hst Htr Hid Hconn Happ Hkey Hkl K1 K2 K3 K5 HWs HWc.
  set (P := 17 * (lenN key + 200) + 16) in *.
  assert (HP : 17 * 200 + 16 <= P) by (unfold P; lia).
  destruct (create_stream_delivered c s (PurposePublish key t) k1 k2 HL1 Hcs Hss Hst Htr K1)
    as [c1 [b1 [s1 [r2 [Hreq [C1 [C2 [C3 [C4 [C5 [C6 [C7 [C8 [Csend [Hin1 [Ev1 [S1 [S2 [S3 [S4 [S5 [S6 [S7 [S8 [Sack Hq]]]]]]]]]]]]]]]]]]]]]]]]].
  pose proof (packet_bound _ _ _ _ _ _ _ _ 200 Hcs Csend (create_cmd_body _)) as Lb1.
  assert (Q1 : quiet (sv_ack s) b1) by (apply (headroom_quiet _ _ P 2 HWs); lia).
  destruct (Hq Q1) as [b2 [-> Hsend2]].
  pose proof (packet_bound _ _ _ _ _ _ _ _ 200 Hss Hsend2 (create_reply_body _ _)) as Lb2.
  assert (Q2 : quiet (cl_ack c1) b2) by (rewrite C7; apply (headroom_quiet _ _ P 3 HWc); lia).
  destruct (create_result_publish (sv_ser s) (sv_ser s1) b2 c1 (cl_next_tr c) (sv_next_stream s) key t k2 k3
              ltac:(rewrite C3; exact HL2) C8 Htr Hid K2 ltac:(lia) Hsend2 C2) as [c2 [r3 [Hin2 [Ev2 [D1 [D2 [D3 [D4 [D5 [D6 [D7 [Dack Hq']]]]]]]]]]]].
  destruct (Hq' Q2) as [b3 [-> Hsend3]].
  pose proof (packet_bound _ _ _ _ _ _ _ _ (lenN key + 200) C8 Hsend3 (publish_cmd_body key t ltac:(lia))) as Lb3. fold P in Lb3.
  destruct (ack_step_bound (sv_ack s) (lenN b1)) as [Ws1 Ss1].
  assert (Q3 : quiet (sv_ack s1) b3).
  { apply quiet_of_headroom. rewrite Sack, Ws1. intros w Hw. specialize (HWs w Hw). lia. }
  destruct (publish_request_delivered (cl_ser c1) (cl_ser c2) b3 s1 key t (sv_next_stream s) app k3 k4 S7 S8 Hkey Hid K3 Hsend3
              ltac:(rewrite S4; exact Hconn) ltac:(rewrite S1; exact Happ)) as [s2 [r4 [Hin3 [Ev3 [F1 [F2 [F3 [F4 [F5 [F6 [Fack Hq'']]]]]]]]]]].
  rewrite S3 in Ev3, F1. destruct (Hq'' Q3) as [-> Hser2]. rewrite S3 in Hin3.
  destruct (publish_accepted s2 (sv_next_req s) key (mode_of_type t) (sv_next_stream s) StCreated k5 F6 Hkl F1
              ltac:(rewrite F2, S5; apply ChunkSpecProofs.lookup_insert_same))
    as [s3 [b4 [b5 [serm [Hacc [G1 [G2 [G3 [G4 [G5 [G6 [G7 [Hsend4 Hsend5]]]]]]]]]]]]].
  rewrite Hser2 in Hsend4.
  pose proof (packet_bound _ _ _ _ _ _ _ _ 200 S8 Hsend4 (stream_begin_body _)) as Lb4.
  assert (Hserm : ser_ok serm).
  { pose proof (SessionFrame.send_message_total (sv_ser s1) (MUserControl StreamBegin (Some (sv_next_stream s)) None None) k5 (sv_next_stream s) false false S8) as T.
    rewrite Hsend4 in T. exact T. }
  pose proof (packet_bound _ _ _ _ _ _ _ _ (lenN key + 200) Hserm Hsend5 (publish_start_body key Hkl)) as Lb5. fold P in Lb5.
  rewrite C7 in Dack. destruct (ack_step_bound (cl_ack c) (lenN b2)) as [Wc2 Sc2].
  assert (Q4 : quiet (cl_ack c2) b4).
  { apply quiet_of_headroom. rewrite Dack, Wc2. intros w Hw. specialize (HWc w Hw). lia. }
  destruct (stream_begin_ignored (sv_ser s1) serm b4 c2 (sv_next_stream s) k5 k6 D6 D7 Hid K5 Hsend4)
    as [c3 [r6 [Hin4 [Ev4 [H1 [H2 [H3 [H4 [H5 [H6 [H7 [H8 [Hack5 Hq5]]]]]]]]]]]]].
  destruct (Hq5 Q4) as [-> Hser3].
  destruct (ack_step_bound (cl_ack c2) (lenN b4)) as [Wc3 Sc3].
  assert (Q5 : quiet (cl_ack c3) b5).
  { apply quiet_of_headroom. rewrite Hack5, Wc3, Dack, Wc2. intros w Hw. specialize (HWc w Hw). rewrite Dack in Sc3. lia. }
  destruct (publish_start_delivered serm (sv_ser s3) b5 c3 key (sv_next_stream s) k5 k7 H7 H8 Hkey Hid K5 Hsend5 ltac:(rewrite H1; exact D1))
    as [c4 [r7 [Hin5 [Ev5 [I1 [I2 [I3 [I4 [I5 [I6 [Iack Hq7]]]]]]]]]]].
  destruct (Hq7 Q5) as [-> Hser4].
  exists c1, b1, s1, b2, c2, b3, s2, s3, b4, b5, c3, c4.
  split; [exact Hreq|]. split; [exact Hin1|]. split; [exact Hin2|]. split; [exact Hin3|]. split; [exact Hacc|]. split; [exact Hin4|]. split; [exact Hin5|].
  split; [unfold publishing_stream; rewrite I1, I2, H2, D2; reflexivity|].
  split; [unfold publishing_key; rewrite G3, F3, S1, Happ, G1; reflexivity|].
  split; [rewrite Hser4, Hser3, G5; exact F5|]. split; [exact I5|]. split; [exact I6|]. split; [exact G7|rewrite G4; exact F4].
Qed.

(* ================================================================ the play workflow with windows instead of per-call premises *)
Lemma play_cmd_body key : lenN key <= 65535 -> exists tid body, to_payload (play_cmd key) = Ok (tid, body) /\ lenN body <= lenN key + 200.
Proof.
  intros H. unfold to_payload, play_cmd. cbn [message_body Amf0.serialize Amf0.encode_values Amf0.encode_value obind].
  replace (Amf0.u16_max <? lenN key) with false by (unfold Amf0.u16_max; lia). closed_strs. cbn [obind message_type_id].
  eexists. eexists. split; [reflexivity|]. len_norm. lia.
Qed.
Lemma play_start_body key : lenN key <= 65000 -> exists tid body, to_payload (ProtocolFlow.play_start key) = Ok (tid, body) /\ lenN body <= lenN key + 200.
Proof.
  intros H. unfold ProtocolFlow.play_start, to_payload, Server.onstatus, status_object. cbn [message_body Amf0.serialize Amf0.encode_values Amf0.encode_value obind].
  replace (Amf0.u16_max <? lenN (str "Successfully started playback on stream key " ++ key)) with false by (rewrite lenN_app; len_norm; unfold Amf0.u16_max; lia).
  closed_strs. cbn [obind message_type_id]. eexists. eexists. split; [reflexivity|]. len_norm. lia.
Qed.
Lemma buffer_body id bl : exists tid body, to_payload (buffer_msg id bl) = Ok (tid, body) /\ lenN body <= 200.
Proof. eexists. eexists. split; [reflexivity|]. cbn [message_body opt0 buffer_msg]. len_norm. change (lenN (be32 id)) with 4. change (lenN (be32 bl)) with 4. lia. Qed.
Lemma play_reset_body : exists tid body, to_payload play_reset = Ok (tid, body) /\ lenN body <= 200.
Proof. eexists. eexists. split; [vm_compute; reflexivity|vm_compute; discriminate]. Qed.
Lemma sample_access_body : exists tid body, to_payload sample_access = Ok (tid, body) /\ lenN body <= 200.
Proof. eexists. eexists. split; [vm_compute; reflexivity|vm_compute; discriminate]. Qed.
Lemma data_start_body : exists tid body, to_payload data_start = Ok (tid, body) /\ lenN body <= 200.
Proof. eexists. eexists. split; [vm_compute; reflexivity|vm_compute; discriminate]. Qed.

Theorem play_completes_windows c s app key k1 k2 k3 k4 k5 k6 t1 t2 t3 t4 t5 :
  Link (cl_ser c) (sv_de s) -> Link (sv_ser s) (cl_de c) -> ser_ok (cl_ser c) -> ser_ok (sv_ser s) ->
  cl_state c = Connected -> cl_next_tr c < 4294967296 -> sv_next_stream s < 4294967296 -> cc_buffer (cl_cfg c) < 4294967296 ->
  sv_connected s = true -> sv_app s = Some app -> utf8_valid key = true -> lenN key <= 65000 ->
  k1 < 4294967296 -> k2 < 4294967296 -> k3 < 4294967296 -> k6 < 4294967296 ->
  (forall w, ack_window (sv_ack s) = Some w -> ack_since (sv_ack s) + 3 * (17 * (lenN key + 200) + 16) < w) ->
  (forall w, ack_window (cl_ack c) = Some w -> ack_since (cl_ack c) + 6 * (17 * (lenN key + 200) + 16) < w) ->
  exists c1 b1 s1 b2 c2 b3 b4 s2 s3 s4 p1 p2 p3 p4 p5 c3 c4 c5 c6 c7,
    client_request_playback c key k1 = (c1, COk [CPacket b1 false]) /\
    server_handle_input s b1 k2 = (s1, ROk [SPacket b2 false]) /\
    client_handle_input c1 b2 k3 = (c2, COk [CPacket b3 false; CPacket b4 false]) /\
    server_handle_input s1 b3 k4 = (s2, ROk []) /\
    server_handle_input s2 b4 k5 = (s3, ROk [SEvent (EvPlayRequested (sv_next_req s) app key LiveOrRecorded None false (sv_next_stream s))]) /\
    server_accept s3 (sv_next_req s) k6 = (s4, ROk [SPacket p1 false; SPacket p2 false; SPacket p3 false; SPacket p4 false; SPacket p5 false]) /\
    client_handle_input c2 p1 t1 = (c3, COk [CEvent (CUnhandleableStatus (str "NetStream.Play.Reset"))]) /\
    client_handle_input c3 p2 t2 = (c4, COk []) /\
    client_handle_input c4 p3 t3 = (c5, COk [CEvent CPlaybackAccepted]) /\
    client_handle_input c5 p4 t4 = (c6, COk []) /\
    client_handle_input c6 p5 t5 = (c7, COk []) /\
    cl_state c7 = Playing /\ playing_on c7 (sv_next_stream s) /\
    lookup (sv_next_stream s) (sv_streams s4) = Some (StPlaying key) /\ sv_app s4 = Some app /\ sv_connected s4 = true /\
    Link (cl_ser c7) (sv_de s4) /\ Link (sv_ser s4) (cl_de c7) /\ ser_ok (cl_ser c7) /\ ser_ok (sv_ser s4).
Proof.
  intros HL1 HL2 Hcs Hss Hst Htr Hid Hbuf Hconn Happ Hkey Hkl K1 K2 K3 K6 HWs HWc.
  set (P := 17 * (lenN key + 200) + 16) in *.
  assert (HP : 17 * 200 + 16 <= P) by (unfold P; lia).
  unfold client_request_playback.
  destruct (create_stream_delivered c s (PurposePlay key) k1 k2 HL1 Hcs Hss Hst Htr K1)
    as [c1 [b1 [s1 [r2 [Hreq [C1 [C2 [C3 [C4 [C5 [C6 [C7 [C8 [Csend [Hin1 [Ev1 [S1 [S2 [S3 [S4 [S5 [S6 [S7 [S8 [Sack Hq]]]]]]]]]]]]]]]]]]]]]]]]].
  pose proof (packet_bound _ _ _ _ _ _ _ _ 200 Hcs Csend (create_cmd_body _)) as Lb1.
  assert (Q1 : quiet (sv_ack s) b1) by (apply (headroom_quiet _ _ P 3 HWs); lia).
  destruct (Hq Q1) as [b2 [-> Hsend2]].
  pose proof (packet_bound _ _ _ _ _ _ _ _ 200 Hss Hsend2 (create_reply_body _ _)) as Lb2.
  assert (Q2 : quiet (cl_ack c1) b2) by (rewrite C7; apply (headroom_quiet _ _ P 6 HWc); lia).
  destruct (create_result_play (sv_ser s) (sv_ser s1) b2 c1 (cl_next_tr c) (sv_next_stream s) key k2 k3
              ltac:(rewrite C3; exact HL2) C8 Htr Hid K2 ltac:(lia) Hsend2 C2) as [c2 [r3 [Hin2 [Ev2 [D1 [D2 [D3 [D4 [D5 [D6 [D7 [Dack Hq']]]]]]]]]]]].
  rewrite C7 in Dack.
  destruct (Hq' Q2) as [b3 [b4 [serm [-> [Hsend3 Hsend4]]]]].
  pose proof (packet_bound _ _ _ _ _ _ _ _ 200 C8 Hsend3 (buffer_body _ _)) as Lb3.
  assert (Hserm : ser_ok serm).
  { pose proof (SessionFrame.send_message_total (cl_ser c1) (buffer_msg (sv_next_stream s) (cc_buffer (cl_cfg c1))) k3 0 false false C8) as T.
    rewrite Hsend3 in T. exact T. }
  pose proof (packet_bound _ _ _ _ _ _ _ _ (lenN key + 200) Hserm Hsend4 (play_cmd_body key ltac:(lia))) as Lb4. fold P in Lb4.
  destruct (ack_step_bound (sv_ack s) (lenN b1)) as [Ws1 Ss1].
  assert (Q3 : quiet (sv_ack s1) b3).
  { apply quiet_of_headroom. rewrite Sack, Ws1. intros w Hw. specialize (HWs w Hw). lia. }
  destruct (buffer_length_ignored (cl_ser c1) serm b3 s1 (sv_next_stream s) (cc_buffer (cl_cfg c1)) k3 k4 S7 S8 Hid
              ltac:(rewrite C4; exact Hbuf) K3 Hsend3) as [s2 [r4 [Hin3 [Ev3 [[B1 [B2 [B3 [B4 [B5 [B6 [B7 B8]]]]]]] [B9 [B10 [Back Hqb]]]]]]]].
  destruct (Hqb Q3) as [-> Hser2].
  rewrite Sack in Back. destruct (ack_step_bound (fst (ack_step (sv_ack s) (lenN b1))) (lenN b3)) as [Ws2 Ss2].
  assert (Q4 : quiet (sv_ack s2) b4).
  { apply quiet_of_headroom. rewrite Back, Ws2, Ws1. intros w Hw. specialize (HWs w Hw). lia. }
  destruct (play_request_delivered serm (cl_ser c2) b4 s2 key (sv_next_stream s) app k3 k5 B9 B10 Hkey Hid K3 Hsend4
              ltac:(rewrite B4, S4; exact Hconn) ltac:(rewrite B1, S1; exact Happ)) as [s3 [r5 [Hin4 [Ev4 [F1 [F2 [F3 [F4 [F5 [F6 [Fack Hq'']]]]]]]]]]].
  rewrite B3, S3 in Ev4, F1. destruct (Hq'' Q4) as [-> Hser3]. rewrite B3, S3 in Hin4.
  destruct (play_accepted s3 (sv_next_req s) key (sv_next_stream s) StCreated k6 F6 Hkl F1
              ltac:(rewrite F2, B5, S5; apply ChunkSpecProofs.lookup_insert_same))
    as [s4 [p1 [p2 [p3 [p4 [p5 [e1 [e2 [e3 [e4 [Hacc [G1 [G2 [G3 [G4 [G5 [G6 [G7 [N1 [N2 [N3 [N4 N5]]]]]]]]]]]]]]]]]]]]]].
  rewrite Hser3, Hser2 in N1.
  assert (T1 : ser_ok e1) by (pose proof (SessionFrame.send_message_total (sv_ser s1) play_reset k6 (sv_next_stream s) false false S8) as T; rewrite N1 in T; exact T).
  assert (T2 : ser_ok e2) by (pose proof (SessionFrame.send_message_total e1 (MUserControl StreamBegin (Some (sv_next_stream s)) None None) k6 (sv_next_stream s) false false T1) as T; rewrite N2 in T; exact T).
  assert (T3 : ser_ok e3) by (pose proof (SessionFrame.send_message_total e2 (ProtocolFlow.play_start key) k6 (sv_next_stream s) false false T2) as T; rewrite N3 in T; exact T).
  assert (T4 : ser_ok e4) by (pose proof (SessionFrame.send_message_total e3 sample_access k6 (sv_next_stream s) false false T3) as T; rewrite N4 in T; exact T).
  pose proof (packet_bound _ _ _ _ _ _ _ _ 200 S8 N1 play_reset_body) as Lp1.
  pose proof (packet_bound _ _ _ _ _ _ _ _ 200 T1 N2 (stream_begin_body _)) as Lp2.
  pose proof (packet_bound _ _ _ _ _ _ _ _ (lenN key + 200) T2 N3 (play_start_body key Hkl)) as Lp3. fold P in Lp3.
  pose proof (packet_bound _ _ _ _ _ _ _ _ 200 T3 N4 sample_access_body) as Lp4.
  pose proof (packet_bound _ _ _ _ _ _ _ _ 200 T4 N5 data_start_body) as Lp5.
  (* the client's counter, call by call *)
  set (a0 := cl_ack c) in *.
  destruct (ack_step_bound a0 (lenN b2)) as [W1 A1]. set (a1 := fst (ack_step a0 (lenN b2))) in *.
  assert (Q5 : quiet (cl_ack c2) p1).
  { apply quiet_of_headroom. rewrite Dack, W1. intros w Hw. specialize (HWc w Hw). lia. }
  destruct (play_reset_delivered (sv_ser s1) e1 p1 c2 (sv_next_stream s) k6 t1 D6 D7 Hid K6 N1) as [c3 [q1 [X1 [V1 [H1 [H2 [H3 [H4 [H5 [H6 [Hack5 Hq5]]]]]]]]]]].
  destruct (Hq5 Q5) as [-> Hc3]. rewrite Dack in Hack5.
  destruct (ack_step_bound a1 (lenN p1)) as [W2 A2]. set (a2 := fst (ack_step a1 (lenN p1))) in *.
  assert (Q6 : quiet (cl_ack c3) p2).
  { apply quiet_of_headroom. rewrite Hack5, W2, W1. intros w Hw. specialize (HWc w Hw). lia. }
  destruct (stream_begin_ignored e1 e2 p2 c3 (sv_next_stream s) k6 t2 H5 H6 Hid K6 N2) as [c4 [q2 [X2 [V2 [I1 [I2 [I3 [I4 [I5 [I6 [I7 [I8 [Iack Hq6]]]]]]]]]]]]].
  destruct (Hq6 Q6) as [-> Hc4]. rewrite Hack5 in Iack.
  destruct (ack_step_bound a2 (lenN p2)) as [W3 A3]. set (a3 := fst (ack_step a2 (lenN p2))) in *.
  assert (Q7 : quiet (cl_ack c4) p3).
  { apply quiet_of_headroom. rewrite Iack, W3, W2, W1. intros w Hw. specialize (HWc w Hw). lia. }
  destruct (play_start_delivered e2 e3 p3 c4 key (sv_next_stream s) k6 t3 I7 I8 Hkey Hid K6 N3 ltac:(rewrite I1, H1; exact D1))
    as [c5 [q3 [X3 [V3 [J1 [J2 [J3 [J4 [J5 [J6 [Jack Hq7]]]]]]]]]]].
  destruct (Hq7 Q7) as [-> Hc5]. rewrite Iack in Jack.
  destruct (ack_step_bound a3 (lenN p3)) as [W4 A4]. set (a4 := fst (ack_step a3 (lenN p3))) in *.
  assert (Q8 : quiet (cl_ack c5) p4).
  { apply quiet_of_headroom. rewrite Jack, W4, W3, W2, W1. intros w Hw. specialize (HWc w Hw). lia. }
  destruct (data_ignored e3 e4 p4 c5 sample_access (sv_next_stream s) k6 t4 (or_introl eq_refl) J5 J6 Hid K6 N4) as [c6 [q4 [X4 [V4 [L1 [L2 [L3 [L4 [L5 [L6 [Lack Hq8]]]]]]]]]]].
  destruct (Hq8 Q8) as [-> Hc6]. rewrite Jack in Lack.
  destruct (ack_step_bound a4 (lenN p4)) as [W5 A5]. set (a5 := fst (ack_step a4 (lenN p4))) in *.
  assert (Q9 : quiet (cl_ack c6) p5).
  { apply quiet_of_headroom. rewrite Lack, W5, W4, W3, W2, W1. intros w Hw. specialize (HWc w Hw). lia. }
  destruct (data_ignored e4 (sv_ser s4) p5 c6 data_start (sv_next_stream s) k6 t5 (or_intror eq_refl) L5 L6 Hid K6 N5) as [c7 [q5 [X5 [V5 [M1 [M2 [M3 [M4 [M5 [M6 [Mack Hq9]]]]]]]]]]].
  destruct (Hq9 Q9) as [-> Hc7].
  exists c1, b1, s1, b2, c2, b3, b4, s2, s3, s4, p1, p2, p3, p4, p5, c3, c4, c5, c6, c7.
  split; [exact Hreq|]. split; [exact Hin1|]. split; [exact Hin2|]. split; [exact Hin3|]. split; [exact Hin4|]. split; [exact Hacc|].
  split; [exact X1|]. split; [exact X2|]. split; [exact X3|]. split; [exact X4|]. split; [exact X5|].
  assert (Est : cl_state c7 = Playing) by (rewrite M1, L1; exact J1).
  assert (Estr : cl_stream c7 = Some (sv_next_stream s)) by (rewrite M2, L2, J2, I2, H2; exact D2).
  split; [exact Est|]. split; [split; [right; exact Est|exact Estr]|].
  split; [exact G1|]. split; [rewrite G3, F3, B1, S1; exact Happ|]. split; [rewrite G4; exact F4|].
  split; [rewrite Hc7, Hc6, Hc5, Hc4, Hc3, G5; exact F5|]. split; [exact M5|]. split; [exact M6|exact G7].
Qed.
