(* T1: the independent spec decoder reads the serializer's output - with any subset of the droppable
   packets removed - as exactly the messages of the surviving packets.  (C07, C08, spec side of C01/C18) *)
From Coq Require Import ZArith Lia ZifyN ZifyBool ZifyNat.
From RML Require Import Model.Base Model.Time Model.Chunk Model.ChunkSer Gen.Consts Spec.ChunkSpec
  Proofs.BaseProofs Proofs.ChunkSpecProofs.
Ltac Zify.zify_post_hook ::= Z.div_mod_to_equations.
Local Open Scope N_scope.

(* ---------------------------------------------------------------- csid table *)
Lemma lookup_in {A} k (m : list (N * A)) v : lookup k m = Some v -> exists k', In (k', v) m.
Proof.
  induction m as [|[k2 v2] r IH]; [discriminate|]. cbn [lookup]. destruct (k =? k2).
  - intros H; inversion H; subst. exists k2. left. reflexivity.
  - intros H. destruct (IH H) as [k' Hin]. exists k'. right. exact Hin.
Qed.

Lemma csid_table_ok : forallb (fun p => (2 <=? snd p) && (snd p <=? 63)) csid_table = true /\
                      (2 <=? csid_default) && (csid_default <=? 63) = true.
Proof. split; reflexivity. Qed.

Lemma csid_range tid : 2 <= get_csid_for_message_type tid <= 63.
Proof.
  unfold get_csid_for_message_type. destruct csid_table_ok as [Ht Hd].
  destruct (lookup tid csid_table) as [c|] eqn:E.
  - destruct (lookup_in _ _ _ E) as [k' Hin]. rewrite forallb_forall in Ht. specialize (Ht _ Hin). cbn [snd] in Ht. lia.
  - lia.
Qed.

(* ---------------------------------------------------------------- add_chunk writes the encoding of a chunk record *)
Definition chunk_of (f : fmt) (csid : N) (h : shdr) (data : bytes) : chunk :=
  {| c_fmt := fmt_num f; c_csid := csid; c_form := 1; c_field := s_field h;
     c_len := match f with Full | NoSid => s_len h | _ => 0 end;
     c_tid := match f with Full | NoSid => s_tid h | _ => 0 end;
     c_sid := match f with Full => s_sid h | _ => 0 end;
     c_payload := data |}.

Lemma add_chunk_emit st force m cont data drop :
  add_chunk st force m cont data drop =
  let csid := get_csid_for_message_type (m_tid m) in
  let '(f, h) := decide_header st force m cont drop in
  Ok (emit_chunk (chunk_of f csid h data), {| s_prev := insert csid h (s_prev st); s_max := s_max st |}).
Proof.
  unfold add_chunk. cbv zeta. destruct (decide_header st force m cont drop) as [f h].
  pose proof (csid_range (m_tid m)) as Hc. set (csid := get_csid_for_message_type (m_tid m)) in *.
  unfold basic_header.
  replace ((csid <=? 1) || (65600 <=? csid)) with false by lia.
  replace (csid <=? 63) with true by lia.
  f_equal. f_equal.
  unfold emit_chunk, chunk_of, basic_header_bytes, initial_timestamp, length_and_type, stream_id_bytes, extended_timestamp,
    SER_MAX_INITIAL_TIMESTAMP.
  cbn [c_fmt c_csid c_form c_field c_len c_tid c_sid c_payload].
  change (1 =? 1) with true. cbv iota.
  destruct (s_field h <? 16777215) eqn:E; [replace (16777215 <=? s_field h) with false by lia|replace (16777215 <=? s_field h) with true by lia];
    destruct f; cbn [fmt_num N.eqb Pos.eqb app]; rewrite <- ?app_assoc; reflexivity.
Qed.

(* ---------------------------------------------------------------- the simulation invariant *)
Definition hdr_wf (p : shdr) : Prop :=
  s_ts p < 4294967296 /\ s_field p < 4294967296 /\ s_len p < 16777216 /\ s_tid p < 256 /\ s_sid p < 4294967296.

Definition agree (p : shdr) (s : cstream) : Prop :=
  cs_ts s = s_ts p /\ cs_field s = s_field p /\ cs_len s = s_len p /\ cs_tid s = s_tid p /\ cs_sid s = s_sid p.

(* one chunk stream id: the decoder is between messages; a remembered header that the peer certainly saw
   (not droppable) is the header the decoder holds *)
Definition sim1 (sp : option shdr) (ds : option cstream) : Prop :=
  (forall s, ds = Some s -> cs_partial s = []) /\
  (forall p, sp = Some p -> hdr_wf p /\ (s_drop p = false -> exists s, ds = Some s /\ agree p s)).

Definition Sim (sst : sstate) (dst : sdec_state) : Prop :=
  sd_max dst = s_max sst /\ 1 <= s_max sst <= 2147483647 /\
  forall c, sim1 (lookup c (s_prev sst)) (lookup c (sd_cs dst)).

Definition msg_wf (m : msg) : Prop :=
  m_ts m < 4294967296 /\ m_tid m < 256 /\ m_sid m < 4294967296 /\ lenN (m_data m) <= 16777215.

(* the decoder is reassembling m on its chunk stream, [done] received so far *)
Definition Mid (sst : sstate) (dst : sdec_state) (m : msg) (drop : bool) (done : bytes) : Prop :=
  let csid := get_csid_for_message_type (m_tid m) in
  sd_max dst = s_max sst /\ 1 <= s_max sst <= 2147483647 /\
  (forall c, c <> csid -> sim1 (lookup c (s_prev sst)) (lookup c (sd_cs dst))) /\
  exists p s, lookup csid (s_prev sst) = Some p /\ lookup csid (sd_cs dst) = Some s /\ agree p s /\ hdr_wf p /\
    cs_partial s = done /\ done <> [] /\
    s_ts p = m_ts m /\ s_len p = lenN (m_data m) /\ s_tid p = m_tid m /\ s_sid p = m_sid m /\ s_drop p = drop.

Definition with_partial (s : cstream) (d : bytes) : cstream :=
  {| cs_ts := cs_ts s; cs_field := cs_field s; cs_len := cs_len s; cs_tid := cs_tid s; cs_sid := cs_sid s; cs_partial := d |}.

Lemma dec_chunk_intro st c s :
  chunk_wf c = true -> header_after (lookup (c_csid c) (sd_cs st)) c = Some s ->
  lenN (cs_partial s) <= cs_len s -> lenN (c_payload c) = expected_payload (sd_max st) s ->
  dec_chunk st c =
    if lenN (cs_partial s ++ c_payload c) =? cs_len s
    then Some ({| sd_max := sd_max st; sd_cs := insert (c_csid c) (with_partial s []) (sd_cs st) |},
               Some {| m_ts := cs_ts s; m_tid := cs_tid s; m_sid := cs_sid s; m_data := cs_partial s ++ c_payload c |})
    else Some ({| sd_max := sd_max st; sd_cs := insert (c_csid c) (with_partial s (cs_partial s ++ c_payload c)) (sd_cs st) |}, None).
Proof.
  intros Hwf Hh Hl Hp. unfold dec_chunk. rewrite Hwf. cbn [negb]. rewrite Hh.
  replace (lenN (cs_partial s) <=? cs_len s) with true by lia.
  rewrite Hp, N.eqb_refl. reflexivity.
Qed.

Lemma forallb_app_l {A} (f : A -> bool) a b : forallb f (a ++ b) = true -> forallb f a = true.
Proof. rewrite forallb_app. intros H. apply andb_prop in H. tauto. Qed.
Lemma forallb_app_r {A} (f : A -> bool) a b : forallb f (a ++ b) = true -> forallb f b = true.
Proof. rewrite forallb_app. intros H. apply andb_prop in H. tauto. Qed.

Lemma msg_eta m : {| m_ts := m_ts m; m_tid := m_tid m; m_sid := m_sid m; m_data := m_data m |} = m.
Proof. destruct m; reflexivity. Qed.

Lemma tadd_sub a b : a < 4294967296 -> b < 4294967296 -> tadd b (sub_values a b) = a.
Proof. unfold tadd, sub_values, two32. intros. lia. Qed.

Lemma sub_values_lt a b : sub_values a b < 4294967296.
Proof. unfold sub_values, two32. lia. Qed.

Lemma chunk_of_wf f csid h data :
  2 <= csid <= 63 -> hdr_wf h -> chunk_wf (chunk_of f csid h data) = true.
Proof.
  intros Hc [H1 [H2 [H3 [H4 H5]]]]. unfold chunk_wf, chunk_of, form_ok.
  cbn [c_fmt c_csid c_form c_field c_len c_tid c_sid c_payload].
  destruct f; cbn [fmt_num];
    [change (2 <=? 0) with false; change (1 <=? 0) with false
    |change (2 <=? 1) with false; change (1 <=? 1) with true
    |change (2 <=? 2) with true; change (1 <=? 2) with true
    |change (2 <=? 3) with true; change (1 <=? 3) with true]; cbv iota; lia.
Qed.

(* ---------------------------------------------------------------- first chunk of a message *)
Lemma first_chunk sst dst m force drop slice rest_data :
  Sim sst dst -> msg_wf m -> m_data m = slice ++ rest_data ->
  lenN slice = N.min (lenN (m_data m)) (s_max sst) ->
  let csid := get_csid_for_message_type (m_tid m) in
  forall f h, decide_header sst force m false drop = (f, h) ->
  let sst1 := {| s_prev := insert csid h (s_prev sst); s_max := s_max sst |} in
  exists dst1 om, dec_chunk dst (chunk_of f csid h slice) = Some (dst1, om) /\
    ((rest_data = [] /\ om = Some m /\ Sim sst1 dst1) \/
     (rest_data <> [] /\ om = None /\ Mid sst1 dst1 m drop slice)).
Proof.
  intros [Hmax [Hrange Hsim]] [Hts [Htid [Hsid Hlen]]] Hdata Hslice csid f h Hdec sst1.
  pose proof (csid_range (m_tid m)) as Hc. fold csid in Hc.
  destruct (Hsim csid) as [Hnomsg Hprev].
  (* the header the serializer writes, and the decoder's view of it *)
  assert (Hh : hdr_wf h /\ s_ts h = m_ts m /\ s_len h = lenN (m_data m) /\ s_tid h = m_tid m /\ s_sid h = m_sid m /\ s_drop h = drop /\
               exists s, header_after (lookup csid (sd_cs dst)) (chunk_of f csid h slice) = Some s /\
                         agree h s /\ cs_partial s = []).
  { unfold decide_header in Hdec. fold csid in Hdec.
    set (hdr0 := {| s_ts := m_ts m; s_field := 0; s_len := lenN (m_data m); s_tid := m_tid m; s_sid := m_sid m; s_drop := drop |}) in *.
    assert (Hfull : forall ds, (forall s, ds = Some s -> cs_partial s = []) ->
              let hF := with_field hdr0 (s_ts hdr0) in
              hdr_wf hF /\ exists s, header_after ds (chunk_of Full csid hF slice) = Some s /\ agree hF s /\ cs_partial s = []).
    { intros ds Hds hF. split; [unfold hdr_wf, hF, with_field, hdr0; cbn; lia|].
      unfold header_after, chunk_of. cbn [c_fmt c_field c_len c_tid c_sid fmt_num].
      destruct ds as [s0|].
      - unfold in_message. rewrite (Hds s0 eq_refl). change (0 =? 0) with true. cbv iota.
        eexists. split; [reflexivity|]. split; [unfold agree; cbn; repeat split; reflexivity|reflexivity].
      - change (0 =? 0) with true. cbv iota.
        eexists. split; [reflexivity|]. split; [unfold agree; cbn; repeat split; reflexivity|reflexivity]. }
    destruct force.
    - inversion Hdec; subst f h. destruct (Hfull _ Hnomsg) as [Hw Hs].
      split; [exact Hw|]. repeat (split; [reflexivity|]). exact Hs.
    - destruct (lookup csid (s_prev sst)) as [p|] eqn:Ep.
      + destruct (Hprev p eq_refl) as [Hpw Hpa].
        destruct (s_drop p) eqn:Edrop.
        * inversion Hdec; subst f h. destruct (Hfull _ Hnomsg) as [Hw Hs].
          split; [exact Hw|]. repeat (split; [reflexivity|]). exact Hs.
        * destruct (Hpa eq_refl) as [s0 [Hs0 Hag]]. destruct Hag as [A1 [A2 [A3 [A4 A5]]]].
          destruct Hpw as [W1 [W2 [W3 [W4 W5]]]].
          set (hd := with_field hdr0 (sub_values (m_ts m) (s_ts p))) in *.
          assert (Hcase : f = get_header_format hd p /\ h = match f with Full => with_field hd (s_ts hd) | _ => hd end).
          { destruct (get_header_format hd p) eqn:Eg; inversion Hdec; subst; split; reflexivity. }
          destruct Hcase as [Hf Hh]. clear Hdec.
          assert (Hdw : hdr_wf hd) by (unfold hdr_wf, hd, with_field, hdr0; cbn; pose proof (sub_values_lt (m_ts m) (s_ts p)); lia).
          pose proof (Hnomsg s0 Hs0) as Hp0.
          unfold get_header_format in Hf. cbn [s_sid s_tid s_len s_field hd with_field hdr0] in Hf.
          rewrite Hs0. unfold header_after, in_message. rewrite Hp0.
          destruct (negb (m_sid m =? s_sid p)) eqn:E1.
          { subst f. subst h. split; [unfold hdr_wf, hd, with_field, hdr0; cbn; lia|]. repeat (split; [reflexivity|]).
            unfold chunk_of. cbn [c_fmt c_field c_len c_tid c_sid fmt_num]. change (0 =? 0) with true. cbv iota.
            eexists. split; [reflexivity|]. split; [unfold agree; cbn; repeat split; reflexivity|reflexivity]. }
          destruct (negb (m_tid m =? s_tid p) || negb (lenN (m_data m) =? s_len p)) eqn:E2.
          { subst f. subst h. split; [exact Hdw|]. repeat (split; [reflexivity|]).
            unfold chunk_of. cbn [c_fmt c_field c_len c_tid c_sid fmt_num]. change (1 =? 0) with false. change (1 =? 1) with true. cbv iota.
            eexists. split; [reflexivity|]. split; [|reflexivity].
            unfold agree; cbn. rewrite A1. rewrite tadd_sub by assumption. repeat split; try reflexivity. rewrite A5. lia. }
          destruct (negb (sub_values (m_ts m) (s_ts p) =? s_field p)) eqn:E3.
          { subst f. subst h. split; [exact Hdw|]. repeat (split; [reflexivity|]).
            unfold chunk_of. cbn [c_fmt c_field c_len c_tid c_sid fmt_num]. change (2 =? 0) with false. change (2 =? 1) with false. change (2 =? 2) with true. cbv iota.
            eexists. split; [reflexivity|]. split; [|reflexivity].
            unfold agree; cbn. rewrite A1. rewrite tadd_sub by assumption. repeat split; try reflexivity; lia. }
          { subst f. subst h. split; [exact Hdw|]. repeat (split; [reflexivity|]).
            unfold chunk_of. cbn [c_fmt c_field c_len c_tid c_sid fmt_num]. change (3 =? 0) with false. change (3 =? 1) with false. change (3 =? 2) with false. cbv iota.
            cbn [s_field hd with_field].
            assert (Eb : (sub_values (m_ts m) (s_ts p) =? cs_field s0) = true) by lia.
            exists {| cs_ts := tadd (cs_ts s0) (cs_field s0); cs_field := cs_field s0; cs_len := cs_len s0;
                      cs_tid := cs_tid s0; cs_sid := cs_sid s0; cs_partial := [] |}.
            split; [rewrite Eb; reflexivity|]. split; [|reflexivity].
            unfold agree; cbn. rewrite A1, A2.
            replace (s_field p) with (sub_values (m_ts m) (s_ts p)) by lia. rewrite tadd_sub by assumption.
            repeat split; try reflexivity; lia. }
      + inversion Hdec; subst f h. destruct (Hfull _ Hnomsg) as [Hw Hs].
        split; [exact Hw|]. repeat (split; [reflexivity|]). exact Hs. }
  destruct Hh as [Hhw [Ht [Hl [Hti [Hsi [Hdr [s [Hha [Hag Hpart]]]]]]]]].
  destruct Hag as [A1 [A2 [A3 [A4 A5]]]].
  pose proof (chunk_of_wf f csid h slice Hc Hhw) as Hcw.
  assert (Hexp : lenN (c_payload (chunk_of f csid h slice)) = expected_payload (sd_max dst) s).
  { unfold expected_payload, chunk_of. cbn [c_payload]. rewrite Hpart, A3, Hl, Hmax. change (lenN (@nil N)) with 0. rewrite Hslice. lia. }
  rewrite (dec_chunk_intro dst (chunk_of f csid h slice) s Hcw Hha) by (try exact Hexp; rewrite Hpart; change (lenN (@nil N)) with 0; lia).
  rewrite Hpart. cbn [app]. unfold chunk_of at 1 2 3. cbn [c_payload c_csid].
  assert (Hlen2 : lenN (m_data m) = lenN slice + lenN rest_data) by (rewrite Hdata; apply lenN_app).
  destruct rest_data as [|r0 rr].
  - (* the message is complete *)
    rewrite app_nil_r in Hdata. subst slice.
    replace (lenN (m_data m) =? cs_len s) with true by lia.
    eexists. eexists. split; [reflexivity|]. left. split; [reflexivity|]. split.
    + f_equal. rewrite A1, A4, A5, Ht, Hti, Hsi. apply msg_eta.
    + split; [exact Hmax|]. split; [exact Hrange|]. intros c. cbn [s_prev sd_cs sst1].
      destruct (N.eq_dec c csid) as [->|Hne].
      * rewrite !lookup_insert_same. split.
        -- intros s1 Hs1. inversion Hs1. reflexivity.
        -- intros p Hp. inversion Hp; subst p. split; [exact Hhw|]. intros _. eexists. split; [reflexivity|].
           unfold agree, with_partial; cbn. repeat split; assumption.
      * rewrite !lookup_insert_other by assumption. apply Hsim.
  - (* more chunks follow *)
    rewrite lenN_cons in Hlen2.
    replace (lenN slice =? cs_len s) with false by lia.
    eexists. eexists. split; [reflexivity|]. right. split; [discriminate|]. split; [reflexivity|].
    unfold Mid. fold csid. cbn [s_prev sd_cs s_max sd_max sst1].
    split; [exact Hmax|]. split; [exact Hrange|]. split.
    + intros c Hne. rewrite !lookup_insert_other by assumption. apply Hsim.
    + exists h. eexists. rewrite !lookup_insert_same. split; [reflexivity|]. split; [reflexivity|].
      split; [unfold agree, with_partial; cbn; repeat split; assumption|].
      split; [exact Hhw|]. split; [reflexivity|].
      split; [intros E; rewrite E in Hslice; cbn in Hslice; lia|].
      repeat split; assumption.
Qed.

(* ---------------------------------------------------------------- continuation chunks *)
Lemma cont_chunk sst dst m force drop done slice rest_data :
  Mid sst dst m drop done -> msg_wf m -> m_data m = done ++ slice ++ rest_data ->
  lenN slice = N.min (lenN (m_data m) - lenN done) (s_max sst) -> slice <> [] ->
  let csid := get_csid_for_message_type (m_tid m) in
  forall f h, decide_header sst force m true drop = (f, h) ->
  let sst1 := {| s_prev := insert csid h (s_prev sst); s_max := s_max sst |} in
  exists dst1 om, dec_chunk dst (chunk_of f csid h slice) = Some (dst1, om) /\
    ((rest_data = [] /\ om = Some m /\ Sim sst1 dst1) \/
     (rest_data <> [] /\ om = None /\ Mid sst1 dst1 m drop (done ++ slice))).
Proof.
  intros HMid [Hts [Htid [Hsid Hlen]]] Hdata Hslice Hne csid f h Hdec sst1.
  unfold Mid in HMid. fold csid in HMid.
  destruct HMid as [Hmax [Hrange [Hother [p [s [Hp [Hs [Hag [Hpw [Hpart [Hdone [P1 [P2 [P3 [P4 P5]]]]]]]]]]]]]]].
  destruct Hag as [A1 [A2 [A3 [A4 A5]]]]. destruct Hpw as [W1 [W2 [W3 [W4 W5]]]].
  pose proof (csid_range (m_tid m)) as Hc. fold csid in Hc.
  assert (Hinmsg : in_message s = true) by (unfold in_message; rewrite Hpart; destruct done; [contradiction|reflexivity]).
  assert (Hh : hdr_wf h /\ s_ts h = m_ts m /\ s_len h = lenN (m_data m) /\ s_tid h = m_tid m /\ s_sid h = m_sid m /\ s_drop h = drop /\
               exists s', header_after (lookup csid (sd_cs dst)) (chunk_of f csid h slice) = Some s' /\
                          agree h s' /\ cs_partial s' = done).
  { unfold decide_header in Hdec. fold csid in Hdec. rewrite Hp in Hdec. rewrite Hs.
    unfold header_after. rewrite Hinmsg.
    destruct force; inversion Hdec; subst f h; clear Hdec.
    - split; [unfold hdr_wf, with_field; cbn; lia|]. repeat (split; [reflexivity|]).
      unfold chunk_of. cbn [c_fmt c_field c_len c_tid c_sid fmt_num with_field s_field s_len s_tid s_sid s_ts].
      change (0 =? 3) with false. change (0 =? 0) with true. cbv iota.
      replace ((m_ts m =? cs_ts s) && (lenN (m_data m) =? cs_len s) && (m_tid m =? cs_tid s) && (m_sid m =? cs_sid s)) with true by lia.
      eexists. split; [reflexivity|]. split; [|exact Hpart].
      unfold agree; cbn. repeat split; lia.
    - split; [unfold hdr_wf, with_field; cbn; lia|]. repeat (split; [reflexivity|]).
      unfold chunk_of. cbn [c_fmt c_field c_len c_tid c_sid fmt_num with_field s_field s_len s_tid s_sid s_ts].
      change (3 =? 3) with true. cbv iota.
      replace ((s_field p =? cs_field s) || (16777215 <=? s_field p) && (16777215 <=? cs_field s)) with true by lia.
      exists s. split; [reflexivity|]. split; [|exact Hpart].
      unfold agree; cbn. repeat split; lia. }
  destruct Hh as [Hhw [Ht [Hl [Hti [Hsi [Hdr [s' [Hha [Hag' Hpart']]]]]]]]].
  destruct Hag' as [B1 [B2 [B3 [B4 B5]]]].
  pose proof (chunk_of_wf f csid h slice Hc Hhw) as Hcw.
  assert (Hlen2 : lenN (m_data m) = lenN done + lenN slice + lenN rest_data) by (rewrite Hdata, !lenN_app; lia).
  assert (Hexp : lenN (c_payload (chunk_of f csid h slice)) = expected_payload (sd_max dst) s').
  { unfold expected_payload, chunk_of. cbn [c_payload]. rewrite Hpart', B3, Hl, Hmax. exact Hslice. }
  rewrite (dec_chunk_intro dst (chunk_of f csid h slice) s' Hcw Hha) by (try exact Hexp; rewrite Hpart'; lia).
  rewrite Hpart'. unfold chunk_of at 1 2 3. cbn [c_payload c_csid]. rewrite lenN_app.
  destruct rest_data as [|r0 rr].
  - rewrite app_nil_r in Hdata. change (lenN (@nil N)) with 0 in Hlen2.
    replace (lenN done + lenN slice =? cs_len s') with true by lia.
    eexists. eexists. split; [reflexivity|]. left. split; [reflexivity|]. split.
    + f_equal. rewrite B1, B4, B5, Ht, Hti, Hsi, <- Hdata. apply msg_eta.
    + split; [exact Hmax|]. split; [exact Hrange|]. intros c. cbn [s_prev sd_cs sst1].
      destruct (N.eq_dec c csid) as [->|Hnec].
      * rewrite !lookup_insert_same. split.
        -- intros s1 Hs1. inversion Hs1. reflexivity.
        -- intros p' Hp'. inversion Hp'; subst p'. split; [exact Hhw|]. intros _. eexists. split; [reflexivity|].
           unfold agree, with_partial; cbn. repeat split; assumption.
      * rewrite !lookup_insert_other by assumption. apply Hother. exact Hnec.
  - rewrite lenN_cons in Hlen2.
    replace (lenN done + lenN slice =? cs_len s') with false by lia.
    eexists. eexists. split; [reflexivity|]. right. split; [discriminate|]. split; [reflexivity|].
    unfold Mid. fold csid. cbn [s_prev sd_cs s_max sd_max sst1].
    split; [exact Hmax|]. split; [exact Hrange|]. split.
    + intros c Hnec. rewrite !lookup_insert_other by assumption. apply Hother. exact Hnec.
    + exists h. eexists. rewrite !lookup_insert_same. split; [reflexivity|]. split; [reflexivity|].
      split; [unfold agree, with_partial; cbn; repeat split; assumption|].
      split; [exact Hhw|]. split; [reflexivity|].
      split; [intros E; apply app_eq_nil in E; destruct E; contradiction|].
      repeat split; assumption.
Qed.

(* ---------------------------------------------------------------- a whole message *)
Lemma split_at_spec n l a b : split_at n l = (a, b) -> l = a ++ b /\ lenN a = N.min n (lenN l).
Proof.
  revert n a b. induction l as [|x l IH]; intros n a b H.
  - cbn [split_at] in H. destruct (n =? 0); inversion H; subst; split; try reflexivity; cbn; lia.
  - cbn [split_at] in H. destruct (n =? 0) eqn:E.
    + inversion H; subst. split; [reflexivity|]. cbn. lia.
    + destruct (split_at (n - 1) l) as [a' b'] eqn:S. inversion H; subst.
      destruct (IH _ _ _ S) as [-> L]. split; [reflexivity|]. rewrite !lenN_cons. lia.
Qed.

(* chunks that together carry exactly one message, completed by the last chunk *)
Fixpoint dec_one (st : sdec_state) (cs : list chunk) : option (sdec_state * msg) :=
  match cs with
  | [] => None
  | c :: r => match dec_chunk st c with
              | None => None
              | Some (st1, Some m) => match r with [] => Some (st1, m) | _ => None end
              | Some (st1, None) => dec_one st1 r
              end
  end.

Definition frame (sst sst' : sstate) (csid : N) (drop : bool) : Prop :=
  s_max sst' = s_max sst /\
  (forall c, c <> csid -> lookup c (s_prev sst') = lookup c (s_prev sst)) /\
  exists h, lookup csid (s_prev sst') = Some h /\ hdr_wf h /\ s_drop h = drop.

Lemma msg_chunks sl : forall fuel sst dst m force drop idx done remaining bs sst',
  msg_wf m -> m_data m = done ++ remaining -> remaining <> [] ->
  slices fuel (s_max sst) remaining = Some sl ->
  ((idx = 0 /\ done = [] /\ Sim sst dst) \/ (0 < idx /\ Mid sst dst m drop done)) ->
  add_chunks sst force m idx sl drop = Ok (bs, sst') ->
  exists cs dst', bs = map emit_chunk cs /\ dec_one dst cs = Some (dst', m) /\ Sim sst' dst' /\
                  frame sst sst' (get_csid_for_message_type (m_tid m)) drop.
Proof.
  induction sl as [|a r IH]; intros fuel sst dst m force drop idx done remaining bs sst' Hwf Hdata Hne Hsl Hinv Hadd.
  - destruct remaining; [contradiction|]. destruct fuel; cbn [slices] in Hsl; [discriminate|].
    destruct (split_at (s_max sst) (n :: remaining)) as [a0 b0]; destruct (slices fuel (s_max sst) b0); discriminate.
  - destruct remaining as [|r0 rr]; [contradiction|]. destruct fuel as [|fuel]; cbn [slices] in Hsl; [discriminate|].
    destruct (split_at (s_max sst) (r0 :: rr)) as [a' b] eqn:Esp.
    destruct (slices fuel (s_max sst) b) as [r'|] eqn:Esl; [|discriminate]. inversion Hsl; subst a' r'. clear Hsl.
    destruct (split_at_spec _ _ _ _ Esp) as [Hrem Hla].
    cbn [add_chunks] in Hadd. rewrite add_chunk_emit in Hadd. cbv zeta in Hadd.
    destruct (decide_header sst force m (0 <? idx) drop) as [f h] eqn:Edec. cbn [obind] in Hadd.
    set (csid := get_csid_for_message_type (m_tid m)) in *.
    set (sst1 := {| s_prev := insert csid h (s_prev sst); s_max := s_max sst |}) in *.
    destruct (add_chunks sst1 force m (idx + 1) r drop) as [[bs' sst2]|e| |] eqn:Eadd; cbn [obind] in Hadd; try discriminate.
    inversion Hadd; subst bs sst'. clear Hadd.
    assert (Hdata' : m_data m = done ++ a ++ b) by (rewrite Hdata, Hrem; reflexivity).
    assert (Hstep : exists dst1 om, dec_chunk dst (chunk_of f csid h a) = Some (dst1, om) /\
              ((b = [] /\ om = Some m /\ Sim sst1 dst1) \/ (b <> [] /\ om = None /\ Mid sst1 dst1 m drop (done ++ a)))).
    { destruct Hinv as [[Hidx [Hd HSim]]|[Hidx HMid]].
      - subst idx done. cbn [app] in *. change (0 <? 0) with false in Edec.
        apply (first_chunk sst dst m force drop a b HSim Hwf Hdata').
        + rewrite Hla. rewrite Hdata. cbn [app]. lia.
        + exact Edec.
      - replace (0 <? idx) with true in Edec by lia.
        assert (HM := HMid). unfold Mid in HM. destruct HM as [_ [Hrange _]].
        apply (cont_chunk sst dst m force drop done a b HMid Hwf Hdata').
        + rewrite Hla. rewrite Hdata, lenN_app. lia.
        + intros Ea. subst a. change (lenN (@nil N)) with 0 in Hla. rewrite lenN_cons in Hla. lia.
        + exact Edec. }
    destruct Hstep as [dst1 [om [Hdc Hcases]]].
    destruct Hcases as [[Hb [Hom HSim1]]|[Hb [Hom HMid1]]].
    + (* last chunk *)
      subst b om. destruct fuel; cbn [slices] in Esl; inversion Esl; subst r.
      * cbn [add_chunks] in Eadd. inversion Eadd; subst bs' sst2.
        exists [chunk_of f csid h a], dst1. split; [reflexivity|]. split; [cbn [dec_one]; rewrite Hdc; reflexivity|].
        split; [exact HSim1|]. unfold frame, sst1. cbn [s_max s_prev]. split; [reflexivity|]. split.
        -- intros c Hc. apply lookup_insert_other. exact Hc.
        -- exists h. rewrite lookup_insert_same. split; [reflexivity|].
           destruct HSim1 as [_ [_ Hs]]. specialize (Hs csid). cbn [s_prev sst1] in Hs. rewrite lookup_insert_same in Hs.
           destruct Hs as [_ Hs]. destruct (Hs h eq_refl) as [Hw _]. split; [exact Hw|].
           unfold decide_header in Edec. fold csid in Edec.
           destruct force; [inversion Edec; reflexivity|].
           destruct (lookup csid (s_prev sst)) as [p|]; [|inversion Edec; reflexivity].
           destruct (0 <? idx); [inversion Edec; reflexivity|].
           destruct (s_drop p); [inversion Edec; reflexivity|].
           destruct (get_header_format _ p); inversion Edec; reflexivity.
      * cbn [add_chunks] in Eadd. inversion Eadd; subst bs' sst2.
        exists [chunk_of f csid h a], dst1. split; [reflexivity|]. split; [cbn [dec_one]; rewrite Hdc; reflexivity|].
        split; [exact HSim1|]. unfold frame, sst1. cbn [s_max s_prev]. split; [reflexivity|]. split.
        -- intros c Hc. apply lookup_insert_other. exact Hc.
        -- exists h. rewrite lookup_insert_same. split; [reflexivity|].
           destruct HSim1 as [_ [_ Hs]]. specialize (Hs csid). cbn [s_prev sst1] in Hs. rewrite lookup_insert_same in Hs.
           destruct Hs as [_ Hs]. destruct (Hs h eq_refl) as [Hw _]. split; [exact Hw|].
           unfold decide_header in Edec. fold csid in Edec.
           destruct force; [inversion Edec; reflexivity|].
           destruct (lookup csid (s_prev sst)) as [p|]; [|inversion Edec; reflexivity].
           destruct (0 <? idx); [inversion Edec; reflexivity|].
           destruct (s_drop p); [inversion Edec; reflexivity|].
           destruct (get_header_format _ p); inversion Edec; reflexivity.
    + (* more chunks *)
      subst om.
      assert (Hmax1 : s_max sst1 = s_max sst) by reflexivity.
      rewrite <- Hmax1 in Esl.
      destruct (IH fuel sst1 dst1 m force drop (idx + 1) (done ++ a) b bs' sst2 Hwf) as [cs [dst' [Hbs [Hdo [HSim' Hfr]]]]].
      * rewrite <- app_assoc. exact Hdata'.
      * exact Hb.
      * exact Esl.
      * right. split; [lia|exact HMid1].
      * exact Eadd.
      * exists (chunk_of f csid h a :: cs), dst'. split; [cbn [map]; rewrite Hbs; reflexivity|].
        split; [cbn [dec_one]; rewrite Hdc; exact Hdo|]. split; [exact HSim'|].
        destruct Hfr as [F1 [F2 F3]]. unfold frame. split; [rewrite F1; reflexivity|]. split; [|exact F3].
        intros c Hc. rewrite F2 by exact Hc. unfold sst1. cbn [s_prev]. apply lookup_insert_other. exact Hc.
Qed.

Lemma serialize_sim sst dst m force drop b sst' :
  Sim sst dst -> msg_wf m -> serialize sst m force drop = Ok (b, sst') ->
  exists cs dst', b = concat (map emit_chunk cs) /\ dec_one dst cs = Some (dst', m) /\ Sim sst' dst' /\
                  frame sst sst' (get_csid_for_message_type (m_tid m)) drop.
Proof.
  intros HSim Hwf Hser. unfold serialize in Hser.
  assert (Hwf' := Hwf). destruct Hwf' as [_ [_ [_ Hlen]]].
  replace (16777215 <? lenN (m_data m)) with false in Hser by lia.
  destruct (m_data m) as [|d0 dr] eqn:Edata.
  - (* no payload: one header-only chunk *)
    cbn [slices length] in Hser. cbn [add_chunks obind] in Hser. rewrite add_chunk_emit in Hser. cbv zeta in Hser.
    change (0 <? 0) with false in Hser.
    destruct (decide_header sst force m false drop) as [f h] eqn:Edec. cbn [obind concat app] in Hser.
    inversion Hser; subst b sst'. clear Hser.
    set (csid := get_csid_for_message_type (m_tid m)).
    assert (H1 : m_data m = [] ++ []) by (rewrite Edata; reflexivity).
    assert (H2 : lenN (@nil N) = N.min (lenN (m_data m)) (s_max sst)).
    { rewrite Edata. destruct HSim as [_ [Hr _]]. change (lenN (@nil N)) with 0. lia. }
    destruct (first_chunk sst dst m force drop [] [] HSim Hwf H1 H2 f h Edec) as [dst1 [om [Hdc Hc]]].
    + fold csid in Hdc. destruct Hc as [[_ [Hom HS]]|[Hc _]]; [|contradiction]. subst om.
      exists [chunk_of f csid h []], dst1. split; [cbn; rewrite app_nil_r; reflexivity|].
      split; [cbn [dec_one]; rewrite Hdc; reflexivity|]. split; [exact HS|].
      unfold frame. cbn [s_max s_prev]. split; [reflexivity|]. split.
      * intros c Hc. apply lookup_insert_other. exact Hc.
      * exists h. rewrite lookup_insert_same. split; [reflexivity|].
        destruct HS as [_ [_ Hs]]. specialize (Hs csid). cbn [s_prev] in Hs. rewrite lookup_insert_same in Hs.
        destruct Hs as [_ Hs]. destruct (Hs h eq_refl) as [Hw _]. split; [exact Hw|].
        unfold decide_header in Edec. fold csid in Edec.
        destruct force; [inversion Edec; reflexivity|].
        destruct (lookup csid (s_prev sst)) as [p|]; [|inversion Edec; reflexivity].
        destruct (s_drop p); [inversion Edec; reflexivity|].
        destruct (get_header_format _ p); inversion Edec; reflexivity.
  - destruct (slices (length (d0 :: dr)) (s_max sst) (d0 :: dr)) as [sl|] eqn:Esl; [|discriminate].
    assert (Hsl : match sl with [] => [[]] | _ :: _ => sl end = sl).
    { cbn [length slices] in Esl. destruct (split_at (s_max sst) (d0 :: dr)) as [a0 b0].
      destruct (slices (length dr) (s_max sst) b0); inversion Esl; reflexivity. }
    rewrite Hsl in Hser.
    destruct (add_chunks sst force m 0 sl drop) as [[bs sst2]|e| |] eqn:Eadd; cbn [obind] in Hser; try discriminate.
    inversion Hser; subst b sst'. clear Hser.
    destruct (msg_chunks sl (length (d0 :: dr)) sst dst m force drop 0 [] (d0 :: dr) bs sst2 Hwf) as [cs [dst' [Hbs [Hdo [HS Hfr]]]]].
    + rewrite Edata. reflexivity.
    + discriminate.
    + exact Esl.
    + left. split; [reflexivity|]. split; [reflexivity|exact HSim].
    + exact Eadd.
    + exists cs, dst'. rewrite Hbs. split; [reflexivity|]. split; [exact Hdo|]. split; [exact HS|exact Hfr].
Qed.

(* ---------------------------------------------------------------- bytes: the spec decoder's front end *)
Lemma dec_chunk_inv st c st1 om : dec_chunk st c = Some (st1, om) ->
  chunk_wf c = true /\ exists s, header_after (lookup (c_csid c) (sd_cs st)) c = Some s /\
                                 lenN (c_payload c) = expected_payload (sd_max st) s.
Proof.
  unfold dec_chunk. destruct (chunk_wf c); [|discriminate]. cbn [negb].
  destruct (header_after (lookup (c_csid c) (sd_cs st)) c) as [s|]; [|discriminate].
  destruct (lenN (cs_partial s) <=? cs_len s); [|discriminate].
  destruct (lenN (c_payload c) =? expected_payload (sd_max st) s) eqn:E; [|discriminate].
  intros _. split; [reflexivity|]. exists s. split; [reflexivity|]. lia.
Qed.

Lemma emit_nonempty c rest : exists b l, emit_chunk c ++ rest = b :: l.
Proof.
  rewrite emit_chunk_eq. unfold basic_header_bytes.
  destruct (c_form c =? 1); [|destruct (c_form c =? 2)]; cbn [app]; eexists; eexists; reflexivity.
Qed.

Lemma emit_length c : (1 <= length (emit_chunk c))%nat.
Proof.
  rewrite emit_chunk_eq. unfold basic_header_bytes.
  destruct (c_form c =? 1); [|destruct (c_form c =? 2)]; cbn [app length]; lia.
Qed.

Lemma sdec_bytes_chunk f st c rest acc st1 om :
  dec_chunk st c = Some (st1, om) ->
  sdec_bytes (S f) st (emit_chunk c ++ rest) acc =
    match om with
    | None => sdec_bytes f st1 rest acc
    | Some m => match apply_control st1 m with
                | None => (st1, SBad (rev (m :: acc)))
                | Some st2 => sdec_bytes f st2 rest (m :: acc)
                end
    end.
Proof.
  intros Hd. destruct (dec_chunk_inv _ _ _ _ Hd) as [Hwf [s [Hh Hp]]].
  destruct (emit_nonempty c rest) as [b0 [l0 E]].
  cbn [sdec_bytes]. rewrite E. rewrite <- E.
  rewrite (parse_emit st c rest s Hwf Hh Hp). rewrite Hd. destruct om; reflexivity.
Qed.

Lemma sdec_bytes_one cs : forall st st1 m rest acc f,
  dec_one st cs = Some (st1, m) -> (length cs <= f)%nat ->
  sdec_bytes f st (concat (map emit_chunk cs) ++ rest) acc =
    match apply_control st1 m with
    | None => (st1, SBad (rev (m :: acc)))
    | Some st2 => sdec_bytes (f - length cs) st2 rest (m :: acc)
    end.
Proof.
  induction cs as [|c r IH]; intros st st1 m rest acc f Hd Hf; [discriminate|].
  cbn [dec_one] in Hd. destruct (dec_chunk st c) as [[st' om]|] eqn:Edc; [|discriminate].
  destruct f as [|f]; [cbn [length] in Hf; lia|].
  cbn [map concat]. rewrite <- app_assoc. rewrite (sdec_bytes_chunk f st c _ acc st' om Edc).
  destruct om as [m'|].
  - destruct r; [|discriminate]. inversion Hd; subst st' m'. cbn [map concat app length].
    destruct (apply_control st1 m); [|reflexivity]. replace (S f - 1)%nat with f by lia. reflexivity.
  - cbn [length] in Hf. rewrite (IH st' st1 m rest acc f Hd) by lia. cbn [length]. reflexivity.
Qed.

Lemma chunks_length cs : (length cs <= length (concat (map emit_chunk cs)))%nat.
Proof.
  induction cs as [|c r IH]; [reflexivity|]. cbn [map concat length]. rewrite app_length.
  pose proof (emit_length c). lia.
Qed.

(* ---------------------------------------------------------------- runs of operations, with drops *)
Fixpoint select {A} (keep : list bool) (l : list A) : list A :=
  match keep, l with
  | k :: ks, x :: xs => if k then x :: select ks xs else select ks xs
  | _, _ => []
  end.

Definition op_wf (op : ser_op) : Prop :=
  match op with
  | OpMsg m _ _ => msg_wf m /\ m_tid m <> 1
  | OpSize _ ts => ts < 4294967296
  end.

(* a packet may be withheld only if it was returned marked droppable *)
Fixpoint keep_ok (keep : list bool) (ops : list ser_op) : Prop :=
  match keep, ops with
  | [], [] => True
  | k :: ks, op :: r => (k = false -> op_drop op = true) /\ keep_ok ks r
  | _, _ => False
  end.

Lemma be32_bytes n : forallb (fun b => b <? 256) (be32 n) = true.
Proof. unfold be32. cbn [forallb]. lia. Qed.

Lemma step_sim sst dst op b sst' :
  Sim sst dst -> op_wf op -> ser_step sst op = Ok (b, sst') ->
  exists cs dst1 dst2, b = concat (map emit_chunk cs) /\ dec_one dst cs = Some (dst1, op_msg op) /\
                       apply_control dst1 (op_msg op) = Some dst2 /\ Sim sst' dst2 /\
                       (op_drop op = true -> Sim sst' dst).
Proof.
  intros HSim Hwf Hstep. destruct op as [m force drop|n ts]; cbn [ser_step op_msg op_drop op_wf] in *.
  - destruct Hwf as [Hwf Htid].
    destruct (serialize_sim sst dst m force drop b sst' HSim Hwf Hstep) as [cs [dst1 [Hb [Hdo [HS Hfr]]]]].
    exists cs, dst1, dst1. split; [exact Hb|]. split; [exact Hdo|]. split.
    + unfold apply_control. destruct (m_tid m =? 1) eqn:E; [lia|reflexivity].
    + split; [exact HS|]. intros Hdrop. subst drop.
      destruct Hfr as [F1 [F2 [h [F3 [F4 F5]]]]]. destruct HSim as [S1 [S2 S3]].
      split; [rewrite F1; exact S1|]. split; [rewrite F1; exact S2|].
      intros c. destruct (N.eq_dec c (get_csid_for_message_type (m_tid m))) as [->|Hne].
      * rewrite F3. split; [apply (S3 _)|]. intros p Hp. inversion Hp; subst p. split; [exact F4|]. rewrite F5. discriminate.
      * rewrite F2 by exact Hne. apply S3.
  - unfold set_max_chunk_size in Hstep.
    destruct ((n =? 0) || (2147483647 <? n)) eqn:En; [discriminate|].
    set (m := {| m_ts := ts; m_tid := TID_SetChunkSize; m_sid := 0; m_data := be32 n |}) in *.
    destruct (serialize sst m true false) as [[b' sst1]|e| |] eqn:Eser; cbn [obind] in Hstep; try discriminate.
    inversion Hstep; subst b sst'. clear Hstep.
    assert (Hmw : msg_wf m).
    { unfold msg_wf, m, TID_SetChunkSize. cbn [m_ts m_tid m_sid m_data]. change (lenN (be32 n)) with 4.
      split; [exact Hwf|]. split; [lia|]. split; [lia|lia]. }
    destruct (serialize_sim sst dst m true false b' sst1 HSim Hmw Eser) as [cs [dst1 [Hb [Hdo [HS Hfr]]]]].
    exists cs, dst1, {| sd_max := n; sd_cs := sd_cs dst1 |}. split; [exact Hb|]. split; [exact Hdo|]. split.
    + unfold apply_control, m, TID_SetChunkSize. cbn [m_tid m_data]. change (1 =? 1) with true. cbv iota.
      change 4 with (lenN (be32 n)). rewrite <- (app_nil_r (be32 n)). rewrite take_n_app. rewrite app_nil_r.
      rewrite of_be_be32 by lia. replace ((1 <=? n) && (n <=? 2147483647)) with true by lia. reflexivity.
    + split; [|discriminate]. destruct HS as [S1 [S2 S3]]. split; [reflexivity|]. split; [cbn [s_max]; lia|]. exact S3.
Qed.

Lemma run_sim ops : forall keep sst dst packets sst' acc f,
  Sim sst dst -> Forall op_wf ops -> ser_run sst ops = Ok (packets, sst') -> keep_ok keep ops ->
  (length (concat (select keep packets)) < f)%nat ->
  snd (sdec_bytes f dst (concat (select keep packets)) acc) = SOk (rev acc ++ map op_msg (select keep ops)).
Proof.
  induction ops as [|op r IH]; intros keep sst dst packets sst' acc f HSim Hwf Hrun Hkeep Hf.
  - cbn [ser_run] in Hrun. inversion Hrun; subst. destruct keep; [|contradiction].
    cbn [select concat map]. destruct f; [cbn in Hf; lia|]. cbn [sdec_bytes snd]. rewrite app_nil_r. reflexivity.
  - cbn [ser_run] in Hrun. destruct (ser_step sst op) as [[b sst1]|e| |] eqn:Estep; cbn [obind] in Hrun; try discriminate.
    destruct (ser_run sst1 r) as [[bs sst2]|e| |] eqn:Erun; cbn [obind] in Hrun; try discriminate.
    inversion Hrun; subst packets sst'. clear Hrun.
    inversion Hwf as [|? ? Hop Hr]; subst.
    destruct keep as [|k ks]; [contradiction|]. cbn [keep_ok] in Hkeep. destruct Hkeep as [Hk Hks].
    destruct (step_sim sst dst op b sst1 HSim Hop Estep) as [cs [dst1 [dst2 [Hb [Hdo [Hac [HS2 HSd]]]]]]].
    cbn [select] in *. destruct k.
    + cbn [concat map] in *. rewrite Hb in *.
      rewrite (sdec_bytes_one cs dst dst1 (op_msg op) _ acc f Hdo).
      * rewrite Hac. rewrite (IH ks sst1 dst2 bs sst2 (op_msg op :: acc) _ HS2 Hr Erun Hks).
        -- cbn [rev]. rewrite <- app_assoc. reflexivity.
        -- rewrite app_length in Hf. pose proof (chunks_length cs). lia.
      * rewrite app_length in Hf. pose proof (chunks_length cs). lia.
    + apply (IH ks sst1 dst bs sst2 acc f (HSd (Hk eq_refl)) Hr Erun Hks). exact Hf.
Qed.

Lemma Sim_init : Sim ser_init sdec_init.
Proof.
  unfold Sim, ser_init, sdec_init, SER_INITIAL_MAX_CHUNK_SIZE. cbn [s_max sd_max s_prev sd_cs lookup].
  split; [reflexivity|]. split; [lia|]. intros c. split; intros ? H; discriminate.
Qed.

(* T1 *)
Theorem ser_sdec_drop ops keep packets sst' :
  Forall op_wf ops -> ser_run ser_init ops = Ok (packets, sst') -> keep_ok keep ops ->
  sdec (concat (select keep packets)) = SOk (map op_msg (select keep ops)).
Proof.
  intros Hwf Hrun Hkeep. unfold sdec.
  apply (run_sim ops keep ser_init sdec_init packets sst' [] _ Sim_init Hwf Hrun Hkeep). lia.
Qed.

Lemma keep_all_ok ops : keep_ok (map (fun _ => true) ops) ops.
Proof. induction ops as [|op r IH]; cbn; [exact I|]. split; [discriminate|exact IH]. Qed.

Lemma select_all {A B} (ops : list B) (l : list A) : length l = length ops -> select (map (fun _ => true) ops) l = l.
Proof.
  revert l. induction ops as [|op r IH]; intros l H; destruct l; cbn in *; try reflexivity; try discriminate.
  f_equal. apply IH. lia.
Qed.

Lemma ser_run_length ops : forall sst packets sst', ser_run sst ops = Ok (packets, sst') -> length packets = length ops.
Proof.
  induction ops as [|op r IH]; intros sst packets sst' H; cbn [ser_run] in H.
  - inversion H; reflexivity.
  - destruct (ser_step sst op) as [[b s1]|e| |]; cbn [obind] in H; try discriminate.
    destruct (ser_run s1 r) as [[bs s2]|e| |] eqn:E; cbn [obind] in H; try discriminate.
    inversion H; subst. cbn [length]. f_equal. apply (IH _ _ _ E).
Qed.

Theorem ser_sdec ops packets sst' :
  Forall op_wf ops -> ser_run ser_init ops = Ok (packets, sst') ->
  sdec (concat packets) = SOk (map op_msg ops).
Proof.
  intros Hwf Hrun.
  pose proof (ser_sdec_drop ops (map (fun _ => true) ops) packets sst' Hwf Hrun (keep_all_ok ops)) as H.
  rewrite (select_all ops packets) in H by (apply (ser_run_length _ _ _ _ Hrun)).
  rewrite (select_all ops ops) in H by reflexivity. exact H.
Qed.

(* every accepted operation yields a non-empty packet *)
Lemma run_inv ops : forall sst dst packets sst',
  Sim sst dst -> Forall op_wf ops -> ser_run sst ops = Ok (packets, sst') ->
  Forall (fun b => b <> []) packets.
Proof.
  induction ops as [|op r IH]; intros sst dst packets sst' HSim Hwf Hrun; cbn [ser_run] in Hrun.
  - inversion Hrun; subst. constructor.
  - destruct (ser_step sst op) as [[b sst1]|e| |] eqn:Estep; cbn [obind] in Hrun; try discriminate.
    destruct (ser_run sst1 r) as [[bs sst2]|e| |] eqn:Erun; cbn [obind] in Hrun; try discriminate.
    inversion Hrun; subst packets sst'. inversion Hwf as [|? ? Hop Hr]; subst.
    destruct (step_sim sst dst op b sst1 HSim Hop Estep) as [cs [dst1 [dst2 [Hb [Hdo [Hac [HS2 _]]]]]]].
    constructor.
    + subst b. destruct cs as [|c cs']; [discriminate|]. cbn [map concat].
      destruct (emit_nonempty c (concat (map emit_chunk cs'))) as [x [l E]]. rewrite E. discriminate.
    + apply (IH sst1 dst2 bs sst2 HS2 Hr Erun).
Qed.

Theorem packets_nonempty ops packets sst' :
  Forall op_wf ops -> ser_run ser_init ops = Ok (packets, sst') -> Forall (fun b => b <> []) packets.
Proof. intros Hwf Hrun. apply (run_inv ops ser_init sdec_init packets sst' Sim_init Hwf Hrun). Qed.

(* non-vacuity: formats 0, 2, 3 and 1, a split payload, an extended timestamp, a chunk size change, a drop *)
Definition example_ops : list ser_op :=
  [ OpMsg {| m_ts := 10; m_tid := 8; m_sid := 1; m_data := [1; 2; 3] |} false false;
    OpMsg {| m_ts := 20; m_tid := 8; m_sid := 1; m_data := [4; 5; 6] |} false false;
    OpMsg {| m_ts := 30; m_tid := 8; m_sid := 1; m_data := [7; 8; 9] |} false true;
    OpSize 2 0;
    OpMsg {| m_ts := 16777300; m_tid := 8; m_sid := 1; m_data := [1; 2; 3; 4; 5] |} false false;
    OpMsg {| m_ts := 16777301; m_tid := 8; m_sid := 1; m_data := [] |} true false ].

Definition example_mask : list bool := [true; true; false; true; true; true].

Example example_run :
  match ser_run ser_init example_ops with
  | Ok (packets, _) => sdec (concat (select example_mask packets)) = SOk (map op_msg (select example_mask example_ops))
  | _ => False
  end.
Proof. vm_compute. reflexivity. Qed.
