(* Byte codec lemmas shared by all proofs. *)
From Coq Require Import ZArith Lia ZifyN ZifyBool ZifyNat.
From RML Require Import Model.Base.
Ltac Zify.zify_post_hook ::= Z.div_mod_to_equations.
Local Open Scope N_scope.

Lemma lenN_app {A} (a b : list A) : lenN (a ++ b) = lenN a + lenN b.
Proof. unfold lenN. rewrite app_length. lia. Qed.

Lemma lenN_cons {A} (x : A) (l : list A) : lenN (x :: l) = lenN l + 1.
Proof. unfold lenN. cbn [length]. lia. Qed.

Lemma lenN_nil {A} : lenN (@nil A) = 0.
Proof. reflexivity. Qed.

Lemma of_be_be16 n : n < 65536 -> of_be (be16 n) = n.
Proof. intros H. unfold of_be, be16, be_val. lia. Qed.

Lemma of_be_be24 n : n < 16777216 -> of_be (be24 n) = n.
Proof. intros H. unfold of_be, be24, be_val. lia. Qed.

Lemma of_be_be32 n : n < 4294967296 -> of_be (be32 n) = n.
Proof. intros H. unfold of_be, be32, be_val. lia. Qed.

Lemma of_le_le32 n : n < 4294967296 -> of_le (le32 n) = n.
Proof. intros H. unfold of_le, le32, be_val, rev, app. lia. Qed.

Lemma be_val_app a b acc : be_val (a ++ b) acc = be_val b (be_val a acc).
Proof. revert acc. induction a as [|x a IH]; intros acc; cbn [app be_val]; [reflexivity|apply IH]. Qed.

Lemma be_val_be_n k n acc : be_val (be_n k n) acc = acc * 256 ^ (N.of_nat k) + n mod 256 ^ (N.of_nat k).
Proof.
  revert n acc. induction k as [|k IH]; intros n acc.
  - cbn [be_n be_val]. change (N.of_nat 0) with 0. rewrite N.pow_0_r, N.mod_1_r. lia.
  - cbn [be_n]. rewrite be_val_app, IH. cbn [be_val].
    replace (N.of_nat (S k)) with (N.of_nat k + 1) by lia.
    rewrite N.pow_add_r, N.pow_1_r.
    set (P := 256 ^ N.of_nat k). assert (HP : 0 < P) by (apply N.neq_0_lt_0; apply N.pow_nonzero; lia).
    assert (E : n mod (P * 256) = (n / 256) mod P * 256 + n mod 256).
    { rewrite (N.mul_comm P 256). rewrite N.mod_mul_r by lia. lia. }
    rewrite E. lia.
Qed.

Lemma of_be_be64 n : n < 18446744073709551616 -> of_be (be64 n) = n.
Proof.
  intros H. unfold of_be, be64. rewrite be_val_be_n. change (256 ^ N.of_nat 8) with 18446744073709551616.
  rewrite N.mod_small by assumption. lia.
Qed.

Lemma length_be_n k n : length (be_n k n) = k.
Proof. revert n. induction k as [|k IH]; intros n; cbn [be_n]; [reflexivity|]. rewrite app_length, IH. cbn. lia. Qed.

Lemma length_be16 n : length (be16 n) = 2%nat. Proof. reflexivity. Qed.
Lemma length_be24 n : length (be24 n) = 3%nat. Proof. reflexivity. Qed.
Lemma length_be32 n : length (be32 n) = 4%nat. Proof. reflexivity. Qed.
Lemma length_le32 n : length (le32 n) = 4%nat. Proof. reflexivity. Qed.
Lemma length_be64 n : length (be64 n) = 8%nat. Proof. apply length_be_n. Qed.
