(* C02 under arbitrary fragmentation of the publishing direction: the packets a publishing client produces for any sequence of
   items, cut into input calls in ANY way, make the server raise exactly one event per item, in order, byte-exact and tagged.
   = C02_publish_sequence (whole packets) + C15 for the server session. *)
From Coq Require Import ZArith Lia ZifyN ZifyBool ZifyNat.
From RML Require Import Model.Base Model.Chunk Model.ChunkSer Model.ChunkDe Model.Messages Model.SessionCommon Model.Server Model.Client
  Proofs.ChunkDeProofs Proofs.ChunkRefineProofs Proofs.InteropProofs Proofs.ServerProofs Proofs.SessionFrame Proofs.SessionPartition.
Local Open Scope N_scope.

(* the client's side alone: the packets of a sequence of publish calls *)
Fixpoint client_packets (c : client) (items : list item) : option (client * list bytes) :=
  match items with
  | [] => Some (c, [])
  | Item video data ts drop :: r =>
    match client_publish_media video c data ts drop with
    | (c', COk [CPacket b _]) => match client_packets c' r with Some (c2, bs) => Some (c2, b :: bs) | None => None end
    | _ => None
    end
  end.

Lemma publish_run_feed items : forall c s clock c' s' evs evs0,
  publish_run c s items clock = Some (c', s', evs) ->
  exists packets, client_packets c items = Some (c', packets) /\ feed_server s packets clock evs0 = (s', evs0 ++ evs, VOk).
Proof.
  induction items as [|[video data ts drop] r IH]; intros c s clock c' s' evs evs0 H; cbn [publish_run] in H.
  - injection H as <- <- <-. exists []. rewrite app_nil_r. split; reflexivity.
  - cbn [client_packets]. destruct (client_publish_media video c data ts drop) as [c1 r1]. destruct r1 as [rs| |]; try discriminate.
    destruct rs as [|x rs]; try discriminate. destruct x as [b d| |]; try discriminate. destruct rs; try discriminate.
    destruct (server_handle_input s b clock) as [s1 r2] eqn:E2. destruct r2 as [rs2| |]; try discriminate.
    destruct (publish_run c1 s1 r clock) as [[[c2 s2] evs2]|] eqn:E3; try discriminate. injection H as <- <- <-.
    destruct (IH c1 s1 clock c2 s2 evs2 (evs0 ++ events rs2) E3) as [packets [P1 P2]].
    exists (b :: packets). rewrite P1. split; [reflexivity|]. cbn [feed_server]. rewrite E2, P2, app_assoc. reflexivity.
Qed.

Lemma link_quiescent ser de : Link ser de -> G de = (de, DNone).
Proof.
  intros [sd [_ [[Hst _] Hb]]]. destruct de as [max f cur stg buf prev part]. cbn [d_stage d_buf] in *. subst.
  apply (blocked_empty max f cur prev part).
Qed.

Theorem publish_sequence_any_partition items c s clock sid app key pieces :
  Link (cl_ser c) (sv_de s) -> ser_ok (sv_ser s) -> publishing_stream c = Ok sid -> sid < 4294967296 ->
  sv_connected s = true -> publishing_key s sid = Some (app, key) -> Forall item_wf items ->
  exists c' packets s',
    client_packets c items = Some (c', packets) /\
    (concat pieces = concat packets ->
     feed_server s pieces clock [] = (s', map (fun i => match i with Item video data ts _ => media_event video app key data ts end) items, VOk)).
Proof.
  intros HL Hser Hps Hsid Hc Hk Hwf.
  destruct (publish_sequence_delivered items c s clock sid app key HL Hser Hps Hsid Hc Hk Hwf) as [c' [s1 Hrun]].
  destruct (publish_run_feed items c s clock c' s1 _ [] Hrun) as [packets [P1 P2]]. rewrite app_nil_l in P2.
  exists c', packets. 
  destruct (feed_server s pieces clock []) as [[s2 e2] v2] eqn:E2.
  exists s2. split; [exact P1|]. intros Hcat.
  pose proof (server_partition_independent s packets pieces clock Hser (link_quiescent _ _ HL) (eq_sym Hcat)) as H.
  cbv zeta in H. rewrite P2, E2 in H. cbn [fst snd] in H. destruct H as [Hv [common [d1 [d2 [C1 [C2 K]]]]]].
  destruct (K eq_refl) as [Z1 [Z2 _]]. subst d1 d2. rewrite !app_nil_r in *. subst common. rewrite <- Hv, <- C2. reflexivity.
Qed.

(* ---------------------------------------------------------------- the playing direction *)
From RML Require Import Proofs.ClientPartition.

Fixpoint server_packets (s : server) (sid : N) (items : list item) : option (server * list bytes) :=
  match items with
  | [] => Some (s, [])
  | Item video data ts drop :: r =>
    match server_send_media video s sid data ts drop with
    | (s', ROk [SPacket b _]) => match server_packets s' sid r with Some (s2, bs) => Some (s2, b :: bs) | None => None end
    | _ => None
    end
  end.

Lemma play_run_feed items : forall s c sid clock s' c' evs evs0,
  play_run s c sid items clock = Some (s', c', evs) ->
  exists packets, server_packets s sid items = Some (s', packets) /\ feed_client c packets clock evs0 = (c', evs0 ++ evs, CVOk).
Proof.
  induction items as [|[video data ts drop] r IH]; intros s c sid clock s' c' evs evs0 H; cbn [play_run] in H.
  - injection H as <- <- <-. exists []. rewrite app_nil_r. split; reflexivity.
  - cbn [server_packets]. destruct (server_send_media video s sid data ts drop) as [s1 r1]. destruct r1 as [rs| |]; try discriminate.
    destruct rs as [|x rs]; try discriminate. destruct x as [b d| |]; try discriminate. destruct rs; try discriminate.
    destruct (client_handle_input c b clock) as [c1 r2] eqn:E2. destruct r2 as [rs2| |]; try discriminate.
    destruct (play_run s1 c1 sid r clock) as [[[s2 c2] evs2]|] eqn:E3; try discriminate. injection H as <- <- <-.
    destruct (IH s1 c1 sid clock s2 c2 evs2 (evs0 ++ cevents rs2) E3) as [packets [P1 P2]].
    exists (b :: packets). rewrite P1. split; [reflexivity|]. cbn [feed_client]. rewrite E2, P2, app_assoc. reflexivity.
Qed.

Theorem play_sequence_any_partition items s c clock sid pieces :
  Link (sv_ser s) (cl_de c) -> ser_ok (cl_ser c) -> playing_on c sid -> sid < 4294967296 -> Forall item_wf items ->
  exists s' packets c',
    server_packets s sid items = Some (s', packets) /\
    (concat pieces = concat packets ->
     feed_client c pieces clock [] = (c', map (fun i => match i with Item video data ts _ => cmedia_event video data ts end) items, CVOk)).
Proof.
  intros HL Hser Hp Hsid Hwf.
  destruct (play_sequence_delivered items s c clock sid HL Hser Hp Hsid Hwf) as [s' [c1 Hrun]].
  destruct (play_run_feed items s c sid clock s' c1 _ [] Hrun) as [packets [P1 P2]]. rewrite app_nil_l in P2.
  exists s', packets.
  destruct (feed_client c pieces clock []) as [[c2 e2] v2] eqn:E2.
  exists c2. split; [exact P1|]. intros Hcat.
  pose proof (client_partition_independent c packets pieces clock Hser (link_quiescent _ _ HL) (eq_sym Hcat)) as H.
  cbv zeta in H. rewrite P2, E2 in H. cbn [fst snd] in H. destruct H as [Hv [common [d1 [d2 [C1 [C2 K]]]]]].
  destruct (K eq_refl) as [Z1 [Z2 _]]. subst d1 d2. rewrite !app_nil_r in *. subst common. rewrite <- Hv, <- C2. reflexivity.
Qed.
