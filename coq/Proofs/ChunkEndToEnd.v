(* T1 ; T2 ; C15: what the library's serializer writes, the library's deserializer reads back - for every operation
   sequence, every subset of withheld droppable packets and every partition of the bytes into input calls. *)
From Coq Require Import ZArith Lia ZifyN ZifyBool ZifyNat.
From RML Require Import Model.Base Model.Time Model.Chunk Model.ChunkSer Model.ChunkDe Gen.Consts Spec.ChunkSpec
  Proofs.BaseProofs Proofs.ChunkSpecProofs Proofs.ChunkSerProofs Proofs.ChunkDeProofs Proofs.ChunkDeFuel Proofs.ChunkRefineProofs.
Local Open Scope N_scope.

Lemma sdec_run_one cs : forall st st1 m st2 r st3 ms,
  dec_one st cs = Some (st1, m) -> apply_control st1 m = Some st2 -> sdec_run st2 r = Some (st3, ms) ->
  sdec_run st (cs ++ r) = Some (st3, m :: ms).
Proof.
  induction cs as [|c cs IH]; intros st st1 m st2 r st3 ms Hd Ha Hr; [discriminate|].
  cbn [dec_one] in Hd. cbn [app sdec_run]. destruct (dec_chunk st c) as [[st' om]|]; [|discriminate].
  destruct om as [m'|].
  - destruct cs; [|discriminate]. injection Hd as -> ->. cbn [app]. rewrite Ha, Hr. reflexivity.
  - apply (IH _ _ _ _ _ _ _ Hd Ha Hr).
Qed.

(* T1 at the level of chunk records *)
Lemma run_sim_records ops : forall keep sst dst packets sst',
  Sim sst dst -> Forall op_wf ops -> ser_run sst ops = Ok (packets, sst') -> keep_ok keep ops ->
  exists cs dst', concat (select keep packets) = concat (map emit_chunk cs) /\
                  sdec_run dst cs = Some (dst', map op_msg (select keep ops)).
Proof.
  induction ops as [|op r IH]; intros keep sst dst packets sst' HSim Hwf Hrun Hkeep.
  - cbn [ser_run] in Hrun. inversion Hrun; subst. destruct keep; [|contradiction].
    exists [], dst. split; reflexivity.
  - cbn [ser_run] in Hrun. destruct (ser_step sst op) as [[b sst1]|e| |] eqn:Estep; cbn [obind] in Hrun; try discriminate.
    destruct (ser_run sst1 r) as [[bs sst2]|e| |] eqn:Erun; cbn [obind] in Hrun; try discriminate.
    inversion Hrun; subst packets sst'. clear Hrun.
    inversion Hwf as [|? ? Hop Hr]; subst.
    destruct keep as [|k ks]; [contradiction|]. cbn [keep_ok] in Hkeep. destruct Hkeep as [Hk Hks].
    destruct (step_sim sst dst op b sst1 HSim Hop Estep) as [cs [dst1 [dst2 [Hb [Hdo [Hac [HS2 HSd]]]]]]].
    cbn [select]. destruct k.
    + destruct (IH ks sst1 dst2 bs sst2 HS2 Hr Erun Hks) as [cs' [dst' [Hc Hs]]].
      exists (cs ++ cs'), dst'. split.
      * cbn [concat]. rewrite Hb, Hc, map_app, concat_app. reflexivity.
      * cbn [map]. apply (sdec_run_one cs dst dst1 (op_msg op) dst2 cs' dst' _ Hdo Hac Hs).
    + apply (IH ks sst1 dst bs sst2 (HSd (Hk eq_refl)) Hr Erun Hks).
Qed.

(* the deserializer on any conformant record stream, with the executable driving loop and no side condition *)
Theorem deserializer_conformance cs sd' ms pieces :
  sdec_run sdec_init cs = Some (sd', ms) -> concat pieces = concat (map emit_chunk cs) ->
  exists s1, feed_all de_init pieces [] = (s1, ms, None).
Proof.
  intros Hrun Hc. pose proof (feed_all_fuel_adequate pieces de_init []) as Hf.
  destruct (feed_all de_init pieces []) as [[s1 ms1] r1] eqn:E. cbn [snd] in Hf.
  destruct (feed_all_refines_sdec cs sd' ms pieces s1 ms1 r1 Hrun Hc E Hf) as [-> ->]. exists s1. reflexivity.
Qed.

(* C01 + C08 + C15 for the library's own pair *)
Theorem roundtrip_any_partition ops keep packets sst' pieces :
  Forall op_wf ops -> ser_run ser_init ops = Ok (packets, sst') -> keep_ok keep ops ->
  concat pieces = concat (select keep packets) ->
  exists s1, feed_all de_init pieces [] = (s1, map op_msg (select keep ops), None).
Proof.
  intros Hwf Hrun Hkeep Hc.
  destruct (run_sim_records ops keep ser_init sdec_init packets sst' Sim_init Hwf Hrun Hkeep) as [cs [dst' [Hb Hs]]].
  apply (deserializer_conformance cs dst' _ pieces Hs). rewrite Hc. exact Hb.
Qed.

Theorem roundtrip_all ops packets sst' pieces :
  Forall op_wf ops -> ser_run ser_init ops = Ok (packets, sst') -> concat pieces = concat packets ->
  exists s1, feed_all de_init pieces [] = (s1, map op_msg ops, None).
Proof.
  intros Hwf Hrun Hc.
  pose proof (roundtrip_any_partition ops (map (fun _ => true) ops) packets sst' pieces Hwf Hrun (keep_all_ok ops)) as H.
  rewrite (select_all ops packets) in H by (apply (ser_run_length _ _ _ _ Hrun)).
  rewrite (select_all ops ops) in H by reflexivity. apply H. exact Hc.
Qed.

(* partition independence without the fuel side conditions *)
Theorem feed_all_partition_independent_total p1 p2 :
  concat p1 = concat p2 ->
  snd (fst (feed_all de_init p1 [])) = snd (fst (feed_all de_init p2 [])) /\
  snd (feed_all de_init p1 []) = snd (feed_all de_init p2 []).
Proof.
  intros Hc. pose proof (feed_all_fuel_adequate p1 de_init []) as H1. pose proof (feed_all_fuel_adequate p2 de_init []) as H2.
  destruct (feed_all de_init p1 []) as [[s1 ms1] r1] eqn:E1. destruct (feed_all de_init p2 []) as [[s2 ms2] r2] eqn:E2.
  cbn [fst snd] in *. apply (feed_all_partition_independent p1 p2 s1 ms1 r1 s2 ms2 r2 Hc E1 E2 H1 H2).
Qed.

(* ---------------------------------------------------------------- C16: interleaved chunk streams *)
From RML Require Import Proofs.InterleaveProofs.

Lemma in_somes_pick {A} (m : A) L : forall os, length os = length L -> In m (somes os) -> exists k, In m (somes (pick k L os)).
Proof.
  induction L as [|c r IH]; intros os Hlen Hin; destruct os as [|o os']; try discriminate; [contradiction|].
  cbn [length] in Hlen. assert (Hl : length os' = length r) by lia.
  destruct o as [x|]; cbn [somes] in Hin.
  - destruct Hin as [-> | Hin].
    + exists (c_csid c). cbn [pick]. rewrite N.eqb_refl. cbn [somes]. left; reflexivity.
    + destruct (IH os' Hl Hin) as [k Hk]. exists k. cbn [pick]. destruct (c_csid c =? k); [cbn [somes]; right; exact Hk|exact Hk].
  - destruct (IH os' Hl Hin) as [k Hk]. exists k. cbn [pick]. destruct (c_csid c =? k); [cbn [somes]; exact Hk|exact Hk].
Qed.

Theorem interleaved_streams L pieces :
  (forall k, exists stk osk, run_nc sdec_init (proj k L) = Some (stk, osk) /\ Forall (fun m => m_tid m <> 1) (somes osk)) ->
  concat pieces = concat (map emit_chunk L) ->
  exists s1 os, length os = length L /\ feed_all de_init pieces [] = (s1, somes os, None) /\
                forall k, exists stk, run_nc sdec_init (proj k L) = Some (stk, pick k L os).
Proof.
  intros Hall Hc.
  assert (Hall' : forall k, run_nc sdec_init (proj k L) <> None).
  { intros k. destruct (Hall k) as [stk [osk [E _]]]. rewrite E. discriminate. }
  destruct (interleave_local L sdec_init Hall') as [st' [os [Hrun [Hlen Hk]]]].
  assert (Hn : Forall (fun m => m_tid m <> 1) (somes os)).
  { apply Forall_forall. intros m Hin. destruct (in_somes_pick m L os Hlen Hin) as [k Hin2].
    destruct (Hall k) as [stk [osk [E Hf]]]. destruct (Hk k) as [stk' [E' _]]. rewrite E in E'. injection E' as _ ->.
    rewrite Forall_forall in Hf. apply Hf. exact Hin2. }
  destruct (deserializer_conformance L st' (somes os) pieces (run_nc_sdec_run L _ _ _ Hrun Hn) Hc) as [s1 Hs1].
  exists s1, os. split; [exact Hlen|]. split; [exact Hs1|]. intros k. destruct (Hk k) as [stk [E _]]. exists stk. exact E.
Qed.

(* the premises are satisfiable: a 200-byte video message on chunk stream 6 with a 150-byte audio message on chunk
   stream 4 interleaved inside it (chunk size 128) *)
Definition ex_v1 := {| c_fmt := 0; c_csid := 6; c_form := 1; c_field := 40; c_len := 200; c_tid := 9; c_sid := 1; c_payload := repeat 7 128 |}.
Definition ex_a1 := {| c_fmt := 0; c_csid := 4; c_form := 1; c_field := 41; c_len := 150; c_tid := 8; c_sid := 1; c_payload := repeat 9 128 |}.
Definition ex_v2 := {| c_fmt := 3; c_csid := 6; c_form := 1; c_field := 40; c_len := 0; c_tid := 0; c_sid := 0; c_payload := repeat 7 72 |}.
Definition ex_a2 := {| c_fmt := 3; c_csid := 4; c_form := 1; c_field := 41; c_len := 0; c_tid := 0; c_sid := 0; c_payload := repeat 9 22 |}.
Definition ex_L := [ex_v1; ex_a1; ex_v2; ex_a2].

Example interleaved_example :
  snd (fst (feed_all de_init [concat (map emit_chunk ex_L)] [])) =
    [ {| m_ts := 40; m_tid := 9; m_sid := 1; m_data := repeat 7 200 |};
      {| m_ts := 41; m_tid := 8; m_sid := 1; m_data := repeat 9 150 |} ] /\
  run_nc sdec_init (proj 6 ex_L) <> None /\ run_nc sdec_init (proj 4 ex_L) <> None.
Proof. vm_compute. split; [reflexivity|split; discriminate]. Qed.
