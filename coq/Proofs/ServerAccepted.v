(* C09: events are tagged with the application name accepted LAST.  Accepting a registered connection request stores exactly that
   request's application name, whatever name an earlier accepted request left behind. *)
From Coq Require Import String.
From RML Require Import Model.Base Model.Amf0 Model.Chunk Model.Messages Model.Float Model.SessionCommon Model.Server Proofs.ServerProofs.
Local Open Scope N_scope.

Lemma accept_connection_stores_app s id app tr clock s' rs :
  lookup id (sv_reqs s) = Some (RConnection app tr) -> server_accept s id clock = (s', ROk rs) ->
  sv_app s' = Some app /\ sv_connected s' = true /\ (exists b, rs = [SPacket b false]) /\
  sv_streams s' = sv_streams s /\ sv_next_stream s' = sv_next_stream s.
Proof.
  intros Hl H. unfold server_accept in H. rewrite Hl in H. cbv zeta iota in H. unfold accept_connection in H. cbv zeta in H.
  destruct (one_packet_spec _ _ _ _ _ _ _ _ H) as [[Ha [_ [_ [Hc [Hst [Hns _]]]]]] [_ [_ Hcase]]].
  cbn [sv_app sv_connected sv_streams sv_next_stream upd_conn upd_reqs] in Ha, Hc, Hst, Hns.
  split; [exact Ha|]. split; [exact Hc|]. split.
  - destruct Hcase as [[b [ser' [_ [Hr _]]]] | [[e [Hr _]] | [Hr _]]]; try discriminate Hr. injection Hr as ->. exists b. reflexivity.
  - split; assumption.
Qed.

(* the refused alternative leaves the registered name alone only in the sense the code has: the packet could not be built, the
   call fails, and no event is raised *)
Lemma accept_connection_failure_no_event s id app tr clock s' e :
  lookup id (sv_reqs s) = Some (RConnection app tr) -> server_accept s id clock = (s', RErr e) -> exists w, e = SWire w.
Proof.
  intros Hl H. unfold server_accept in H. rewrite Hl in H. cbv zeta iota in H. unfold accept_connection in H. cbv zeta in H.
  destruct (one_packet_spec _ _ _ _ _ _ _ _ H) as [_ [_ [_ Hcase]]].
  destruct Hcase as [[b [ser' [_ [Hr _]]]] | [[w [Hr _]] | [Hr _]]]; try discriminate Hr. injection Hr as ->. exists w. reflexivity.
Qed.

(* rejecting a request - of any kind - never connects the session, never changes the application name and never touches a stream *)
Lemma reject_keeps_connection s id code d clock s' r :
  server_reject s id code d clock = (s', r) ->
  sv_app s' = sv_app s /\ sv_connected s' = sv_connected s /\ sv_streams s' = sv_streams s /\ sv_next_stream s' = sv_next_stream s /\
  sv_next_req s' = sv_next_req s.
Proof.
  unfold server_reject. destruct (lookup id (sv_reqs s)) as [req|] eqn:El.
  - cbv zeta. destruct (match req with RConnection _ tr => (tr, 0) | RPublish _ _ sid => (0, sid) | RPlay _ sid => (0, sid) end) as [tr sid].
    intros H. destruct (one_packet_spec _ _ _ _ _ _ _ _ H) as [[Ha [_ [Hn [Hc [Hst [Hns _]]]]]] _].
    cbn [sv_app sv_connected sv_streams sv_next_stream sv_next_req upd_reqs] in Ha, Hc, Hst, Hns, Hn.
    repeat split; assumption.
  - intros H. injection H as <- _. repeat split; reflexivity.
Qed.
