(* C02: a metadata item published by the client is raised by the server as exactly that metadata, under the application name and
   stream key.  AMF0 round trip of the @setDataFrame message (C04) + the metadata mapping (MetadataProofs) + the chunk-layer link. *)
From Coq Require Import ZArith Lia ZifyN ZifyBool ZifyNat String.
From RML Require Import Model.Base Model.Utf8 Model.Chunk Model.ChunkSer Model.ChunkDe Model.Amf0 Model.Messages Model.SessionCommon
  Model.Server Model.Client Spec.Amf0Spec Spec.Amf0Wire
  Proofs.Amf0Proofs Proofs.ChunkSerProofs Proofs.ConfigProofs Proofs.InteropProofs Proofs.MetadataProofs Proofs.SessionPartition.
Local Open Scope N_scope.

Definition md_values (md : metadata) : list value :=
  [VString (str "@setDataFrame"); VString (str "onMetaData"); VObject (metadata_props_client md)].

Lemma md_values_wf md : md_ok md -> enc_ok md -> wf_values (md_values md) /\ expressible_all (md_values md) = true.
Proof.
  intros Hm He. destruct (md_props_wf md Hm He) as [Hw Hx]. unfold md_values. cbn [wf_values expressible_all].
  split; [split; [reflexivity|split; [reflexivity|split; [exact Hw|exact I]]]|]. rewrite Hx. reflexivity.
Qed.

Theorem publish_metadata_delivered c s md clock sclock sid app key :
  Link (cl_ser c) (sv_de s) -> ser_ok (sv_ser s) ->
  publishing_stream c = Ok sid -> sid < 4294967296 -> clock < 4294967296 -> md_ok md -> enc_ok md ->
  sv_connected s = true -> publishing_key s sid = Some (app, key) ->
  (exists e, client_publish_metadata c md clock = (c, CErr e)) \/
  exists b c' s' rs,
    client_publish_metadata c md clock = (c', COk [CPacket b false]) /\
    server_handle_input s b sclock = (s', ROk rs) /\
    events rs = [EvMetadata app key md] /\
    Link (cl_ser c') (sv_de s') /\ ser_ok (sv_ser s') /\ publishing_stream c' = Ok sid /\
    sv_connected s' = true /\ publishing_key s' sid = Some (app, key).
Proof.
  intros HL Hser Hps Hsid Hclk Hm He Hc Hk.
  destruct (md_values_wf md Hm He) as [Hwf Hex].
  destruct (roundtrip (md_values md) Hwf) as [Hrt _]. destruct (Hrt Hex) as [body [Es Ed]].
  unfold client_publish_metadata. rewrite Hps. fold (md_values md). unfold cone_packet, csending, send_message.
  assert (Etp : to_payload (MAmf0Data (md_values md)) = Ok (18, body)).
  { unfold to_payload. cbn [message_body]. rewrite Es. reflexivity. }
  rewrite Etp.
  set (m := {| m_ts := clock; m_tid := 18; m_sid := sid; m_data := body |}).
  pose proof HL as [sd [HSim _]].
  destruct (serialize_refused_or_ok (cl_ser c) m false false (Sim_max _ _ HSim)) as [Hbig Hok].
  destruct (16777215 <? lenN body) eqn:Elen.
  - left. rewrite (Hbig ltac:(cbn [m m_data]; lia)). eexists. reflexivity.
  - right.
    assert (Hwfm : msg_wf m) by (unfold msg_wf, m; cbn [m_ts m_tid m_sid m_data]; repeat split; lia).
    assert (Htid : m_tid m <> 1) by (cbn; lia).
    destruct (link_message (cl_ser c) (sv_de s) m false false HL Hwfm Htid) as [b [ser' [de1 [de3 [Hs [G1 [G2 HL2]]]]]]].
    rewrite Hs.
    (* the server's side *)
    assert (Hmsg : forall s0, sv_connected s0 = true -> publishing_key s0 sid = Some (app, key) ->
                     h_message s0 m sclock = (s0, ROk [SEvent (EvMetadata app key md)])).
    { intros s0 Hc0 Hk0. unfold h_message. cbn [m m_tid m_data m_sid].
      change (of_payload 18 body) with (de_amf0_data body). unfold de_amf0_data, deserialize. rewrite Ed. cbn [obind].
      unfold h_data, md_values. rewrite !bytes_eqb_refl. rewrite Hk0.
      rewrite (metadata_roundtrip_client md Hm). reflexivity. }
    assert (Hloop : forall fuel s0 acc, get_next_message (sv_de s0) b = (de1, DMsg m) -> sv_connected s0 = true ->
                      publishing_key s0 sid = Some (app, key) ->
                      h_loop (S (S fuel)) s0 b sclock acc = (upd_de s0 de3, ROk (acc ++ [SEvent (EvMetadata app key md)]))).
    { intros fuel s0 acc Hg Hc0 Hk0. cbn [h_loop]. rewrite Hg. rewrite (Hmsg (upd_de s0 de1) Hc0 Hk0).
      change (sv_de (upd_de s0 de1)) with de1. rewrite G2. reflexivity. }
    assert (Hsrv : exists s' rs, server_handle_input s b sclock = (s', ROk rs) /\ events rs = [EvMetadata app key md] /\
                     sv_de s' = de3 /\ ser_ok (sv_ser s') /\ sv_connected s' = true /\ publishing_key s' sid = Some (app, key)).
    { unfold server_handle_input.
      destruct (ack_step (sv_ack s) (lenN b)) as [a [n|]].
      - destruct (ack_send_ok (sv_ser s) n sclock Hser) as [bk [ser2 [Ek Hser2]]]. rewrite Ek.
        rewrite (Hloop _ (upd_ack (upd_ser s ser2) a) [SPacket bk false] G1 Hc Hk).
        eexists; eexists. split; [reflexivity|]. repeat split; try assumption; reflexivity.
      - rewrite (Hloop _ (upd_ack s a) [] G1 Hc Hk).
        eexists; eexists. split; [reflexivity|]. repeat split; try assumption; reflexivity. }
    destruct Hsrv as [s' [rs [E1 [E2 [E3 [E4 [E5 E6]]]]]]].
    exists b, (cupd_ser c ser'), s', rs. split; [reflexivity|]. split; [exact E1|]. split; [exact E2|].
    split; [rewrite E3; exact HL2|]. split; [exact E4|]. split; [exact Hps|]. split; [exact E5|exact E6].
Qed.
