(* well-formed UTF-8 stays well-formed when a final ASCII byte is removed (the server strips one trailing '/' of the application name) *)
From Coq Require Import ZArith Lia ZifyN ZifyBool ZifyNat Bool.
From RML Require Import Model.Base Model.Utf8.
Local Open Scope N_scope.

Lemma cont_ascii a : a < 128 -> cont a = false.
Proof. intros H. unfold cont, in_range. lia. Qed.

Lemma utf8_fuel_nil f : utf8_valid_fuel f [] = true.
Proof. destruct f; reflexivity. Qed.

Lemma drop_last_ascii a : a < 128 -> forall f l f',
  (length l <= f)%nat -> (length l + 1 <= f')%nat -> utf8_valid_fuel f' (l ++ [a]) = true -> utf8_valid_fuel f l = true.
Proof.
  intros Ha. pose proof (cont_ascii a Ha) as Hc.
  induction f as [|f IH]; intros l f' Hl Hl' H.
  - destruct l; [reflexivity|cbn in Hl; lia].
  - destruct l as [|b0 r0]; [reflexivity|]. destruct f' as [|f']; [cbn in Hl'; lia|].
    cbn [List.app utf8_valid_fuel] in H |- *. cbn [List.length] in Hl, Hl'.
    destruct (b0 <? 128); [apply (IH r0 f'); [lia|lia|exact H]|].
    destruct (in_range 194 223 b0).
    { destruct r0 as [|b1 r1]; cbn [List.app] in H.
      - rewrite Hc in H. discriminate H.
      - apply andb_prop in H as [H1 H2]. rewrite H1. cbn [andb List.length] in *. apply (IH r1 f'); [lia|lia|exact H2]. }
    destruct (b0 =? 224).
    { destruct r0 as [|b1 [|b2 r2]]; cbn [List.app] in H; try discriminate H.
      - rewrite Hc, andb_false_r in H. discriminate H.
      - apply andb_prop in H as [H1 H2]. rewrite H1. cbn [andb List.length] in *. apply (IH r2 f'); [lia|lia|exact H2]. }
    destruct (in_range 225 236 b0 || in_range 238 239 b0).
    { destruct r0 as [|b1 [|b2 r2]]; cbn [List.app] in H; try discriminate H.
      - rewrite Hc, andb_false_r in H. discriminate H.
      - apply andb_prop in H as [H1 H2]. rewrite H1. cbn [andb List.length] in *. apply (IH r2 f'); [lia|lia|exact H2]. }
    destruct (b0 =? 237).
    { destruct r0 as [|b1 [|b2 r2]]; cbn [List.app] in H; try discriminate H.
      - rewrite Hc, andb_false_r in H. discriminate H.
      - apply andb_prop in H as [H1 H2]. rewrite H1. cbn [andb List.length] in *. apply (IH r2 f'); [lia|lia|exact H2]. }
    destruct (b0 =? 240).
    { destruct r0 as [|b1 [|b2 [|b3 r3]]]; cbn [List.app] in H; try discriminate H.
      - rewrite Hc, andb_false_r in H. discriminate H.
      - apply andb_prop in H as [H1 H2]. rewrite H1. cbn [andb List.length] in *. apply (IH r3 f'); [lia|lia|exact H2]. }
    destruct (in_range 241 243 b0).
    { destruct r0 as [|b1 [|b2 [|b3 r3]]]; cbn [List.app] in H; try discriminate H.
      - rewrite Hc, andb_false_r in H. discriminate H.
      - apply andb_prop in H as [H1 H2]. rewrite H1. cbn [andb List.length] in *. apply (IH r3 f'); [lia|lia|exact H2]. }
    destruct (b0 =? 244).
    { destruct r0 as [|b1 [|b2 [|b3 r3]]]; cbn [List.app] in H; try discriminate H.
      - rewrite Hc, andb_false_r in H. discriminate H.
      - apply andb_prop in H as [H1 H2]. rewrite H1. cbn [andb List.length] in *. apply (IH r3 f'); [lia|lia|exact H2]. }
    discriminate H.
Qed.

Theorem utf8_drop_last_ascii l a : a < 128 -> utf8_valid (l ++ [a]) = true -> utf8_valid l = true.
Proof.
  intros Ha H. unfold utf8_valid in *. apply (drop_last_ascii a Ha (length l) l (length (l ++ [a]))); [lia|rewrite app_length; cbn; lia|exact H].
Qed.
