(* T2: the library's staged deserializer refines the specification decoder: every chunk the spec decoder accepts is
   parsed by the staged parser to the same effect (same completed message, related states).  With C15 (partition
   independence) this gives C06 (foreign conformant streams), C16 (interleaving) and the deserializer half of C01/C08. *)
From Coq Require Import ZArith Lia ZifyN ZifyBool ZifyNat.
From RML Require Import Model.Base Model.Time Model.Chunk Model.ChunkDe Gen.Consts Spec.ChunkSpec
  Proofs.BaseProofs Proofs.ChunkSpecProofs Proofs.ChunkDeProofs.
Ltac Zify.zify_post_hook ::= Z.div_mod_to_equations.
Local Open Scope N_scope.

Definition mk (max : N) (f : fmt) (cur : dhdr) (stg : stage) (buf : bytes) (prev : list (N * dhdr)) (partial : list (N * bytes)) : dstate :=
  {| d_max := max; d_fmt := f; d_cur := cur; d_stage := stg; d_buf := buf; d_prev := prev; d_partial := partial |}.

Definition fmt_of (n : N) : fmt := match n with 0 => Full | 1 => NoSid | 2 => DeltaOnly | _ => Empty end.

(* ---------------------------------------------------------------- stage 1: the basic header *)
Lemma idec_basic fmt csid form rest :
  fmt <= 3 -> form_ok csid form = true ->
  get_format (nth 0 (basic_header_bytes fmt csid form ++ rest) 0) = fmt_of fmt /\
  get_csid (basic_header_bytes fmt csid form ++ rest) = Some (csid, form) /\
  drop_n form (basic_header_bytes fmt csid form ++ rest) = rest /\
  exists b0 r0, basic_header_bytes fmt csid form ++ rest = b0 :: r0.
Proof.
  intros Hf Hform. unfold form_ok in Hform. unfold basic_header_bytes, get_format, get_csid.
  assert (Hfm : forall b, b / 64 = fmt -> match b / 64 with 0 => Full | 1 => NoSid | 2 => DeltaOnly | _ => Empty end = fmt_of fmt).
  { intros b ->. reflexivity. }
  destruct (form =? 1) eqn:E1.
  - assert (form = 1) by lia. subst form. cbn [app nth].
    assert (Hc : 2 <= csid <= 63) by lia.
    split; [apply Hfm; lia|]. split.
    + replace ((fmt * 64 + csid) mod 64) with csid by lia.
      destruct csid as [|p]; [lia|]. destruct p; try reflexivity. lia.
    + split; [cbn [drop_n]; change (1 =? 0) with false; cbv iota; change (1 - 1) with 0; apply drop_n_0|].
      eexists; eexists; reflexivity.
  - destruct (form =? 2) eqn:E2.
    + assert (form = 2) by lia. subst form. cbn [app nth].
      assert (Hc : 64 <= csid <= 319) by lia.
      split; [apply Hfm; lia|]. split.
      * replace ((fmt * 64) mod 64) with 0 by lia. replace (csid - 64 + 64) with csid by lia. reflexivity.
      * split; [cbn [drop_n]; change (2 =? 0) with false; cbv iota; change (2 - 1) with 1; change (1 =? 0) with false; cbv iota; change (1 - 1) with 0; apply drop_n_0|].
        eexists; eexists; reflexivity.
    + assert (form = 3) by lia. subst form. cbn [app nth].
      assert (Hc : 64 <= csid <= 65599) by lia.
      split; [apply Hfm; lia|]. split.
      * replace ((fmt * 64 + 1) mod 64) with 1 by lia.
        replace ((csid - 64) / 256 * 256 + (csid - 64) mod 256 + 64) with csid by lia. reflexivity.
      * split; [cbn [drop_n]; change (3 =? 0) with false; cbv iota; change (3 - 1) with 2; change (2 =? 0) with false; cbv iota;
                change (2 - 1) with 1; change (1 =? 0) with false; cbv iota; change (1 - 1) with 0; apply drop_n_0|].
        eexists; eexists; reflexivity.
Qed.

Definition hdr0 (csid : N) : dhdr := {| d_csid := csid; d_ts := 0; d_field := 0; d_len := 0; d_tid := 0; d_sid := 0 |}.

Lemma st1_full max f cur csid form B prev part :
  form_ok csid form = true ->
  run_stage (mk max f cur StCsid (basic_header_bytes 0 csid form ++ B) prev part) =
  Ok (Success, mk max Full (hdr0 csid) StInitialTimestamp B prev part, None).
Proof.
  intros Hf. destruct (idec_basic 0 csid form B ltac:(lia) Hf) as [H1 [H2 [H3 [b0 [r0 H4]]]]].
  rewrite H4 in H1, H2, H3. cbn [nth] in H1.
  unfold run_stage, mk. cbn [d_stage]. unfold form_header. cbn [d_buf]. rewrite H4.
  cbv beta iota zeta. rewrite H2. cbn [d_fmt set_fmt]. rewrite H1. cbn [fmt_of]. rewrite H3. reflexivity.
Qed.

Lemma st1_prev max f cur fmt csid form B prev part h :
  1 <= fmt <= 3 -> form_ok csid form = true -> lookup csid prev = Some h ->
  run_stage (mk max f cur StCsid (basic_header_bytes fmt csid form ++ B) prev part) =
  Ok (Success, mk max (fmt_of fmt) h StInitialTimestamp B (remove csid prev) part, None).
Proof.
  intros Hfmt Hf Hl. destruct (idec_basic fmt csid form B ltac:(lia) Hf) as [H1 [H2 [H3 [b0 [r0 H4]]]]].
  rewrite H4 in H1, H2, H3. cbn [nth] in H1.
  unfold run_stage, mk. cbn [d_stage]. unfold form_header. cbn [d_buf]. rewrite H4.
  cbv beta iota zeta. rewrite H2. cbn [d_fmt set_fmt d_prev]. rewrite H1, H3, Hl.
  assert (Hc : fmt = 1 \/ fmt = 2 \/ fmt = 3) by lia.
  destruct Hc as [-> | [-> | ->]]; reflexivity.
Qed.

(* ---------------------------------------------------------------- stages 2-5: the message header fields *)
Lemma take3_be24 t B : take_n (be24 t ++ B) 3 = Some (be24 t, B).
Proof. apply take_n_app_len. reflexivity. Qed.
Lemma take4_be32 t B : take_n (be32 t ++ B) 4 = Some (be32 t, B).
Proof. apply take_n_app_len. reflexivity. Qed.
Lemma take4_le32 t B : take_n (le32 t ++ B) 4 = Some (le32 t, B).
Proof. apply take_n_app_len. reflexivity. Qed.

Lemma st2_field max f cur t B prev part :
  f <> Empty -> t < 16777216 ->
  run_stage (mk max f cur StInitialTimestamp (be24 t ++ B) prev part) =
  Ok (Success, mk max f (hdr_with_field (hdr_with_ts cur (match f with Full => t | _ => add_values (d_ts cur) t end)) t)
                 StMessageLength B prev part, None).
Proof.
  intros Hf Ht. unfold run_stage, mk. cbn [d_stage]. unfold get_initial_timestamp. cbn [d_fmt d_buf d_cur].
  rewrite take3_be24. rewrite of_be_be24 by exact Ht. destruct f; try reflexivity. contradiction.
Qed.

Lemma st2_empty max cur B prev part :
  run_stage (mk max Empty cur StInitialTimestamp B prev part) =
  Ok (Success, mk max Empty (if (match lookup (d_csid cur) part with Some p => lenN p | None => 0 end) =? 0
                             then hdr_with_ts cur (add_values (d_ts cur) (d_field cur)) else cur)
                 StMessageLength B prev part, None).
Proof. reflexivity. Qed.

Lemma st3_len max f cur l B prev part :
  (f = Full \/ f = NoSid) -> l < 16777216 ->
  run_stage (mk max f cur StMessageLength (be24 l ++ B) prev part) =
  Ok (Success, mk max f (hdr_with_len cur l) StMessageTypeId B prev part, None).
Proof.
  intros Hf Hl. unfold run_stage, mk. cbn [d_stage]. unfold get_message_length. cbn [d_fmt d_buf d_cur].
  rewrite take3_be24. rewrite of_be_be24 by exact Hl. destruct Hf as [-> | ->]; reflexivity.
Qed.

Lemma st3_skip max f cur B prev part :
  (f = DeltaOnly \/ f = Empty) ->
  run_stage (mk max f cur StMessageLength B prev part) = Ok (Success, mk max f cur StMessageTypeId B prev part, None).
Proof. intros [-> | ->]; reflexivity. Qed.

Lemma st4_tid max f cur t B prev part :
  (f = Full \/ f = NoSid) ->
  run_stage (mk max f cur StMessageTypeId (t :: B) prev part) =
  Ok (Success, mk max f (hdr_with_tid cur t) StMessageStreamId B prev part, None).
Proof. intros [-> | ->]; reflexivity. Qed.

Lemma st4_skip max f cur B prev part :
  (f = DeltaOnly \/ f = Empty) ->
  run_stage (mk max f cur StMessageTypeId B prev part) = Ok (Success, mk max f cur StMessageStreamId B prev part, None).
Proof. intros [-> | ->]; reflexivity. Qed.

Lemma st5_sid max cur s B prev part :
  s < 4294967296 ->
  run_stage (mk max Full cur StMessageStreamId (le32 s ++ B) prev part) =
  Ok (Success, mk max Full (hdr_with_sid cur s) StExtendedTimestamp B prev part, None).
Proof.
  intros Hs. unfold run_stage, mk. cbn [d_stage]. unfold get_message_stream_id. cbn [d_fmt d_buf d_cur].
  rewrite take4_le32. rewrite of_le_le32 by exact Hs. reflexivity.
Qed.

Lemma st5_skip max f cur B prev part :
  f <> Full ->
  run_stage (mk max f cur StMessageStreamId B prev part) = Ok (Success, mk max f cur StExtendedTimestamp B prev part, None).
Proof. intros H. destruct f; try reflexivity. contradiction. Qed.

(* ---------------------------------------------------------------- stage 6: the extended timestamp *)
Lemma st6_none max f cur B prev part :
  d_field cur < 16777215 ->
  run_stage (mk max f cur StExtendedTimestamp B prev part) = Ok (Success, mk max f cur StMessagePayload B prev part, None).
Proof.
  intros H. unfold run_stage, mk. cbn [d_stage]. unfold get_extended_timestamp. cbn [d_cur]. unfold DE_MAX_INITIAL_TIMESTAMP.
  replace (d_field cur <? 16777215) with true by lia. reflexivity.
Qed.

Lemma st6_ext max f cur e B prev part :
  16777215 <= d_field cur -> e < 4294967296 ->
  run_stage (mk max f cur StExtendedTimestamp (be32 e ++ B) prev part) =
  Ok (Success, mk max f
        (match f with
         | Full => hdr_with_ts cur e
         | _ => if (match lookup (d_csid cur) part with Some p => lenN p | None => 0 end) =? 0
                then hdr_with_ts cur (add_values (d_ts cur) (sub_values e 16777215)) else cur
         end) StMessagePayload B prev part, None).
Proof.
  intros H He. unfold run_stage, mk. cbn [d_stage]. unfold get_extended_timestamp. cbn [d_cur d_buf d_fmt]. unfold DE_MAX_INITIAL_TIMESTAMP.
  replace (d_field cur <? 16777215) with false by lia. rewrite take4_be32. rewrite of_be_be32 by exact He.
  destruct f; reflexivity.
Qed.

(* ---------------------------------------------------------------- stage 7: the payload *)
Lemma st7_data max f cur P B prev part :
  let old := match lookup (d_csid cur) part with Some p => p | None => [] end in
  lenN old <= d_len cur -> lenN P = N.min (d_len cur - lenN old) max ->
  run_stage (mk max f cur StMessagePayload (P ++ B) prev part) =
  Ok (Success,
      mk max f dhdr_new StCsid B (insert (d_csid cur) cur prev)
         (if lenN (old ++ P) =? d_len cur then remove (d_csid cur) part else insert (d_csid cur) (old ++ P) part),
      if lenN (old ++ P) =? d_len cur then Some {| m_ts := d_ts cur; m_tid := d_tid cur; m_sid := d_sid cur; m_data := old ++ P |} else None).
Proof.
  intros old Hle HP. unfold run_stage, mk. cbn [d_stage]. unfold get_message_data, partial_len. cbn [d_cur d_buf d_max d_partial d_prev d_fmt].
  subst old. unfold bytes in *. destruct (lookup (d_csid cur) part) as [p|]; cbv beta iota in *.
  - replace (d_len cur <? lenN p) with false by lia. rewrite (take_n_app_len P B _ (eq_sym HP)). reflexivity.
  - change (lenN (@nil N)) with 0 in *. replace (d_len cur <? 0) with false by lia. rewrite (take_n_app_len P B _ (eq_sym HP)). reflexivity.
Qed.

(* ---------------------------------------------------------------- sequences of successful stages *)
Inductive steps : dstate -> dstate -> Prop :=
| steps_refl st : steps st st
| steps_cons st st1 st2 : run_stage st = Ok (Success, st1, None) -> steps st1 st2 -> steps st st2.

Lemma G_step st st' : run_stage st = Ok (Success, st', None) -> G st = G st'.
Proof.
  intros H. pose proof (stage_progress _ _ _ H) as Hp. transitivity (stage_loop (mu st) st').
  - unfold G. cbn [stage_loop]. rewrite H. reflexivity.
  - unfold G. apply loop_fuel_any; lia.
Qed.

Lemma G_steps a b : steps a b -> G a = G b.
Proof. induction 1 as [|st st1 st2 H _ IH]; [reflexivity|]. rewrite (G_step _ _ H). exact IH. Qed.

Lemma G_msg st r st' m : run_stage st = Ok (r, st', Some m) -> G st = (st', DMsg m).
Proof. intros H. unfold G. cbn [stage_loop]. rewrite H. reflexivity. Qed.

(* ---------------------------------------------------------------- the relation between the two decoders' states *)
Definition hdr_of (k : N) (s : cstream) : dhdr :=
  {| d_csid := k; d_ts := cs_ts s; d_field := N.min (cs_field s) 16777215; d_len := cs_len s; d_tid := cs_tid s; d_sid := cs_sid s |}.

Definition rel_at (k : N) (os : option cstream) (prev : list (N * dhdr)) (part : list (N * bytes)) : Prop :=
  match os with
  | Some s => lookup k prev = Some (hdr_of k s) /\ lookup k part = (if in_message s then Some (cs_partial s) else None) /\
              cs_ts s < 4294967296 /\ cs_field s < 4294967296
  | None => lookup k prev = None /\ lookup k part = None
  end.

Definition Rel (sd : sdec_state) (dst : dstate) : Prop :=
  d_stage dst = StCsid /\ d_max dst = sd_max sd /\ 1 <= sd_max sd /\
  forall k, rel_at k (lookup k (sd_cs sd)) (d_prev dst) (d_partial dst).

Definition wf_facts (c : chunk) : Prop :=
  c_fmt c <= 3 /\ form_ok (c_csid c) (c_form c) = true /\ c_field c < 4294967296 /\ c_len c < 16777216 /\
  c_tid c < 256 /\ c_sid c < 4294967296.

Lemma chunk_wf_facts c : chunk_wf c = true -> wf_facts c.
Proof.
  unfold chunk_wf, wf_facts. intros H.
  repeat (apply andb_prop in H; let H2 := fresh "H" in destruct H as [H H2]).
  repeat split; try lia. assumption.
Qed.

Lemma header_after_fmt0 os c s1 :
  c_fmt c = 0 -> header_after os c = Some s1 ->
  cs_ts s1 = c_field c /\ cs_field s1 = c_field c /\ cs_len s1 = c_len c /\ cs_tid s1 = c_tid c /\ cs_sid s1 = c_sid c /\
  cs_partial s1 = match os with Some s => cs_partial s | None => [] end.
Proof.
  intros Hf H. unfold header_after in H. rewrite Hf in H.
  change (0 =? 3) with false in H. change (0 =? 0) with true in H. cbv iota in H.
  destruct os as [s|].
  - destruct (in_message s) eqn:Em.
    + destruct ((c_field c =? cs_ts s) && (c_len c =? cs_len s) && (c_tid c =? cs_tid s) && (c_sid c =? cs_sid s)) eqn:E; [|discriminate].
      injection H as <-. cbn. repeat split; lia.
    + injection H as <-. cbn. repeat split. unfold in_message in Em. destruct (cs_partial s); [reflexivity|discriminate].
  - injection H as <-. cbn. repeat split.
Qed.

Lemma hdr_eq k t fl l ti si s :
  t = cs_ts s -> fl = N.min (cs_field s) 16777215 -> l = cs_len s -> ti = cs_tid s -> si = cs_sid s ->
  {| d_csid := k; d_ts := t; d_field := fl; d_len := l; d_tid := ti; d_sid := si |} = hdr_of k s.
Proof. intros -> -> -> -> ->. reflexivity. Qed.

Lemma lookup_same_or_removed {A} k k' (m : list (N * A)) : k' <> k -> lookup k' (remove k m) = lookup k' m.
Proof. apply lookup_remove_other. Qed.

Ltac hdr_norm :=
  unfold hdr_with_ts, hdr_with_sid, hdr_with_tid, hdr_with_len, hdr_with_field, hdr0;
  cbn [d_csid d_ts d_field d_len d_tid d_sid].

Lemma steps_eq a b : a = b -> steps a b.
Proof. intros ->. apply steps_refl. Qed.

Definition header_goal (os : option cstream) (c : chunk) (s1 : cstream) max f cur prev part B : Prop :=
  exists prev5,
    steps (mk max f cur StCsid (basic_header_bytes (c_fmt c) (c_csid c) (c_form c) ++ fixed_bytes c ++ ext_bytes c ++ B) prev part)
          (mk max (fmt_of (c_fmt c)) (hdr_of (c_csid c) s1) StMessagePayload B prev5 part) /\
    (forall k, k <> c_csid c -> lookup k prev5 = lookup k prev) /\
    cs_ts s1 < 4294967296 /\ cs_field s1 < 4294967296 /\
    cs_partial s1 = match os with Some s => cs_partial s | None => [] end.

Lemma idec_header_fmt0 os c s1 max f cur prev part B :
  wf_facts c -> c_fmt c = 0 -> header_after os c = Some s1 -> header_goal os c s1 max f cur prev part B.
Proof.
  intros [_ [Hform [Hfield [Hlen [Htid Hsid]]]]] Hf Hh.
  destruct (header_after_fmt0 os c s1 Hf Hh) as [E1 [E2 [E3 [E4 [E5 E6]]]]].
  exists prev. split; [|split; [reflexivity|split; [lia|split; [lia|exact E6]]]].
  unfold fixed_bytes, ext_bytes. rewrite Hf. change (0 =? 0) with true. cbv iota. cbn [fmt_of].
  rewrite <- !app_assoc.
  eapply steps_cons; [apply st1_full; exact Hform|].
  eapply steps_cons; [apply st2_field; [discriminate|lia]|].
  eapply steps_cons; [apply st3_len; [left; reflexivity|exact Hlen]|].
  eapply steps_cons; [apply st4_tid; left; reflexivity|].
  eapply steps_cons; [apply st5_sid; exact Hsid|].
  destruct (16777215 <=? c_field c) eqn:Ex.
  - eapply steps_cons; [apply st6_ext; [cbn; lia|exact Hfield]|].
    hdr_norm. rewrite (hdr_eq (c_csid c) _ _ _ _ _ s1); [apply steps_refl|lia..].
  - cbn [app]. eapply steps_cons; [apply st6_none; cbn; lia|].
    hdr_norm. rewrite (hdr_eq (c_csid c) _ _ _ _ _ s1); [apply steps_refl|lia..].
Qed.

Lemma not_in_message_nil s : in_message s = false -> cs_partial s = [].
Proof. unfold in_message. destruct (cs_partial s); [reflexivity|discriminate]. Qed.

Lemma header_after_fmt1 os c s1 :
  c_fmt c = 1 -> header_after os c = Some s1 ->
  exists s, os = Some s /\ in_message s = false /\
    s1 = {| cs_ts := tadd (cs_ts s) (c_field c); cs_field := c_field c; cs_len := c_len c; cs_tid := c_tid c;
            cs_sid := cs_sid s; cs_partial := [] |}.
Proof.
  intros Hf H. unfold header_after in H. rewrite Hf in H.
  change (1 =? 3) with false in H. change (1 =? 0) with false in H. change (1 =? 1) with true in H. cbv iota in H.
  destruct os as [s|]; [|discriminate]. exists s. destruct (in_message s); [discriminate|].
  injection H as <-. repeat split.
Qed.

Lemma header_after_fmt2 os c s1 :
  c_fmt c = 2 -> header_after os c = Some s1 ->
  exists s, os = Some s /\ in_message s = false /\
    s1 = {| cs_ts := tadd (cs_ts s) (c_field c); cs_field := c_field c; cs_len := cs_len s; cs_tid := cs_tid s;
            cs_sid := cs_sid s; cs_partial := [] |}.
Proof.
  intros Hf H. unfold header_after in H. rewrite Hf in H.
  change (2 =? 3) with false in H. change (2 =? 0) with false in H. change (2 =? 1) with false in H. change (2 =? 2) with true in H. cbv iota in H.
  destruct os as [s|]; [|discriminate]. exists s. destruct (in_message s); [discriminate|].
  injection H as <-. repeat split.
Qed.

Lemma ts_delta a t : a < 4294967296 -> t < 4294967296 -> 16777215 <= t ->
  add_values (add_values a 16777215) (sub_values t 16777215) = tadd a t.
Proof. intros Ha Ht Hx. unfold add_values, sub_values, tadd, two32. lia. Qed.

Lemma ts_delta_small a t : add_values a t = tadd a t.
Proof. reflexivity. Qed.

Lemma idec_header_fmt1 os c s1 max f cur prev part B :
  wf_facts c -> c_fmt c = 1 -> rel_at (c_csid c) os prev part -> header_after os c = Some s1 -> header_goal os c s1 max f cur prev part B.
Proof.
  intros [_ [Hform [Hfield [Hlen [Htid Hsid]]]]] Hf Hrel Hh.
  destruct (header_after_fmt1 os c s1 Hf Hh) as [s [-> [Him ->]]].
  cbn [rel_at] in Hrel. rewrite Him in Hrel. destruct Hrel as [Hp [Hpart [Hts Hfl]]].
  exists (remove (c_csid c) prev). split; [|split; [intros k Hk; apply lookup_remove_other; exact Hk|]].
  2:{ cbn [cs_ts cs_field cs_partial]. split; [unfold tadd; lia|split; [lia|symmetry; apply not_in_message_nil; exact Him]]. }
  unfold fixed_bytes, ext_bytes. rewrite Hf. change (1 =? 0) with false. change (1 =? 1) with true. cbv iota. cbn [fmt_of].
  rewrite <- !app_assoc.
  eapply steps_cons; [apply st1_prev; [lia|exact Hform|exact Hp]|].
  eapply steps_cons; [apply st2_field; [discriminate|lia]|].
  eapply steps_cons; [apply st3_len; [right; reflexivity|exact Hlen]|].
  eapply steps_cons; [apply st4_tid; right; reflexivity|].
  eapply steps_cons; [apply st5_skip; discriminate|].
  destruct (16777215 <=? c_field c) eqn:Ex.
  - eapply steps_cons; [apply st6_ext; [cbn; lia|exact Hfield]|].
    apply steps_eq. cbn [fmt_of]. unfold hdr_of. hdr_norm. rewrite Hpart. change (0 =? 0) with true. cbv iota.
    cbn [cs_ts cs_field cs_len cs_tid cs_sid]. unfold mk. do 2 f_equal.
    replace (N.min (c_field c) 16777215) with 16777215 by lia. apply ts_delta; lia.
  - cbn [app]. eapply steps_cons; [apply st6_none; cbn; lia|].
    apply steps_eq. cbn [fmt_of]. unfold hdr_of. hdr_norm.
    cbn [cs_ts cs_field cs_len cs_tid cs_sid]. unfold mk. do 2 f_equal.
    replace (N.min (c_field c) 16777215) with (c_field c) by lia. reflexivity.
Qed.

Lemma idec_header_fmt2 os c s1 max f cur prev part B :
  wf_facts c -> c_fmt c = 2 -> rel_at (c_csid c) os prev part -> header_after os c = Some s1 -> header_goal os c s1 max f cur prev part B.
Proof.
  intros [_ [Hform [Hfield [Hlen [Htid Hsid]]]]] Hf Hrel Hh.
  destruct (header_after_fmt2 os c s1 Hf Hh) as [s [-> [Him ->]]].
  cbn [rel_at] in Hrel. rewrite Him in Hrel. destruct Hrel as [Hp [Hpart [Hts Hfl]]].
  exists (remove (c_csid c) prev). split; [|split; [intros k Hk; apply lookup_remove_other; exact Hk|]].
  2:{ cbn [cs_ts cs_field cs_partial]. split; [unfold tadd; lia|split; [lia|symmetry; apply not_in_message_nil; exact Him]]. }
  unfold fixed_bytes, ext_bytes. rewrite Hf. change (2 =? 0) with false. change (2 =? 1) with false. change (2 =? 2) with true. cbv iota. cbn [fmt_of].
  rewrite <- ?app_assoc.
  eapply steps_cons; [apply st1_prev; [lia|exact Hform|exact Hp]|].
  eapply steps_cons; [apply st2_field; [discriminate|lia]|].
  eapply steps_cons; [apply st3_skip; left; reflexivity|].
  eapply steps_cons; [apply st4_skip; left; reflexivity|].
  eapply steps_cons; [apply st5_skip; discriminate|].
  destruct (16777215 <=? c_field c) eqn:Ex.
  - eapply steps_cons; [apply st6_ext; [cbn; lia|exact Hfield]|].
    apply steps_eq. cbn [fmt_of]. unfold hdr_of. hdr_norm. rewrite Hpart. change (0 =? 0) with true. cbv iota.
    cbn [cs_ts cs_field cs_len cs_tid cs_sid]. unfold mk. do 2 f_equal.
    replace (N.min (c_field c) 16777215) with 16777215 by lia. apply ts_delta; lia.
  - cbn [app]. eapply steps_cons; [apply st6_none; cbn; lia|].
    apply steps_eq. cbn [fmt_of]. unfold hdr_of. hdr_norm.
    cbn [cs_ts cs_field cs_len cs_tid cs_sid]. unfold mk. do 2 f_equal.
    replace (N.min (c_field c) 16777215) with (c_field c) by lia. reflexivity.
Qed.

Lemma in_message_len s : in_message s = true -> lenN (cs_partial s) <> 0.
Proof. unfold in_message. destruct (cs_partial s); [discriminate|]. intros _. rewrite lenN_cons. lia. Qed.

Lemma idec_header_fmt3 os c s1 max f cur prev part B :
  wf_facts c -> c_fmt c = 3 -> rel_at (c_csid c) os prev part -> header_after os c = Some s1 -> header_goal os c s1 max f cur prev part B.
Proof.
  intros [_ [Hform [Hfield [Hlen [Htid Hsid]]]]] Hf Hrel Hh.
  destruct (header_after_fmt3 os c s1 Hf Hh) as [s [-> [Hext Hsame]]].
  cbn [rel_at] in Hrel. destruct Hrel as [Hp [Hpart [Hts Hfl]]].
  exists (remove (c_csid c) prev). split; [|split; [intros k Hk; apply lookup_remove_other; exact Hk|]].
  - unfold fixed_bytes, ext_bytes. rewrite Hf. change (3 =? 0) with false. change (3 =? 1) with false. change (3 =? 2) with false. cbv iota. cbn [fmt_of app].
    eapply steps_cons; [apply st1_prev; [lia|exact Hform|exact Hp]|].
    eapply steps_cons; [apply st2_empty|].
    eapply steps_cons; [apply st3_skip; right; reflexivity|].
    eapply steps_cons; [apply st4_skip; right; reflexivity|].
    eapply steps_cons; [apply st5_skip; discriminate|].
    unfold header_after in Hh. rewrite Hf in Hh.
    change (3 =? 3) with true in Hh. change (3 =? 0) with false in Hh. change (3 =? 1) with false in Hh. change (3 =? 2) with false in Hh. cbv iota in Hh.
    cbn [fmt_of]. unfold hdr_of at 1 2 3 4. hdr_norm. rewrite Hpart.
    destruct (in_message s) eqn:Him.
    + (* continuation chunk: nothing changes *)
      pose proof (in_message_len s Him) as Hne. replace (lenN (cs_partial s) =? 0) with false by lia.
      destruct ((c_field c =? cs_field s) || ((16777215 <=? c_field c) && (16777215 <=? cs_field s))) eqn:E; [|discriminate].
      injection Hh as <-.
      destruct (16777215 <=? c_field c) eqn:Ex.
      * eapply steps_cons; [apply st6_ext; [cbn; lia|exact Hfield]|].
        apply steps_eq. hdr_norm. change (d_csid (hdr_of (c_csid c) s)) with (c_csid c). rewrite Hpart. cbv iota. replace (lenN (cs_partial s) =? 0) with false by lia. reflexivity.
      * cbn [app]. eapply steps_cons; [apply st6_none; cbn; lia|]. apply steps_refl.
    + (* a new message with the preceding delta *)
      change (0 =? 0) with true. cbv iota.
      destruct (c_field c =? cs_field s) eqn:E; [|discriminate]. injection Hh as <-. apply N.eqb_eq in E.
      destruct (16777215 <=? c_field c) eqn:Ex.
      * eapply steps_cons; [apply st6_ext; [cbn; lia|exact Hfield]|].
        apply steps_eq. hdr_norm. rewrite Hpart. change (0 =? 0) with true. cbv iota. unfold hdr_of. hdr_norm.
        cbn [cs_ts cs_field cs_len cs_tid cs_sid]. unfold mk. do 2 f_equal.
        rewrite E. replace (N.min (cs_field s) 16777215) with 16777215 by lia. apply ts_delta; lia.
      * cbn [app]. eapply steps_cons; [apply st6_none; cbn; lia|].
        apply steps_eq. unfold hdr_of. hdr_norm. cbn [cs_ts cs_field cs_len cs_tid cs_sid]. unfold mk. do 2 f_equal.
        replace (N.min (cs_field s) 16777215) with (cs_field s) by lia. reflexivity.
  - unfold header_after in Hh. rewrite Hf in Hh.
    change (3 =? 3) with true in Hh. change (3 =? 0) with false in Hh. change (3 =? 1) with false in Hh. change (3 =? 2) with false in Hh. cbv iota in Hh.
    destruct (in_message s) eqn:Him.
    + destruct ((c_field c =? cs_field s) || ((16777215 <=? c_field c) && (16777215 <=? cs_field s))); [|discriminate].
      injection Hh as <-. repeat split; lia.
    + destruct (c_field c =? cs_field s); [|discriminate]. injection Hh as <-. cbn [cs_ts cs_field cs_partial].
      split; [unfold tadd; lia|split; [lia|symmetry; apply not_in_message_nil; exact Him]].
Qed.

Lemma idec_header os c s1 max f cur prev part B :
  wf_facts c -> rel_at (c_csid c) os prev part -> header_after os c = Some s1 -> header_goal os c s1 max f cur prev part B.
Proof.
  intros Hwf Hrel Hh. pose proof Hwf as [Hf _].
  assert (Hc : c_fmt c = 0 \/ c_fmt c = 1 \/ c_fmt c = 2 \/ c_fmt c = 3) by lia.
  destruct Hc as [Hc | [Hc | [Hc | Hc]]].
  - apply idec_header_fmt0; assumption.
  - apply idec_header_fmt1; assumption.
  - apply idec_header_fmt2; assumption.
  - apply idec_header_fmt3; assumption.
Qed.

(* ---------------------------------------------------------------- one chunk *)
Lemma idec_chunk sd c sd' om max f cur prev part rest :
  Rel sd (mk max f cur StCsid (emit_chunk c ++ rest) prev part) ->
  dec_chunk sd c = Some (sd', om) ->
  exists f' prev' part',
    let dst' := mk max f' dhdr_new StCsid rest prev' part' in
    Rel sd' dst' /\
    G (mk max f cur StCsid (emit_chunk c ++ rest) prev part) = match om with Some m => (dst', DMsg m) | None => G dst' end.
Proof.
  intros [_ [Hmax [Hpos Hrel]]] Hd. cbn [d_max d_prev d_partial mk] in Hmax, Hrel.
  unfold dec_chunk in Hd. destruct (chunk_wf c) eqn:Hwf; [|discriminate]. cbn [negb] in Hd.
  destruct (header_after (lookup (c_csid c) (sd_cs sd)) c) as [s1|] eqn:Hh; [|discriminate].
  destruct (lenN (cs_partial s1) <=? cs_len s1) eqn:Hle; [|discriminate].
  destruct (lenN (c_payload c) =? expected_payload (sd_max sd) s1) eqn:Hpl; [|discriminate].
  pose proof (chunk_wf_facts c Hwf) as Hfacts.
  destruct (idec_header _ c s1 max f cur prev part (c_payload c ++ rest) Hfacts (Hrel (c_csid c)) Hh)
    as [prev5 [Hsteps [Hother [Hts [Hfl Hpart1]]]]].
  rewrite emit_chunk_eq. rewrite <- !app_assoc. rewrite (G_steps _ _ Hsteps).
  (* the payload stage *)
  assert (Hold : match lookup (c_csid c) part with Some p => p | None => [] end = cs_partial s1).
  { rewrite Hpart1. pose proof (Hrel (c_csid c)) as Hr. unfold rel_at in Hr.
    destruct (lookup (c_csid c) (sd_cs sd)) as [s|].
    - destruct Hr as [_ [Hr _]]. unfold bytes in *. rewrite Hr. destruct (in_message s) eqn:Him; [reflexivity|].
      symmetry. apply not_in_message_nil. exact Him.
    - destruct Hr as [_ Hr]. unfold bytes in *. rewrite Hr. reflexivity. }
  pose proof (st7_data max (fmt_of (c_fmt c)) (hdr_of (c_csid c) s1) (c_payload c) rest prev5 part) as H7.
  cbn [d_csid d_len d_ts d_tid d_sid hdr_of] in H7. cbv zeta in H7. unfold bytes in *. rewrite Hold in H7.
  unfold expected_payload in Hpl.
  specialize (H7 ltac:(lia) ltac:(lia)).
  set (data := cs_partial s1 ++ c_payload c) in *.
  destruct (lenN data =? cs_len s1) eqn:Hc.
  - (* the message is complete *)
    injection Hd as <- <-.
    eexists; eexists; eexists. cbv zeta. split; [|exact (G_msg _ _ _ _ H7)].
    split; [reflexivity|split; [exact Hmax|split; [exact Hpos|]]]. cbn [sd_cs d_prev d_partial mk].
    intros k. destruct (N.eq_dec k (c_csid c)) as [-> | Hk].
    + unfold rel_at. rewrite !lookup_insert_same. cbn [in_message cs_partial cs_ts cs_field].
      split; [reflexivity|split; [apply lookup_remove_same|split; assumption]].
    + rewrite (lookup_insert_other _ _ _ _ Hk). pose proof (Hrel k) as Hr. unfold rel_at in *.
      destruct (lookup k (sd_cs sd)) as [s|].
      * destruct Hr as [R1 [R2 R3]]. rewrite (lookup_insert_other _ _ _ _ Hk), (Hother k Hk), (lookup_remove_other _ _ _ Hk).
        split; [exact R1|split; [exact R2|exact R3]].
      * destruct Hr as [R1 R2]. rewrite (lookup_insert_other _ _ _ _ Hk), (Hother k Hk), (lookup_remove_other _ _ _ Hk).
        split; assumption.
  - (* more chunks needed *)
    injection Hd as <- <-.
    eexists; eexists; eexists. cbv zeta. split; [|exact (G_step _ _ H7)].
    split; [reflexivity|split; [exact Hmax|split; [exact Hpos|]]]. cbn [sd_cs d_prev d_partial mk].
    intros k. destruct (N.eq_dec k (c_csid c)) as [-> | Hk].
    + unfold rel_at. rewrite !lookup_insert_same. cbn [in_message cs_partial cs_ts cs_field].
      assert (Hne : data <> []).
      { intros Hnil. subst data. apply app_eq_nil in Hnil. destruct Hnil as [N1 N2]. rewrite N1, N2 in *. cbn [app] in *.
        change (lenN (@nil N)) with 0 in *. lia. }
      destruct data as [|d0 dr]; [contradiction|].
      split; [reflexivity|split; [reflexivity|split; assumption]].
    + rewrite (lookup_insert_other _ _ _ _ Hk). pose proof (Hrel k) as Hr. unfold rel_at in *.
      destruct (lookup k (sd_cs sd)) as [s|].
      * destruct Hr as [R1 [R2 R3]]. rewrite !(lookup_insert_other _ _ _ _ Hk), (Hother k Hk).
        split; [exact R1|split; [exact R2|exact R3]].
      * destruct Hr as [R1 R2]. rewrite !(lookup_insert_other _ _ _ _ Hk), (Hother k Hk).
        split; assumption.
Qed.

(* ---------------------------------------------------------------- Set Chunk Size: both decoders apply it alike *)
Lemma control_refines sd m sd2 max f cur buf prev part :
  Rel sd (mk max f cur StCsid buf prev part) -> apply_control sd m = Some sd2 ->
  exists max2, driver_apply (mk max f cur StCsid buf prev part) m = Ok (mk max2 f cur StCsid buf prev part) /\
               Rel sd2 (mk max2 f cur StCsid buf prev part).
Proof.
  intros [Hs [Hmax [Hpos Hrel]]] Ha. unfold apply_control in Ha. unfold driver_apply.
  destruct (m_tid m =? 1).
  - destruct (take_n (m_data m) 4) as [[b r]|]; [|discriminate].
    destruct ((1 <=? of_be b) && (of_be b <=? 2147483647)) eqn:E; [|discriminate]. injection Ha as <-.
    unfold de_set_max_chunk_size. replace ((of_be b =? 0) || (2147483647 <? of_be b)) with false by lia.
    exists (of_be b). split; [reflexivity|]. split; [reflexivity|split; [reflexivity|split; [cbn [sd_max]; lia|exact Hrel]]].
  - injection Ha as <-. exists max. split; [reflexivity|]. split; [exact Hs|split; [exact Hmax|split; [exact Hpos|exact Hrel]]].
Qed.

Lemma drains_G_eq a b acc s' ms r : G a = G b -> drains b acc s' ms r -> drains a acc s' ms r.
Proof.
  intros HG D. inversion D as [s0 s1 acc0 Hg|s0 s1 acc0 e Hg|s0 s1 s2 m acc0 s3 ms0 r0 Hg Hd D2|s0 s1 m acc0 e Hg Hd]; subst;
    rewrite gnm_nil, <- HG, <- gnm_nil in Hg.
  - apply dr_none. exact Hg.
  - apply dr_err. exact Hg.
  - eapply dr_msg; eassumption.
  - eapply dr_bad; eassumption.
Qed.

Lemma blocked_empty max f cur prev part :
  G (mk max f cur StCsid [] prev part) = (mk max f cur StCsid [] prev part, DNone).
Proof. apply G_blocked. reflexivity. Qed.

(* ---------------------------------------------------------------- T2: a whole record sequence *)
Theorem idec_run cs : forall sd sd' ms max f cur prev part acc,
  Rel sd (mk max f cur StCsid (concat (map emit_chunk cs)) prev part) ->
  sdec_run sd cs = Some (sd', ms) ->
  exists dst', drains (mk max f cur StCsid (concat (map emit_chunk cs)) prev part) acc dst' (acc ++ ms) None /\
               Rel sd' dst' /\ d_buf dst' = [].
Proof.
  induction cs as [|c r IH]; intros sd sd' ms max f cur prev part acc HR Hrun.
  - cbn [sdec_run] in Hrun. injection Hrun as <- <-. cbn [map concat] in *.
    eexists. split; [|split; [exact HR|reflexivity]]. rewrite app_nil_r. apply dr_none. rewrite gnm_nil. apply blocked_empty.
  - cbn [sdec_run] in Hrun. cbn [map concat] in *.
    destruct (dec_chunk sd c) as [[sd1 om]|] eqn:Hd; [|discriminate].
    destruct (idec_chunk sd c sd1 om max f cur prev part _ HR Hd) as [f1 [prev1 [part1 [HR1 HG]]]]. cbv zeta in HR1, HG.
    destruct om as [m|].
    + destruct (apply_control sd1 m) as [sd2|] eqn:Ha; [|discriminate].
      destruct (sdec_run sd2 r) as [[sd3 ms']|] eqn:Hr; [|discriminate]. injection Hrun as <- <-.
      destruct (control_refines _ _ _ _ _ _ _ _ _ HR1 Ha) as [max2 [Hdrv HR2]].
      destruct (IH _ _ _ _ _ _ _ _ (acc ++ [m]) HR2 Hr) as [dst' [D [HR3 Hb]]].
      exists dst'. split; [|split; assumption].
      rewrite <- app_assoc in D. cbn [app] in D.
      eapply dr_msg; [rewrite gnm_nil; exact HG|exact Hdrv|exact D].
    + destruct (IH _ _ _ _ _ _ _ _ acc HR1 Hrun) as [dst' [D [HR3 Hb]]].
      exists dst'. split; [|split; assumption]. apply (drains_G_eq _ _ _ _ _ _ HG D).
Qed.

Lemma Rel_init : Rel sdec_init de_init.
Proof.
  split; [reflexivity|split; [reflexivity|split; [cbn; lia|]]]. intros k. cbn. split; reflexivity.
Qed.

(* C06 / C16: any byte stream that the specification decoder reads as the records cs carrying the messages ms
   (whatever the chunk stream ids, formats, chunk sizes and interleaving the peer chose) makes the library's
   deserializer return exactly ms, in order, without error, however the bytes are split into input calls. *)
Theorem idec_refines_sdec cs sd' ms pieces s1 ms1 r1 :
  sdec_run sdec_init cs = Some (sd', ms) ->
  concat pieces = concat (map emit_chunk cs) ->
  feeds de_init pieces [] s1 ms1 r1 -> ms1 = ms /\ r1 = None.
Proof.
  intros Hrun Hc F.
  destruct (idec_run cs sdec_init sd' ms DE_INITIAL_MAX_CHUNK_SIZE Full dhdr_new [] [] [] Rel_init Hrun) as [dst' [D _]].
  cbn [app] in D.
  assert (F2 : feeds de_init [concat (map emit_chunk cs)] [] dst' ms None).
  { eapply fd_ok; [exact D|apply fd_nil]. }
  apply (partition_independent de_init pieces [concat (map emit_chunk cs)] [] s1 ms1 r1 dst' ms None init_quiescent); [|exact F|exact F2].
  rewrite Hc. cbn [concat]. rewrite app_nil_r. reflexivity.
Qed.

Theorem feed_all_refines_sdec cs sd' ms pieces s1 ms1 r1 :
  sdec_run sdec_init cs = Some (sd', ms) ->
  concat pieces = concat (map emit_chunk cs) ->
  feed_all de_init pieces [] = (s1, ms1, r1) -> r1 <> Some DrvFuel -> ms1 = ms /\ r1 = None.
Proof.
  intros Hrun Hc F Hf. apply (idec_refines_sdec cs sd' ms pieces s1 ms1 r1 Hrun Hc). apply feed_all_sound; assumption.
Qed.
