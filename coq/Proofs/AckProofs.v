(* C17: acknowledgement accounting (the counter at the top of handle_input in both sessions). *)
From Coq Require Import ZArith Lia ZifyN ZifyBool ZifyNat.
From RML Require Import Model.Base Model.SessionCommon.
Local Open Scope N_scope.

(* the observable history of one session: input calls of a given size, window announcements taking effect
   between calls (the window is learned while processing a message, after the counting step of that call) *)
Inductive aev := ACall (len : N) | ALearn (w : N).

(* run: final state, acknowledgements emitted (one per call at most, in order, None = no ack in that call) *)
Fixpoint ack_run (a : ack_state) (evs : list aev) : ack_state * list (option N) :=
  match evs with
  | [] => (a, [])
  | ACall len :: r => let '(a1, o) := ack_step a len in let '(a2, os) := ack_run a1 r in (a2, o :: os)
  | ALearn w :: r => ack_run (ack_learn a w) r
  end.

Definition u32 (n : N) : Prop := n < 4294967296.

(* one call, window known, no saturation: ack iff the count reaches W, reporting the count *)
Lemma ack_step_spec a w len :
  ack_window a = Some w -> ack_since a + len < 4294967296 ->
  (w <= ack_since a + len ->
     ack_step a len = ({| ack_window := Some w; ack_since := 0 |}, Some (ack_since a + len))) /\
  (ack_since a + len < w ->
     ack_step a len = ({| ack_window := Some w; ack_since := ack_since a + len |}, None)).
Proof.
  intros Hw Hs. unfold ack_step, u32_sat_add. rewrite Hw.
  replace (N.min len 4294967295) with len by lia.
  replace (N.min (ack_since a + len) 4294967295) with (ack_since a + len) by lia.
  split; intros H.
  - replace (w <=? ack_since a + len) with true by lia. reflexivity.
  - replace (w <=? ack_since a + len) with false by lia. reflexivity.
Qed.

Lemma ack_step_no_window a len : ack_window a = None -> ack_step a len = (a, None).
Proof. intros H. unfold ack_step. rewrite H. reflexivity. Qed.

(* fewer than W bytes are outstanding after every call (W >= 1) *)
Lemma ack_step_bound a w len a' o :
  ack_window a = Some w -> 1 <= w -> ack_step a len = (a', o) -> ack_window a' = Some w /\ ack_since a' < w.
Proof.
  intros Hw H1 H. unfold ack_step in H. rewrite Hw in H.
  destruct (w <=? u32_sat_add (ack_since a) (N.min len 4294967295)) eqn:E; inversion H; subst; cbn; split; try reflexivity; try assumption; lia.
Qed.

(* saturation (repaired behaviour at the u32 limit): the reported count is capped, never wrapped *)
Lemma ack_step_saturates a w len a' n :
  ack_window a = Some w -> ack_step a len = (a', Some n) -> n <= 4294967295 /\ w <= n /\ n <= ack_since a + len.
Proof.
  intros Hw H. unfold ack_step, u32_sat_add in H. rewrite Hw in H.
  destruct (w <=? N.min (ack_since a + N.min len 4294967295) 4294967295) eqn:E; inversion H; subst. lia.
Qed.

(* conservation over a whole history: every byte received in a call after the window was learned is
   acknowledged exactly once or still outstanding *)
Definition sum_acks (os : list (option N)) : N := fold_right (fun o s => match o with Some n => n + s | None => s end) 0 os.

(* bytes of the calls that are counted: those made while a window is known *)
Fixpoint counted (a : ack_state) (evs : list aev) : N :=
  match evs with
  | [] => 0
  | ACall len :: r => (match ack_window a with Some _ => len | None => 0 end) + counted (fst (ack_step a len)) r
  | ALearn w :: r => counted (ack_learn a w) r
  end.

(* no call pushes the count to the u32 limit (otherwise the count saturates: ack_step_saturates) *)
Fixpoint no_saturation (a : ack_state) (evs : list aev) : Prop :=
  match evs with
  | [] => True
  | ACall len :: r => ack_since a + len < 4294967296 /\ no_saturation (fst (ack_step a len)) r
  | ALearn w :: r => no_saturation (ack_learn a w) r
  end.

Theorem ack_conservation evs : forall a,
  no_saturation a evs ->
  let '(a', os) := ack_run a evs in
  sum_acks os + ack_since a' = ack_since a + counted a evs.
Proof.
  induction evs as [|e r IH]; intros a Hns.
  - cbn. lia.
  - destruct e as [len|w].
    + cbn [no_saturation] in Hns. destruct Hns as [Hs Hr].
      cbn [ack_run counted]. destruct (ack_step a len) as [a1 o] eqn:Es. cbn [fst] in *.
      specialize (IH a1 Hr). destruct (ack_run a1 r) as [a2 os].
      cbn [sum_acks fold_right]. fold (sum_acks os).
      destruct (ack_window a) as [w|] eqn:Ew.
      * destruct (ack_step_spec a w len Ew Hs) as [H1 H2].
        destruct (N.le_gt_cases w (ack_since a + len)) as [Hle|Hgt].
        -- rewrite (H1 Hle) in Es. inversion Es; subst. cbn [ack_since] in IH. lia.
        -- rewrite (H2 Hgt) in Es. inversion Es; subst. cbn [ack_since] in IH. lia.
      * rewrite (ack_step_no_window a len Ew) in Es. inversion Es; subst. lia.
    + cbn [no_saturation] in Hns. cbn [ack_run counted]. specialize (IH (ack_learn a w) Hns).
      destruct (ack_run (ack_learn a w) r) as [a2 os]. cbn [ack_learn ack_since] in IH. exact IH.
Qed.

(* "exactly those calls": the emitted acknowledgements of a history are determined call by call *)
Theorem ack_exactly evs : forall a,
  no_saturation a evs ->
  forall pre len post, evs = pre ++ ACall len :: post ->
  let a_before := fst (ack_run a pre) in
  nth_error (snd (ack_run a evs)) (length (filter (fun e => match e with ACall _ => true | _ => false end) pre)) =
    Some (match ack_window a_before with
          | Some w => if w <=? ack_since a_before + len then Some (ack_since a_before + len) else None
          | None => None
          end).
Proof.
  induction evs as [|e r IH]; intros a Hns pre len post Heq.
  - destruct pre; discriminate.
  - destruct pre as [|p pre'].
    + cbn [app] in Heq. inversion Heq; subst e r. cbn [ack_run fst filter length].
      cbn [no_saturation] in Hns. destruct Hns as [Hs _].
      destruct (ack_step a len) as [a1 o] eqn:Es. destruct (ack_run a1 post) as [a2 os]. cbn [snd nth_error]. f_equal.
      destruct (ack_window a) as [w|] eqn:Ew.
      * destruct (ack_step_spec a w len Ew Hs) as [H1 H2].
        destruct (w <=? ack_since a + len) eqn:E.
        -- rewrite H1 in Es by lia. inversion Es; reflexivity.
        -- rewrite H2 in Es by lia. inversion Es; reflexivity.
      * rewrite (ack_step_no_window a len Ew) in Es. inversion Es; reflexivity.
    + cbn [app] in Heq. inversion Heq; subst e r. destruct p as [l0|w0].
      * cbn [no_saturation] in Hns. destruct Hns as [_ Hr]. cbn [ack_run filter length].
        destruct (ack_step a l0) as [a1 o] eqn:Es. cbn [fst] in Hr.
        specialize (IH a1 Hr pre' len post eq_refl).
        destruct (ack_run a1 (pre' ++ ACall len :: post)) as [a2 os]. cbn [snd nth_error] in *.
        destruct (ack_run a1 pre') as [a3 os3]. cbn [fst] in *. exact IH.
      * cbn [no_saturation] in Hns. cbn [ack_run filter].
        apply (IH (ack_learn a w0) Hns pre' len post eq_refl).
Qed.

(* after every call of a history with windows >= 1, fewer than W bytes are outstanding *)
Theorem ack_outstanding evs : forall a,
  (forall w, ack_window a = Some w -> 1 <= w /\ ack_since a < w \/ True) ->
  Forall (fun e => match e with ALearn w => 1 <= w | _ => True end) evs ->
  forall pre len post, evs = pre ++ ACall len :: post ->
  let a_after := fst (ack_run a (pre ++ [ACall len])) in
  forall w, ack_window a_after = Some w -> 1 <= w -> ack_since a_after < w.
Proof.
  intros a _ _ pre len post _. cbv zeta. revert a.
  induction pre as [|p pre' IH]; intros a w Hw H1.
  - cbn [app ack_run] in *. destruct (ack_step a len) as [a1 o] eqn:Es. cbn [fst] in *.
    unfold ack_step in Es. destruct (ack_window a) as [w0|] eqn:Ew.
    + destruct (w0 <=? u32_sat_add (ack_since a) (N.min len 4294967295)) eqn:E; inversion Es; subst; cbn in *; inversion Hw; subst; lia.
    + inversion Es; subst. rewrite Ew in Hw. discriminate.
  - cbn [app ack_run] in *. destruct p as [l0|w0].
    + destruct (ack_step a l0) as [a1 o]. specialize (IH a1 w).
      destruct (ack_run a1 (pre' ++ [ACall len])) as [a2 os]. cbn [fst] in *. apply IH; assumption.
    + apply (IH (ack_learn a w0) w); assumption.
Qed.

Example ack_example :
  ack_run {| ack_window := None; ack_since := 0 |} [ACall 10; ALearn 5; ACall 3; ACall 3; ACall 1; ALearn 2; ACall 1; ACall 1] =
  ({| ack_window := Some 2; ack_since := 1 |}, [None; None; Some 6; None; Some 2; None]).
Proof. reflexivity. Qed.
