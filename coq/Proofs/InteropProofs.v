(* C02: the two sessions' chunk layers stay linked.  Link ser de: the sender's serializer state and the receiver's
   deserializer state describe the same chunk-stream history (through the specification decoder's state) and nothing is
   pending.  Whatever one side writes with its serializer, the other side's deserializer reads as exactly that message
   and the link is preserved; on top of it: media sent by a publishing client is raised by the server with the same bytes
   and timestamp under the application name and stream key, and media sent by the server is raised by a playing client. *)
From Coq Require Import ZArith Lia ZifyN ZifyBool ZifyNat.
From RML Require Import Model.Base Model.Time Model.Chunk Model.ChunkSer Model.ChunkDe Model.Amf0 Model.Messages Model.SessionCommon
  Model.Server Model.Client Gen.Consts Spec.ChunkSpec
  Proofs.BaseProofs Proofs.ChunkSpecProofs Proofs.ChunkSerProofs Proofs.ChunkDeProofs Proofs.ChunkDeFuel Proofs.ChunkRefineProofs
  Proofs.ChunkEndToEnd Proofs.ConfigProofs.
Local Open Scope N_scope.

Definition Link (ser : sstate) (de : dstate) : Prop := exists sd, Sim ser sd /\ Rel sd de /\ d_buf de = [].

Lemma Link_init : Link ser_init de_init.
Proof. exists sdec_init. split; [exact Sim_init|split; [exact Rel_init|reflexivity]]. Qed.

Lemma drains_extends s acc s' ms r : drains s acc s' ms r -> exists suffix, ms = acc ++ suffix.
Proof.
  induction 1 as [s s' acc Hg|s s' acc e Hg|s s1 s2 m acc s' ms r Hg Hd D IH|s s1 m acc e Hg Hd].
  - exists []. rewrite app_nil_r. reflexivity.
  - exists []. rewrite app_nil_r. reflexivity.
  - destruct IH as [suf ->]. exists (m :: suf). rewrite <- app_assoc. reflexivity.
  - exists [m]. reflexivity.
Qed.

(* one serializer operation, received whole *)
Lemma link_op ser de op b ser' :
  Link ser de -> op_wf op -> ser_step ser op = Ok (b, ser') ->
  exists de1 de2 de3, get_next_message de b = (de1, DMsg (op_msg op)) /\ driver_apply de1 (op_msg op) = Ok de2 /\
                      get_next_message de2 [] = (de3, DNone) /\ Link ser' de3.
Proof.
  intros [sd [HSim [HRel Hbuf]]] Hwf Hstep.
  destruct (step_sim ser sd op b ser' HSim Hwf Hstep) as [cs [sd1 [sd2 [Hb [Hdo [Hac [HS2 _]]]]]]].
  pose proof (sdec_run_one cs sd sd1 (op_msg op) sd2 [] sd2 [] Hdo Hac eq_refl) as Hrun. rewrite app_nil_r in Hrun.
  destruct de as [max f cur stg buf prev part]. cbn [d_buf] in Hbuf. subst buf.
  assert (Hstg : stg = StCsid) by (destruct HRel as [H _]; exact H). subst stg.
  fold (mk max f cur StCsid [] prev part) in *.
  assert (HRel' : Rel sd (mk max f cur StCsid (concat (map emit_chunk cs)) prev part)).
  { destruct HRel as [R1 [R2 [R3 R4]]]. split; [reflexivity|split; [exact R2|split; [exact R3|exact R4]]]. }
  destruct (idec_run cs sd sd2 [op_msg op] max f cur prev part [] HRel' Hrun) as [dst' [D [HR3 Hb3]]].
  cbn [app] in D. rewrite <- Hb in D.
  assert (Hg : get_next_message (mk max f cur StCsid [] prev part) b = G (mk max f cur StCsid b prev part)).
  { rewrite gnm_G. reflexivity. }
  inversion D as [s0 s1 acc0 Hg0|s0 s1 acc0 e Hg0|s0 s1 s2 m acc0 s3 ms0 r0 Hg0 Hd0 D2|s0 s1 m acc0 e Hg0 Hd0]; subst.
  rewrite gnm_nil in Hg0. cbn [app] in D2.
  destruct (drains_extends _ _ _ _ _ D2) as [suf Hsuf]. destruct suf as [|x suf]; [|destruct suf; discriminate].
  injection Hsuf as <-.
  exists s1, s2, dst'. split; [rewrite Hg; exact Hg0|]. split; [exact Hd0|].
  inversion D2 as [t0 t1 acc1 Hg1|t0 t1 acc1 e Hg1|t0 t1 t2 m1 acc1 t3 ms1 r1 Hg1 Hd1 D3|t0 t1 m1 acc1 e Hg1 Hd1]; subst.
  - split; [exact Hg1|]. exists sd2. split; [exact HS2|split; [exact HR3|exact Hb3]].
  - destruct (drains_extends _ _ _ _ _ D3) as [suf Hsuf]. destruct suf; discriminate.
Qed.

(* ---------------------------------------------------------------- media from a publishing client to the server *)
Definition events (rs : list sresult) : list sevent :=
  flat_map (fun r => match r with SEvent e => [e] | _ => [] end) rs.

Definition data_wf (data : bytes) : Prop := lenN data <= 16777215.

Definition media_msg (video : bool) (data : bytes) : rtmp_message := if video then MVideoData data else MAudioData data.
Definition media_tid (video : bool) : N := if video then 9 else 8.

Lemma to_payload_media video data : to_payload (media_msg video data) = Ok (media_tid video, data).
Proof. destruct video; reflexivity. Qed.

Lemma of_payload_media video data : of_payload (media_tid video) data = Ok (media_msg video data).
Proof. destruct video; reflexivity. Qed.

Lemma Sim_max ser sd : Sim ser sd -> 1 <= s_max ser.
Proof. intros [_ [H _]]. lia. Qed.

(* the sender's half: a well-formed message is always serialized, and the receiver's deserializer - fed the packet whole -
   returns exactly it and is again quiescent and linked *)
Lemma link_message ser de m force drop :
  Link ser de -> msg_wf m -> m_tid m <> 1 ->
  exists b ser' de1 de3,
    ChunkSer.serialize ser m force drop = Ok (b, ser') /\
    get_next_message de b = (de1, DMsg m) /\ get_next_message de1 [] = (de3, DNone) /\ Link ser' de3.
Proof.
  intros HL Hwf Htid. pose proof HL as [sd [HSim _]].
  destruct (serialize_refused_or_ok ser m force drop (Sim_max _ _ HSim)) as [_ Hok].
  destruct Hwf as [W1 [W2 [W3 W4]]].
  destruct (Hok W4) as [b [ser' [Hser _]]].
  destruct (link_op ser de (OpMsg m force drop) b ser' HL) as [de1 [de2 [de3 [G1 [Hd [G2 HL2]]]]]].
  - cbn [op_wf]. split; [repeat split; assumption|exact Htid].
  - exact Hser.
  - cbn [op_msg] in *. unfold driver_apply in Hd. replace (m_tid m =? 1) with false in Hd by lia. injection Hd as <-.
    exists b, ser', de1, de3. repeat split; assumption.
Qed.

Definition media_event (video : bool) (app key data : bytes) (ts : N) : sevent :=
  if video then EvVideo app key data ts else EvAudio app key data ts.

Lemma h_loop_media fuel s b clock acc video data sid ts de1 de3 app key :
  get_next_message (sv_de s) b = (de1, DMsg {| m_ts := ts; m_tid := media_tid video; m_sid := sid; m_data := data |}) ->
  get_next_message de1 [] = (de3, DNone) ->
  sv_connected s = true -> publishing_key s sid = Some (app, key) ->
  h_loop (S (S fuel)) s b clock acc = (upd_de s de3, ROk (acc ++ [SEvent (media_event video app key data ts)])).
Proof.
  intros H1 H2 Hc Hk. cbn [h_loop]. rewrite H1. unfold h_message. cbn [m_tid m_data m_sid m_ts].
  rewrite of_payload_media.
  assert (Hk' : publishing_key (upd_de s de1) sid = Some (app, key)) by exact Hk.
  assert (Hm : h_media (negb video) (upd_de s de1) data sid ts =
               (upd_de s de1, ROk [SEvent (media_event video app key data ts)])).
  { unfold h_media. change (sv_connected (upd_de s de1)) with (sv_connected s). rewrite Hc. cbn [negb]. rewrite Hk'.
    destruct video; reflexivity. }
  destruct video; cbn [media_msg]; cbn [negb] in Hm; rewrite Hm; change (sv_de (upd_de s de1)) with de1; rewrite H2; reflexivity.
Qed.

Definition ser_ok (ser : sstate) : Prop := 1 <= s_max ser.

(* the server's handle_input on one media packet delivered whole *)
Lemma server_receives_media s b clock video data sid ts de1 de3 app key :
  ser_ok (sv_ser s) ->
  get_next_message (sv_de s) b = (de1, DMsg {| m_ts := ts; m_tid := media_tid video; m_sid := sid; m_data := data |}) ->
  get_next_message de1 [] = (de3, DNone) ->
  sv_connected s = true -> publishing_key s sid = Some (app, key) ->
  exists s' rs, server_handle_input s b clock = (s', ROk rs) /\
    events rs = [media_event video app key data ts] /\ sv_de s' = de3 /\ ser_ok (sv_ser s') /\
    sv_connected s' = true /\ publishing_key s' sid = Some (app, key).
Proof.
  intros Hser H1 H2 Hc Hk. unfold server_handle_input.
  destruct (ack_step (sv_ack s) (lenN b)) as [a [n|]].
  - unfold send_message. change (to_payload (MAcknowledgement n)) with (@Ok (N * bytes) msg_ser_err (TID_Acknowledgement, be32 n)).
    cbv iota beta.
    destruct (serialize_refused_or_ok (sv_ser s) {| m_ts := clock; m_tid := TID_Acknowledgement; m_sid := 0; m_data := be32 n |} false false Hser) as [_ Hok].
    destruct (Hok ltac:(cbn [m_data]; change (lenN (be32 n)) with 4; lia)) as [b' [ser2 [Hs Hm]]]. rewrite Hs.
    rewrite (h_loop_media _ (upd_ack (upd_ser s ser2) a) b clock [SPacket b' false] video data sid ts de1 de3 app key H1 H2 Hc Hk).
    eexists; eexists. split; [reflexivity|]. split; [reflexivity|]. split; [reflexivity|]. split; [unfold ser_ok in *; cbn; lia|].
    split; [exact Hc|exact Hk].
  - rewrite (h_loop_media _ (upd_ack s a) b clock [] video data sid ts de1 de3 app key H1 H2 Hc Hk).
    eexists; eexists. split; [reflexivity|]. split; [reflexivity|]. split; [reflexivity|]. split; [exact Hser|].
    split; [exact Hc|exact Hk].
Qed.

(* C02, publishing direction, one item: the client's publish_* call always yields a packet, and the server - given that packet
   in one call - raises exactly the media event with the same bytes and timestamp under the application name and stream key;
   all the premises hold again afterwards, so this iterates over any sequence of items *)
Theorem publish_media_delivered c s video data ts drop clock sid app key :
  Link (cl_ser c) (sv_de s) -> ser_ok (sv_ser s) ->
  publishing_stream c = Ok sid -> sid < 4294967296 -> ts < 4294967296 -> data_wf data ->
  sv_connected s = true -> publishing_key s sid = Some (app, key) ->
  exists b c' s' rs,
    client_publish_media video c data ts drop = (c', COk [CPacket b drop]) /\
    server_handle_input s b clock = (s', ROk rs) /\
    events rs = [media_event video app key data ts] /\
    Link (cl_ser c') (sv_de s') /\ ser_ok (sv_ser s') /\ publishing_stream c' = Ok sid /\
    sv_connected s' = true /\ publishing_key s' sid = Some (app, key).
Proof.
  intros HL Hser Hps Hsid Hts Hlen Hc Hk.
  set (m := {| m_ts := ts; m_tid := media_tid video; m_sid := sid; m_data := data |}).
  assert (Hwf : msg_wf m).
  { unfold msg_wf, m. cbn [m_ts m_tid m_sid m_data]. repeat split; try assumption. destruct video; cbn; lia. }
  assert (Htid : m_tid m <> 1) by (destruct video; cbn; lia).
  destruct (link_message (cl_ser c) (sv_de s) m false drop HL Hwf Htid) as [b [ser' [de1 [de3 [Hs [G1 [G2 HL2]]]]]]].
  destruct (server_receives_media s b clock video data sid ts de1 de3 app key Hser G1 G2 Hc Hk)
    as [s' [rs [Hin [Hev [Hde [Hser' [Hc' Hk']]]]]]].
  exists b, (cupd_ser c ser'), s', rs.
  split.
  - unfold client_publish_media. rewrite Hps. unfold cone_packet, csending, send_message.
    change (if video then MVideoData data else MAudioData data) with (media_msg video data).
    rewrite to_payload_media. fold m. rewrite Hs. reflexivity.
  - split; [exact Hin|]. split; [exact Hev|]. split; [rewrite Hde; exact HL2|]. split; [exact Hser'|].
    split; [exact Hps|]. split; [exact Hc'|exact Hk'].
Qed.

(* ---------------------------------------------------------------- media from the server to a playing client *)
Definition cevents (rs : list cresult) : list cevent :=
  flat_map (fun r => match r with CEvent e => [e] | _ => [] end) rs.

Definition cmedia_event (video : bool) (data : bytes) (ts : N) : cevent := if video then CVideo ts data else CAudio ts data.

Definition playing_on (c : client) (sid : N) : Prop :=
  (cl_state c = PlayRequested \/ cl_state c = Playing) /\ cl_stream c = Some sid.

Lemma ch_loop_media fuel c b clock acc video data sid ts de1 de3 :
  get_next_message (cl_de c) b = (de1, DMsg {| m_ts := ts; m_tid := media_tid video; m_sid := sid; m_data := data |}) ->
  get_next_message de1 [] = (de3, DNone) -> playing_on c sid ->
  ch_loop (S (S fuel)) c b clock acc = (cupd_de c de3, COk (acc ++ [CEvent (cmedia_event video data ts)])).
Proof.
  intros H1 H2 [Hst Hsid]. cbn [ch_loop]. rewrite H1. unfold ch_message. cbn [m_tid m_data m_sid m_ts].
  rewrite of_payload_media.
  assert (Hm : ch_media video (cupd_de c de1) sid data ts = (cupd_de c de1, COk [CEvent (cmedia_event video data ts)])).
  { unfold ch_media. change (cl_state (cupd_de c de1)) with (cl_state c). change (cl_stream (cupd_de c de1)) with (cl_stream c).
    rewrite Hsid, N.eqb_refl. destruct Hst as [-> | ->]; destruct video; reflexivity. }
  destruct video; cbn [media_msg]; rewrite Hm; change (cl_de (cupd_de c de1)) with de1; rewrite H2; reflexivity.
Qed.

Lemma client_receives_media c b clock video data sid ts de1 de3 :
  ser_ok (cl_ser c) ->
  get_next_message (cl_de c) b = (de1, DMsg {| m_ts := ts; m_tid := media_tid video; m_sid := sid; m_data := data |}) ->
  get_next_message de1 [] = (de3, DNone) -> playing_on c sid ->
  exists c' rs, client_handle_input c b clock = (c', COk rs) /\
    cevents rs = [cmedia_event video data ts] /\ cl_de c' = de3 /\ ser_ok (cl_ser c') /\ playing_on c' sid.
Proof.
  intros Hser H1 H2 Hp. unfold client_handle_input.
  destruct (ack_step (cl_ack c) (lenN b)) as [a [n|]].
  - unfold send_message. change (to_payload (MAcknowledgement n)) with (@Ok (N * bytes) msg_ser_err (TID_Acknowledgement, be32 n)).
    cbv iota beta.
    destruct (serialize_refused_or_ok (cl_ser c) {| m_ts := clock; m_tid := TID_Acknowledgement; m_sid := 0; m_data := be32 n |} false false Hser) as [_ Hok].
    destruct (Hok ltac:(cbn [m_data]; change (lenN (be32 n)) with 4; lia)) as [b' [ser2 [Hs Hm]]]. rewrite Hs.
    rewrite (ch_loop_media _ (cupd_ack (cupd_ser c ser2) a) b clock [CPacket b' false] video data sid ts de1 de3 H1 H2 Hp).
    eexists; eexists. split; [reflexivity|]. split; [reflexivity|]. split; [reflexivity|]. split; [unfold ser_ok in *; cbn; lia|exact Hp].
  - rewrite (ch_loop_media _ (cupd_ack c a) b clock [] video data sid ts de1 de3 H1 H2 Hp).
    eexists; eexists. split; [reflexivity|]. split; [reflexivity|]. split; [reflexivity|]. split; [exact Hser|exact Hp].
Qed.

Definition server_send_media (video : bool) (s : server) (sid : N) (data : bytes) (ts : N) (drop : bool) : call :=
  if video then server_send_video s sid data ts drop else server_send_audio s sid data ts drop.

(* C02, playing direction, one item *)
Theorem play_media_delivered s c video data ts drop clock sid :
  Link (sv_ser s) (cl_de c) -> ser_ok (cl_ser c) ->
  playing_on c sid -> sid < 4294967296 -> ts < 4294967296 -> data_wf data ->
  exists b s' c' rs,
    server_send_media video s sid data ts drop = (s', ROk [SPacket b drop]) /\
    client_handle_input c b clock = (c', COk rs) /\
    cevents rs = [cmedia_event video data ts] /\
    Link (sv_ser s') (cl_de c') /\ ser_ok (cl_ser c') /\ playing_on c' sid.
Proof.
  intros HL Hser Hp Hsid Hts Hlen.
  set (m := {| m_ts := ts; m_tid := media_tid video; m_sid := sid; m_data := data |}).
  assert (Hwf : msg_wf m).
  { unfold msg_wf, m. cbn [m_ts m_tid m_sid m_data]. repeat split; try assumption. destruct video; cbn; lia. }
  assert (Htid : m_tid m <> 1) by (destruct video; cbn; lia).
  destruct (link_message (sv_ser s) (cl_de c) m false drop HL Hwf Htid) as [b [ser' [de1 [de3 [Hs [G1 [G2 HL2]]]]]]].
  destruct (client_receives_media c b clock video data sid ts de1 de3 Hser G1 G2 Hp) as [c' [rs [Hin [Hev [Hde [Hser' Hp']]]]]].
  exists b, (upd_ser s ser'), c', rs.
  split.
  - unfold m in Hs. unfold server_send_media. destruct video; cbn [media_tid] in Hs;
      unfold server_send_video, server_send_audio, one_packet, sending, send_message.
    + change (to_payload (MVideoData data)) with (@Ok (N * bytes) msg_ser_err (9, data)). cbv iota beta. rewrite Hs. reflexivity.
    + change (to_payload (MAudioData data)) with (@Ok (N * bytes) msg_ser_err (8, data)). cbv iota beta. rewrite Hs. reflexivity.
  - split; [exact Hin|]. split; [exact Hev|]. split; [rewrite Hde; exact HL2|]. split; [exact Hser'|exact Hp'].
Qed.

(* ---------------------------------------------------------------- sequences of items: exactly once, in order *)
Inductive item := Item (video : bool) (data : bytes) (ts : N) (drop : bool).
Definition item_wf (i : item) : Prop := match i with Item _ data ts _ => ts < 4294967296 /\ data_wf data end.

Fixpoint publish_run (c : client) (s : server) (items : list item) (clock : N) : option (client * server * list sevent) :=
  match items with
  | [] => Some (c, s, [])
  | Item video data ts drop :: r =>
    match client_publish_media video c data ts drop with
    | (c', COk [CPacket b _]) =>
      match server_handle_input s b clock with
      | (s', ROk rs) => match publish_run c' s' r clock with Some (c2, s2, evs) => Some (c2, s2, events rs ++ evs) | None => None end
      | _ => None
      end
    | _ => None
    end
  end.

Theorem publish_sequence_delivered items : forall c s clock sid app key,
  Link (cl_ser c) (sv_de s) -> ser_ok (sv_ser s) -> publishing_stream c = Ok sid -> sid < 4294967296 ->
  sv_connected s = true -> publishing_key s sid = Some (app, key) -> Forall item_wf items ->
  exists c' s', publish_run c s items clock =
    Some (c', s', map (fun i => match i with Item video data ts _ => media_event video app key data ts end) items).
Proof.
  induction items as [|[video data ts drop] r IH]; intros c s clock sid app key HL Hser Hps Hsid Hc Hk Hwf.
  - exists c, s. reflexivity.
  - inversion Hwf as [|? ? Hi Hr]; subst. cbn [item_wf] in Hi. destruct Hi as [Hts Hd].
    destruct (publish_media_delivered c s video data ts drop clock sid app key HL Hser Hps Hsid Hts Hd Hc Hk)
      as [b [c1 [s1 [rs [E1 [E2 [Hev [HL1 [Hser1 [Hps1 [Hc1 Hk1]]]]]]]]]]].
    destruct (IH c1 s1 clock sid app key HL1 Hser1 Hps1 Hsid Hc1 Hk1 Hr) as [c2 [s2 E3]].
    exists c2, s2. cbn [publish_run map]. rewrite E1, E2, E3, Hev. reflexivity.
Qed.

Fixpoint play_run (s : server) (c : client) (sid : N) (items : list item) (clock : N) : option (server * client * list cevent) :=
  match items with
  | [] => Some (s, c, [])
  | Item video data ts drop :: r =>
    match server_send_media video s sid data ts drop with
    | (s', ROk [SPacket b _]) =>
      match client_handle_input c b clock with
      | (c', COk rs) => match play_run s' c' sid r clock with Some (s2, c2, evs) => Some (s2, c2, cevents rs ++ evs) | None => None end
      | _ => None
      end
    | _ => None
    end
  end.

Theorem play_sequence_delivered items : forall s c clock sid,
  Link (sv_ser s) (cl_de c) -> ser_ok (cl_ser c) -> playing_on c sid -> sid < 4294967296 -> Forall item_wf items ->
  exists s' c', play_run s c sid items clock =
    Some (s', c', map (fun i => match i with Item video data ts _ => cmedia_event video data ts end) items).
Proof.
  induction items as [|[video data ts drop] r IH]; intros s c clock sid HL Hser Hp Hsid Hwf.
  - exists s, c. reflexivity.
  - inversion Hwf as [|? ? Hi Hr]; subst. cbn [item_wf] in Hi. destruct Hi as [Hts Hd].
    destruct (play_media_delivered s c video data ts drop clock sid HL Hser Hp Hsid Hts Hd)
      as [b [s1 [c1 [rs [E1 [E2 [Hev [HL1 [Hser1 Hp1]]]]]]]]].
    destruct (IH s1 c1 clock sid HL1 Hser1 Hp1 Hsid Hr) as [s2 [c2 E3]].
    exists s2, c2. cbn [play_run map]. rewrite E1, E2, E3, Hev. reflexivity.
Qed.

(* ---------------------------------------------------------------- a whole scenario on the composed model (a computed test) *)
From RML Require Import Model.Interop.
From Coq Require Import String.

Definition server_events_of (ts : list (list trace)) : list sevent :=
  flat_map (flat_map (fun t => match t with TServerIn (ROk rs) | TAccept (ROk rs) => events rs | _ => [] end)) ts.
Definition client_events_of (ts : list (list trace)) : list cevent :=
  flat_map (flat_map (fun t => match t with TClientIn (COk rs) | TClientApi (COk rs) => cevents rs | _ => [] end)) ts.
Definition is_media_or_lifecycle (e : sevent) : bool :=
  match e with EvAcknowledgement _ | EvPingResponse _ => false | _ => true end.

Definition ex_ccfg : cconfig := {| cc_flash := str "WIN"; cc_buffer := 1000; cc_window := 2500000; cc_chunk := 3; cc_tcurl := None |}.
Definition ex_scfg : config := {| cfg_fms := str "FMS"; cfg_chunk := 2; cfg_bandwidth := 2500000; cfg_window := 5000; cfg_bwdone := false |}.
Definition ex_publish_ops : list iop :=
  [ IConnect (str "live"); IFlush [7; 3]; IPublish (str "key") TLive; IFlush [5];
    ICMedia true [1; 2; 3; 4; 5] 10 false; ICMedia false [] 4294967295 true; IDeliver true 4; ICMedia true [9] 0 false; IFlush [1];
    IStopPub; IFlush [4096] ].
Definition ex_play_ops : list iop :=
  [ IConnect (str "live"); IFlush [4096]; IPlay (str "key"); IFlush [1];
    ISMedia true [1; 2; 3; 4; 5] 10 false; ISMedia false [7; 7] 16777215 true; IFlush [2; 9];
    IStopPlay; IFlush [3] ].

Definition ex_run (ops : list iop) : list (list trace) :=
  match world_new ex_ccfg ex_scfg 5 with
  | (Some w, _) => snd (run w ops)
  | _ => []
  end.

(* connect, publish with 3-byte client chunks and 2-byte server chunks, byte-wise and fragmented delivery: every item arrives
   once, in order, byte-exact, under application "live" and key "key"; stopping raises the finished event *)
Example scenario_publish :
  filter is_media_or_lifecycle (server_events_of (ex_run ex_publish_ops)) =
  [ EvConnectionRequested 0 (str "live");
    EvPublishRequested 1 (str "live") (str "key") PLive;
    EvVideo (str "live") (str "key") [1; 2; 3; 4; 5] 10;
    EvAudio (str "live") (str "key") [] 4294967295;
    EvVideo (str "live") (str "key") [9] 0;
    EvPublishFinished (str "live") (str "key") ] /\
  filter (fun e => match e with CConnectionAccepted | CPublishAccepted => true | _ => false end)
         (client_events_of (ex_run ex_publish_ops)) = [CConnectionAccepted; CPublishAccepted].
Proof. vm_compute. split; reflexivity. Qed.

Example scenario_play :
  filter (fun e => match e with CVideo _ _ | CAudio _ _ | CPlaybackAccepted | CConnectionAccepted => true | _ => false end)
         (client_events_of (ex_run ex_play_ops)) =
  [ CConnectionAccepted; CPlaybackAccepted; CVideo 10 [1; 2; 3; 4; 5]; CAudio 16777215 [7; 7] ] /\
  filter (fun e => match e with EvPlayFinished _ _ => true | _ => false end) (server_events_of (ex_run ex_play_ops)) =
  [ EvPlayFinished (str "live") (str "key") ].
Proof. vm_compute. split; reflexivity. Qed.
