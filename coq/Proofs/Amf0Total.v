(* C14 / C03: the AMF0 decoder terminates on every input (the fuel length+1 always suffices), consumes input
   monotonically, and what it builds is bounded by the bytes it consumed. *)
From Coq Require Import ZArith Lia ZifyN ZifyBool ZifyNat.
From RML Require Import Model.Base Model.Utf8 Model.Amf0 Gen.Consts Proofs.BaseProofs Proofs.Amf0Proofs.
Local Open Scope N_scope.

(* size of a decoded value: one unit per node plus the bytes of its strings and property names *)
Fixpoint vsize (v : value) : nat :=
  match v with
  | VString s => S (length s)
  | VObject ps => S (fold_right (fun p n => (length (fst p) + vsize (snd p) + n)%nat) O ps)
  | VStrictArray vs => S (fold_right (fun x n => (vsize x + n)%nat) O vs)
  | _ => 1%nat
  end.
Definition psize (ps : list (bytes * value)) : nat := fold_right (fun p n => (length (fst p) + vsize (snd p) + n)%nat) O ps.
Definition lsize (vs : list value) : nat := fold_right (fun x n => (vsize x + n)%nat) O vs.

Lemma take_n_lengths l n a b : take_n l n = Some (a, b) -> length l = (length a + length b)%nat /\ lenN a = n.
Proof. intros H. destruct (take_n_length l n a b H) as [-> L]. split; [apply app_length|exact L]. Qed.

Lemma map_insert_size k v m : (psize (map_insert k v m) <= psize m + length k + vsize v)%nat.
Proof.
  induction m as [|[k' v'] r IH]; cbn [map_insert psize fold_right fst snd]; [lia|].
  destruct (list_eq_dec N.eq_dec k k'); cbn [psize fold_right fst snd]; fold (psize r) in *; fold (psize (map_insert k v r)) in *; lia.
Qed.

Lemma lsize_rev l : lsize (rev l) = lsize l.
Proof.
  induction l as [|x l IH]; [reflexivity|]. cbn [rev]. unfold lsize in *. rewrite fold_right_app. cbn [fold_right].
  assert (G : forall (l0 : list value) n, fold_right (fun x0 n0 => (vsize x0 + n0)%nat) n l0 = (fold_right (fun x0 n0 => (vsize x0 + n0)%nat) 0 l0 + n)%nat).
  { induction l0 as [|y l0 IH0]; intros n; cbn [fold_right]; [lia|]. rewrite IH0. lia. }
  rewrite G. rewrite IH. lia.
Qed.

(* the three mutually recursive readers, for every fuel above the input length *)
Definition T_value (f : nat) : Prop :=
  forall bs, (length bs < f)%nat ->
    match read_next_value f bs with
    | Ok (Some v, r) => (length r < length bs)%nat /\ (vsize v + length r <= length bs)%nat
    | Ok (None, r) => (length r <= length bs)%nat
    | Err _ => True
    | Panic _ | OutOfFuel => False
    end.
Definition T_props (f : nat) : Prop :=
  forall bs acc, (length bs < f)%nat ->
    match read_props f bs acc with
    | Ok (ps, r) => (length r < length bs)%nat /\ (psize ps + length r <= psize acc + length bs)%nat
    | Err _ => True
    | Panic _ | OutOfFuel => False
    end.
Definition T_elems (f : nat) : Prop :=
  forall count bs acc, (length bs + 1 < f)%nat ->
    match read_array f count bs acc with
    | Ok (vs, r) => (length r <= length bs)%nat /\ (lsize vs + length r <= lsize acc + length bs)%nat
    | Err _ => True
    | Panic _ | OutOfFuel => False
    end.

Lemma total_step f : T_value f -> T_props f -> T_elems f -> T_value (S f) /\ T_props (S f) /\ T_elems (S f).
Proof.
  intros HV HP HE. split; [|split].
  - intros bs Hlen. cbn [read_next_value]. destruct bs as [|m r]; [cbn; lia|]. cbn [length] in Hlen.
    destruct (m =? OBJECT_END_MARKER); [cbn [length]; lia|].
    destruct (m =? BOOLEAN_MARKER). { destruct r as [|b r']; [exact I|]. cbn [length vsize]. lia. }
    destruct (m =? NULL_MARKER); [cbn [length vsize]; lia|].
    destruct (m =? UNDEFINED_MARKER); [cbn [length vsize]; lia|].
    destruct (m =? NUMBER_MARKER).
    { destruct (take_n r 8) as [[b r']|] eqn:E; [|exact I]. destruct (take_n_lengths _ _ _ _ E) as [L _]. cbn [length vsize]. lia. }
    destruct (m =? OBJECT_MARKER).
    { specialize (HP r [] ltac:(lia)). destruct (read_props f r []) as [[ps r']|e|x|]; cbn [obind]; try exact HP; try contradiction.
      destruct HP as [H1 H2]. cbn [length vsize]. fold (psize ps). cbn [psize fold_right] in H2. lia. }
    destruct (m =? ECMA_ARRAY_MARKER).
    { destruct (take_n r 4) as [[b r1]|] eqn:E; [|exact I]. destruct (take_n_lengths _ _ _ _ E) as [L _].
      specialize (HP r1 [] ltac:(lia)). destruct (read_props f r1 []) as [[ps r']|e|x|]; cbn [obind]; try exact HP; try contradiction.
      destruct HP as [H1 H2]. cbn [length vsize]. fold (psize ps). cbn [psize fold_right] in H2. lia. }
    destruct (m =? STRING_MARKER).
    { destruct (take_n r 2) as [[lb r1]|] eqn:E; [|exact I]. destruct (take_n_lengths _ _ _ _ E) as [L Ll].
      destruct (take_n r1 (of_be lb)) as [[s r2]|] eqn:E2; [|exact I]. destruct (take_n_lengths _ _ _ _ E2) as [L2 _].
      destruct (utf8_valid s); [|exact I]. cbn [length vsize]. unfold lenN in Ll. lia. }
    destruct (m =? STRICT_ARRAY_MARKER).
    { destruct (take_n r 4) as [[cb r1]|] eqn:E; [|exact I]. destruct (take_n_lengths _ _ _ _ E) as [L Ll]. unfold lenN in Ll.
      specialize (HE (of_be cb) r1 [] ltac:(lia)). destruct (read_array f (of_be cb) r1 []) as [[vs r']|e|x|]; cbn [obind]; try exact HE; try contradiction.
      destruct HE as [H1 H2]. cbn [length vsize]. fold (lsize vs). cbn [lsize fold_right] in H2. lia. }
    exact I.
  - intros bs acc Hlen. cbn [read_props].
    destruct (take_n bs 2) as [[lb r1]|] eqn:E; [|exact I]. destruct (take_n_lengths _ _ _ _ E) as [L Ll].
    assert (Hlb : length lb = 2%nat) by (unfold lenN in Ll; lia).
    destruct (of_be lb =? 0).
    { destruct r1 as [|b r2]; [exact I|]. destruct (b =? OBJECT_END_MARKER); [|exact I]. cbn [length] in *. lia. }
    destruct (take_n r1 (of_be lb)) as [[label r2]|] eqn:E2; [|exact I]. destruct (take_n_lengths _ _ _ _ E2) as [L2 _].
    destruct (utf8_valid label); [|exact I].
    specialize (HV r2 ltac:(lia)). destruct (read_next_value f r2) as [[[pv|] r3]|e|x|]; cbn [obind]; try exact I; try contradiction.
    destruct HV as [H1 H2].
    specialize (HP r3 (map_insert label pv acc) ltac:(lia)).
    destruct (read_props f r3 (map_insert label pv acc)) as [[ps r4]|e|x|]; try exact HP.
    destruct HP as [H3 H4]. pose proof (map_insert_size label pv acc). lia.
  - intros count bs acc Hlen. cbn [read_array].
    destruct (count =? 0). { rewrite lsize_rev. lia. }
    specialize (HV bs ltac:(lia)). destruct (read_next_value f bs) as [[[x|] r]|e|y|]; cbn [obind]; try exact I; try contradiction.
    + destruct HV as [H1 H2]. specialize (HE (count - 1) r (x :: acc) ltac:(lia)).
      destruct (read_array f (count - 1) r (x :: acc)) as [[vs r']|e|y|]; try exact HE.
      destruct HE as [H3 H4]. cbn [lsize fold_right] in H4. fold (lsize acc) in H4. lia.
    + rewrite lsize_rev. lia.
Qed.

Lemma total_all f : T_value f /\ T_props f /\ T_elems f.
Proof.
  induction f as [|f [HV [HP HE]]].
  - split; [|split].
    + intros bs H. exfalso. lia.
    + intros bs acc H. exfalso. lia.
    + intros count bs acc H. exfalso. lia.
  - apply total_step; assumption.
Qed.

(* deserialize: never a panic, never out of fuel; a successful result is no larger than the input *)
Lemma read_all_total fuel : forall bs acc, (length bs < fuel)%nat ->
  match read_all fuel bs acc with
  | Ok (vs, r) => (lsize vs + length r <= lsize acc + length bs)%nat
  | Err _ => True
  | Panic _ | OutOfFuel => False
  end.
Proof.
  induction fuel as [|f IH]; intros bs acc Hlen; [lia|]. cbn [read_all].
  pose proof (proj1 (total_all (S (length bs))) bs ltac:(lia)) as HV.
  destruct (read_next_value (S (length bs)) bs) as [[[x|] r]|e|y|]; cbn [obind]; try exact I; try contradiction.
  - destruct HV as [H1 H2]. specialize (IH r (x :: acc) ltac:(lia)).
    destruct (read_all f r (x :: acc)) as [[vs r']|e|y|]; try exact IH. cbn [lsize fold_right] in IH. fold (lsize acc) in IH. lia.
  - rewrite lsize_rev. lia.
Qed.

Theorem deserialize_total bs :
  match deserialize bs with
  | Ok vs => (lsize vs <= length bs)%nat
  | Err _ => True
  | Panic _ | OutOfFuel => False
  end.
Proof.
  unfold deserialize, deserialize_rest. pose proof (read_all_total (S (length bs)) bs [] ltac:(lia)) as H.
  destruct (read_all (S (length bs)) bs []) as [[vs r]|e|x|]; cbn [obind]; try exact H. cbn [lsize fold_right] in H. lia.
Qed.

(* the recursion depth is the nesting depth of the input: [d] nested array headers (5 bytes each) need depth d *)
Fixpoint nested (d : nat) : bytes :=
  match d with O => [] | S d' => STRICT_ARRAY_MARKER :: be32 1 ++ nested d' end.
Fixpoint nested_value (d : nat) : value :=
  match d with O => VStrictArray [] | S d' => VStrictArray [nested_value d'] end.

Lemma nested_length d : length (nested d) = (5 * d)%nat.
Proof. induction d as [|d IH]; [reflexivity|]. cbn [nested length]. rewrite app_length, IH. change (length (be32 1)) with 4%nat. lia. Qed.

Lemma nested_depth d : value_depth (nested_value d) = S d.
Proof. induction d as [|d IH]; [reflexivity|]. cbn [nested_value value_depth fold_right]. rewrite IH. lia. Qed.

(* the stack clause of C14 cannot hold for an unboundedly nested input: 5(d+1) bytes decode to a value of depth d+1,
   each level being one recursive activation of read_next_value / read_array *)
Lemma array_of_one f x v rest :
  read_next_value f x = Ok (Some v, rest) ->
  read_next_value (S (S f)) (STRICT_ARRAY_MARKER :: be32 1 ++ x) = Ok (Some (VStrictArray [v]), rest).
Proof.
  intros H. cbn [read_next_value]. unfold NUMBER_MARKER, BOOLEAN_MARKER, STRING_MARKER, OBJECT_MARKER, NULL_MARKER, UNDEFINED_MARKER,
    ECMA_ARRAY_MARKER, OBJECT_END_MARKER, STRICT_ARRAY_MARKER.
  change (10 =? 9) with false. change (10 =? 1) with false. change (10 =? 5) with false. change (10 =? 6) with false.
  change (10 =? 0) with false. change (10 =? 3) with false. change (10 =? 8) with false. change (10 =? 2) with false.
  change (10 =? 10) with true. cbv iota.
  rewrite (take_n_app_len (be32 1) x 4) by reflexivity. rewrite of_be_be32 by lia.
  cbn [read_array]. change (1 =? 0) with false. cbv iota.
  assert (Hf : exists f', f = S f') by (destruct f; [discriminate|eexists; reflexivity]). destruct Hf as [f' ->].
  rewrite H. cbn [obind]. change (1 - 1) with 0. cbn [read_array]. change (0 =? 0) with true. cbv iota. reflexivity.
Qed.

Lemma nested_decodes d : forall f, (5 * S d < f)%nat ->
  read_next_value f (nested (S d)) = Ok (Some (nested_value d), []).
Proof.
  induction d as [|d IH]; intros f Hf.
  - do 4 (destruct f as [|f]; [lia|]). reflexivity.
  - destruct f as [|[|f]]; try lia.
    change (nested (S (S d))) with (STRICT_ARRAY_MARKER :: be32 1 ++ nested (S d)).
    rewrite (array_of_one f (nested (S d)) (nested_value d) []); [reflexivity|]. apply IH. lia.
Qed.

Theorem depth_unbounded d :
  deserialize (nested (S d)) = Ok [nested_value d] /\ length (nested (S d)) = (5 * S d)%nat /\ value_depth (nested_value d) = S d.
Proof.
  split; [|split; [apply nested_length|apply nested_depth]].
  unfold deserialize, deserialize_rest. cbn [read_all]. rewrite nested_decodes by (rewrite nested_length; lia).
  cbn [obind]. rewrite nested_length. replace (5 * S d)%nat with (S (4 + 5 * d)) by lia.
  cbn [read_all length read_next_value obind rev app]. reflexivity.
Qed.
