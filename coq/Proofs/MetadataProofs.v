(* The metadata mapping of the sessions: StreamMetadata -> AMF0 properties (client side) -> StreamMetadata is the identity, and the
   properties object is a well-formed, expressible AMF0 object. *)
From Coq Require Import ZArith Lia ZifyN ZifyBool ZifyNat String.
From RML Require Import Model.Base Model.Utf8 Model.Amf0 Model.Float Model.SessionCommon Model.Client
  Spec.Amf0Spec Spec.Amf0Wire Proofs.Amf0Proofs Proofs.FloatProofs.
Local Open Scope N_scope.

Lemma prop_get_app k a b : prop_get k (a ++ b) = match prop_get k a with Some v => Some v | None => prop_get k b end.
Proof. induction a as [|[k' v] r IH]; [reflexivity|]. cbn [app prop_get]. destruct (bytes_eqb k k'); [reflexivity|exact IH]. Qed.

Lemma bytes_eqb_refl a : bytes_eqb a a = true.
Proof. induction a as [|x a IH]; [reflexivity|]. cbn [bytes_eqb]. rewrite N.eqb_refl. exact IH. Qed.

Lemma prop_get_opt_same {A} k (o : option A) g : prop_get (str k) (opt_prop k o g) = match o with Some x => Some (g x) | None => None end.
Proof. destruct o; [|reflexivity]. cbn [opt_prop prop_get]. rewrite bytes_eqb_refl. reflexivity. Qed.

Lemma prop_get_opt_other {A} k k' (o : option A) g : bytes_eqb (str k) (str k') = false -> prop_get (str k) (opt_prop k' o g) = None.
Proof. intros H. destruct o; [|reflexivity]. cbn [opt_prop prop_get]. rewrite H. reflexivity. Qed.

Ltac pg :=
  repeat first [ rewrite prop_get_app
               | rewrite prop_get_opt_same
               | rewrite prop_get_opt_other by reflexivity ].

(* what the Rust types guarantee of a StreamMetadata: u32 fields, an f32 frame rate; the frame rate must survive f32 -> f64 -> f32
   (every non-NaN f32 does; stated as a hypothesis on the value because Model/Float.v has no proof of it) *)
Definition md_ok (m : metadata) : Prop :=
  (forall x, md_width m = Some x -> x < 4294967296) /\ (forall x, md_height m = Some x -> x < 4294967296) /\
  (forall x, md_vcodec m = Some x -> x < 4294967296) /\ (forall x, md_vbitrate m = Some x -> x < 4294967296) /\
  (forall x, md_acodec m = Some x -> x < 4294967296) /\ (forall x, md_abitrate m = Some x -> x < 4294967296) /\
  (forall x, md_asamplerate m = Some x -> x < 4294967296) /\ (forall x, md_achannels m = Some x -> x < 4294967296) /\
  (forall x, md_framerate m = Some x -> x < 4294967296 /\ f64_to_f32 (f32_to_f64 x) = x).

Theorem metadata_roundtrip_client m : md_ok m -> metadata_of_props (metadata_props_client m) = m.
Proof.
  intros [H1 [H2 [H3 [H4 [H5 [H6 [H7 [H8 H9]]]]]]]].
  unfold metadata_of_props, metadata_props_client, num_u32. pg.
  destruct m as [w h vc fr vb ac ab asr ach st enc]. cbn [md_width md_height md_vcodec md_framerate md_vbitrate md_acodec md_abitrate md_asamplerate md_achannels md_stereo md_encoder] in *.
  repeat match goal with |- context [match ?o with Some _ => _ | None => _ end] => is_var o; destruct o end; cbv beta iota;
    repeat match goal with
    | |- context [f64_to_u32 (u32_to_f64 ?x)] =>
        rewrite (u32_roundtrip x) by (solve [apply H1; reflexivity|apply H2; reflexivity|apply H3; reflexivity|apply H4; reflexivity|apply H5; reflexivity|apply H6; reflexivity|apply H7; reflexivity|apply H8; reflexivity])
    | |- context [f64_to_f32 (f32_to_f64 ?x)] => rewrite (proj2 (H9 x eq_refl))
    end; reflexivity.
Qed.

(* ---------------------------------------------------------------- the properties object is a well-formed, expressible AMF0 object *)
Inductive sublist {A} : list A -> list A -> Prop :=
| sl_nil : sublist [] []
| sl_skip x a b : sublist a b -> sublist a (x :: b)
| sl_keep x a b : sublist a b -> sublist (x :: a) (x :: b).

Lemma sublist_in {A} (a b : list A) x : sublist a b -> In x a -> In x b.
Proof. induction 1 as [|y a b _ IH|y a b _ IH]; cbn; intros Hx; [contradiction|right; auto|destruct Hx as [Hx|Hx]; [left; assumption|right; auto]]. Qed.

Lemma sublist_nodup {A} (a b : list A) : sublist a b -> NoDup b -> NoDup a.
Proof.
  induction 1 as [|y a b S IH|y a b S IH]; intros N; [constructor|inversion N; auto|].
  inversion N as [|? ? Hn Hr]; subst. constructor; [intros Hi; apply Hn; apply (sublist_in _ _ _ S Hi)|auto].
Qed.

Lemma sublist_app {A} (a1 b1 a2 b2 : list A) : sublist a1 b1 -> sublist a2 b2 -> sublist (a1 ++ a2) (b1 ++ b2).
Proof. induction 1; cbn; intros Hx; [exact Hx|apply sl_skip; auto|apply sl_keep; auto]. Qed.

Lemma sublist_opt {A} k (o : option A) g : sublist (map fst (opt_prop k o g)) [str k].
Proof. destruct o; cbn; [apply sl_keep|apply sl_skip]; apply sl_nil. Qed.

Definition md_keys : list bytes :=
  [str "width"; str "height"; str "videocodecid"; str "framerate"; str "videodatarate"; str "audiocodecid"; str "audiodatarate";
   str "audiosamplerate"; str "audiochannels"; str "stereo"; str "encoder"].

Lemma md_keys_nodup : NoDup md_keys.
Proof.
  unfold md_keys. repeat (constructor; [cbn [In]; intros Hx; repeat (destruct Hx as [Hx|Hx]; [vm_compute in Hx; discriminate Hx|]); exact Hx|]). constructor.
Qed.

Lemma wf_props_app a b : wf_props (a ++ b) <-> wf_props a /\ wf_props b.
Proof. induction a as [|[k x] r IH]; cbn [app wf_props]; [tauto|]. rewrite IH. tauto. Qed.
Lemma expressible_props_app a b : expressible_props (a ++ b) = expressible_props a && expressible_props b.
Proof. induction a as [|[k x] r IH]; cbn [app expressible_props]; [reflexivity|]. rewrite IH. rewrite !Bool.andb_assoc. reflexivity. Qed.

Definition enc_ok (m : metadata) : Prop := forall s, md_encoder m = Some s -> utf8_valid s = true /\ lenN s <= 65535.

Theorem md_props_wf m : md_ok m -> enc_ok m ->
  wf_value (VObject (metadata_props_client m)) /\ expressible (VObject (metadata_props_client m)) = true.
Proof.
  intros [H1 [H2 [H3 [H4 [H5 [H6 [H7 [H8 H9]]]]]]]] He. split.
  - apply wf_value_object. split.
    + apply (sublist_nodup _ md_keys); [|exact md_keys_nodup]. unfold metadata_props_client, md_keys. rewrite !map_app.
      repeat (apply (sublist_app _ [_]); [apply sublist_opt|]). apply sublist_opt.
    + unfold metadata_props_client. rewrite !wf_props_app.
      assert (Hn : forall k (o : option N), (forall x, o = Some x -> x < 4294967296) -> utf8_valid (str k) = true ->
                     wf_props (opt_prop k o (fun x => VNumber (u32_to_f64 x)))).
      { intros k o Ho Hk. destruct o as [x|]; cbn [opt_prop wf_props wf_value]; [|exact I]. split; [exact Hk|]. split; [|exact I].
        apply u32_to_f64_bound. apply Ho. reflexivity. }
      repeat split; try (apply Hn; [assumption|reflexivity]).
      * destruct (md_framerate m) as [x|] eqn:E; cbn [opt_prop wf_props wf_value]; [|exact I]. split; [reflexivity|]. split; [|exact I].
        apply f32_to_f64_bound. apply (H9 x eq_refl).
      * destruct (md_stereo m); cbn [opt_prop wf_props wf_value]; [|exact I]. split; [reflexivity|]. split; exact I.
      * destruct (md_encoder m) as [s|] eqn:E; cbn [opt_prop wf_props wf_value]; [|exact I]. split; [reflexivity|]. split; [|exact I].
        apply (He s E).
  - change (expressible (VObject (metadata_props_client m))) with (expressible_props (metadata_props_client m)).
    unfold metadata_props_client. rewrite !expressible_props_app.
    assert (Hx : forall {A} k (o : option A) g, (1 <=? lenN (str k)) && (lenN (str k) <=? 65535) = true ->
              (forall x, o = Some x -> expressible (g x) = true) -> expressible_props (opt_prop k o g) = true).
    { intros A k o g Hk Hg. destruct o as [x|]; cbn [opt_prop expressible_props]; [|reflexivity]. rewrite Hk, (Hg x eq_refl). reflexivity. }
    rewrite !Hx; try reflexivity; try (intros x _; reflexivity).
    intros s E. cbn [expressible]. destruct (He s E) as [_ Hl]. lia.
Qed.
