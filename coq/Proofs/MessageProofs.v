(* C13: RTMP message bodies follow the specification layout and convert back losslessly. *)
From Coq Require Import ZArith Lia ZifyN ZifyBool ZifyNat.
From RML Require Import Model.Base Model.Utf8 Model.Amf0 Model.Messages Gen.Consts
  Spec.Amf0Spec Spec.Amf0Wire Spec.MessageSpec Proofs.BaseProofs Proofs.Amf0Proofs.
Ltac Zify.zify_post_hook ::= Z.div_mod_to_equations.
Local Open Scope N_scope.

Ltac consts :=
  unfold TID_Abort, TID_Acknowledgement, TID_Amf0Command, TID_Amf0Data, TID_AudioData, TID_SetChunkSize,
    TID_SetPeerBandwidth, TID_UserControl, TID_VideoData, TID_WindowAcknowledgement,
    UC_StreamBegin, UC_StreamEof, UC_StreamDry, UC_SetBufferLength, UC_StreamIsRecorded, UC_PingRequest,
    UC_PingResponse, UC_BufferEmpty, UC_BufferReady,
    UCD_StreamBegin, UCD_StreamEof, UCD_StreamDry, UCD_SetBufferLength, UCD_StreamIsRecorded, UCD_PingRequest,
    UCD_PingResponse, UCD_BufferEmpty, UCD_BufferReady,
    LIMIT_Hard, LIMIT_Soft, LIMIT_Dynamic, LIMITD_Hard, LIMITD_Soft, LIMITD_Dynamic, MAX_CHUNK_SIZE_MSG in *.

Ltac eqb_compute :=
  repeat match goal with
  | |- context [N.eqb ?a ?b] =>
      let v := eval vm_compute in (N.eqb a b) in
      lazymatch v with
      | true => change (N.eqb a b) with true
      | false => change (N.eqb a b) with false
      end
  end; cbv iota.

Lemma Ok_inj {A E} (a b : A) : @Ok A E a = Ok b -> a = b.
Proof. intros H; inversion H; reflexivity. Qed.

Definition known_tid (t : N) : bool :=
  (t =? 1) || (t =? 2) || (t =? 3) || (t =? 4) || (t =? 5) || (t =? 6) || (t =? 8) || (t =? 9) ||
  (t =? 15) || (t =? 17) || (t =? 18) || (t =? 20).

Definition u32 (n : N) : Prop := n < 4294967296.

(* well-formed messages: the Option fields populated exactly as the event type requires, Unknown only with
   an unknown type id, AMF0 parts well-formed (C04) *)
Definition msg_ok (m : rtmp_message) : Prop :=
  match m with
  | MUnknown tid _ => known_tid tid = false
  | MAbort n | MAcknowledgement n | MWindowAcknowledgement n | MSetChunkSize n => u32 n
  | MSetPeerBandwidth n _ => u32 n
  | MUserControl ev sid bl ts =>
      match ev with
      | SetBufferLength => (exists a b, sid = Some a /\ bl = Some b /\ u32 a /\ u32 b) /\ ts = None
      | PingRequest | PingResponse => sid = None /\ bl = None /\ exists t, ts = Some t /\ u32 t
      | _ => (exists a, sid = Some a /\ u32 a) /\ bl = None /\ ts = None
      end
  | MAmf0Command name tr obj args => wf_values (VString name :: VNumber tr :: obj :: args)
  | MAmf0Data vs => wf_values vs
  | MAudioData _ | MVideoData _ => True
  end.

Lemma read_u32_be32 n rest : u32 n -> read_u32 (be32 n ++ rest) = Some (n, rest).
Proof.
  intros H. unfold read_u32. change 4 with (lenN (be32 n)). rewrite take_n_app. rewrite of_be_be32 by exact H. reflexivity.
Qed.

Lemma read_u32_be32_nil n : u32 n -> read_u32 (be32 n) = Some (n, []).
Proof. intros H. rewrite <- (app_nil_r (be32 n)). apply read_u32_be32. exact H. Qed.

Lemma read_u16_be16 n rest : n < 65536 -> read_u16 (be16 n ++ rest) = Some (n, rest).
Proof.
  intros H. unfold read_u16. change 2 with (lenN (be16 n)). rewrite take_n_app. rewrite of_be_be16 by exact H. reflexivity.
Qed.

Lemma deserialize_of_serialize vs b : wf_values vs -> Amf0.serialize vs = Ok b -> Amf0.deserialize b = Ok vs.
Proof.
  intros Hwf E. unfold Amf0.deserialize. rewrite (roundtrip_ok vs b Hwf E). reflexivity.
Qed.

Theorem msg_roundtrip m tid b : msg_ok m -> to_payload m = Ok (tid, b) -> of_payload tid b = Ok m.
Proof.
  intros Hok H. unfold to_payload in H.
  destruct (message_body m) as [body|e| |] eqn:Eb; cbn [obind] in H; try discriminate.
  inversion H; subst tid b. clear H.
  destruct m as [t d|n|n|name tr obj args|vs|d|n|n lt|ev sid bl ts|d|n]; cbn [message_body message_type_id msg_ok] in *.
  - (* unknown *)
    apply Ok_inj in Eb; subst body. unfold known_tid in Hok. unfold of_payload.
    repeat (apply orb_false_elim in Hok; destruct Hok as [Hok ?]).
    repeat match goal with E : (t =? _) = false |- _ => rewrite E; clear E end. reflexivity.
  - apply Ok_inj in Eb; subst body. consts. unfold of_payload, de_u32. eqb_compute. rewrite read_u32_be32_nil by exact Hok. reflexivity.
  - apply Ok_inj in Eb; subst body. consts. unfold of_payload, de_u32. eqb_compute. rewrite read_u32_be32_nil by exact Hok. reflexivity.
  - (* command *)
    destruct (Amf0.serialize (VString name :: VNumber tr :: obj :: args)) as [b0|e0| |] eqn:Es; try discriminate.
    apply Ok_inj in Eb; subst body. consts. unfold of_payload. eqb_compute. unfold de_amf0_command.
    rewrite (deserialize_of_serialize _ _ Hok Es). reflexivity.
  - destruct (Amf0.serialize vs) as [b0|e0| |] eqn:Es; try discriminate.
    apply Ok_inj in Eb; subst body. consts. unfold of_payload. eqb_compute. unfold de_amf0_data.
    rewrite (deserialize_of_serialize _ _ Hok Es). reflexivity.
  - apply Ok_inj in Eb; subst body. consts. reflexivity.
  - (* set chunk size *)
    consts. destruct (2147483647 <? n) eqn:E; [discriminate|]. apply Ok_inj in Eb; subst body.
    unfold of_payload. eqb_compute. rewrite read_u32_be32_nil by exact Hok. consts. rewrite E. reflexivity.
  - (* set peer bandwidth *)
    apply Ok_inj in Eb; subst body. consts. unfold of_payload. eqb_compute. rewrite read_u32_be32 by exact Hok.
    consts. destruct lt; reflexivity.
  - (* user control *)
    consts. unfold of_payload. eqb_compute. unfold de_user_control.
    destruct ev; cbn [uc_code] in Eb; consts; apply Ok_inj in Eb; subst body;
      rewrite read_u16_be16 by lia; unfold uc_of_code; consts; eqb_compute;
      try (destruct Hok as [[a [Ha Hu]] [Hb Hc]]; subst sid bl ts; cbn [opt0]; rewrite read_u32_be32_nil by exact Hu; reflexivity).
    + destruct Hok as [[a [b0 [Ha [Hb [Hua Hub]]]]] Hc]. subst sid bl ts. cbn [opt0].
      rewrite read_u32_be32 by exact Hua. rewrite read_u32_be32_nil by exact Hub. reflexivity.
    + destruct Hok as [Ha [Hb [t [Hc Hu]]]]. subst sid bl ts. cbn [opt0]. rewrite read_u32_be32_nil by exact Hu. reflexivity.
    + destruct Hok as [Ha [Hb [t [Hc Hu]]]]. subst sid bl ts. cbn [opt0]. rewrite read_u32_be32_nil by exact Hu. reflexivity.
  - apply Ok_inj in Eb; subst body. consts. reflexivity.
  - apply Ok_inj in Eb; subst body. consts. unfold of_payload, de_u32. eqb_compute. rewrite read_u32_be32_nil by exact Hok. reflexivity.
Qed.

(* the reference encoder on value lists *)
Lemma serialize_is_spec vs : wf_values vs ->
  match ref_encode_all vs with
  | Some b => Amf0.serialize vs = Ok b
  | None => exists e, Amf0.serialize vs = Err e
  end.
Proof.
  induction vs as [|x r IH]; intros Hwf; [reflexivity|].
  cbn [wf_values] in Hwf. destruct Hwf as [Hx Hr]. specialize (IH Hr). pose proof (encode_is_spec x Hx) as Ex.
  cbn [ref_encode_all]. unfold Amf0.serialize in *. cbn [encode_values].
  destruct (ref_encode x) as [bx|].
  - rewrite Ex. cbn [obind]. destruct (ref_encode_all r) as [br|].
    + rewrite IH. reflexivity.
    + destruct IH as [e He]. rewrite He. eexists; reflexivity.
  - destruct Ex as [e He]. rewrite He. eexists; reflexivity.
Qed.

Theorem layout_is_spec m : msg_ok m ->
  match spec_layout m with
  | Some p => to_payload m = Ok p
  | None => exists e, to_payload m = Err e
  end.
Proof.
  intros Hok. unfold to_payload.
  destruct m as [t d|n|n|name tr obj args|vs|d|n|n lt|ev sid bl ts|d|n]; cbn [message_body message_type_id msg_ok spec_layout] in *; consts; try reflexivity.
  - pose proof (serialize_is_spec _ Hok) as H. destruct (ref_encode_all (VString name :: VNumber tr :: obj :: args)).
    + rewrite H. reflexivity.
    + destruct H as [e He]. rewrite He. eexists; reflexivity.
  - pose proof (serialize_is_spec _ Hok) as H. destruct (ref_encode_all vs).
    + rewrite H. reflexivity.
    + destruct H as [e He]. rewrite He. eexists; reflexivity.
  - destruct (2147483647 <? n) eqn:E.
    + replace (n <=? 2147483647) with false by lia. eexists; reflexivity.
    + replace (n <=? 2147483647) with true by lia. reflexivity.
  - destruct ev; cbn [uc_code spec_uc_code]; consts;
      try (destruct Hok as [[a [Ha Hu]] [Hb Hc]]; subst sid bl ts; reflexivity).
    + destruct Hok as [[a [b0 [Ha [Hb [Hua Hub]]]]] Hc]. subst sid bl ts. reflexivity.
    + destruct Hok as [Ha [Hb [t [Hc Hu]]]]. subst sid bl ts. reflexivity.
    + destruct Hok as [Ha [Hb [t [Hc Hu]]]]. subst sid bl ts. reflexivity.
Qed.

Theorem amf3_data_alias d : of_payload 15 d = of_payload 18 d.
Proof. reflexivity. Qed.

Theorem amf3_command_alias d :
  of_payload 17 d = of_payload 20 (match d with 0 :: r => r | _ => d end).
Proof. unfold of_payload. eqb_compute. destruct d as [|[|p] r]; reflexivity. Qed.

Theorem unknown_passthrough tid d : known_tid tid = false -> of_payload tid d = Ok (MUnknown tid d).
Proof.
  unfold known_tid, of_payload. intros H.
  repeat (apply orb_false_elim in H; destruct H as [H ?]).
  repeat match goal with E : (tid =? _) = false |- _ => rewrite E; clear E end. reflexivity.
Qed.

Theorem chunk_size_bounds n : 2147483647 < n -> n < 4294967296 ->
  to_payload (MSetChunkSize n) = Err InvalidChunkSize /\ of_payload 1 (be32 n) = Err InvalidMessageFormat.
Proof.
  intros H1 H2. unfold to_payload. cbn [message_body]. consts.
  replace (2147483647 <? n) with true by lia. split; [reflexivity|].
  unfold of_payload. eqb_compute. rewrite read_u32_be32_nil by exact H2. consts.
  replace (2147483647 <? n) with true by lia. reflexivity.
Qed.
