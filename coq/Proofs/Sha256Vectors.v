(* Published test vectors for the Gallina SHA-256 and HMAC-SHA256 of Model/Sha256.v (FIPS 180-4 examples, RFC 4231 cases 1 and 2).
   Proved by vm_compute; kept in their own file so that only the check of C11 pays for re-checking them with coqchk. *)
From Coq Require Import String ZArith.
From RML Require Import Model.Base Model.SessionCommon Model.Sha256.
Local Open Scope list_scope.
Local Open Scope N_scope.

Example sha256_abc :
  sha256 [97; 98; 99] = [186; 120; 22; 191; 143; 1; 207; 234; 65; 65; 64; 222; 93; 174; 34; 35; 176; 3; 97; 163; 150; 23; 122; 156; 180; 16; 255; 97; 242; 0; 21; 173].
Proof. vm_compute. reflexivity. Qed.

Example sha256_empty :
  sha256 [] = [227; 176; 196; 66; 152; 252; 28; 20; 154; 251; 244; 200; 153; 111; 185; 36; 39; 174; 65; 228; 100; 155; 147; 76; 164; 149; 153; 27; 120; 82; 184; 85].
Proof. vm_compute. reflexivity. Qed.

(* NIST two-block message "abcdbcdecdefdefgefghfghighijhijkijkljklmklmnlmnomnopnopq" *)
Example sha256_two_blocks :
  sha256 (str "abcdbcdecdefdefgefghfghighijhijkijkljklmklmnlmnomnopnopq") =
  [36; 141; 106; 97; 210; 6; 56; 184; 229; 192; 38; 147; 12; 62; 96; 57; 163; 60; 228; 89; 100; 255; 33; 103; 246; 236; 237; 212; 25; 219; 6; 193].
Proof. vm_compute. reflexivity. Qed.

(* RFC 4231 test cases 1 and 2 *)
Example hmac_rfc4231_1 :
  hmac_sha256 (repeat 11 20) (str "Hi There") =
  [176; 52; 76; 97; 216; 219; 56; 83; 92; 168; 175; 206; 175; 11; 241; 43; 136; 29; 194; 0; 201; 131; 61; 167; 38; 233; 55; 108; 46; 50; 207; 247].
Proof. vm_compute. reflexivity. Qed.

Example hmac_rfc4231_2 :
  hmac_sha256 (str "Jefe") (str "what do ya want for nothing?") =
  [91; 220; 193; 70; 191; 96; 117; 78; 106; 4; 36; 38; 8; 149; 117; 199; 90; 0; 63; 8; 157; 39; 57; 131; 157; 236; 88; 185; 100; 236; 56; 67].
Proof. vm_compute. reflexivity. Qed.
