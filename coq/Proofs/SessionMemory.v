(* C03, sessions: the bytes a session's deserializer holds (buffer + partial payloads) after an input call are at most what it held
   before plus the bytes of the call - handlers never add to it (SessionFrame: they leave the deserializer alone or only change its
   chunk size). *)
From Coq Require Import ZArith Lia ZifyN ZifyBool ZifyNat List.
From RML Require Import Model.Base Model.Chunk Model.ChunkDe Model.Messages Model.SessionCommon Model.Server Model.Client
  Proofs.ChunkDeMemory Proofs.SessionFrame.
Import ListNotations.
Local Open Scope nat_scope.

Lemma de_set_max_stored d n d' : de_set_max_chunk_size d n = Ok d' -> stored d' = stored d.
Proof. unfold de_set_max_chunk_size. destruct (_ || _)%bool; [discriminate|]. intros H. injection H as <-. reflexivity. Qed.

Lemma h_message_stored s p clock : stored (sv_de (fst (h_message s p clock))) = stored (sv_de s).
Proof.
  destruct (h_message_de s p clock) as [-> | [n E]]; [reflexivity|]. apply (de_set_max_stored _ _ _ E).
Qed.

Lemma h_loop_memory fuel : forall s input clock acc,
  stored (sv_de (fst (h_loop fuel s input clock acc))) <= stored (sv_de s) + length input.
Proof.
  induction fuel as [|f IH]; intros s input clock acc; cbn [h_loop]; [cbn [fst]; lia|].
  destruct (get_next_message (sv_de s) input) as [d res] eqn:G. pose proof (get_next_message_memory _ _ _ _ G) as Hm.
  destruct res as [p| |e|]; cbn [fst sv_de upd_de]; try lia.
  pose proof (h_message_stored (upd_de s d) p clock) as Hh. cbn [sv_de upd_de] in Hh.
  destruct (h_message (upd_de s d) p clock) as [s1 r] eqn:Em. cbn [fst] in Hh.
  destruct r as [rs|e|]; cbn [fst]; try lia.
  specialize (IH s1 [] clock (acc ++ rs)). cbn [length] in IH. lia.
Qed.

Theorem server_input_memory s input clock :
  stored (sv_de (fst (server_handle_input s input clock))) <= stored (sv_de s) + length input.
Proof.
  unfold server_handle_input. destruct (ack_step (sv_ack s) (lenN input)) as [a [n|]].
  - destruct (send_message (sv_ser s) (MAcknowledgement n) clock 0 false false) as [[b ser']|e|x|]; cbn [fst sv_de upd_ack]; try lia.
    apply (h_loop_memory _ (upd_ack (upd_ser s ser') a)).
  - apply (h_loop_memory _ (upd_ack s a)).
Qed.

Lemma ch_message_stored c p clock : stored (cl_de (fst (ch_message c p clock))) = stored (cl_de c).
Proof.
  destruct (ch_message_de c p clock) as [-> | [n E]]; [reflexivity|]. apply (de_set_max_stored _ _ _ E).
Qed.

Lemma ch_loop_memory fuel : forall c input clock acc,
  stored (cl_de (fst (ch_loop fuel c input clock acc))) <= stored (cl_de c) + length input.
Proof.
  induction fuel as [|f IH]; intros c input clock acc; cbn [ch_loop]; [cbn [fst]; lia|].
  destruct (get_next_message (cl_de c) input) as [d res] eqn:G. pose proof (get_next_message_memory _ _ _ _ G) as Hm.
  destruct res as [p| |e|]; cbn [fst cl_de cupd_de]; try lia.
  pose proof (ch_message_stored (cupd_de c d) p clock) as Hh. cbn [cl_de cupd_de] in Hh.
  destruct (ch_message (cupd_de c d) p clock) as [c1 r] eqn:Em. cbn [fst] in Hh.
  destruct r as [rs|e|]; cbn [fst]; try lia.
  specialize (IH c1 [] clock (acc ++ rs)). cbn [length] in IH. lia.
Qed.

Theorem client_input_memory c input clock :
  stored (cl_de (fst (client_handle_input c input clock))) <= stored (cl_de c) + length input.
Proof.
  unfold client_handle_input. destruct (ack_step (cl_ack c) (lenN input)) as [a [n|]].
  - destruct (send_message (cl_ser c) (MAcknowledgement n) clock 0 false false) as [[b ser']|e|x|]; cbn [fst cl_de cupd_ack]; try lia.
    apply (ch_loop_memory _ (cupd_ack (cupd_ser c ser') a)).
  - apply (ch_loop_memory _ (cupd_ack c a)).
Qed.
