(* C16: chunk streams are independent.  For any interleaving of the chunks of several chunk streams, what is
   decoded on each chunk stream id is what that stream's chunks decode to on their own; the interleaved stream is
   accepted whenever each stream on its own is; and messages come out when their last chunk arrives. *)
From Coq Require Import ZArith Lia ZifyN ZifyBool ZifyNat.
From RML Require Import Model.Base Model.Chunk Spec.ChunkSpec Proofs.BaseProofs Proofs.ChunkSpecProofs.
Local Open Scope N_scope.

(* decoding with a fixed chunk size: the per-chunk outputs *)
Fixpoint run_nc (st : sdec_state) (L : list chunk) : option (sdec_state * list (option msg)) :=
  match L with
  | [] => Some (st, [])
  | c :: r =>
    match dec_chunk st c with
    | None => None
    | Some (st1, om) => match run_nc st1 r with Some (st2, os) => Some (st2, om :: os) | None => None end
    end
  end.

(* the chunks of chunk stream k, in order; and the outputs at their positions *)
Fixpoint proj (k : N) (L : list chunk) : list chunk :=
  match L with [] => [] | c :: r => if c_csid c =? k then c :: proj k r else proj k r end.
Fixpoint pick {A} (k : N) (L : list chunk) (os : list A) : list A :=
  match L, os with
  | c :: r, o :: os' => if c_csid c =? k then o :: pick k r os' else pick k r os'
  | _, _ => []
  end.

Definition agree_at (k : N) (a b : sdec_state) : Prop := sd_max a = sd_max b /\ lookup k (sd_cs a) = lookup k (sd_cs b).

(* one chunk looks only at its own chunk stream's entry and writes only that entry *)
Lemma dec_chunk_local a b c : agree_at (c_csid c) a b ->
  match dec_chunk a c, dec_chunk b c with
  | Some (a1, oa), Some (b1, ob) =>
      oa = ob /\ agree_at (c_csid c) a1 b1 /\
      (forall k, k <> c_csid c -> lookup k (sd_cs a1) = lookup k (sd_cs a) /\ lookup k (sd_cs b1) = lookup k (sd_cs b)) /\
      sd_max a1 = sd_max a
  | None, None => True
  | _, _ => False
  end.
Proof.
  intros [Hm Hl]. unfold dec_chunk. rewrite <- Hl, <- Hm.
  destruct (negb (chunk_wf c)); [exact I|].
  destruct (header_after (lookup (c_csid c) (sd_cs a)) c) as [s|]; [|exact I].
  destruct (lenN (cs_partial s) <=? cs_len s); [|exact I].
  destruct (lenN (c_payload c) =? expected_payload (sd_max a) s); [|exact I].
  destruct (lenN (cs_partial s ++ c_payload c) =? cs_len s);
    (split; [reflexivity|split; [split; [reflexivity|cbn [sd_cs]; rewrite !lookup_insert_same; reflexivity]|
      split; [intros k Hk; cbn [sd_cs]; split; apply lookup_insert_other; exact Hk|reflexivity]]]).
Qed.

Lemma proj_all k L : Forall (fun c => c_csid c = k) (proj k L).
Proof.
  induction L as [|c r IH]; cbn [proj]; [constructor|]. destruct (c_csid c =? k) eqn:E; [|exact IH].
  constructor; [lia|exact IH].
Qed.

(* a run of chunks all on chunk stream k depends only on the entry of k *)
Lemma run_nc_local k M : Forall (fun c => c_csid c = k) M -> forall a b, agree_at k a b ->
  match run_nc a M, run_nc b M with
  | Some (a1, oa), Some (b1, ob) => oa = ob /\ agree_at k a1 b1
  | None, None => True
  | _, _ => False
  end.
Proof.
  induction 1 as [|c r Hc _ IH]; intros a b Hab; cbn [run_nc]; [split; [reflexivity|exact Hab]|].
  subst k. pose proof (dec_chunk_local a b c Hab) as Hd.
  destruct (dec_chunk a c) as [[a1 oa]|], (dec_chunk b c) as [[b1 ob]|]; try contradiction; [|exact I].
  destruct Hd as [-> [Hab1 _]]. specialize (IH a1 b1 Hab1).
  destruct (run_nc a1 r) as [[a2 oa2]|], (run_nc b1 r) as [[b2 ob2]|]; try contradiction; [|exact I].
  destruct IH as [-> H2]. split; [reflexivity|exact H2].
Qed.

(* the interleaving theorem on the specification decoder *)
Theorem interleave_local L : forall st,
  (forall k, run_nc st (proj k L) <> None) ->
  exists st' os, run_nc st L = Some (st', os) /\ length os = length L /\
    forall k, exists stk, run_nc st (proj k L) = Some (stk, pick k L os) /\ agree_at k stk st'.
Proof.
  induction L as [|c r IH]; intros st Hall.
  - exists st, []. split; [reflexivity|]. split; [reflexivity|]. intros k. exists st. split; [reflexivity|split; reflexivity].
  - pose proof (Hall (c_csid c)) as H0. cbn [proj] in H0. rewrite N.eqb_refl in H0. cbn [run_nc] in H0.
    destruct (dec_chunk st c) as [[st1 om]|] eqn:Hd; [|contradiction].
    pose proof (dec_chunk_local st st c (conj eq_refl eq_refl)) as Hloc. rewrite Hd in Hloc. destruct Hloc as [_ [_ [Hoth Hmax]]].
    assert (Hall1 : forall k, run_nc st1 (proj k r) <> None).
    { intros k. destruct (N.eq_dec k (c_csid c)) as [-> | Hk].
      - destruct (run_nc st1 (proj (c_csid c) r)); [discriminate|contradiction].
      - pose proof (Hall k) as Hk1. cbn [proj] in Hk1. replace (c_csid c =? k) with false in Hk1 by lia.
        pose proof (run_nc_local k (proj k r) (proj_all k r) st st1) as Hl.
        destruct (Hoth k Hk) as [E1 _]. specialize (Hl (conj (eq_sym Hmax) (eq_sym E1))).
        destruct (run_nc st (proj k r)) as [[x1 x2]|]; [|contradiction]. destruct (run_nc st1 (proj k r)); [discriminate|contradiction]. }
    destruct (IH st1 Hall1) as [st' [os [Hrun [Hlen Hk]]]].
    exists st', (om :: os). cbn [run_nc]. rewrite Hd, Hrun. split; [reflexivity|]. split; [cbn [length]; lia|].
    intros k. destruct (Hk k) as [stk [Hk1 Hk2]]. cbn [proj pick]. destruct (c_csid c =? k) eqn:E.
    + assert (k = c_csid c) by lia. subst k. cbn [run_nc]. rewrite Hd, Hk1. exists stk. split; [reflexivity|exact Hk2].
    + assert (Hne : k <> c_csid c) by lia. destruct (Hoth k Hne) as [E1 _].
      pose proof (run_nc_local k (proj k r) (proj_all k r) st st1 (conj (eq_sym Hmax) (eq_sym E1))) as Hl.
      rewrite Hk1 in Hl. destruct (run_nc st (proj k r)) as [[y1 y2]|]; [|contradiction]. destruct Hl as [-> [Ha Hb]].
      exists y1. split; [reflexivity|]. destruct Hk2 as [K1 K2]. split; [rewrite Ha; exact K1|rewrite Hb; exact K2].
Qed.

(* with no Set Chunk Size message among the completed ones, the full decoder is run_nc *)
Fixpoint somes {A} (l : list (option A)) : list A :=
  match l with [] => [] | Some x :: r => x :: somes r | None :: r => somes r end.

Lemma run_nc_sdec_run L : forall st st' os,
  run_nc st L = Some (st', os) -> Forall (fun m => m_tid m <> 1) (somes os) -> sdec_run st L = Some (st', somes os).
Proof.
  induction L as [|c r IH]; intros st st' os Hr Hn; cbn [run_nc sdec_run] in *.
  - injection Hr as <- <-. reflexivity.
  - destruct (dec_chunk st c) as [[st1 om]|]; [|discriminate].
    destruct (run_nc st1 r) as [[st2 os2]|] eqn:E; [|discriminate]. injection Hr as <- <-.
    destruct om as [m|]; cbn [somes] in *.
    + inversion Hn as [|? ? Hm Hrest]; subst. unfold apply_control. replace (m_tid m =? 1) with false by lia.
      rewrite (IH st1 st2 os2 E Hrest). reflexivity.
    + apply (IH st1 st2 os2 E Hn).
Qed.
