(* The driving loop's fuel is adequate: drain / feed / feed_all never report DrvFuel.  Every completed message
   costs at least one byte of the buffer (or the pending stage), so the number of calls is bounded by the buffer. *)
From Coq Require Import ZArith Lia ZifyN ZifyBool ZifyNat.
From RML Require Import Model.Base Model.Time Model.Chunk Model.ChunkDe Gen.Consts Proofs.BaseProofs Proofs.ChunkDeProofs.
Ltac Zify.zify_post_hook ::= Z.div_mod_to_equations.
Local Open Scope N_scope.

Definition pending (s : stage) : nat := match s with StCsid => 0 | _ => 1 end.
Definition nu (st : dstate) : nat := (length (d_buf st) + pending (d_stage st))%nat.

Ltac fin := intros H; injection H; intros; subst; cbn [d_buf d_stage set_stage set_buf set_cur set_prev set_fmt pending]; split; [lia|intros; try discriminate; try lia].

Lemma nu_step st st' om : run_stage st = Ok (Success, st', om) ->
  (nu st' <= nu st)%nat /\ (forall m, om = Some m -> (nu st' < nu st)%nat).
Proof.
  unfold run_stage, nu. destruct (d_stage st) eqn:Es; cbn [pending].
  - unfold form_header. destruct (d_buf st) as [|b0 r] eqn:Eb; [discriminate|].
    destruct (get_csid (b0 :: r)) as [[csid next]|] eqn:Ec; [|discriminate].
    destruct (get_csid_ext (b0 :: r) csid next [] Ec) as [_ [_ [H1 H2]]].
    pose proof (drop_n_length (b0 :: r) next H2) as Hd.
    remember (drop_n next (b0 :: r)) as rest eqn:Er. clear Er.
    cbn [d_fmt set_fmt d_prev].
    destruct (get_format b0); try fin;
      (destruct (lookup csid (d_prev st)); [fin|intros H; discriminate H]).
  - unfold get_initial_timestamp. destruct (d_fmt st); try fin;
      (destruct (take_n (d_buf st) 3) as [[b r]|] eqn:E; [|discriminate]; pose proof (take_n_rest_length _ _ _ _ E) as Hlen; fin).
  - unfold get_message_length. destruct (d_fmt st); try fin;
      (destruct (take_n (d_buf st) 3) as [[b r]|] eqn:E; [|discriminate]; pose proof (take_n_rest_length _ _ _ _ E) as Hlen; fin).
  - unfold get_message_type_id. destruct (d_fmt st); try fin;
      (destruct (d_buf st) as [|b r] eqn:E; [discriminate|]; cbn [length]; fin).
  - unfold get_message_stream_id. destruct (d_fmt st); try fin.
    destruct (take_n (d_buf st) 4) as [[b r]|] eqn:E; [|discriminate]. pose proof (take_n_rest_length _ _ _ _ E) as Hlen. fin.
  - unfold get_extended_timestamp. destruct (_ <? _); [fin|].
    destruct (take_n (d_buf st) 4) as [[b r]|] eqn:E; [|discriminate]. pose proof (take_n_rest_length _ _ _ _ E) as Hlen. fin.
  - unfold get_message_data. destruct (_ <? _); [discriminate|].
    destruct (take_n (d_buf st) _) as [[b r]|] eqn:E; [|discriminate]. pose proof (take_n_rest_length _ _ _ _ E) as Hlen.
    intros H; injection H; intros; subst; cbn [d_buf d_stage pending]. split; [lia|intros; lia].
Qed.

Lemma blocked_same st r st' om : run_stage st = Ok (r, st', om) -> r = NotEnoughBytes -> om = None.
Proof.
  intros H ->. pose proof (stage_ext st []) as Hx. rewrite H in Hx. destruct Hx as [_ Ho]. exact Ho.
Qed.

Lemma loop_msg_cost f : forall st st' m, stage_loop f st = (st', DMsg m) -> (nu st' < nu st)%nat.
Proof.
  induction f as [|f IH]; intros st st' m H; cbn [stage_loop] in H; [discriminate|].
  destruct (run_stage st) as [[[r st1] om]|e|x|] eqn:Er; try discriminate.
  destruct om as [m1|].
  - injection H as <- <-. destruct r.
    + destruct (nu_step _ _ _ Er) as [_ Hs]. apply (Hs m1 eq_refl).
    + pose proof (blocked_same _ _ _ _ Er eq_refl). discriminate.
  - destruct r; [|discriminate]. destruct (nu_step _ _ _ Er) as [Hle _]. specialize (IH _ _ _ H). lia.
Qed.

Lemma driver_apply_nu s m s2 : driver_apply s m = Ok s2 -> nu s2 = nu s.
Proof.
  unfold driver_apply. destruct (m_tid m =? 1); [|intros H; injection H as <-; reflexivity].
  destruct (take_n (m_data m) 4) as [[b r]|]; [|discriminate]. unfold de_set_max_chunk_size.
  destruct (_ || _); [discriminate|]. intros H; injection H as <-. reflexivity.
Qed.

Lemma drain_fuel_adequate fuel : forall s acc, (nu s < fuel)%nat -> snd (drain fuel s acc) <> Some DrvFuel.
Proof.
  induction fuel as [|f IH]; intros s acc Hn; [lia|]. cbn [drain].
  pose proof (get_next_message_terminates s []) as Ht.
  destruct (get_next_message s []) as [s1 res] eqn:Eg. cbn [snd] in Ht. destruct res as [m| |e|]; try (cbn; discriminate); [|contradiction].
  unfold get_next_message in Eg. apply loop_msg_cost in Eg.
  assert (Hn1 : (nu s1 < nu s)%nat).
  { unfold nu in *. cbn [d_buf d_stage set_buf] in Eg. rewrite app_nil_r in Eg. exact Eg. }
  destruct (driver_apply s1 m) as [s2|e|x|] eqn:Ed; try (cbn; discriminate).
  apply IH. rewrite (driver_apply_nu _ _ _ Ed). lia.
Qed.

Lemma feed_fuel_adequate s piece acc : snd (feed s piece acc) <> Some DrvFuel.
Proof.
  unfold feed. apply drain_fuel_adequate. unfold nu. cbn [d_buf d_stage set_buf]. rewrite app_length.
  destruct (d_stage s); cbn [pending]; lia.
Qed.

Theorem feed_all_fuel_adequate pieces : forall s acc, snd (feed_all s pieces acc) <> Some DrvFuel.
Proof.
  induction pieces as [|p r IH]; intros s acc; cbn [feed_all]; [cbn; discriminate|].
  pose proof (feed_fuel_adequate s p acc) as Hf.
  destruct (feed s p acc) as [[s1 ms1] r1]. cbn [snd] in Hf. destruct r1 as [e|]; [exact Hf|apply IH].
Qed.
