(* C02, transport layer: from any linked pair (sender's serializer, receiver's deserializer), whatever operations the sender's
   serializer performs - messages of any kind, chunk-size changes - and however the produced bytes are cut into input calls, the
   receiver's deserializer (driving loop honouring Set Chunk Size) returns exactly the messages sent, in order, without error,
   and the pair is linked again.  With SessionTrace / ClientTrace (the packets of a successful session call are the outputs of
   its serializer operations) this holds for everything either session sends, in every schedule. *)
From Coq Require Import ZArith Lia ZifyN ZifyBool ZifyNat.
From RML Require Import Model.Base Model.Chunk Model.ChunkSer Model.ChunkDe Spec.ChunkSpec
  Proofs.ChunkSerProofs Proofs.ChunkDeProofs Proofs.ChunkDeFuel Proofs.ChunkRefineProofs Proofs.ChunkEndToEnd Proofs.InteropProofs.
Local Open Scope N_scope.

(* T1 at record level, from any simulated pair, keeping the simulation at the end *)
Lemma run_sim_all ops : forall sst dst packets sst',
  Sim sst dst -> Forall op_wf ops -> ser_run sst ops = Ok (packets, sst') ->
  exists cs dst', concat packets = concat (map emit_chunk cs) /\ sdec_run dst cs = Some (dst', map op_msg ops) /\ Sim sst' dst'.
Proof.
  induction ops as [|op r IH]; intros sst dst packets sst' HSim Hwf Hrun.
  - cbn [ser_run] in Hrun. inversion Hrun; subst. exists [], dst. split; [reflexivity|]. split; [reflexivity|exact HSim].
  - cbn [ser_run] in Hrun. destruct (ser_step sst op) as [[b sst1]|e| |] eqn:Estep; cbn [obind] in Hrun; try discriminate.
    destruct (ser_run sst1 r) as [[bs sst2]|e| |] eqn:Erun; cbn [obind] in Hrun; try discriminate.
    inversion Hrun; subst packets sst'. clear Hrun. inversion Hwf as [|? ? Hop Hr]; subst.
    destruct (step_sim sst dst op b sst1 HSim Hop Estep) as [cs [dst1 [dst2 [Hb [Hdo [Hac [HS2 _]]]]]]].
    destruct (IH sst1 dst2 bs sst2 HS2 Hr Erun) as [cs' [dst' [Hc [Hs HS3]]]].
    exists (cs ++ cs'), dst'. split; [cbn [concat]; rewrite Hb, Hc, map_app, concat_app; reflexivity|].
    split; [cbn [map]; apply (sdec_run_one cs dst dst1 (op_msg op) dst2 cs' dst' _ Hdo Hac Hs)|exact HS3].
Qed.

(* the executable driving loop from any state, against the relational one *)
Lemma feed_all_complete pieces : forall s acc s' ms, feeds s pieces acc s' ms None -> feed_all s pieces acc = (s', ms, None).
Proof.
  intros s acc s' ms F.
  pose proof (feed_all_fuel_adequate pieces s acc) as Hf.
  destruct (feed_all s pieces acc) as [[s1 ms1] r1] eqn:E. cbn [snd] in Hf.
  pose proof (feed_all_sound pieces s acc s1 ms1 r1 E Hf) as F1.
  assert (Hfun : forall p s0 a sa ma ra, feeds s0 p a sa ma ra -> forall sb mb rb, feeds s0 p a sb mb rb -> sa = sb /\ ma = mb /\ ra = rb).
  { induction 1 as [s0 a|s0 p r a s1' m1 s2 m2 res D1 F2 IH|s0 p r a s1' m1 e D1]; intros sb mb rb G; inversion G; subst.
    - repeat split.
    - match goal with D2 : drains (ext s0 p) a _ _ None |- _ => destruct (drains_fun _ _ _ _ _ D1 _ _ _ D2) as [-> [-> _]] end. apply IH. assumption.
    - match goal with D2 : drains (ext s0 p) a _ _ (Some _) |- _ => destruct (drains_fun _ _ _ _ _ D1 _ _ _ D2) as [_ [_ X]]; discriminate X end.
    - match goal with D2 : drains (ext s0 p) a _ _ None |- _ => destruct (drains_fun _ _ _ _ _ D1 _ _ _ D2) as [_ [_ X]]; discriminate X end.
    - match goal with D2 : drains (ext s0 p) a _ _ (Some _) |- _ => destruct (drains_fun _ _ _ _ _ D1 _ _ _ D2) as [-> [-> ->]] end. repeat split. }
  destruct (Hfun _ _ _ _ _ _ F1 _ _ _ F) as [-> [-> ->]]. reflexivity.
Qed.

Theorem link_run ser de ops packets ser' pieces :
  Link ser de -> Forall op_wf ops -> ser_run ser ops = Ok (packets, ser') -> concat pieces = concat packets ->
  exists de', feed_all de pieces [] = (de', map op_msg ops, None) /\ Link ser' de'.
Proof.
  intros [sd [HSim [HRel Hbuf]]] Hwf Hrun Hcat.
  destruct (run_sim_all ops ser sd packets ser' HSim Hwf Hrun) as [cs [sd' [Hb [Hs HS']]]].
  destruct de as [max f cur stg buf prev part]. cbn [d_buf] in Hbuf. subst buf.
  assert (Hstg : stg = StCsid) by (destruct HRel as [H _]; exact H). subst stg.
  fold (mk max f cur StCsid [] prev part) in *.
  assert (HRel' : Rel sd (mk max f cur StCsid (concat (map emit_chunk cs)) prev part)).
  { destruct HRel as [R1 [R2 [R3 R4]]]. split; [reflexivity|split; [exact R2|split; [exact R3|exact R4]]]. }
  destruct (idec_run cs sd sd' (map op_msg ops) max f cur prev part [] HRel' Hs) as [dst' [D [HR3 Hb3]]]. cbn [app] in D.
  (* the whole stream in one call ... *)
  assert (Hq : get_next_message (mk max f cur StCsid [] prev part) [] = (mk max f cur StCsid [] prev part, DNone)).
  { rewrite gnm_nil. apply blocked_empty. }
  assert (Fwhole : feeds (mk max f cur StCsid [] prev part) [concat (map emit_chunk cs)] [] dst' (map op_msg ops) None).
  { eapply fd_ok; [exact D|apply fd_nil]. }
  (* ... and any other partition *)
  pose proof (feed_all_fuel_adequate pieces (mk max f cur StCsid [] prev part) []) as Hf.
  destruct (feed_all (mk max f cur StCsid [] prev part) pieces []) as [[s1 ms1] r1] eqn:E. cbn [snd] in Hf.
  pose proof (feed_all_sound pieces _ [] s1 ms1 r1 E Hf) as F1.
  assert (Hc2 : concat pieces = concat [concat (map emit_chunk cs)]) by (cbn [concat]; rewrite app_nil_r, Hcat; exact Hb).
  destruct (partition_independent _ pieces [concat (map emit_chunk cs)] [] s1 ms1 r1 dst' (map op_msg ops) None Hq Hc2 F1 Fwhole) as [-> ->].
  (* the final states agree as well: both are the state reached on the whole stream *)
  pose proof (feeds_whole pieces _ [] s1 (map op_msg ops) Hq F1) as W1. rewrite Hc2 in W1. cbn [concat] in W1. rewrite app_nil_r in W1.
  destruct (drains_fun _ _ _ _ _ W1 _ _ _ D) as [-> _].
  exists dst'. split; [reflexivity|]. exists sd'. split; [exact HS'|split; [exact HR3|exact Hb3]].
Qed.
