(* The staged chunk parser: each stage depends only on a prefix of the buffer ("not enough bytes" is a no-op, a
   successful stage is unaffected by bytes that arrive later), the stage loop always terminates within its fuel, and
   consequently the messages returned do not depend on how the byte stream is split across calls (C15, C03, C01). *)
From Coq Require Import ZArith Lia ZifyN ZifyBool ZifyNat.
From RML Require Import Model.Base Model.Time Model.Chunk Model.ChunkDe Gen.Consts Proofs.BaseProofs Proofs.ChunkSpecProofs Proofs.Amf0Proofs.
Local Open Scope N_scope.

Definition ext (st : dstate) (x : bytes) : dstate := set_buf st (d_buf st ++ x).

Lemma take_n_ext b n a r x : take_n b n = Some (a, r) -> take_n (b ++ x) n = Some (a, r ++ x).
Proof.
  intros H. destruct (take_n_length b n a r H) as [-> <-]. rewrite <- app_assoc. apply ChunkSpecProofs.take_n_app.
Qed.

Lemma drop_n_0 (l : bytes) : drop_n 0 l = l.
Proof. destruct l; reflexivity. Qed.

Lemma drop_n_app_le (b : bytes) : forall n x, n <= lenN b -> drop_n n (b ++ x) = drop_n n b ++ x.
Proof.
  induction b as [|y b IH]; intros n x H.
  - change (lenN (@nil N)) with 0 in H. assert (n = 0) by lia. subst n. cbn [app]. rewrite !drop_n_0. reflexivity.
  - cbn [app drop_n]. destruct (n =? 0) eqn:E; [reflexivity|]. apply IH. rewrite lenN_cons in H. lia.
Qed.

Lemma get_csid_ext b c n x : get_csid b = Some (c, n) -> get_csid (b ++ x) = Some (c, n) /\ drop_n n (b ++ x) = drop_n n b ++ x /\ 1 <= n /\ n <= lenN b.
Proof.
  intros H.
  assert (G : get_csid (b ++ x) = Some (c, n) /\ 1 <= n /\ n <= lenN b).
  { unfold get_csid in *. destruct b as [|b0 r]; [discriminate|]. cbn [app].
    destruct (b0 mod 64) as [|p] eqn:E.
    - destruct r as [|b1 r']; [discriminate|]. inversion H; subst. cbn [app]. rewrite !lenN_cons. repeat split; lia.
    - destruct p as [p'|p'|].
      + inversion H; subst. rewrite lenN_cons. repeat split; lia.
      + inversion H; subst. rewrite lenN_cons. repeat split; lia.
      + destruct r as [|b1 [|b2 r']]; try discriminate. inversion H; subst. cbn [app]. rewrite !lenN_cons. repeat split; lia. }
  destruct G as [G1 [G2 G3]]. split; [exact G1|]. split; [apply drop_n_app_le; exact G3|]. split; assumption.
Qed.

(* ---------------------------------------------------------------- a successful stage ignores later bytes; an error too *)
Lemma stage_ext st x :
  match run_stage st with
  | Ok (Success, st', om) => run_stage (ext st x) = Ok (Success, ext st' x, om)
  | Ok (NotEnoughBytes, st', om) => st' = st /\ om = None
  | Err e => run_stage (ext st x) = Err e
  | Panic _ | OutOfFuel => False
  end.
Proof.
  unfold run_stage, ext. cbn [d_stage set_buf]. destruct (d_stage st).
  - (* form_header *)
    unfold form_header. cbn [d_buf set_buf d_fmt set_fmt d_prev].
    destruct (d_buf st) as [|b0 r] eqn:Eb; [split; reflexivity|]. cbn [app].
    destruct (get_csid (b0 :: r)) as [[csid next]|] eqn:Ec; [|split; reflexivity].
    destruct (get_csid_ext (b0 :: r) csid next x Ec) as [Hc [Hd _]]. cbn [app] in Hc, Hd. rewrite Hc.
    destruct (get_format b0); try (cbn [set_stage set_buf set_cur set_prev set_fmt d_buf d_max d_fmt d_cur d_stage d_prev d_partial]; rewrite Hd; reflexivity);
      (destruct (lookup csid (d_prev st)); [cbn [set_stage set_buf set_cur set_prev set_fmt d_buf d_max d_fmt d_cur d_stage d_prev d_partial]; rewrite Hd; reflexivity|reflexivity]).
  - (* initial timestamp *)
    unfold get_initial_timestamp. cbn [d_fmt d_buf d_cur set_buf]. unfold partial_len. cbn [d_cur d_partial set_buf].
    destruct (d_fmt st); try reflexivity;
      (destruct (take_n (d_buf st) 3) as [[b r]|] eqn:E; [rewrite (take_n_ext _ _ _ _ x E); reflexivity|split; reflexivity]).
  - unfold get_message_length. cbn [d_fmt d_buf d_cur set_buf].
    destruct (d_fmt st); try reflexivity;
      (destruct (take_n (d_buf st) 3) as [[b r]|] eqn:E; [rewrite (take_n_ext _ _ _ _ x E); reflexivity|split; reflexivity]).
  - unfold get_message_type_id. cbn [d_fmt d_buf d_cur set_buf].
    destruct (d_fmt st); try reflexivity; (destruct (d_buf st) as [|b r]; [split; reflexivity|reflexivity]).
  - unfold get_message_stream_id. cbn [d_fmt d_buf d_cur set_buf].
    destruct (d_fmt st); try reflexivity.
    destruct (take_n (d_buf st) 4) as [[b r]|] eqn:E; [rewrite (take_n_ext _ _ _ _ x E); reflexivity|split; reflexivity].
  - unfold get_extended_timestamp. cbn [d_fmt d_buf d_cur set_buf]. unfold partial_len. cbn [d_cur d_partial set_buf].
    destruct (d_field (d_cur st) <? DE_MAX_INITIAL_TIMESTAMP); [reflexivity|].
    destruct (take_n (d_buf st) 4) as [[b r]|] eqn:E; [rewrite (take_n_ext _ _ _ _ x E); reflexivity|split; reflexivity].
  - unfold get_message_data. cbn [d_fmt d_buf d_cur set_buf d_max d_partial d_prev]. unfold partial_len. cbn [d_cur d_partial set_buf].
    destruct (d_len (d_cur st) <? _); [reflexivity|].
    destruct (take_n (d_buf st) _) as [[b r]|] eqn:E; [rewrite (take_n_ext _ _ _ _ x E); reflexivity|split; reflexivity].
Qed.

(* ---------------------------------------------------------------- termination of the stage loop *)
Definition rank (s : stage) : nat :=
  match s with
  | StCsid => 0 | StMessagePayload => 1 | StExtendedTimestamp => 2 | StMessageStreamId => 3
  | StMessageTypeId => 4 | StMessageLength => 5 | StInitialTimestamp => 6
  end%nat.
Definition mu (st : dstate) : nat := (7 * length (d_buf st) + rank (d_stage st))%nat.

Lemma drop_n_length (l : bytes) : forall n, n <= lenN l -> (length (drop_n n l) + N.to_nat n = length l)%nat.
Proof.
  induction l as [|y l IH]; intros n H.
  - change (lenN (@nil N)) with 0 in H. assert (n = 0) by lia. subst. reflexivity.
  - cbn [drop_n]. destruct (n =? 0) eqn:E; [cbn [length]; lia|]. rewrite lenN_cons in H. specialize (IH (n - 1) ltac:(lia)). cbn [length]. lia.
Qed.

Lemma take_n_rest_length b n a r : take_n b n = Some (a, r) -> (length r <= length b)%nat.
Proof. intros H. destruct (take_n_length b n a r H) as [-> _]. rewrite app_length. lia. Qed.

Lemma stage_progress st st' om : run_stage st = Ok (Success, st', om) -> (mu st' < mu st)%nat.
Proof.
  unfold run_stage, mu. destruct (d_stage st) eqn:Es; cbn [rank].
  - unfold form_header. destruct (d_buf st) as [|b0 r] eqn:Eb; [discriminate|].
    destruct (get_csid (b0 :: r)) as [[csid next]|] eqn:Ec; [|discriminate].
    destruct (get_csid_ext (b0 :: r) csid next [] Ec) as [_ [_ [H1 H2]]].
    pose proof (drop_n_length (b0 :: r) next H2) as Hd.
    remember (drop_n next (b0 :: r)) as rest eqn:Er. clear Er.
    cbn [d_fmt set_fmt d_prev].
    destruct (get_format b0); try (intros H; injection H; intros; subst; cbn [d_buf d_stage set_stage set_buf set_cur set_prev set_fmt rank]; lia);
      (destruct (lookup csid (d_prev st)); [intros H; injection H; intros; subst; cbn [d_buf d_stage set_stage set_buf set_cur set_prev set_fmt rank]; lia|intros H; discriminate H]).
  - unfold get_initial_timestamp. destruct (d_fmt st); try (intros H; injection H; intros; subst; cbn [d_buf d_stage set_stage set_buf set_cur rank]; lia);
      (destruct (take_n (d_buf st) 3) as [[b r]|] eqn:E; [|discriminate]; pose proof (take_n_rest_length _ _ _ _ E) as Hlen;
       intros H; injection H; intros; subst; cbn [d_buf d_stage set_stage set_buf set_cur rank]; lia).
  - unfold get_message_length. destruct (d_fmt st); try (intros H; injection H; intros; subst; cbn [d_buf d_stage set_stage set_buf set_cur rank]; lia);
      (destruct (take_n (d_buf st) 3) as [[b r]|] eqn:E; [|discriminate]; pose proof (take_n_rest_length _ _ _ _ E) as Hlen;
       intros H; injection H; intros; subst; cbn [d_buf d_stage set_stage set_buf set_cur rank]; lia).
  - unfold get_message_type_id. destruct (d_fmt st); try (intros H; injection H; intros; subst; cbn [d_buf d_stage set_stage set_buf set_cur rank]; lia);
      (destruct (d_buf st) as [|b r] eqn:E; [discriminate|]; intros H; injection H; intros; subst; cbn [d_buf d_stage set_stage set_buf set_cur rank length]; lia).
  - unfold get_message_stream_id. destruct (d_fmt st); try (intros H; injection H; intros; subst; cbn [d_buf d_stage set_stage set_buf set_cur rank]; lia).
    destruct (take_n (d_buf st) 4) as [[b r]|] eqn:E; [|discriminate]. pose proof (take_n_rest_length _ _ _ _ E) as Hlen.
    intros H; injection H; intros; subst; cbn [d_buf d_stage set_stage set_buf set_cur rank]; lia.
  - unfold get_extended_timestamp. destruct (_ <? _); [intros H; injection H; intros; subst; cbn [d_buf d_stage set_stage set_buf set_cur rank]; lia|].
    destruct (take_n (d_buf st) 4) as [[b r]|] eqn:E; [|discriminate]. pose proof (take_n_rest_length _ _ _ _ E) as Hlen.
    intros H; injection H; intros; subst; cbn [d_buf d_stage set_stage set_buf set_cur rank]; lia.
  - unfold get_message_data. destruct (_ <? _); [discriminate|].
    destruct (take_n (d_buf st) _) as [[b r]|] eqn:E; [|discriminate]. pose proof (take_n_rest_length _ _ _ _ E) as Hlen.
    intros H; injection H; intros; subst; cbn [d_buf d_stage rank]; lia.
Qed.

Lemma loop_adequate fuel : forall st, (mu st < fuel)%nat -> snd (stage_loop fuel st) <> DOutOfFuel.
Proof.
  induction fuel as [|f IH]; intros st H; [lia|]. cbn [stage_loop].
  pose proof (stage_ext st []) as Hx. pose proof (stage_progress st) as Hp.
  destruct (run_stage st) as [[[r st'] om]|e|x|]; try contradiction; [|cbn; discriminate].
  destruct om as [m|]; [cbn; discriminate|]. destruct r; [|cbn; discriminate].
  apply IH. specialize (Hp st' None eq_refl). lia.
Qed.

(* get_next_message never exhausts its fuel *)
Theorem get_next_message_terminates st input : snd (get_next_message st input) <> DOutOfFuel.
Proof.
  unfold get_next_message. apply loop_adequate. unfold mu. cbn [d_buf d_stage set_buf].
  destruct (d_stage st); cbn [rank]; lia.
Qed.

(* more fuel does not change a result that was reached *)
Lemma loop_fuel_mono fuel : forall st k, snd (stage_loop fuel st) <> DOutOfFuel -> stage_loop (fuel + k) st = stage_loop fuel st.
Proof.
  induction fuel as [|f IH]; intros st k H; [cbn in H; contradiction|]. cbn [stage_loop Nat.add] in *.
  destruct (run_stage st) as [[[r st'] om]|e|x|]; try reflexivity.
  destruct om as [m|]; [reflexivity|]. destruct r; [|reflexivity]. apply IH. exact H.
Qed.

Lemma loop_fuel_any f1 f2 st : (mu st < f1)%nat -> (mu st < f2)%nat -> stage_loop f1 st = stage_loop f2 st.
Proof.
  intros H1 H2. destruct (Nat.le_ge_cases f1 f2) as [L|L].
  - replace f2 with (f1 + (f2 - f1))%nat by lia. symmetry. apply loop_fuel_mono. apply loop_adequate. exact H1.
  - replace f1 with (f2 + (f1 - f2))%nat by lia. apply loop_fuel_mono. apply loop_adequate. exact H2.
Qed.

(* ---------------------------------------------------------------- bytes that arrive later do not change what was parsed *)
Lemma mu_ext_le st x : (mu st <= mu (ext st x))%nat.
Proof. unfold mu, ext. cbn [d_buf d_stage set_buf]. rewrite app_length. lia. Qed.

Lemma ext_loop f : forall st x, (mu (ext st x) < f)%nat ->
  match stage_loop f st with
  | (st', DMsg m) => stage_loop f (ext st x) = (ext st' x, DMsg m)
  | (st', DErr e) => stage_loop f (ext st x) = (ext st' x, DErr e)
  | (st', DNone) => stage_loop f (ext st x) = stage_loop f (ext st' x) /\ (mu (ext st' x) <= mu (ext st x))%nat /\
                    run_stage st' = Ok (NotEnoughBytes, st', None)
  | (_, DOutOfFuel) => True
  end.
Proof.
  induction f as [|f IH]; intros st x Hmu; [lia|]. cbn [stage_loop].
  pose proof (stage_ext st x) as Hx.
  destruct (run_stage st) as [[[r st1] om]|e|y|] eqn:Er; try contradiction.
  - destruct r.
    + (* success *)
      rewrite Hx. destruct om as [m|]; [reflexivity|].
      pose proof (stage_progress (ext st x) (ext st1 x) None Hx) as Hp.
      specialize (IH st1 x ltac:(lia)).
      destruct (stage_loop f st1) as [st' res]. destruct res as [m| |e|]; try exact IH.
      destruct IH as [I1 [I2 I3]]. split; [|split; [lia|exact I3]].
      rewrite I1. exact (loop_fuel_any f (S f) (ext st' x) ltac:(lia) ltac:(lia)).
    + destruct Hx as [-> ->]. split; [reflexivity|]. split; [lia|exact Er].
  - rewrite Hx. reflexivity.
Qed.

(* ---------------------------------------------------------------- one call, independent of its fuel *)
Definition G (st : dstate) : dstate * de_result := stage_loop (S (mu st)) st.

Lemma ext_nil st : ext st [] = st.
Proof. destruct st. unfold ext, set_buf. cbn. rewrite app_nil_r. reflexivity. Qed.

Lemma ext_ext st a b : ext (ext st a) b = ext st (a ++ b).
Proof. destruct st. unfold ext, set_buf. cbn. rewrite app_assoc. reflexivity. Qed.

Lemma gnm_G st input : get_next_message st input = G (ext st input).
Proof.
  unfold get_next_message, G. fold (ext st input). apply loop_fuel_any; [|lia].
  unfold mu. destruct (d_stage (ext st input)); cbn [rank]; lia.
Qed.

Lemma G_total st : snd (G st) <> DOutOfFuel.
Proof. unfold G. apply loop_adequate. lia. Qed.

Lemma G_ext st x :
  match G st with
  | (st', DMsg m) => G (ext st x) = (ext st' x, DMsg m)
  | (st', DErr e) => G (ext st x) = (ext st' x, DErr e)
  | (st', DNone) => G (ext st x) = G (ext st' x) /\ run_stage st' = Ok (NotEnoughBytes, st', None)
  | (_, DOutOfFuel) => False
  end.
Proof.
  pose proof (G_total st) as Ht. unfold G in *.
  pose proof (ext_loop (S (mu (ext st x))) st x ltac:(lia)) as H.
  assert (E : stage_loop (S (mu (ext st x))) st = stage_loop (S (mu st)) st).
  { apply loop_fuel_any; pose proof (mu_ext_le st x); lia. }
  rewrite E in H. destruct (stage_loop (S (mu st)) st) as [st' res]. cbn [snd] in Ht.
  destruct res as [m| |e|]; try exact H; [|contradiction].
  destruct H as [H1 [H2 H3]]. split; [|exact H3]. rewrite H1. apply loop_fuel_any; lia.
Qed.

Lemma G_blocked st : run_stage st = Ok (NotEnoughBytes, st, None) -> G st = (st, DNone).
Proof. intros H. unfold G. cbn [stage_loop]. rewrite H. reflexivity. Qed.

(* ---------------------------------------------------------------- the driving loop, relationally (fuel-free) *)
Inductive drains : dstate -> list msg -> dstate -> list msg -> option drive_err -> Prop :=
| dr_none s s' acc : get_next_message s [] = (s', DNone) -> drains s acc s' acc None
| dr_err s s' acc e : get_next_message s [] = (s', DErr e) -> drains s acc s' acc (Some (DrvDe e))
| dr_msg s s1 s2 m acc s' ms r :
    get_next_message s [] = (s1, DMsg m) -> driver_apply s1 m = Ok s2 -> drains s2 (acc ++ [m]) s' ms r -> drains s acc s' ms r
| dr_bad s s1 m acc e :
    get_next_message s [] = (s1, DMsg m) -> driver_apply s1 m = Err e -> drains s acc s1 (acc ++ [m]) (Some DrvBadChunkSize).

(* feeding pieces one call (plus draining) at a time *)
Inductive feeds : dstate -> list bytes -> list msg -> dstate -> list msg -> option drive_err -> Prop :=
| fd_nil s acc : feeds s [] acc s acc None
| fd_ok s p r acc s1 ms1 s' ms res :
    drains (ext s p) acc s1 ms1 None -> feeds s1 r ms1 s' ms res -> feeds s (p :: r) acc s' ms res
| fd_err s p r acc s1 ms1 e :
    drains (ext s p) acc s1 ms1 (Some e) -> feeds s (p :: r) acc s1 ms1 (Some e).

Lemma gnm_nil st : get_next_message st [] = G st.
Proof. rewrite gnm_G, ext_nil. reflexivity. Qed.

Lemma driver_apply_ext s m s2 x : driver_apply s m = Ok s2 -> driver_apply (ext s x) m = Ok (ext s2 x).
Proof.
  unfold driver_apply. destruct (m_tid m =? 1); [|intros H; inversion H; reflexivity].
  destruct (take_n (m_data m) 4) as [[b r]|]; [|discriminate].
  unfold de_set_max_chunk_size. destruct ((of_be b =? 0) || (2147483647 <? of_be b)); [discriminate|].
  intros H; inversion H; subst. reflexivity.
Qed.

Lemma driver_apply_ext_err s m e x : driver_apply s m = Err e -> driver_apply (ext s x) m = Err e.
Proof.
  unfold driver_apply. destruct (m_tid m =? 1); [|discriminate].
  destruct (take_n (m_data m) 4) as [[b r]|]; [|intros H; exact H].
  unfold de_set_max_chunk_size. destruct ((of_be b =? 0) || (2147483647 <? of_be b)); [intros H; exact H|discriminate].
Qed.

Lemma driver_apply_cases s m : (exists s2, driver_apply s m = Ok s2) \/ driver_apply s m = Err DrvBadChunkSize.
Proof.
  unfold driver_apply. destruct (m_tid m =? 1); [|left; eexists; reflexivity].
  destruct (take_n (m_data m) 4) as [[b r]|]; [|right; reflexivity].
  unfold de_set_max_chunk_size. destruct ((of_be b =? 0) || (2147483647 <? of_be b)); [right; reflexivity|left; eexists; reflexivity].
Qed.

(* quiet draining followed by more bytes = draining with the bytes already there *)
Lemma drains_ext_ok s acc s' ms : drains s acc s' ms None ->
  forall x s'' ms'' r, drains (ext s' x) ms s'' ms'' r -> drains (ext s x) acc s'' ms'' r.
Proof.
  intros D. remember None as res eqn:Eres. induction D as [s s' acc Hg|s s' acc e Hg|s s1 s2 m acc s' ms r Hg Hd D IH|s s1 m acc e Hg Hd]; try discriminate.
  - (* the call found nothing complete: with x appended it behaves like the blocked state with x appended *)
    intros x s'' ms'' r D2. rewrite gnm_nil in Hg. pose proof (G_ext s x) as He. rewrite Hg in He. destruct He as [He _].
    inversion D2 as [a b c Hg2|a b c e Hg2|a b1 b2 m c d ms2 r2 Hg2 Hd2 D3|a b1 m c e Hg2 Hd2]; subst; rewrite gnm_nil in Hg2; rewrite <- He in Hg2.
    + apply dr_none. rewrite gnm_nil. exact Hg2.
    + apply dr_err. rewrite gnm_nil. exact Hg2.
    + eapply dr_msg; [rewrite gnm_nil; exact Hg2|exact Hd2|exact D3].
    + eapply dr_bad; [rewrite gnm_nil; exact Hg2|exact Hd2].
  - intros x s'' ms'' r2 D2. rewrite gnm_nil in Hg. pose proof (G_ext s x) as He. rewrite Hg in He.
    eapply dr_msg; [rewrite gnm_nil; exact He|apply driver_apply_ext; exact Hd|]. apply (IH Eres). exact D2.
Qed.

(* an error (or a refused chunk size) is reported at the same message whatever arrives later *)
Lemma drains_ext_err s acc s' ms e : drains s acc s' ms (Some e) -> forall x, drains (ext s x) acc (ext s' x) ms (Some e).
Proof.
  intros D. remember (Some e) as res eqn:Eres. revert e Eres.
  induction D as [s s' acc Hg|s s' acc e0 Hg|s s1 s2 m acc s' ms r Hg Hd D IH|s s1 m acc e0 Hg Hd]; intros e Eres x; try discriminate.
  - inversion Eres; subst. rewrite gnm_nil in Hg. pose proof (G_ext s x) as He. rewrite Hg in He.
    apply dr_err. rewrite gnm_nil. exact He.
  - rewrite gnm_nil in Hg. pose proof (G_ext s x) as He. rewrite Hg in He.
    eapply dr_msg; [rewrite gnm_nil; exact He|apply driver_apply_ext; exact Hd|]. apply (IH e Eres).
  - inversion Eres; subst. rewrite gnm_nil in Hg. pose proof (G_ext s x) as He. rewrite Hg in He.
    eapply dr_bad; [rewrite gnm_nil; exact He|apply driver_apply_ext_err; exact Hd].
Qed.

(* draining is a function *)
Lemma drains_fun s acc s1 ms1 r1 : drains s acc s1 ms1 r1 -> forall s2 ms2 r2, drains s acc s2 ms2 r2 -> s1 = s2 /\ ms1 = ms2 /\ r1 = r2.
Proof.
  intros D. induction D as [s s' acc Hg|s s' acc e Hg|s sa sb m acc s' ms r Hg Hd D IH|s sa m acc e Hg Hd]; intros s2 ms2 r2 D2;
    inversion D2 as [a b c Hg2|a b c e2 Hg2|a b1 b2 m2 c d ms3 r3 Hg2 Hd2 D3|a b1 m2 c e2 Hg2 Hd2]; subst; rewrite Hg in Hg2; inversion Hg2; subst;
    try (repeat split; reflexivity).
  - rewrite Hd in Hd2. inversion Hd2; subst. apply IH. exact D3.
  - rewrite Hd in Hd2. discriminate.
  - rewrite Hd in Hd2. discriminate.
Qed.

(* a quietly drained state is quiescent: calling again returns nothing and changes nothing *)
Lemma drains_quiescent s acc s' ms : drains s acc s' ms None -> get_next_message s' [] = (s', DNone).
Proof.
  intros D. remember None as res eqn:Eres. induction D as [s s' acc Hg|s s' acc e Hg|s s1 s2 m acc s' ms r Hg Hd D IH|s s1 m acc e Hg Hd]; try discriminate.
  - rewrite gnm_nil in *. pose proof (G_ext s []) as He. rewrite Hg in He. destruct He as [_ Hb]. apply G_blocked. exact Hb.
  - apply IH. exact Eres.
Qed.

(* C15 for the deserializer: any partition behaves like the whole stream in one call *)
Theorem feeds_whole pieces : forall s acc s' ms,
  get_next_message s [] = (s, DNone) ->
  feeds s pieces acc s' ms None -> drains (ext s (concat pieces)) acc s' ms None.
Proof.
  induction pieces as [|p r IH]; intros s acc s' ms Hq F.
  - inversion F; subst. cbn [concat]. rewrite ext_nil. apply dr_none. exact Hq.
  - inversion F as [|a b c d s1 ms1 e f g D1 F2|]; subst. cbn [concat]. rewrite <- ext_ext.
    apply (drains_ext_ok _ _ _ _ D1). apply IH; [apply (drains_quiescent _ _ _ _ D1)|exact F2].
Qed.

Theorem feeds_whole_err pieces : forall s acc s' ms e,
  get_next_message s [] = (s, DNone) ->
  feeds s pieces acc s' ms (Some e) -> exists s'', drains (ext s (concat pieces)) acc s'' ms (Some e).
Proof.
  induction pieces as [|p r IH]; intros s acc s' ms e Hq F.
  - inversion F.
  - inversion F as [|a b c d s1 ms1 e1 f g D1 F2|a b c d s1 ms1 e1 D1]; subst; cbn [concat]; rewrite <- ext_ext.
    + destruct (IH s1 ms1 s' ms e (drains_quiescent _ _ _ _ D1) F2) as [s'' D2].
      exists s''. apply (drains_ext_ok _ _ _ _ D1). exact D2.
    + eexists. apply (drains_ext_err _ _ _ _ _ D1).
Qed.

(* two partitions of the same byte stream: the same messages, and an error in one is the same error in the other *)
Theorem partition_independent s p1 p2 acc s1 ms1 r1 s2 ms2 r2 :
  get_next_message s [] = (s, DNone) -> concat p1 = concat p2 ->
  feeds s p1 acc s1 ms1 r1 -> feeds s p2 acc s2 ms2 r2 -> ms1 = ms2 /\ r1 = r2.
Proof.
  intros Hq Hc F1 F2.
  assert (W : forall p sa msa ra, feeds s p acc sa msa ra -> exists sb, drains (ext s (concat p)) acc sb msa ra).
  { intros p sa msa ra F. destruct ra as [e|].
    - apply (feeds_whole_err p s acc sa msa e Hq F).
    - exists sa. apply (feeds_whole p s acc sa msa Hq F). }
  destruct (W p1 s1 ms1 r1 F1) as [sa Da]. destruct (W p2 s2 ms2 r2 F2) as [sb Db]. rewrite Hc in Da.
  destruct (drains_fun _ _ _ _ _ Da _ _ _ Db) as [_ [Hm Hr]]. split; assumption.
Qed.

Lemma init_quiescent : get_next_message de_init [] = (de_init, DNone).
Proof. reflexivity. Qed.

(* ---------------------------------------------------------------- the executable driving loop refines the relation *)
Lemma drain_sound fuel : forall s acc s' ms r, drain fuel s acc = (s', ms, r) -> r <> Some DrvFuel -> drains s acc s' ms r.
Proof.
  induction fuel as [|f IH]; intros s acc s' ms r H Hr; cbn [drain] in H; [inversion H; subst; contradiction|].
  destruct (get_next_message s []) as [s1 res] eqn:Eg. destruct res as [m| |e|].
  - destruct (driver_apply s1 m) as [s2|e|x|] eqn:Ed.
    + eapply dr_msg; [exact Eg|exact Ed|]. apply IH; assumption.
    + inversion H; subst. eapply dr_bad; [exact Eg|exact Ed].
    + destruct (driver_apply_cases s1 m) as [[s2 E]|E]; rewrite E in Ed; discriminate.
    + destruct (driver_apply_cases s1 m) as [[s2 E]|E]; rewrite E in Ed; discriminate.
  - inversion H; subst. apply dr_none. exact Eg.
  - inversion H; subst. apply dr_err. exact Eg.
  - inversion H; subst. contradiction.
Qed.

Lemma feed_all_sound pieces : forall s acc s' ms r, feed_all s pieces acc = (s', ms, r) -> r <> Some DrvFuel -> feeds s pieces acc s' ms r.
Proof.
  induction pieces as [|p rest IH]; intros s acc s' ms r H Hr; cbn [feed_all] in H.
  - inversion H; subst. apply fd_nil.
  - destruct (feed s p acc) as [[s1 ms1] r1] eqn:Ef. unfold feed in Ef. fold (ext s p) in Ef.
    destruct r1 as [e|].
    + inversion H; subst. apply fd_err. apply (drain_sound _ _ _ _ _ _ Ef). exact Hr.
    + eapply fd_ok; [apply (drain_sound _ _ _ _ _ _ Ef); discriminate|]. apply IH; assumption.
Qed.

(* C15 on the executable driving loop: two partitions of one stream return the same messages and the same verdict *)
Theorem feed_all_partition_independent p1 p2 s1 ms1 r1 s2 ms2 r2 :
  concat p1 = concat p2 ->
  feed_all de_init p1 [] = (s1, ms1, r1) -> feed_all de_init p2 [] = (s2, ms2, r2) ->
  r1 <> Some DrvFuel -> r2 <> Some DrvFuel -> ms1 = ms2 /\ r1 = r2.
Proof.
  intros Hc F1 F2 H1 H2.
  apply (partition_independent de_init p1 p2 [] s1 ms1 r1 s2 ms2 r2 init_quiescent Hc);
    [apply feed_all_sound; assumption|apply feed_all_sound; assumption].
Qed.
