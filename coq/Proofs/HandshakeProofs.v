(* C11 / C05: handshake packets. All statements are parametric in the HMAC function (any function with 32-byte
   output); the executable instance is the Gallina HMAC-SHA256 of Model/Sha256.v (vectors below). *)
From Coq Require Import String ZArith Lia ZifyN ZifyBool ZifyNat.
From RML Require Import Model.Base Model.Chunk Model.SessionCommon Model.Sha256 Model.Handshake Gen.Consts.
Local Open Scope list_scope.
Local Open Scope N_scope.

(* the published test vectors of the Gallina SHA-256 / HMAC-SHA256 are in Proofs/Sha256Vectors.v (kept apart: the independent
   checker coqchk has no VM and needs very long for them) *)

Lemma round_length st k w : length st = 8%nat -> length (round st k w) = 8%nat.
Proof. intros H. do 9 (destruct st as [|? st]; try discriminate). reflexivity. Qed.

Lemma rounds_length ks : forall st ws, length st = 8%nat -> length (rounds st ks ws) = 8%nat.
Proof.
  induction ks as [|k ks IH]; intros st ws H; [exact H|]. destruct ws as [|w ws]; [exact H|].
  cbn [rounds]. apply IH. apply round_length. exact H.
Qed.

Lemma compress_length h block : length h = 8%nat -> length (compress h block) = 8%nat.
Proof.
  intros H. unfold compress. rewrite map_length, combine_length, rounds_length by exact H. rewrite H. reflexivity.
Qed.

Lemma blocks_length fuel : forall h l, length h = 8%nat -> length (blocks fuel h l) = 8%nat.
Proof.
  induction fuel as [|f IH]; intros h l H; [exact H|]. cbn [blocks]. destruct l; [exact H|].
  apply IH. apply compress_length. exact H.
Qed.

Lemma concat_be32_length ws : length (concat (map be32 ws)) = (4 * length ws)%nat.
Proof. induction ws as [|w r IH]; [reflexivity|]. cbn [map concat length]. rewrite app_length, IH. cbn. lia. Qed.

Lemma sha256_length l : length (sha256 l) = 32%nat.
Proof. unfold sha256. rewrite concat_be32_length, blocks_length by reflexivity. reflexivity. Qed.

Lemma hmac_sha256_length k m : length (hmac_sha256 k m) = 32%nat.
Proof. unfold hmac_sha256. apply sha256_length. Qed.

(* ---------------------------------------------------------------- packet 1 *)
Section WithHmac.
  Variable hmac : bytes -> bytes -> bytes.
  Hypothesis hmac_length : forall k m, length (hmac k m) = 32%nat.

  Lemma take_rand_length n : forall rand, length (fst (take_rand n rand)) = n.
  Proof.
    induction n as [|n IH]; intros rand; [reflexivity|]. cbn [take_rand].
    destruct rand as [|x rest].
    - specialize (IH []). destruct (take_rand n []) as [a r]. cbn in *. lia.
    - specialize (IH rest). destruct (take_rand n rest) as [a r]. cbn in *. lia.
  Qed.

  (* the packet before the digest is written, for a fresh handshake *)
  Definition pre_p1 (rand : bytes) : bytes :=
    [0; 0; 0; 0] ++ ADOBE_VERSION ++ fst (take_rand 1524 rand) ++ [0; 0; 0; 0].

  Lemma pre_p1_length rand : length (pre_p1 rand) = 1536%nat.
  Proof. unfold pre_p1, ADOBE_VERSION. rewrite !app_length, take_rand_length. reflexivity. Qed.

  Definition own_offset (r : role) (p : bytes) : N :=
    match r with RServer => server_digest_offset p | RClient => client_digest_offset p end.
  Definition own_key (r : role) : bytes := match r with RServer => GENUINE_FMS | RClient => GENUINE_FP end.

  Lemma offset_range r p :
    match r with
    | RClient => 12 <= own_offset r p < 740
    | RServer => 776 <= own_offset r p < 1504
    end.
  Proof.
    destruct r; unfold own_offset, server_digest_offset, client_digest_offset,
      HS_OFFSET_MOD, HS_SERVER_OFFSET_MOD, HS_CLIENT_OFFSET_BASE, HS_SERVER_OFFSET_BASE.
    - pose proof (N.mod_upper_bound (sum4 p 772) 728). lia.
    - pose proof (N.mod_upper_bound (sum4 p 8) 728). lia.
  Qed.

  (* generate_outbound_p0_and_p1 on a fresh handshake *)
  Lemma gen_fresh r rand :
    let p := pre_p1 rand in
    let off := N.to_nat (own_offset r p) in
    let digest := hmac (own_key r) (firstn off p ++ skipn (off + 32) p) in
    let p1 := firstn off p ++ digest ++ skipn (off + 32) p in
    fst (gen_p0p1 hmac (hs_new r rand)) = HS_VERSION_BYTE :: p1 /\
    h_sent_p1 (snd (gen_p0p1 hmac (hs_new r rand))) = p1 /\ h_stage (snd (gen_p0p1 hmac (hs_new r rand))) = WaitingForPacket0.
  Proof.
    cbv zeta. unfold gen_p0p1, hs_new. cbn [h_rand h_sent_p1 h_role h_buf].
    destruct (take_rand 1524 rand) as [fill rand'] eqn:Et.
    assert (Hp : firstn 4 (repeat 0 (N.to_nat HS_PACKET_SIZE)) ++ ADOBE_VERSION ++ fill ++ skipn 1532 (repeat 0 (N.to_nat HS_PACKET_SIZE)) = pre_p1 rand).
    { unfold pre_p1. rewrite Et. reflexivity. }
    rewrite Hp. unfold message_parts, own_offset, own_key. destruct r; cbn [fst snd h_sent_p1 h_stage]; repeat split.
  Qed.

  Lemma nth_firstn_lt {A} (l : list A) : forall n i d, (i < n)%nat -> nth i (firstn n l) d = nth i l d.
  Proof.
    induction l as [|x l IH]; intros n i d H; [destruct n, i; reflexivity|].
    destruct n; [lia|]. destruct i; [reflexivity|]. cbn. apply IH. lia.
  Qed.

  Lemma firstn_app_exact {A} (a b : list A) n : length a = n -> firstn n (a ++ b) = a.
  Proof. intros <-. rewrite firstn_app, Nat.sub_diag, firstn_all. cbn. apply app_nil_r. Qed.

  Lemma skipn_app_exact {A} (a b : list A) n : length a = n -> skipn n (a ++ b) = b.
  Proof. intros <-. rewrite skipn_app, Nat.sub_diag, skipn_all. reflexivity. Qed.

  (* C11: the packet 1 the library generates carries a valid digest, keyed for its role, at the position its own
     pointer bytes select; the pointer bytes are not covered by the digest *)
  Theorem p1_digest r rand :
    let p1 := h_sent_p1 (snd (gen_p0p1 hmac (hs_new r rand))) in
    let off := N.to_nat (own_offset r p1) in
    length p1 = 1536%nat /\ firstn 4 p1 = [0; 0; 0; 0] /\ firstn 4 (skipn 4 p1) = ADOBE_VERSION /\
    (off + 32 <= 1536)%nat /\
    firstn 32 (skipn off p1) = hmac (own_key r) (firstn off p1 ++ skipn (off + 32) p1) /\
    own_offset r p1 = own_offset r (pre_p1 rand).
  Proof.
    destruct (gen_fresh r rand) as [_ [Hs _]]. cbv zeta in Hs. cbv zeta. rewrite Hs.
    set (p := pre_p1 rand) in *. pose proof (pre_p1_length rand) as Hlen. fold p in Hlen.
    set (off0 := N.to_nat (own_offset r p)) in *.
    set (digest := hmac (own_key r) (firstn off0 p ++ skipn (off0 + 32) p)).
    pose proof (offset_range r p) as Hr.
    assert (Hoff : (off0 + 32 <= 1536)%nat) by (unfold off0; destruct r; lia).
    assert (Hf : length (firstn off0 p) = off0) by (rewrite firstn_length; lia).
    assert (Hd : length digest = 32%nat) by apply hmac_length.
    set (p1 := firstn off0 p ++ digest ++ skipn (off0 + 32) p).
    (* the pointer bytes lie before the digest, so the offset read from p1 is the offset read from p *)
    assert (Hnth : forall i, (i < off0)%nat -> nth i p1 0 = nth i p 0).
    { intros i Hi. unfold p1. rewrite app_nth1 by lia. apply nth_firstn_lt. exact Hi. }
    assert (Hsame : own_offset r p1 = own_offset r p).
    { assert (Hlow : match r with RServer => (776 <= off0)%nat | RClient => (12 <= off0)%nat end) by (unfold off0; destruct r; lia).
      clearbody p1 off0. clear Hr. unfold own_offset, server_digest_offset, client_digest_offset, sum4.
      destruct r; rewrite !Hnth by lia; reflexivity. }
    rewrite Hsame. fold off0.
    split; [unfold p1; rewrite !app_length, skipn_length; lia|].
    (* the first eight bytes lie before the digest *)
    assert (Hhead : exists t, firstn off0 p = [0; 0; 0; 0] ++ ADOBE_VERSION ++ t).
    { assert (H8 : (8 <= off0)%nat) by (unfold off0; destruct r; lia).
      exists (firstn (off0 - 8) (fst (take_rand 1524 rand) ++ [0; 0; 0; 0])).
      replace off0 with (8 + (off0 - 8))%nat at 1 by lia. unfold p, pre_p1, ADOBE_VERSION.
      cbn [Nat.add app firstn]. reflexivity. }
    destruct Hhead as [t Ht].
    split; [unfold p1; rewrite Ht; reflexivity|].
    split; [unfold p1; rewrite Ht; reflexivity|].
    split; [exact Hoff|]. split; [|reflexivity].
    clear Hnth Hsame Ht. unfold p1. unfold digest in *. clearbody p.
    set (A := firstn off0 p) in *. set (B := skipn (off0 + 32) p) in *.
    set (D := hmac (own_key r) (A ++ B)) in *.
    rewrite (skipn_app_exact A (D ++ B) off0 Hf). rewrite (firstn_app_exact D B 32 Hd).
    rewrite (firstn_app_exact A (D ++ B) off0 Hf).
    assert (HAD : length (A ++ D) = (off0 + 32)%nat) by (rewrite app_length; lia).
    rewrite app_assoc. rewrite (skipn_app_exact (A ++ D) B (off0 + 32) HAD). reflexivity.
  Qed.

  (* ---------------------------------------------------------------- packet 2 *)
  Definition peer_key (r : role) : bytes := match r with RServer => GENUINE_FP | RClient => GENUINE_FMS end.

  (* a packet 1 carrying a valid digest under either scheme is recognised, scheme 1 first *)
  Theorem find_digest_complete p key :
    let '(b1, d1, a1) := message_parts p (client_digest_offset p) in
    let '(b2, d2, a2) := message_parts p (server_digest_offset p) in
    (hmac key (b1 ++ a1) = d1 -> find_digest hmac p key = Some d1) /\
    (hmac key (b1 ++ a1) <> d1 -> hmac key (b2 ++ a2) = d2 -> find_digest hmac p key = Some d2) /\
    (hmac key (b1 ++ a1) <> d1 -> hmac key (b2 ++ a2) <> d2 -> find_digest hmac p key = None).
  Proof.
    unfold find_digest. destruct (message_parts p (client_digest_offset p)) as [[b1 d1] a1].
    destruct (message_parts p (server_digest_offset p)) as [[b2 d2] a2].
    assert (Heq : forall a b, bytes_eqb a b = true <-> a = b).
    { induction a as [|x a IH]; destruct b as [|y b]; cbn; split; intros H; try reflexivity; try discriminate.
      - apply andb_prop in H. destruct H as [H1 H2]. apply N.eqb_eq in H1. apply IH in H2. subst. reflexivity.
      - inversion H; subst. rewrite N.eqb_refl. cbn. apply IH. reflexivity. }
    split; [|split].
    - intros H. rewrite (proj2 (Heq _ _) H). reflexivity.
    - intros H1 H2. destruct (bytes_eqb (hmac key (b1 ++ a1)) d1) eqn:E1; [apply Heq in E1; contradiction|].
      rewrite (proj2 (Heq _ _) H2). reflexivity.
    - intros H1 H2. destruct (bytes_eqb (hmac key (b1 ++ a1)) d1) eqn:E1; [apply Heq in E1; contradiction|].
      destruct (bytes_eqb (hmac key (b2 ++ a2)) d2) eqn:E2; [apply Heq in E2; contradiction|]. reflexivity.
  Qed.

  (* the reply to a full packet 1 in the buffer: signed response to a digest-bearing packet, exact echo otherwise *)
  Theorem p2_reply h p1 rest :
    h_stage h = WaitingForPacket1 -> length p1 = 1536%nat -> h_buf h = p1 ++ rest ->
    match find_digest hmac p1 (peer_key (h_role h)) with
    | Some d =>
        let body := firstn 1504 (fst (take_rand 1536 (h_rand h))) in
        snd (hs_step hmac h) = SProgress (body ++ hmac (hmac (own_key (h_role h) ++ HS_RANDOM_CRUD) d) body) /\
        length body = 1504%nat
    | None => snd (hs_step hmac h) = SProgress p1
    end /\ h_stage (fst (hs_step hmac h)) = WaitingForPacket2 /\ h_buf (fst (hs_step hmac h)) = rest.
  Proof.
    intros Hs Hl Hb. unfold hs_step. rewrite Hs, Hb.
    assert (Hlen : (lenN (p1 ++ rest) <? HS_PACKET_SIZE) = false).
    { unfold lenN, HS_PACKET_SIZE. rewrite app_length, Hl. lia. }
    rewrite Hlen. change (N.to_nat HS_PACKET_SIZE) with 1536%nat.
    rewrite (firstn_app_exact p1 rest 1536 Hl), (skipn_app_exact p1 rest 1536 Hl).
    unfold peer_key, own_key.
    destruct (h_role h); destruct (find_digest hmac p1 _) as [d|]; try (destruct (take_rand 1536 (h_rand h)) as [fill rand'] eqn:Et);
      cbn [fst snd h_stage h_buf set_stage_buf]; repeat split;
      try (rewrite firstn_length; pose proof (take_rand_length 1536 (h_rand h)) as Hr; rewrite Et in Hr; cbn [fst] in Hr; lia).
  Qed.
End WithHmac.

(* ---------------------------------------------------------------- C05: a whole peer handshake delivered in one call *)
Section Whole.
  Variable hmac : bytes -> bytes -> bytes.
  Hypothesis hmac_length : forall k m, length (hmac k m) = 32%nat.

  Definition own_p2 (r : role) (rand_after_p1 : bytes) (peer_p1 : bytes) : bytes :=
    match find_digest hmac peer_p1 (peer_key r) with
    | Some d => let body := firstn 1504 (fst (take_rand 1536 rand_after_p1)) in
                body ++ hmac (hmac (own_key r ++ HS_RANDOM_CRUD) d) body
    | None => peer_p1
    end.

  Lemma loop_progress f h h' out resp left :
    hs_step hmac h = (h', SProgress out) -> stage_eqb (h_stage h') Complete = false -> stage_eqb (h_stage h) (h_stage h') = false ->
    hs_loop hmac (S f) h resp left = hs_loop hmac f h' (resp ++ out) left.
  Proof. intros H1 H2 H3. cbn [hs_loop]. rewrite H1, H2, H3. reflexivity. Qed.

  Lemma loop_done f h h' rem resp left :
    hs_step hmac h = (h', SDone rem) -> stage_eqb (h_stage h') Complete = true ->
    hs_loop hmac (S f) h resp left = (h', HCompleted resp (left ++ rem)).
  Proof. intros H1 H2. cbn [hs_loop]. rewrite H1, H2. reflexivity. Qed.

  (* a fresh handshake (server side: nothing sent yet) receiving version byte, packet 1, packet 2 and trailing bytes at once:
     it emits its version byte and both packets, reports completion, and hands the trailing bytes back untouched *)
  Theorem whole_stream_fresh r rand p1 p2 trailing :
    length p1 = 1536%nat -> length p2 = 1536%nat ->
    let own := gen_p0p1 hmac (hs_new r rand) in
    snd (process_bytes hmac (hs_new r rand) (HS_VERSION_BYTE :: p1 ++ p2 ++ trailing)) =
      HCompleted (fst own ++ own_p2 r (h_rand (snd own)) p1) trailing.
  Proof.
    intros Hl1 Hl2 own. unfold process_bytes. cbn [h_stage h_role h_buf h_sent_p1 h_rand hs_new app].
    set (stream := HS_VERSION_BYTE :: p1 ++ p2 ++ trailing).
    set (sp := h_sent_p1 (snd own)). set (rd := h_rand (snd own)).
    set (h0 := {| h_stage := NeedToSendP0AndP1; h_role := r; h_buf := stream; h_sent_p1 := repeat 0 (N.to_nat HS_PACKET_SIZE); h_rand := rand |}).
    set (h1 := {| h_stage := WaitingForPacket0; h_role := r; h_buf := stream; h_sent_p1 := sp; h_rand := rd |}).
    set (h2 := {| h_stage := WaitingForPacket1; h_role := r; h_buf := p1 ++ p2 ++ trailing; h_sent_p1 := sp; h_rand := rd |}).
    (* step 1: generate p0 + p1 *)
    assert (S1 : hs_step hmac h0 = (h1, SProgress (fst own))).
    { unfold hs_step, h0. cbn [h_stage]. unfold h1, sp, rd, own, gen_p0p1, hs_new. cbn [h_rand h_sent_p1 h_role h_buf].
      destruct (take_rand 1524 rand) as [fill rand'].
      destruct (match r with RServer => _ | RClient => _ end) as [off key].
      destruct (message_parts _ off) as [[before dd] after]. reflexivity. }
    rewrite (loop_progress 5 h0 h1 (fst own) [] [] S1 eq_refl eq_refl).
    (* step 2: version byte *)
    assert (S2 : hs_step hmac h1 = (h2, SProgress [])).
    { unfold hs_step, h1. cbn [h_stage h_buf]. unfold stream. rewrite N.eqb_refl. reflexivity. }
    rewrite (loop_progress 4 h1 h2 [] _ [] S2 eq_refl eq_refl).
    (* step 3: packet 1 *)
    pose proof (p2_reply hmac hmac_length h2 p1 (p2 ++ trailing) eq_refl Hl1 eq_refl) as [Hrep [Hst Hbuf]].
    destruct (hs_step hmac h2) as [h3 o3] eqn:S3. cbn [fst snd] in Hrep, Hst, Hbuf.
    assert (Ho3 : o3 = SProgress (own_p2 r rd p1)).
    { unfold own_p2. cbn [h_role h_rand h2] in Hrep. destruct (find_digest hmac p1 (peer_key r)); [destruct Hrep as [Hrep _]|]; exact Hrep. }
    subst o3.
    rewrite (loop_progress 3 h2 h3 _ _ [] S3); [|rewrite Hst; reflexivity|cbn [h_stage h2]; rewrite Hst; reflexivity].
    (* step 4: packet 2 *)
    assert (S4 : hs_step hmac h3 = (set_stage_buf h3 Complete [] (h_rand h3), SDone trailing)).
    { unfold hs_step. rewrite Hst, Hbuf.
      assert (Hlen : (lenN (p2 ++ trailing) <? HS_PACKET_SIZE) = false) by (unfold lenN, HS_PACKET_SIZE; rewrite app_length, Hl2; lia).
      rewrite Hlen. change (N.to_nat HS_PACKET_SIZE) with 1536%nat. rewrite (skipn_app_exact p2 trailing 1536 Hl2). reflexivity. }
    rewrite (loop_done 2 h3 _ trailing _ [] S4 eq_refl). cbn [snd app]. rewrite app_nil_r. reflexivity.
  Qed.
End Whole.
