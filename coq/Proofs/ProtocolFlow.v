(* C02, command phases after connect (createStream, publish, play, stop): message-level exchange between the two session models,
   whole-packet deliveries.  Built on two general lemmas: a message one session sends is handled by the peer's handle_input as
   exactly that decoded message (after the acknowledgement prelude), and the chunk layers are linked again. *)
From Coq Require Import ZArith Lia ZifyN ZifyBool ZifyNat String.
From RML Require Import Model.Base Model.Utf8 Model.Chunk Model.ChunkSer Model.ChunkDe Model.Amf0 Model.Messages Model.Float Model.SessionCommon
  Model.Server Model.Client Gen.Consts Spec.Amf0Spec Spec.Amf0Wire
  Proofs.Amf0Proofs Proofs.MessageProofs Proofs.ChunkSerProofs Proofs.ConfigProofs Proofs.InteropProofs Proofs.FloatProofs
  Proofs.ServerProofs Proofs.SessionFrame Proofs.SessionPartition Proofs.ProtocolProofs.
Local Open Scope N_scope.

(* messages whose handler leaves the deserializer alone and whose type id is a known one *)
Definition plain (m : rtmp_message) : Prop :=
  match m with MSetChunkSize _ | MUnknown _ _ => False | _ => True end.

Lemma plain_tid m tid body : plain m -> to_payload m = Ok (tid, body) -> tid < 256 /\ tid <> 1.
Proof.
  intros Hp E. unfold to_payload in E. destruct (message_body m) as [bb| | |]; cbn [obind] in E; try discriminate.
  injection E as <- _. destruct m; try contradiction; vm_compute; split; try reflexivity; discriminate.
Qed.

(* what the sender's send_message returns, as a chunk-layer message *)
Lemma send_message_inv ser m ts sid f d b ser' :
  send_message ser m ts sid f d = Ok (b, ser') ->
  exists tid body, to_payload m = Ok (tid, body) /\
    ChunkSer.serialize ser {| m_ts := ts; m_tid := tid; m_sid := sid; m_data := body |} f d = Ok (b, ser').
Proof.
  unfold send_message. destruct (to_payload m) as [[tid body]|e|x|]; try discriminate.
  intros E. exists tid, body. split; [reflexivity|].
  destruct (ChunkSer.serialize ser _ f d) as [r|e|x|]; try discriminate. injection E as ->. reflexivity.
Qed.

Definition quiet (a : ack_state) (b : bytes) : Prop := snd (ack_step a (lenN b)) = None.

Lemma server_receives s ser m ts sid f d b ser' clock :
  Link ser (sv_de s) -> ser_ok (sv_ser s) -> msg_ok m -> plain m -> ts < 4294967296 -> sid < 4294967296 ->
  send_message ser m ts sid f d = Ok (b, ser') ->
  exists p de1 de3 s0 pre,
    of_payload (m_tid p) (m_data p) = Ok m /\ m_sid p = sid /\ m_ts p = ts /\
    same_core s s0 /\ sv_de s0 = sv_de s /\ ser_ok (sv_ser s0) /\ events pre = [] /\
    (quiet (sv_ack s) b -> pre = [] /\ sv_ser s0 = sv_ser s) /\
    sv_ack s0 = fst (ack_step (sv_ack s) (lenN b)) /\
    Link ser' de3 /\
    server_handle_input s b clock =
      (let '(s1, r) := h_message (upd_de s0 de1) p clock in
       match r with ROk rs => (upd_de s1 de3, ROk (pre ++ rs)) | _ => (s1, r) end).
Proof.
  intros HL Hser Hok Hp Hts Hsid Hsend.
  destruct (send_message_inv _ _ _ _ _ _ _ _ Hsend) as [tid [body [Etp Es]]].
  destruct (plain_tid m tid body Hp Etp) as [Ht1 Ht2].
  pose proof (msg_roundtrip m tid body Hok Etp) as Hof.
  set (p := {| m_ts := ts; m_tid := tid; m_sid := sid; m_data := body |}) in *.
  pose proof HL as [sd [HSim _]].
  destruct (serialize_refused_or_ok ser p f d (Sim_max _ _ HSim)) as [Hbig _].
  assert (Hlen : lenN body <= 16777215).
  { destruct (16777215 <? lenN body) eqn:El; [|lia]. rewrite (Hbig ltac:(cbn [p m_data]; lia)) in Es. discriminate. }
  assert (Hwf : msg_wf p) by (unfold msg_wf, p; cbn [m_ts m_tid m_sid m_data]; repeat split; lia).
  destruct (link_message ser (sv_de s) p f d HL Hwf Ht2) as [b' [ser2 [de1 [de3 [Hs [G1 [G2 HL2]]]]]]].
  rewrite Es in Hs. injection Hs as <- <-.
  assert (Hframe : forall s0, sv_de (fst (h_message s0 p clock)) = sv_de s0).
  { intros s0. unfold h_message. cbn [p m_tid m_data]. rewrite Hof.
    destruct m as [t dd|n|n|name tr obj args|vs|dd|n|n lt|ev usid bl uts|dd|n]; try contradiction; try reflexivity.
    - apply h_command_de.
    - apply h_data_de.
    - apply h_media_de.
    - destruct ev; try reflexivity. apply one_packet_de.
    - apply h_media_de. }
  destruct (server_handle_packet s b clock p de1 de3 Hser G1 G2 Hframe) as [s0 [pre [Hc0 [Hd0 [Hs0 [Hpre [Hq [Hack Hin]]]]]]]].
  exists p, de1, de3, s0, pre. repeat (split; [first [exact Hof|reflexivity|exact Hc0|exact Hd0|exact Hs0|exact Hpre|exact Hq|exact Hack|exact HL2]|]).
  exact Hin.
Qed.

Lemma client_receives c ser m ts sid f d b ser' clock :
  Link ser (cl_de c) -> ser_ok (cl_ser c) -> msg_ok m -> plain m -> ts < 4294967296 -> sid < 4294967296 ->
  send_message ser m ts sid f d = Ok (b, ser') ->
  exists p de1 de3 c0 pre,
    of_payload (m_tid p) (m_data p) = Ok m /\ m_sid p = sid /\ m_ts p = ts /\
    (cl_cfg c0 = cl_cfg c /\ cl_next_tr c0 = cl_next_tr c /\ cl_trs c0 = cl_trs c /\ cl_state c0 = cl_state c /\
     cl_app c0 = cl_app c /\ cl_stream c0 = cl_stream c) /\ cl_de c0 = cl_de c /\ ser_ok (cl_ser c0) /\ cevents pre = [] /\
    (quiet (cl_ack c) b -> pre = [] /\ cl_ser c0 = cl_ser c) /\
    cl_ack c0 = fst (ack_step (cl_ack c) (lenN b)) /\
    Link ser' de3 /\
    client_handle_input c b clock =
      (let '(c1, r) := ch_message (cupd_de c0 de1) p clock in
       match r with COk rs => (cupd_de c1 de3, COk (pre ++ rs)) | _ => (c1, r) end).
Proof.
  intros HL Hser Hok Hp Hts Hsid Hsend.
  destruct (send_message_inv _ _ _ _ _ _ _ _ Hsend) as [tid [body [Etp Es]]].
  destruct (plain_tid m tid body Hp Etp) as [Ht1 Ht2].
  pose proof (msg_roundtrip m tid body Hok Etp) as Hof.
  set (p := {| m_ts := ts; m_tid := tid; m_sid := sid; m_data := body |}) in *.
  pose proof HL as [sd [HSim _]].
  destruct (serialize_refused_or_ok ser p f d (Sim_max _ _ HSim)) as [Hbig _].
  assert (Hlen : lenN body <= 16777215).
  { destruct (16777215 <? lenN body) eqn:El; [|lia]. rewrite (Hbig ltac:(cbn [p m_data]; lia)) in Es. discriminate. }
  assert (Hwf : msg_wf p) by (unfold msg_wf, p; cbn [m_ts m_tid m_sid m_data]; repeat split; lia).
  destruct (link_message ser (cl_de c) p f d HL Hwf Ht2) as [b' [ser2 [de1 [de3 [Hs [G1 [G2 HL2]]]]]]].
  rewrite Es in Hs. injection Hs as <- <-.
  assert (Hframe : forall c0, cl_de (fst (ch_message c0 p clock)) = cl_de c0).
  { intros c0. unfold ch_message. cbn [p m_tid m_data]. rewrite Hof.
    destruct m as [t dd|n|n|name tr obj args|vs|dd|n|n lt|ev usid bl uts|dd|n]; try contradiction; try reflexivity.
    - apply ch_command_de.
    - apply ch_data_de.
    - apply ch_media_de.
    - destruct ev; try reflexivity. apply cone_packet_de.
    - apply ch_media_de. }
  destruct (client_handle_packet c b clock p de1 de3 Hser G1 G2 Hframe) as [c0 [pre [E1 [E2 [E3 [E4 [E5 [E6 [E7 [Hs0 [Hpre [Hq [Hack Hin]]]]]]]]]]]]].
  exists p, de1, de3, c0, pre. split; [exact Hof|]. split; [reflexivity|]. split; [reflexivity|].
  split; [repeat split; assumption|]. split; [exact E7|]. split; [exact Hs0|]. split; [exact Hpre|]. split; [exact Hq|]. split; [exact Hack|]. split; [exact HL2|exact Hin].
Qed.

Ltac eqb_strs :=
  repeat match goal with
  | |- context [bytes_eqb (str ?a) (str ?b)] =>
      let v := eval vm_compute in (bytes_eqb (str a) (str b)) in change (bytes_eqb (str a) (str b)) with v; cbv iota
  end.

(* ---------------------------------------------------------------- the messages of the command phases *)
Definition create_reply (tr id : N) : rtmp_message := MAmf0Command (str "_result") tr VNull [VNumber (u32_to_f64 id)].
Definition type_str (t : publish_type) : bytes := match t with TLive => str "live" | TRecord => str "record" | TAppend => str "append" end.
Definition mode_of_type (t : publish_type) : publish_mode := match t with TLive => PLive | TRecord => PRecord | TAppend => PAppend end.
Definition publish_cmd (key : bytes) (t : publish_type) : rtmp_message :=
  MAmf0Command (str "publish") 0 VNull [VString key; VString (type_str t)].
Definition publish_start (key : bytes) : rtmp_message :=
  onstatus "status" "NetStream.Publish.Start" (str "Successfully started publishing on stream key " ++ key).
Definition play_cmd (key : bytes) : rtmp_message := MAmf0Command (str "play") 0 VNull [VString key].
Definition buffer_msg (id bl : N) : rtmp_message := MUserControl SetBufferLength (Some id) (Some bl) None.
Definition play_reset : rtmp_message := onstatus "status" "NetStream.Play.Reset" (str "Reset stream").
Definition play_start (key : bytes) : rtmp_message :=
  onstatus "status" "NetStream.Play.Start" (str "Successfully started playback on stream key " ++ key).
Definition sample_access : rtmp_message := MAmf0Data [VString (str "|RtmpSampleAccess"); VBoolean false; VBoolean false].
Definition data_start : rtmp_message := MAmf0Data [VString (str "onStatus"); VObject [(str "code", VString (str "NetStream.Data.Start"))]].
Definition delete_cmd (sid : N) : rtmp_message := MAmf0Command (str "deleteStream") 0 VNull [VNumber (u32_to_f64 sid)].

Lemma mode_of_type_str t : mode_of (type_str t) = Some (mode_of_type t).
Proof. destruct t; vm_compute; reflexivity. Qed.
Lemma type_str_utf8 t : utf8_valid (type_str t) = true.
Proof. destruct t; vm_compute; reflexivity. Qed.

Lemma utf8_ascii_app p l : forallb (fun b => b <? 128) p = true -> utf8_valid (p ++ l) = utf8_valid l.
Proof.
  induction p as [|b p IH]; intros H; [reflexivity|]. cbn [forallb] in H. apply andb_prop in H as [Hb Hp].
  rewrite <- (IH Hp). unfold utf8_valid. cbn [List.app List.length utf8_valid_fuel]. rewrite Hb. reflexivity.
Qed.

Lemma status_ok (code : string) (d : bytes) : utf8_valid (str code) = true -> utf8_valid d = true -> msg_ok (onstatus "status" code d).
Proof.
  intros Hc Hd. unfold onstatus, status_object. cbn [msg_ok wf_values]. split; [reflexivity|]. split; [cbn; lia|]. split; [exact I|]. split; [|exact I].
  apply wf_value_object. cbn [map fst]. split.
  - repeat (constructor; [cbn [In]; intros Hx; repeat (destruct Hx as [Hx|Hx]; [vm_compute in Hx; discriminate Hx|]); exact Hx|]). constructor.
  - cbn [wf_props wf_value]. repeat split; try reflexivity; assumption.
Qed.

(* ---------------------------------------------------------------- sending succeeds when the body fits *)
Lemma send_ok ser m ts sid f d tid body :
  ser_ok ser -> to_payload m = Ok (tid, body) -> lenN body <= 16777215 ->
  exists b ser', send_message ser m ts sid f d = Ok (b, ser').
Proof.
  intros Hs Etp Hlen. unfold send_message. rewrite Etp.
  destruct (serialize_refused_or_ok ser {| m_ts := ts; m_tid := tid; m_sid := sid; m_data := body |} f d Hs) as [_ Hok].
  destruct (Hok ltac:(cbn [m_data]; lia)) as [b [ser' [E _]]]. rewrite E. exists b, ser'. reflexivity.
Qed.

Lemma create_cmd_payload x : exists body, to_payload (MAmf0Command (str "createStream") x VNull []) = Ok (20, body) /\ lenN body = 25.
Proof. eexists. split; vm_compute; reflexivity. Qed.
Lemma create_reply_payload x id : exists body, to_payload (create_reply x id) = Ok (20, body) /\ lenN body = 29.
Proof. unfold create_reply. generalize (u32_to_f64 id). intros y. eexists. split; vm_compute; reflexivity. Qed.

Lemma lenN_app {A} (a b : list A) : lenN (a ++ b) = lenN a + lenN b.
Proof. unfold lenN. rewrite app_length. lia. Qed.
Lemma lenN_cons {A} (x : A) (l : list A) : lenN (x :: l) = 1 + lenN l.
Proof. unfold lenN. cbn [List.length]. lia. Qed.

Lemma string_value_payload k : lenN k <= 65535 -> exists b, encode_value (VString k) = Ok b /\ lenN b = 3 + lenN k.
Proof.
  intros H. cbn [encode_value]. replace (u16_max <? lenN k) with false by (unfold u16_max; lia).
  eexists. split; [reflexivity|]. rewrite lenN_cons, lenN_app. change (lenN (be16 (lenN k))) with 2. lia.
Qed.

Lemma publish_cmd_payload key t : lenN key <= 65535 ->
  exists body, to_payload (publish_cmd key t) = Ok (20, body) /\ lenN body <= 65600.
Proof.
  intros H. destruct (string_value_payload key H) as [bk [Ek Hk]].
  assert (Ht : exists bt, encode_value (VString (type_str t)) = Ok bt /\ lenN bt <= 9) by (destruct t; eexists; split; vm_compute; try reflexivity; discriminate).
  destruct Ht as [bt [Et Hbt]].
  unfold to_payload, publish_cmd. cbn [message_body Amf0.serialize encode_values]. rewrite Ek, Et.
  cbn [obind encode_value message_type_id]. eexists. split; [reflexivity|].
  repeat rewrite ?lenN_app, ?lenN_cons. change (lenN (be16 (lenN (str "publish")))) with 2. change (lenN (str "publish")) with 7.
  change (lenN (be64 0)) with 8. change (lenN (@nil N)) with 0. lia.
Qed.

Lemma lenN_nil {A} : lenN (@nil A) = 0. Proof. reflexivity. Qed.
Lemma lenN_be16 x : lenN (be16 x) = 2. Proof. reflexivity. Qed.
Lemma lenN_be64 x : lenN (be64 x) = 8. Proof. reflexivity. Qed.

Ltac closed_strs :=
  repeat match goal with
  | |- context [u16_max <? lenN (str ?a)] => assert_fails (is_var a); let v := eval vm_compute in (u16_max <? lenN (str a)) in change (u16_max <? lenN (str a)) with v; cbv iota
  | |- context [lenN (str ?a) =? 0] => assert_fails (is_var a); let v := eval vm_compute in (lenN (str a) =? 0) in change (lenN (str a) =? 0) with v; cbv iota
  end.
Ltac len_norm :=
  repeat rewrite ?lenN_app, ?lenN_cons, ?lenN_nil, ?lenN_be16, ?lenN_be64;
  repeat match goal with |- context [lenN (str ?a)] => assert_fails (is_var a); let v := eval vm_compute in (lenN (str a)) in progress change (lenN (str a)) with v end.

Lemma status_payload (code : string) d : lenN (str code) <= 100 -> lenN d <= 65435 ->
  exists body, to_payload (onstatus "status" code d) = Ok (20, body) /\ lenN body <= 65800.
Proof.
  intros Hc Hd.
  unfold to_payload, onstatus, status_object. cbn [message_body Amf0.serialize encode_values encode_value obind].
  replace (u16_max <? lenN d) with false by (unfold u16_max; lia).
  replace (u16_max <? lenN (str code)) with false by (unfold u16_max; lia).
  closed_strs. cbn [obind message_type_id]. eexists. split; [reflexivity|]. len_norm. lia.
Qed.

Lemma send_fits ser m ts sid f d :
  ser_ok ser -> (exists body, to_payload m = Ok (20, body) /\ lenN body <= 16777215) ->
  exists b ser', send_message ser m ts sid f d = Ok (b, ser') /\ ser_ok ser'.
Proof.
  intros Hs [body [E Hl]]. destruct (send_ok ser m ts sid f d 20 body Hs E Hl) as [b [ser' Es]].
  exists b, ser'. split; [exact Es|]. pose proof (send_message_total ser m ts sid f d Hs) as T. rewrite Es in T. exact T.
Qed.

Lemma send_fits_uc ser ev a bl ts0 ts sid f d :
  ser_ok ser -> exists b ser', send_message ser (MUserControl ev a bl ts0) ts sid f d = Ok (b, ser') /\ ser_ok ser'.
Proof.
  intros Hs.
  assert (H : exists body, to_payload (MUserControl ev a bl ts0) = Ok (4, body) /\ lenN body <= 16777215).
  { unfold to_payload. destruct ev; cbn [message_body obind message_type_id]; eexists; (split; [reflexivity|]); len_norm;
      repeat match goal with |- context [lenN (be32 ?x)] => change (lenN (be32 x)) with 4 end; lia. }
  destruct H as [body [E Hl]]. destruct (send_ok ser _ ts sid f d 4 body Hs E Hl) as [b [ser' Es]].
  exists b, ser'. split; [exact Es|]. pose proof (send_message_total ser (MUserControl ev a bl ts0) ts sid f d Hs) as T. rewrite Es in T. exact T.
Qed.

Lemma play_cmd_payload key : lenN key <= 65535 -> exists body, to_payload (play_cmd key) = Ok (20, body) /\ lenN body <= 16777215.
Proof.
  intros H. unfold to_payload, play_cmd. cbn [message_body Amf0.serialize encode_values encode_value obind].
  replace (u16_max <? lenN key) with false by (unfold u16_max; lia). closed_strs. cbn [obind message_type_id].
  eexists. split; [reflexivity|]. len_norm. lia.
Qed.
Lemma publish_cmd_fits key t : lenN key <= 65535 -> exists body, to_payload (publish_cmd key t) = Ok (20, body) /\ lenN body <= 16777215.
Proof. intros H. destruct (publish_cmd_payload key t H) as [b [E L]]. exists b. split; [exact E|lia]. Qed.
Lemma publish_start_fits key : lenN key <= 65000 -> exists body, to_payload (publish_start key) = Ok (20, body) /\ lenN body <= 16777215.
Proof.
  intros H. destruct (status_payload "NetStream.Publish.Start" (str "Successfully started publishing on stream key " ++ key)) as [b [E L]];
    [vm_compute; discriminate| rewrite lenN_app; len_norm; lia |]. exists b. split; [exact E|lia].
Qed.
Lemma play_start_fits key : lenN key <= 65000 -> exists body, to_payload (play_start key) = Ok (20, body) /\ lenN body <= 16777215.
Proof.
  intros H. destruct (status_payload "NetStream.Play.Start" (str "Successfully started playback on stream key " ++ key)) as [b [E L]];
    [vm_compute; discriminate| rewrite lenN_app; len_norm; lia |]. exists b. split; [exact E|lia].
Qed.
Lemma play_reset_fits : exists body, to_payload play_reset = Ok (20, body) /\ lenN body <= 16777215.
Proof. eexists. split; [vm_compute; reflexivity|vm_compute; discriminate]. Qed.
Lemma sample_access_fits : exists body, to_payload sample_access = Ok (18, body) /\ lenN body <= 16777215.
Proof. eexists. split; [vm_compute; reflexivity|vm_compute; discriminate]. Qed.
Lemma data_start_fits : exists body, to_payload data_start = Ok (18, body) /\ lenN body <= 16777215.
Proof. eexists. split; [vm_compute; reflexivity|vm_compute; discriminate]. Qed.
Lemma create_cmd_fits x : exists body, to_payload (MAmf0Command (str "createStream") x VNull []) = Ok (20, body) /\ lenN body <= 16777215.
Proof. destruct (create_cmd_payload x) as [b [E L]]. exists b. split; [exact E|lia]. Qed.
Lemma create_reply_fits x id : exists body, to_payload (create_reply x id) = Ok (20, body) /\ lenN body <= 16777215.
Proof. destruct (create_reply_payload x id) as [b [E L]]. exists b. split; [exact E|lia]. Qed.
Lemma delete_cmd_fits sid : exists body, to_payload (delete_cmd sid) = Ok (20, body) /\ lenN body <= 16777215.
Proof. unfold delete_cmd. generalize (u32_to_f64 sid). intros y. eexists. split; [vm_compute; reflexivity|vm_compute; discriminate]. Qed.

Lemma send_fits18 ser m ts sid f d :
  ser_ok ser -> (exists body, to_payload m = Ok (18, body) /\ lenN body <= 16777215) ->
  exists b ser', send_message ser m ts sid f d = Ok (b, ser') /\ ser_ok ser'.
Proof.
  intros Hs [body [E Hl]]. destruct (send_ok ser m ts sid f d 18 body Hs E Hl) as [b [ser' Es]].
  exists b, ser'. split; [exact Es|]. pose proof (send_message_total ser m ts sid f d Hs) as T. rewrite Es in T. exact T.
Qed.

Lemma h_command_create s sid tr obj args clock : h_command s sid (str "createStream") tr obj args clock = h_create_stream s tr clock.
Proof. unfold h_command. eqb_strs. reflexivity. Qed.
Lemma h_command_publish s sid tr obj args clock : h_command s sid (str "publish") tr obj args clock = h_publish s sid tr args clock.
Proof. unfold h_command. eqb_strs. reflexivity. Qed.
Lemma h_command_play s sid tr obj args clock : h_command s sid (str "play") tr obj args clock = h_play s sid tr args clock.
Proof. unfold h_command. eqb_strs. reflexivity. Qed.
Lemma h_command_delete s sid tr obj args clock : h_command s sid (str "deleteStream") tr obj args clock = h_close_or_delete true s args.
Proof. unfold h_command. eqb_strs. reflexivity. Qed.
Lemma ch_command_result c tr obj args clock : ch_command c (str "_result") tr obj args clock = ch_result c tr obj args clock.
Proof. unfold ch_command. eqb_strs. reflexivity. Qed.
Lemma ch_command_status c tr obj args clock : ch_command c (str "onStatus") tr obj args clock = ch_status c args.
Proof. unfold ch_command. eqb_strs. reflexivity. Qed.

Lemma events_pre pre rs : events pre = [] -> events (pre ++ rs) = events rs.
Proof. intros H. unfold events in *. rewrite flat_map_app, H. reflexivity. Qed.
Lemma cevents_pre pre rs : cevents pre = [] -> cevents (pre ++ rs) = cevents rs.
Proof. intros H. unfold cevents in *. rewrite flat_map_app, H. reflexivity. Qed.

(* ================================================================ createStream: client -> server -> reply *)
Theorem create_stream_delivered c s p clock sclock :
  Link (cl_ser c) (sv_de s) -> ser_ok (cl_ser c) -> ser_ok (sv_ser s) -> cl_state c = Connected -> cl_next_tr c < 4294967296 ->
  clock < 4294967296 ->
  exists c1 b1 s1 r2,
    create_stream_request c p clock = (c1, COk [CPacket b1 false]) /\
    cl_state c1 = Connected /\ lookup (cl_next_tr c) (cl_trs c1) = Some (TCreateStream p) /\
    cl_de c1 = cl_de c /\ cl_cfg c1 = cl_cfg c /\ cl_app c1 = cl_app c /\ cl_stream c1 = cl_stream c /\ cl_ack c1 = cl_ack c /\ ser_ok (cl_ser c1) /\
    send_message (cl_ser c) (MAmf0Command (str "createStream") (u32_to_f64 (cl_next_tr c)) VNull []) clock 0 false false = Ok (b1, cl_ser c1) /\
    server_handle_input s b1 sclock = (s1, ROk r2) /\
    events r2 = [] /\
    sv_app s1 = sv_app s /\ sv_reqs s1 = sv_reqs s /\ sv_next_req s1 = sv_next_req s /\ sv_connected s1 = sv_connected s /\
    sv_streams s1 = insert (sv_next_stream s) StCreated (sv_streams s) /\ sv_next_stream s1 = sv_next_stream s + 1 /\
    Link (cl_ser c1) (sv_de s1) /\ ser_ok (sv_ser s1) /\ sv_ack s1 = fst (ack_step (sv_ack s) (lenN b1)) /\
    (quiet (sv_ack s) b1 -> exists b2, r2 = [SPacket b2 false] /\
       send_message (sv_ser s) (create_reply (u32_to_f64 (cl_next_tr c)) (sv_next_stream s)) sclock 0 false false = Ok (b2, sv_ser s1)).
Proof.
  intros HL Hcs Hss Hst Htr Hclk.
  unfold create_stream_request. rewrite Hst. unfold new_transaction. cbv zeta.
  set (c0 := cupd_trs c (insert (cl_next_tr c) (TCreateStream p) (cl_trs c)) (cl_next_tr c + 1)).
  set (M := MAmf0Command (str "createStream") (u32_to_f64 (cl_next_tr c)) VNull []).
  unfold cone_packet, csending. change (cl_ser c0) with (cl_ser c).
  destruct (send_fits (cl_ser c) M clock 0 false false Hcs (create_cmd_fits _)) as [b1 [ser' [Esend Hser']]]. rewrite Esend.
  assert (Hok : msg_ok M).
  { cbn [msg_ok M wf_values wf_value]. repeat split; try reflexivity. apply u32_to_f64_bound; exact Htr. }
  destruct (server_receives s (cl_ser c) M clock 0 false false b1 ser' sclock HL Hss Hok I Hclk ltac:(lia) Esend)
    as [pk [de1 [de3 [s0 [pre [Hof [Hsid [Hts [Hc0 [Hd0 [Hs0 [Hpre [Hq [Hack [HL2 Hrun]]]]]]]]]]]]]]].
  destruct Hc0 as [A1 [A2 [A3 [A4 [A5 [A6 [A7 A8]]]]]]].
  destruct (send_fits (sv_ser s0) (create_reply (u32_to_f64 (cl_next_tr c)) (sv_next_stream s0)) sclock 0 false false Hs0 (create_reply_fits _ _))
    as [b2 [ser2 [Es2 Hser2]]].
  assert (Hm : h_message (upd_de s0 de1) pk sclock =
               (upd_ser (upd_streams (upd_de s0 de1) (insert (sv_next_stream s0) StCreated (sv_streams s0)) (sv_next_stream s0 + 1)) ser2,
                ROk [SPacket b2 false])).
  { unfold h_message. rewrite Hof. unfold M. cbv iota. rewrite h_command_create.
    unfold h_create_stream, one_packet, sending. cbv zeta. cbn [sv_ser upd_streams upd_de sv_next_stream sv_streams].
    fold (create_reply (u32_to_f64 (cl_next_tr c)) (sv_next_stream s0)). rewrite Es2. reflexivity. }
  rewrite Hm in Hrun. cbv iota beta in Hrun.
  eexists. exists b1. eexists. eexists. split; [reflexivity|].
  split; [exact Hst|]. split; [cbn [cl_trs cupd_ser c0 cupd_trs]; apply ChunkSpecProofs.lookup_insert_same|].
  repeat (split; [reflexivity|]). split; [exact Hser'|]. split; [reflexivity|]. split; [exact Hrun|].
  split; [rewrite events_pre by exact Hpre; reflexivity|].
  cbn [sv_app sv_reqs sv_next_req sv_connected sv_streams sv_next_stream sv_de sv_ser upd_de upd_ser upd_streams cl_ser cupd_ser].
  split; [exact A1|]. split; [exact A2|]. split; [exact A3|]. split; [exact A4|]. split; [rewrite A5, A6; reflexivity|]. split; [rewrite A6; reflexivity|].
  split; [exact HL2|]. split; [exact Hser2|]. split; [exact Hack|].
  intros Hquiet. destruct (Hq Hquiet) as [-> Hser0]. exists b2. split; [reflexivity|]. rewrite <- Hser0, <- A6. exact Es2.
Qed.

(* ================================================================ createStream result: server -> client, publish purpose *)
Theorem create_result_publish ser ser' b2 c trn id key t sclock cclock :
  Link ser (cl_de c) -> ser_ok (cl_ser c) -> trn < 4294967296 -> id < 4294967296 -> sclock < 4294967296 -> lenN key <= 65535 ->
  send_message ser (create_reply (u32_to_f64 trn) id) sclock 0 false false = Ok (b2, ser') ->
  lookup trn (cl_trs c) = Some (TCreateStream (PurposePublish key t)) ->
  exists c2 r3, client_handle_input c b2 cclock = (c2, COk r3) /\
  cevents r3 = [] /\ cl_state c2 = PublishRequested /\ cl_stream c2 = Some id /\ lookup trn (cl_trs c2) = None /\
  cl_app c2 = cl_app c /\ cl_cfg c2 = cl_cfg c /\ Link ser' (cl_de c2) /\ ser_ok (cl_ser c2) /\ cl_ack c2 = fst (ack_step (cl_ack c) (lenN b2)) /\
  (quiet (cl_ack c) b2 -> exists b3, r3 = [CPacket b3 false] /\
     send_message (cl_ser c) (publish_cmd key t) cclock id false false = Ok (b3, cl_ser c2)).
Proof.
  intros HL Hcs Htrn Hid Hsclk Hkl Hsend Htr.
  assert (Hok : msg_ok (create_reply (u32_to_f64 trn) id)).
  { cbn [msg_ok create_reply wf_values wf_value]. repeat split; try reflexivity; apply u32_to_f64_bound; assumption. }
  destruct (client_receives c ser _ sclock 0 false false b2 ser' cclock HL Hcs Hok I Hsclk ltac:(lia) Hsend)
    as [pk [de1 [de3 [c0 [pre [Hof [Hsid [Hts [[E1 [E2 [E3 [E4 [E5 E6]]]]] [Hd0 [Hs0 [Hpre [Hq [Hack [HL2 Hrun]]]]]]]]]]]]]]].
  destruct (send_fits (cl_ser c0) (publish_cmd key t) cclock id false false Hs0 (publish_cmd_fits key t Hkl)) as [b3 [ser3 [Es3 Hser3]]].
  assert (Hm : ch_message (cupd_de c0 de1) pk cclock =
               (cupd_ser (cupd_state (cupd_stream (cupd_trs (cupd_de c0 de1) (remove trn (cl_trs c0)) (cl_next_tr c0)) (Some id)) PublishRequested) ser3,
                COk [CPacket b3 false])).
  { unfold ch_message. rewrite Hof. unfold create_reply. cbv iota.
    rewrite ch_command_result. unfold ch_result, take_transaction. rewrite (u32_roundtrip trn Htrn).
    cbn [cl_trs cupd_de]. rewrite E3, Htr. cbv zeta iota. rewrite (u32_roundtrip id Hid).
    unfold cone_packet, csending. cbn [cl_ser cupd_state cupd_stream cupd_trs cupd_de].
    fold (type_str t). fold (publish_cmd key t). rewrite Es3. reflexivity. }
  rewrite Hm in Hrun. cbv iota beta in Hrun.
  eexists. eexists. split; [exact Hrun|].
  split; [rewrite cevents_pre by exact Hpre; reflexivity|].
  cbn [cl_state cl_stream cl_trs cl_app cl_cfg cl_de cl_ser cupd_de cupd_ser cupd_state cupd_stream cupd_trs].
  split; [reflexivity|]. split; [reflexivity|]. split; [apply ChunkSpecProofs.lookup_remove_same|].
  split; [exact E5|]. split; [exact E1|]. split; [exact HL2|]. split; [exact Hser3|]. split; [exact Hack|].
  intros Hquiet. destruct (Hq Hquiet) as [-> Hser0]. exists b3. split; [reflexivity|]. rewrite <- Hser0. exact Es3.
Qed.

(* ================================================================ publish command: client -> server *)
Theorem publish_request_delivered ser ser' b3 s key t id app cclock sclock :
  Link ser (sv_de s) -> ser_ok (sv_ser s) -> utf8_valid key = true -> id < 4294967296 -> cclock < 4294967296 ->
  send_message ser (publish_cmd key t) cclock id false false = Ok (b3, ser') ->
  sv_connected s = true -> sv_app s = Some app ->
  exists s2 r4, server_handle_input s b3 sclock = (s2, ROk r4) /\
  events r4 = [EvPublishRequested (sv_next_req s) app key (mode_of_type t)] /\
  lookup (sv_next_req s) (sv_reqs s2) = Some (RPublish key (mode_of_type t) id) /\
  sv_streams s2 = sv_streams s /\ sv_app s2 = sv_app s /\ sv_connected s2 = true /\
  Link ser' (sv_de s2) /\ ser_ok (sv_ser s2) /\ sv_ack s2 = fst (ack_step (sv_ack s) (lenN b3)) /\
  (quiet (sv_ack s) b3 -> r4 = [SEvent (EvPublishRequested (sv_next_req s) app key (mode_of_type t))] /\ sv_ser s2 = sv_ser s).
Proof.
  intros HL Hss Hkey Hid Hclk Hsend Hconn Happ.
  assert (Hok : msg_ok (publish_cmd key t)).
  { cbn [msg_ok publish_cmd wf_values wf_value]. repeat split; try reflexivity; try assumption. apply type_str_utf8. }
  destruct (server_receives s ser _ cclock id false false b3 ser' sclock HL Hss Hok I Hclk Hid Hsend)
    as [pk [de1 [de3 [s0 [pre [Hof [Hsid [Hts [Hc0 [Hd0 [Hs0 [Hpre [Hq [Hack [HL2 Hrun]]]]]]]]]]]]]]].
  destruct Hc0 as [A1 [A2 [A3 [A4 [A5 [A6 [A7 A8]]]]]]].
  assert (Hm : h_message (upd_de s0 de1) pk sclock =
               (upd_reqs (upd_de s0 de1) (insert (sv_next_req s0) (RPublish key (mode_of_type t) id) (sv_reqs s0)) (sv_next_req s0 + 1),
                ROk [SEvent (EvPublishRequested (sv_next_req s0) app key (mode_of_type t))])).
  { unfold h_message. rewrite Hof. unfold publish_cmd. cbv iota.
    rewrite h_command_publish. unfold h_publish. cbn [sv_connected sv_app upd_de].
    rewrite A4, Hconn, A1, Happ. cbn [negb]. cbv iota. rewrite mode_of_type_str.
    unfold new_request. cbv zeta iota beta. rewrite Hsid. reflexivity. }
  rewrite Hm in Hrun. cbv iota beta in Hrun.
  eexists. eexists. split; [exact Hrun|].
  cbn [sv_reqs sv_next_req sv_streams sv_app sv_connected sv_de sv_ser upd_de upd_reqs]. rewrite A3.
  split; [rewrite events_pre by exact Hpre; reflexivity|].
  split; [apply ChunkSpecProofs.lookup_insert_same|]. split; [exact A5|]. split; [exact A1|]. split; [rewrite A4; exact Hconn|].
  split; [exact HL2|]. split; [exact Hs0|]. split; [exact Hack|].
  intros Hquiet. destruct (Hq Hquiet) as [-> Hser0]. split; [reflexivity|exact Hser0].
Qed.

(* ================================================================ the application accepts the publish request *)
Theorem publish_accepted s n key mode id st clock :
  ser_ok (sv_ser s) -> lenN key <= 65000 ->
  lookup n (sv_reqs s) = Some (RPublish key mode id) -> lookup id (sv_streams s) = Some st ->
  exists s3 b4 b5 serm, server_accept s n clock = (s3, ROk [SPacket b4 false; SPacket b5 false]) /\
    lookup id (sv_streams s3) = Some (StPublishing key mode) /\ lookup n (sv_reqs s3) = None /\
    sv_app s3 = sv_app s /\ sv_connected s3 = sv_connected s /\ sv_de s3 = sv_de s /\ sv_ack s3 = sv_ack s /\ ser_ok (sv_ser s3) /\
    send_message (sv_ser s) (MUserControl StreamBegin (Some id) None None) clock id false false = Ok (b4, serm) /\
    send_message serm (publish_start key) clock id false false = Ok (b5, sv_ser s3).
Proof.
  intros Hss Hkl Hreq Hst. unfold server_accept. rewrite Hreq. cbv zeta iota.
  unfold accept_publish. cbn [sv_streams upd_reqs]. rewrite Hst. cbv zeta.
  unfold sending. cbn [sv_ser upd_streams upd_reqs].
  destruct (send_fits_uc (sv_ser s) StreamBegin (Some id) None None clock id false false Hss) as [b4 [serm [E4 Hm]]]. rewrite E4.
  cbn [sv_ser upd_ser]. fold (publish_start key).
  destruct (send_fits serm (publish_start key) clock id false false Hm (publish_start_fits key Hkl)) as [b5 [ser5 [E5 H5]]]. rewrite E5.
  eexists. exists b4, b5, serm. split; [reflexivity|].
  cbn [sv_streams sv_reqs sv_app sv_connected sv_de sv_ack sv_ser upd_ser upd_streams upd_reqs].
  split; [apply ChunkSpecProofs.lookup_insert_same|]. split; [apply ChunkSpecProofs.lookup_remove_same|].
  repeat (split; [reflexivity|]). split; [exact H5|]. split; [reflexivity|exact E5].
Qed.

(* ================================================================ a message the client only notes: stream begin *)
Theorem stream_begin_ignored ser ser' b c id clock cclock :
  Link ser (cl_de c) -> ser_ok (cl_ser c) -> id < 4294967296 -> clock < 4294967296 ->
  send_message ser (MUserControl StreamBegin (Some id) None None) clock id false false = Ok (b, ser') ->
  exists c2 r, client_handle_input c b cclock = (c2, COk r) /\
  cevents r = [] /\ cl_state c2 = cl_state c /\ cl_stream c2 = cl_stream c /\ cl_trs c2 = cl_trs c /\ cl_app c2 = cl_app c /\
  cl_cfg c2 = cl_cfg c /\ cl_next_tr c2 = cl_next_tr c /\ Link ser' (cl_de c2) /\ ser_ok (cl_ser c2) /\ cl_ack c2 = fst (ack_step (cl_ack c) (lenN b)) /\
  (quiet (cl_ack c) b -> r = [] /\ cl_ser c2 = cl_ser c).
Proof.
  intros HL Hcs Hid Hclk Hsend.
  assert (Hok : msg_ok (MUserControl StreamBegin (Some id) None None)).
  { cbn [msg_ok]. split; [exists id; split; [reflexivity|exact Hid]|split; reflexivity]. }
  destruct (client_receives c ser _ clock id false false b ser' cclock HL Hcs Hok I Hclk Hid Hsend)
    as [pk [de1 [de3 [c0 [pre [Hof [Hsid [Hts [[E1 [E2 [E3 [E4 [E5 E6]]]]] [Hd0 [Hs0 [Hpre [Hq [Hack [HL2 Hrun]]]]]]]]]]]]]]].
  assert (Hm : ch_message (cupd_de c0 de1) pk cclock = (cupd_de c0 de1, COk [])) by (unfold ch_message; rewrite Hof; reflexivity).
  rewrite Hm in Hrun. cbv iota beta in Hrun. rewrite app_nil_r in Hrun.
  eexists. eexists. split; [exact Hrun|].
  cbn [cl_state cl_stream cl_trs cl_app cl_cfg cl_next_tr cl_de cl_ser cupd_de].
  split; [exact Hpre|]. split; [exact E4|]. split; [exact E6|]. split; [exact E3|]. split; [exact E5|]. split; [exact E1|]. split; [exact E2|].
  split; [exact HL2|]. split; [exact Hs0|]. split; [exact Hack|]. exact Hq.
Qed.

(* ================================================================ publish start status: server -> client *)
Theorem publish_start_delivered ser ser' b c key id clock cclock :
  Link ser (cl_de c) -> ser_ok (cl_ser c) -> utf8_valid key = true -> id < 4294967296 -> clock < 4294967296 ->
  send_message ser (publish_start key) clock id false false = Ok (b, ser') ->
  cl_state c = PublishRequested ->
  exists c2 r, client_handle_input c b cclock = (c2, COk r) /\
  cevents r = [CPublishAccepted] /\ cl_state c2 = Publishing /\ cl_stream c2 = cl_stream c /\ cl_app c2 = cl_app c /\
  cl_cfg c2 = cl_cfg c /\ Link ser' (cl_de c2) /\ ser_ok (cl_ser c2) /\ cl_ack c2 = fst (ack_step (cl_ack c) (lenN b)) /\
  (quiet (cl_ack c) b -> r = [CEvent CPublishAccepted] /\ cl_ser c2 = cl_ser c).
Proof.
  intros HL Hcs Hkey Hid Hclk Hsend Hst.
  assert (Hok : msg_ok (publish_start key)).
  { apply status_ok; [vm_compute; reflexivity|]. rewrite utf8_ascii_app by (vm_compute; reflexivity). exact Hkey. }
  destruct (client_receives c ser _ clock id false false b ser' cclock HL Hcs Hok I Hclk Hid Hsend)
    as [pk [de1 [de3 [c0 [pre [Hof [Hsid [Hts [[E1 [E2 [E3 [E4 [E5 E6]]]]] [Hd0 [Hs0 [Hpre [Hq [Hack [HL2 Hrun]]]]]]]]]]]]]]].
  assert (Hm : ch_message (cupd_de c0 de1) pk cclock = (cupd_state (cupd_de c0 de1) Publishing, COk [CEvent CPublishAccepted])).
  { unfold ch_message. rewrite Hof. unfold publish_start, onstatus. cbv iota.
    rewrite ch_command_status. unfold ch_status, status_object. cbn [prop_get].
    change (bytes_eqb (str "code") (str "level")) with false. change (bytes_eqb (str "code") (str "code")) with true. cbv iota.
    change (bytes_eqb (str "NetStream.Publish.Start") (str "NetStream.Play.Start")) with false.
    change (bytes_eqb (str "NetStream.Publish.Start") (str "NetStream.Publish.Start")) with true. cbv iota.
    cbn [cl_state cupd_de]. rewrite E4, Hst. reflexivity. }
  rewrite Hm in Hrun. cbv iota beta in Hrun.
  eexists. eexists. split; [exact Hrun|].
  cbn [cl_state cl_stream cl_trs cl_app cl_cfg cl_next_tr cl_de cl_ser cupd_de cupd_state].
  split; [rewrite cevents_pre by exact Hpre; reflexivity|].
  split; [reflexivity|]. split; [exact E6|]. split; [exact E5|]. split; [exact E1|]. split; [exact HL2|]. split; [exact Hs0|]. split; [exact Hack|].
  intros Hquiet. destruct (Hq Hquiet) as [-> Hser0]. split; [reflexivity|exact Hser0].
Qed.

(* ================================================================ the play workflow *)
Theorem create_result_play ser ser' b2 c trn id key sclock cclock :
  Link ser (cl_de c) -> ser_ok (cl_ser c) -> trn < 4294967296 -> id < 4294967296 -> sclock < 4294967296 -> lenN key <= 65535 ->
  send_message ser (create_reply (u32_to_f64 trn) id) sclock 0 false false = Ok (b2, ser') ->
  lookup trn (cl_trs c) = Some (TCreateStream (PurposePlay key)) ->
  exists c2 r3, client_handle_input c b2 cclock = (c2, COk r3) /\
  cevents r3 = [] /\ cl_state c2 = PlayRequested /\ cl_stream c2 = Some id /\ lookup trn (cl_trs c2) = None /\
  cl_app c2 = cl_app c /\ cl_cfg c2 = cl_cfg c /\ Link ser' (cl_de c2) /\ ser_ok (cl_ser c2) /\ cl_ack c2 = fst (ack_step (cl_ack c) (lenN b2)) /\
  (quiet (cl_ack c) b2 -> exists b3 b4 serm, r3 = [CPacket b3 false; CPacket b4 false] /\
     send_message (cl_ser c) (buffer_msg id (cc_buffer (cl_cfg c))) cclock 0 false false = Ok (b3, serm) /\
     send_message serm (play_cmd key) cclock id false false = Ok (b4, cl_ser c2)).
Proof.
  intros HL Hcs Htrn Hid Hsclk Hkl Hsend Htr.
  assert (Hok : msg_ok (create_reply (u32_to_f64 trn) id)).
  { cbn [msg_ok create_reply wf_values wf_value]. repeat split; try reflexivity; apply u32_to_f64_bound; assumption. }
  destruct (client_receives c ser _ sclock 0 false false b2 ser' cclock HL Hcs Hok I Hsclk ltac:(lia) Hsend)
    as [pk [de1 [de3 [c0 [pre [Hof [Hsid [Hts [[E1 [E2 [E3 [E4 [E5 E6]]]]] [Hd0 [Hs0 [Hpre [Hq [Hack [HL2 Hrun]]]]]]]]]]]]]]].
  destruct (send_fits_uc (cl_ser c0) SetBufferLength (Some id) (Some (cc_buffer (cl_cfg c0))) None cclock 0 false false Hs0) as [b3 [serm [Es3 Hserm]]].
  destruct (send_fits serm (play_cmd key) cclock id false false Hserm (play_cmd_payload key Hkl)) as [b4 [ser4 [Es4 Hser4]]].
  assert (Hm : ch_message (cupd_de c0 de1) pk cclock =
               (cupd_ser (cupd_state (cupd_stream (cupd_trs (cupd_de c0 de1) (remove trn (cl_trs c0)) (cl_next_tr c0)) (Some id)) PlayRequested) ser4,
                COk [CPacket b3 false; CPacket b4 false])).
  { unfold ch_message. rewrite Hof. unfold create_reply. cbv iota.
    rewrite ch_command_result. unfold ch_result, take_transaction. rewrite (u32_roundtrip trn Htrn).
    cbn [cl_trs cupd_de]. rewrite E3, Htr. cbv zeta iota. rewrite (u32_roundtrip id Hid).
    unfold csending. cbn [cl_ser cl_cfg cupd_state cupd_stream cupd_trs cupd_de].
    fold (buffer_msg id (cc_buffer (cl_cfg c0))). fold (play_cmd key). unfold buffer_msg. rewrite Es3. cbn [cl_ser cupd_ser]. rewrite Es4. reflexivity. }
  rewrite Hm in Hrun. cbv iota beta in Hrun.
  eexists. eexists. split; [exact Hrun|].
  split; [rewrite cevents_pre by exact Hpre; reflexivity|].
  cbn [cl_state cl_stream cl_trs cl_app cl_cfg cl_de cl_ser cupd_de cupd_ser cupd_state cupd_stream cupd_trs].
  split; [reflexivity|]. split; [reflexivity|]. split; [apply ChunkSpecProofs.lookup_remove_same|].
  split; [exact E5|]. split; [exact E1|]. split; [exact HL2|]. split; [exact Hser4|]. split; [exact Hack|].
  intros Hquiet. destruct (Hq Hquiet) as [-> Hser0]. exists b3, b4, serm. split; [reflexivity|]. rewrite <- Hser0, <- E1. split; [exact Es3|exact Es4].
Qed.

(* the server only notes a buffer-length announcement *)
Theorem buffer_length_ignored ser ser' b s id bl clock sclock :
  Link ser (sv_de s) -> ser_ok (sv_ser s) -> id < 4294967296 -> bl < 4294967296 -> clock < 4294967296 ->
  send_message ser (buffer_msg id bl) clock 0 false false = Ok (b, ser') ->
  exists s2 r, server_handle_input s b sclock = (s2, ROk r) /\
  events r = [] /\ same_core s s2 /\ Link ser' (sv_de s2) /\ ser_ok (sv_ser s2) /\ sv_ack s2 = fst (ack_step (sv_ack s) (lenN b)) /\
  (quiet (sv_ack s) b -> r = [] /\ sv_ser s2 = sv_ser s).
Proof.
  intros HL Hss Hid Hbl Hclk Hsend.
  assert (Hok : msg_ok (buffer_msg id bl)).
  { cbn [msg_ok buffer_msg]. split; [exists id, bl; repeat split; assumption|reflexivity]. }
  destruct (server_receives s ser _ clock 0 false false b ser' sclock HL Hss Hok I Hclk ltac:(lia) Hsend)
    as [pk [de1 [de3 [s0 [pre [Hof [Hsid [Hts [Hc0 [Hd0 [Hs0 [Hpre [Hq [Hack [HL2 Hrun]]]]]]]]]]]]]]].
  assert (Hm : h_message (upd_de s0 de1) pk sclock = (upd_de s0 de1, ROk [])) by (unfold h_message; rewrite Hof; reflexivity).
  rewrite Hm in Hrun. cbv iota beta in Hrun. rewrite app_nil_r in Hrun.
  eexists. eexists. split; [exact Hrun|].
  split; [exact Hpre|]. split; [exact Hc0|]. split; [exact HL2|]. split; [exact Hs0|]. split; [exact Hack|]. exact Hq.
Qed.

Theorem play_request_delivered ser ser' b s key id app cclock sclock :
  Link ser (sv_de s) -> ser_ok (sv_ser s) -> utf8_valid key = true -> id < 4294967296 -> cclock < 4294967296 ->
  send_message ser (play_cmd key) cclock id false false = Ok (b, ser') ->
  sv_connected s = true -> sv_app s = Some app ->
  exists s2 r, server_handle_input s b sclock = (s2, ROk r) /\
  events r = [EvPlayRequested (sv_next_req s) app key LiveOrRecorded None false id] /\
  lookup (sv_next_req s) (sv_reqs s2) = Some (RPlay key id) /\
  sv_streams s2 = sv_streams s /\ sv_app s2 = sv_app s /\ sv_connected s2 = true /\
  Link ser' (sv_de s2) /\ ser_ok (sv_ser s2) /\ sv_ack s2 = fst (ack_step (sv_ack s) (lenN b)) /\
  (quiet (sv_ack s) b -> r = [SEvent (EvPlayRequested (sv_next_req s) app key LiveOrRecorded None false id)] /\ sv_ser s2 = sv_ser s).
Proof.
  intros HL Hss Hkey Hid Hclk Hsend Hconn Happ.
  assert (Hok : msg_ok (play_cmd key)).
  { cbn [msg_ok play_cmd wf_values wf_value]. repeat split; try reflexivity; assumption. }
  destruct (server_receives s ser _ cclock id false false b ser' sclock HL Hss Hok I Hclk Hid Hsend)
    as [pk [de1 [de3 [s0 [pre [Hof [Hsid [Hts [Hc0 [Hd0 [Hs0 [Hpre [Hq [Hack [HL2 Hrun]]]]]]]]]]]]]]].
  destruct Hc0 as [A1 [A2 [A3 [A4 [A5 [A6 [A7 A8]]]]]]].
  assert (Hm : h_message (upd_de s0 de1) pk sclock =
               (upd_reqs (upd_de s0 de1) (insert (sv_next_req s0) (RPlay key id) (sv_reqs s0)) (sv_next_req s0 + 1),
                ROk [SEvent (EvPlayRequested (sv_next_req s0) app key LiveOrRecorded None false id)])).
  { unfold h_message. rewrite Hof. unfold play_cmd. cbv iota.
    rewrite h_command_play. unfold h_play. cbn [sv_connected sv_app upd_de].
    rewrite A4, Hconn, A1, Happ. cbn [negb]. cbv iota.
    unfold new_request. cbv zeta iota beta. rewrite Hsid. reflexivity. }
  rewrite Hm in Hrun. cbv iota beta in Hrun.
  eexists. eexists. split; [exact Hrun|].
  cbn [sv_reqs sv_next_req sv_streams sv_app sv_connected sv_de sv_ser upd_de upd_reqs]. rewrite A3.
  split; [rewrite events_pre by exact Hpre; reflexivity|].
  split; [apply ChunkSpecProofs.lookup_insert_same|]. split; [exact A5|]. split; [exact A1|]. split; [rewrite A4; exact Hconn|].
  split; [exact HL2|]. split; [exact Hs0|]. split; [exact Hack|].
  intros Hquiet. destruct (Hq Hquiet) as [-> Hser0]. split; [reflexivity|exact Hser0].
Qed.

Theorem play_accepted s n key id st clock :
  ser_ok (sv_ser s) -> lenN key <= 65000 ->
  lookup n (sv_reqs s) = Some (RPlay key id) -> lookup id (sv_streams s) = Some st ->
  exists s3 b1 b2 b3 b4 b5 e1 e2 e3 e4,
    server_accept s n clock = (s3, ROk [SPacket b1 false; SPacket b2 false; SPacket b3 false; SPacket b4 false; SPacket b5 false]) /\
    lookup id (sv_streams s3) = Some (StPlaying key) /\ lookup n (sv_reqs s3) = None /\
    sv_app s3 = sv_app s /\ sv_connected s3 = sv_connected s /\ sv_de s3 = sv_de s /\ sv_ack s3 = sv_ack s /\ ser_ok (sv_ser s3) /\
    send_message (sv_ser s) play_reset clock id false false = Ok (b1, e1) /\
    send_message e1 (MUserControl StreamBegin (Some id) None None) clock id false false = Ok (b2, e2) /\
    send_message e2 (play_start key) clock id false false = Ok (b3, e3) /\
    send_message e3 sample_access clock id false false = Ok (b4, e4) /\
    send_message e4 data_start clock id false false = Ok (b5, sv_ser s3).
Proof.
  intros Hss Hkl Hreq Hst. unfold server_accept. rewrite Hreq. cbv zeta iota.
  unfold accept_play. cbn [sv_streams upd_reqs]. rewrite Hst. cbv zeta.
  unfold sending. cbn [sv_ser upd_streams upd_reqs].
  fold play_reset (play_start key) sample_access data_start.
  destruct (send_fits (sv_ser s) play_reset clock id false false Hss play_reset_fits) as [b1 [e1 [E1 H1]]]. rewrite E1. cbn [sv_ser upd_ser].
  destruct (send_fits_uc e1 StreamBegin (Some id) None None clock id false false H1) as [b2 [e2 [E2 H2]]]. rewrite E2. cbn [sv_ser upd_ser].
  destruct (send_fits e2 (play_start key) clock id false false H2 (play_start_fits key Hkl)) as [b3 [e3 [E3 H3]]]. rewrite E3. cbn [sv_ser upd_ser].
  destruct (send_fits18 e3 sample_access clock id false false H3 sample_access_fits) as [b4 [e4 [E4 H4]]]. rewrite E4. cbn [sv_ser upd_ser].
  destruct (send_fits18 e4 data_start clock id false false H4 data_start_fits) as [b5 [e5 [E5 H5]]]. rewrite E5.
  eexists. exists b1, b2, b3, b4, b5, e1, e2, e3, e4. split; [reflexivity|].
  cbn [sv_streams sv_reqs sv_app sv_connected sv_de sv_ack sv_ser upd_ser upd_streams upd_reqs].
  split; [apply ChunkSpecProofs.lookup_insert_same|]. split; [apply ChunkSpecProofs.lookup_remove_same|].
  repeat (split; [first [reflexivity|assumption]|]). exact E5.
Qed.

(* a status the client does not act on is reported as such *)
Theorem play_reset_delivered ser ser' b c id clock cclock :
  Link ser (cl_de c) -> ser_ok (cl_ser c) -> id < 4294967296 -> clock < 4294967296 ->
  send_message ser play_reset clock id false false = Ok (b, ser') ->
  exists c2 r, client_handle_input c b cclock = (c2, COk r) /\
  cevents r = [CUnhandleableStatus (str "NetStream.Play.Reset")] /\ cl_state c2 = cl_state c /\ cl_stream c2 = cl_stream c /\ cl_app c2 = cl_app c /\
  cl_cfg c2 = cl_cfg c /\ Link ser' (cl_de c2) /\ ser_ok (cl_ser c2) /\ cl_ack c2 = fst (ack_step (cl_ack c) (lenN b)) /\
  (quiet (cl_ack c) b -> r = [CEvent (CUnhandleableStatus (str "NetStream.Play.Reset"))] /\ cl_ser c2 = cl_ser c).
Proof.
  intros HL Hcs Hid Hclk Hsend.
  assert (Hok : msg_ok play_reset) by (apply status_ok; vm_compute; reflexivity).
  destruct (client_receives c ser _ clock id false false b ser' cclock HL Hcs Hok I Hclk Hid Hsend)
    as [pk [de1 [de3 [c0 [pre [Hof [Hsid [Hts [[E1 [E2 [E3 [E4 [E5 E6]]]]] [Hd0 [Hs0 [Hpre [Hq [Hack [HL2 Hrun]]]]]]]]]]]]]]].
  assert (Hm : ch_message (cupd_de c0 de1) pk cclock = (cupd_de c0 de1, COk [CEvent (CUnhandleableStatus (str "NetStream.Play.Reset"))])).
  { unfold ch_message. rewrite Hof. unfold play_reset, onstatus. cbv iota.
    rewrite ch_command_status. unfold ch_status, status_object. cbn [prop_get].
    change (bytes_eqb (str "code") (str "level")) with false. change (bytes_eqb (str "code") (str "code")) with true. cbv iota.
    change (bytes_eqb (str "NetStream.Play.Reset") (str "NetStream.Play.Start")) with false.
    change (bytes_eqb (str "NetStream.Play.Reset") (str "NetStream.Publish.Start")) with false. cbv iota. reflexivity. }
  rewrite Hm in Hrun. cbv iota beta in Hrun.
  eexists. eexists. split; [exact Hrun|].
  cbn [cl_state cl_stream cl_trs cl_app cl_cfg cl_next_tr cl_de cl_ser cupd_de].
  split; [rewrite cevents_pre by exact Hpre; reflexivity|].
  split; [exact E4|]. split; [exact E6|]. split; [exact E5|]. split; [exact E1|]. split; [exact HL2|]. split; [exact Hs0|]. split; [exact Hack|].
  intros Hquiet. destruct (Hq Hquiet) as [-> Hser0]. split; [reflexivity|exact Hser0].
Qed.

Theorem play_start_delivered ser ser' b c key id clock cclock :
  Link ser (cl_de c) -> ser_ok (cl_ser c) -> utf8_valid key = true -> id < 4294967296 -> clock < 4294967296 ->
  send_message ser (play_start key) clock id false false = Ok (b, ser') ->
  cl_state c = PlayRequested ->
  exists c2 r, client_handle_input c b cclock = (c2, COk r) /\
  cevents r = [CPlaybackAccepted] /\ cl_state c2 = Playing /\ cl_stream c2 = cl_stream c /\ cl_app c2 = cl_app c /\
  cl_cfg c2 = cl_cfg c /\ Link ser' (cl_de c2) /\ ser_ok (cl_ser c2) /\ cl_ack c2 = fst (ack_step (cl_ack c) (lenN b)) /\
  (quiet (cl_ack c) b -> r = [CEvent CPlaybackAccepted] /\ cl_ser c2 = cl_ser c).
Proof.
  intros HL Hcs Hkey Hid Hclk Hsend Hst.
  assert (Hok : msg_ok (play_start key)).
  { apply status_ok; [vm_compute; reflexivity|]. rewrite utf8_ascii_app by (vm_compute; reflexivity). exact Hkey. }
  destruct (client_receives c ser _ clock id false false b ser' cclock HL Hcs Hok I Hclk Hid Hsend)
    as [pk [de1 [de3 [c0 [pre [Hof [Hsid [Hts [[E1 [E2 [E3 [E4 [E5 E6]]]]] [Hd0 [Hs0 [Hpre [Hq [Hack [HL2 Hrun]]]]]]]]]]]]]]].
  assert (Hm : ch_message (cupd_de c0 de1) pk cclock = (cupd_state (cupd_de c0 de1) Playing, COk [CEvent CPlaybackAccepted])).
  { unfold ch_message. rewrite Hof. unfold play_start, onstatus. cbv iota.
    rewrite ch_command_status. unfold ch_status, status_object. cbn [prop_get].
    change (bytes_eqb (str "code") (str "level")) with false. change (bytes_eqb (str "code") (str "code")) with true. cbv iota.
    change (bytes_eqb (str "NetStream.Play.Start") (str "NetStream.Play.Start")) with true. cbv iota.
    cbn [cl_state cupd_de]. rewrite E4, Hst. reflexivity. }
  rewrite Hm in Hrun. cbv iota beta in Hrun.
  eexists. eexists. split; [exact Hrun|].
  cbn [cl_state cl_stream cl_trs cl_app cl_cfg cl_next_tr cl_de cl_ser cupd_de cupd_state].
  split; [rewrite cevents_pre by exact Hpre; reflexivity|].
  split; [reflexivity|]. split; [exact E6|]. split; [exact E5|]. split; [exact E1|]. split; [exact HL2|]. split; [exact Hs0|]. split; [exact Hack|].
  intros Hquiet. destruct (Hq Hquiet) as [-> Hser0]. split; [reflexivity|exact Hser0].
Qed.

(* data messages that are not metadata leave the client as it is *)
Theorem data_ignored ser ser' b c m id clock cclock :
  m = sample_access \/ m = data_start ->
  Link ser (cl_de c) -> ser_ok (cl_ser c) -> id < 4294967296 -> clock < 4294967296 ->
  send_message ser m clock id false false = Ok (b, ser') ->
  exists c2 r, client_handle_input c b cclock = (c2, COk r) /\
  cevents r = [] /\ cl_state c2 = cl_state c /\ cl_stream c2 = cl_stream c /\ cl_app c2 = cl_app c /\
  cl_cfg c2 = cl_cfg c /\ Link ser' (cl_de c2) /\ ser_ok (cl_ser c2) /\ cl_ack c2 = fst (ack_step (cl_ack c) (lenN b)) /\
  (quiet (cl_ack c) b -> r = [] /\ cl_ser c2 = cl_ser c).
Proof.
  intros Hm HL Hcs Hid Hclk Hsend.
  assert (Hok : msg_ok m).
  { destruct Hm as [-> | ->]; cbn [msg_ok sample_access data_start wf_values wf_value]; repeat split; try reflexivity.
    repeat (constructor; [cbn [In]; intros Hx; repeat (destruct Hx as [Hx|Hx]; [vm_compute in Hx; discriminate Hx|]); exact Hx|]). constructor. }
  assert (Hpl : plain m) by (destruct Hm as [-> | ->]; exact I).
  destruct (client_receives c ser _ clock id false false b ser' cclock HL Hcs Hok Hpl Hclk Hid Hsend)
    as [pk [de1 [de3 [c0 [pre [Hof [Hsid [Hts [[E1 [E2 [E3 [E4 [E5 E6]]]]] [Hd0 [Hs0 [Hpre [Hq [Hack [HL2 Hrun]]]]]]]]]]]]]]].
  assert (Hmm : ch_message (cupd_de c0 de1) pk cclock = (cupd_de c0 de1, COk [])).
  { unfold ch_message. rewrite Hof.
    destruct Hm as [-> | ->]; unfold ch_data, sample_access, data_start; cbv iota; destruct (cl_stream (cupd_de c0 de1)) as [a|]; try reflexivity;
      destruct (a =? m_sid pk); reflexivity. }
  rewrite Hmm in Hrun. cbv iota beta in Hrun. rewrite app_nil_r in Hrun.
  eexists. eexists. split; [exact Hrun|].
  cbn [cl_state cl_stream cl_trs cl_app cl_cfg cl_next_tr cl_de cl_ser cupd_de].
  split; [exact Hpre|]. split; [exact E4|]. split; [exact E6|]. split; [exact E5|]. split; [exact E1|]. split; [exact HL2|]. split; [exact Hs0|]. split; [exact Hack|]. exact Hq.
Qed.

(* ================================================================ the publish workflow, composed *)
(* Every call of the exchange succeeds and raises exactly the events listed; where no acknowledgement falls due in a receiving call
   (quiet; C17 decides exactly when one does - then one extra Acknowledgement packet precedes the results, and the stage theorems
   above still give the same events and states) the results are exactly the packets and events listed, and the exchange ends with
   the client Publishing on the stream the server created and registered under the application and the key: the state
   C02_publish_sequence starts from. *)
Theorem publish_completes c s app key t k1 k2 k3 k4 k5 k6 k7 :
  Link (cl_ser c) (sv_de s) -> Link (sv_ser s) (cl_de c) -> ser_ok (cl_ser c) -> ser_ok (sv_ser s) ->
  cl_state c = Connected -> cl_next_tr c < 4294967296 -> sv_next_stream s < 4294967296 ->
  sv_connected s = true -> sv_app s = Some app -> utf8_valid key = true -> lenN key <= 65000 ->
  k1 < 4294967296 -> k2 < 4294967296 -> k3 < 4294967296 -> k5 < 4294967296 ->
  exists c1 b1 s1 r2,
    client_request_publishing c key t k1 = (c1, COk [CPacket b1 false]) /\
    server_handle_input s b1 k2 = (s1, ROk r2) /\ events r2 = [] /\
  (quiet (sv_ack s) b1 ->
  exists b2 c2 r3, r2 = [SPacket b2 false] /\
    client_handle_input c1 b2 k3 = (c2, COk r3) /\ cevents r3 = [] /\
  (quiet (cl_ack c1) b2 ->
  exists b3 s2 r4, r3 = [CPacket b3 false] /\
    server_handle_input s1 b3 k4 = (s2, ROk r4) /\ events r4 = [EvPublishRequested (sv_next_req s) app key (mode_of_type t)] /\
  (quiet (sv_ack s1) b3 ->
  r4 = [SEvent (EvPublishRequested (sv_next_req s) app key (mode_of_type t))] /\
  exists s3 b4 b5, server_accept s2 (sv_next_req s) k5 = (s3, ROk [SPacket b4 false; SPacket b5 false]) /\
  exists c3 r6, client_handle_input c2 b4 k6 = (c3, COk r6) /\ cevents r6 = [] /\
  (quiet (cl_ack c2) b4 -> r6 = [] /\
  exists c4 r7, client_handle_input c3 b5 k7 = (c4, COk r7) /\ cevents r7 = [CPublishAccepted] /\
  (quiet (cl_ack c3) b5 -> r7 = [CEvent CPublishAccepted] /\
  publishing_stream c4 = Ok (sv_next_stream s) /\ publishing_key s3 (sv_next_stream s) = Some (app, key) /\
  Link (cl_ser c4) (sv_de s3) /\ Link (sv_ser s3) (cl_de c4) /\ ser_ok (cl_ser c4) /\ ser_ok (sv_ser s3) /\ sv_connected s3 = true))))).
Proof.
  intros HL1 HL2 Hcs Hss Hst Htr Hid Hconn Happ Hkey Hkl K1 K2 K3 K5.
  destruct (create_stream_delivered c s (PurposePublish key t) k1 k2 HL1 Hcs Hss Hst Htr K1)
    as [c1 [b1 [s1 [r2 [Hreq [C1 [C2 [C3 [C4 [C5 [C6 [C7 [C8 [Csend [Hin1 [Ev1 [S1 [S2 [S3 [S4 [S5 [S6 [S7 [S8 [Sack Hq]]]]]]]]]]]]]]]]]]]]]]]]].
  exists c1, b1, s1, r2. split; [exact Hreq|]. split; [exact Hin1|]. split; [exact Ev1|]. intros Hq1.
  destruct (Hq Hq1) as [b2 [-> Hsend2]].
  destruct (create_result_publish (sv_ser s) (sv_ser s1) b2 c1 (cl_next_tr c) (sv_next_stream s) key t k2 k3
              ltac:(rewrite C3; exact HL2) C8 Htr Hid K2 ltac:(lia) Hsend2 C2) as [c2 [r3 [Hin2 [Ev2 [D1 [D2 [D3 [D4 [D5 [D6 [D7 [Dack Hq']]]]]]]]]]]].
  exists b2, c2, r3. split; [reflexivity|]. split; [exact Hin2|]. split; [exact Ev2|]. intros Hq2.
  destruct (Hq' Hq2) as [b3 [-> Hsend3]].
  destruct (publish_request_delivered (cl_ser c1) (cl_ser c2) b3 s1 key t (sv_next_stream s) app k3 k4 S7 S8 Hkey Hid K3 Hsend3
              ltac:(rewrite S4; exact Hconn) ltac:(rewrite S1; exact Happ)) as [s2 [r4 [Hin3 [Ev3 [F1 [F2 [F3 [F4 [F5 [F6 [Fack Hq'']]]]]]]]]]].
  rewrite S3 in Ev3, F1.
  exists b3, s2, r4. split; [reflexivity|]. split; [exact Hin3|]. split; [exact Ev3|]. intros Hq3.
  destruct (Hq'' Hq3) as [-> Hser2]. rewrite S3. split; [reflexivity|].
  destruct (publish_accepted s2 (sv_next_req s) key (mode_of_type t) (sv_next_stream s) StCreated k5 F6 Hkl F1
              ltac:(rewrite F2, S5; apply ChunkSpecProofs.lookup_insert_same))
    as [s3 [b4 [b5 [serm [Hacc [G1 [G2 [G3 [G4 [G5 [G6 [G7 [Hsend4 Hsend5]]]]]]]]]]]]].
  exists s3, b4, b5. split; [exact Hacc|].
  rewrite Hser2 in Hsend4.
  destruct (stream_begin_ignored (sv_ser s1) serm b4 c2 (sv_next_stream s) k5 k6 D6 D7 Hid K5 Hsend4)
    as [c3 [r6 [Hin4 [Ev4 [H1 [H2 [H3 [H4 [H5 [H6 [H7 [H8 [Hack5 Hq5]]]]]]]]]]]]].
  exists c3, r6. split; [exact Hin4|]. split; [exact Ev4|]. intros Hq4.
  destruct (Hq5 Hq4) as [-> Hser3]. split; [reflexivity|].
  destruct (publish_start_delivered serm (sv_ser s3) b5 c3 key (sv_next_stream s) k5 k7 H7 H8 Hkey Hid K5 Hsend5 ltac:(rewrite H1; exact D1))
    as [c4 [r7 [Hin5 [Ev5 [I1 [I2 [I3 [I4 [I5 [I6 [Iack Hq7]]]]]]]]]]].
  exists c4, r7. split; [exact Hin5|]. split; [exact Ev5|]. intros Hq6.
  destruct (Hq7 Hq6) as [-> Hser4]. split; [reflexivity|].
  split; [unfold publishing_stream; rewrite I1, I2, H2, D2; reflexivity|].
  split; [unfold publishing_key; rewrite G3, F3, S1, Happ, G1; reflexivity|].
  split; [rewrite Hser4, Hser3, G5; exact F5|]. split; [exact I5|]. split; [exact I6|]. split; [exact G7|rewrite G4; exact F4].
Qed.

(* ================================================================ the play workflow, composed (same reading) *)
Theorem play_completes c s app key k1 k2 k3 k4 k5 k6 t1 t2 t3 t4 t5 :
  Link (cl_ser c) (sv_de s) -> Link (sv_ser s) (cl_de c) -> ser_ok (cl_ser c) -> ser_ok (sv_ser s) ->
  cl_state c = Connected -> cl_next_tr c < 4294967296 -> sv_next_stream s < 4294967296 -> cc_buffer (cl_cfg c) < 4294967296 ->
  sv_connected s = true -> sv_app s = Some app -> utf8_valid key = true -> lenN key <= 65000 ->
  k1 < 4294967296 -> k2 < 4294967296 -> k3 < 4294967296 -> k6 < 4294967296 ->
  exists c1 b1 s1 r2,
    client_request_playback c key k1 = (c1, COk [CPacket b1 false]) /\
    server_handle_input s b1 k2 = (s1, ROk r2) /\ events r2 = [] /\
  (quiet (sv_ack s) b1 ->
  exists b2 c2 r3, r2 = [SPacket b2 false] /\
    client_handle_input c1 b2 k3 = (c2, COk r3) /\ cevents r3 = [] /\
  (quiet (cl_ack c1) b2 ->
  exists b3 b4 s2 r4, r3 = [CPacket b3 false; CPacket b4 false] /\
    server_handle_input s1 b3 k4 = (s2, ROk r4) /\ events r4 = [] /\
  (quiet (sv_ack s1) b3 -> r4 = [] /\
  exists s3 r5, server_handle_input s2 b4 k5 = (s3, ROk r5) /\
    events r5 = [EvPlayRequested (sv_next_req s) app key LiveOrRecorded None false (sv_next_stream s)] /\
  (quiet (sv_ack s2) b4 ->
  r5 = [SEvent (EvPlayRequested (sv_next_req s) app key LiveOrRecorded None false (sv_next_stream s))] /\
  exists s4 p1 p2 p3 p4 p5,
    server_accept s3 (sv_next_req s) k6 = (s4, ROk [SPacket p1 false; SPacket p2 false; SPacket p3 false; SPacket p4 false; SPacket p5 false]) /\
  exists c3 q1, client_handle_input c2 p1 t1 = (c3, COk q1) /\ cevents q1 = [CUnhandleableStatus (str "NetStream.Play.Reset")] /\
  (quiet (cl_ack c2) p1 -> q1 = [CEvent (CUnhandleableStatus (str "NetStream.Play.Reset"))] /\
  exists c4 q2, client_handle_input c3 p2 t2 = (c4, COk q2) /\ cevents q2 = [] /\
  (quiet (cl_ack c3) p2 -> q2 = [] /\
  exists c5 q3, client_handle_input c4 p3 t3 = (c5, COk q3) /\ cevents q3 = [CPlaybackAccepted] /\
  (quiet (cl_ack c4) p3 -> q3 = [CEvent CPlaybackAccepted] /\
  exists c6 q4, client_handle_input c5 p4 t4 = (c6, COk q4) /\ cevents q4 = [] /\
  (quiet (cl_ack c5) p4 -> q4 = [] /\
  exists c7 q5, client_handle_input c6 p5 t5 = (c7, COk q5) /\ cevents q5 = [] /\
  (quiet (cl_ack c6) p5 -> q5 = [] /\
  cl_state c7 = Playing /\ playing_on c7 (sv_next_stream s) /\
  lookup (sv_next_stream s) (sv_streams s4) = Some (StPlaying key) /\ sv_app s4 = Some app /\ sv_connected s4 = true /\
  Link (cl_ser c7) (sv_de s4) /\ Link (sv_ser s4) (cl_de c7) /\ ser_ok (cl_ser c7) /\ ser_ok (sv_ser s4)))))))))).
Proof.
  intros HL1 HL2 Hcs Hss Hst Htr Hid Hbuf Hconn Happ Hkey Hkl K1 K2 K3 K6.
  unfold client_request_playback.
  destruct (create_stream_delivered c s (PurposePlay key) k1 k2 HL1 Hcs Hss Hst Htr K1)
    as [c1 [b1 [s1 [r2 [Hreq [C1 [C2 [C3 [C4 [C5 [C6 [C7 [C8 [Csend [Hin1 [Ev1 [S1 [S2 [S3 [S4 [S5 [S6 [S7 [S8 [Sack Hq]]]]]]]]]]]]]]]]]]]]]]]]].
  exists c1, b1, s1, r2. split; [exact Hreq|]. split; [exact Hin1|]. split; [exact Ev1|]. intros Hq1.
  destruct (Hq Hq1) as [b2 [-> Hsend2]].
  destruct (create_result_play (sv_ser s) (sv_ser s1) b2 c1 (cl_next_tr c) (sv_next_stream s) key k2 k3
              ltac:(rewrite C3; exact HL2) C8 Htr Hid K2 ltac:(lia) Hsend2 C2) as [c2 [r3 [Hin2 [Ev2 [D1 [D2 [D3 [D4 [D5 [D6 [D7 [Dack Hq']]]]]]]]]]]].
  exists b2, c2, r3. split; [reflexivity|]. split; [exact Hin2|]. split; [exact Ev2|]. intros Hq2.
  destruct (Hq' Hq2) as [b3 [b4 [serm [-> [Hsend3 Hsend4]]]]].
  destruct (buffer_length_ignored (cl_ser c1) serm b3 s1 (sv_next_stream s) (cc_buffer (cl_cfg c1)) k3 k4 S7 S8 Hid
              ltac:(rewrite C4; exact Hbuf) K3 Hsend3) as [s2 [r4 [Hin3 [Ev3 [[B1 [B2 [B3 [B4 [B5 [B6 [B7 B8]]]]]]] [B9 [B10 [Back Hqb]]]]]]]].
  exists b3, b4, s2, r4. split; [reflexivity|]. split; [exact Hin3|]. split; [exact Ev3|]. intros Hq3.
  destruct (Hqb Hq3) as [-> Hser2]. split; [reflexivity|].
  destruct (play_request_delivered serm (cl_ser c2) b4 s2 key (sv_next_stream s) app k3 k5 B9 B10 Hkey Hid K3 Hsend4
              ltac:(rewrite B4, S4; exact Hconn) ltac:(rewrite B1, S1; exact Happ)) as [s3 [r5 [Hin4 [Ev4 [F1 [F2 [F3 [F4 [F5 [F6 [Fack Hq'']]]]]]]]]]].
  rewrite B3, S3 in Ev4, F1.
  exists s3, r5. split; [exact Hin4|]. split; [exact Ev4|]. intros Hq4.
  destruct (Hq'' Hq4) as [-> Hser3]. rewrite B3, S3. split; [reflexivity|].
  destruct (play_accepted s3 (sv_next_req s) key (sv_next_stream s) StCreated k6 F6 Hkl F1
              ltac:(rewrite F2, B5, S5; apply ChunkSpecProofs.lookup_insert_same))
    as [s4 [p1 [p2 [p3 [p4 [p5 [e1 [e2 [e3 [e4 [Hacc [G1 [G2 [G3 [G4 [G5 [G6 [G7 [N1 [N2 [N3 [N4 N5]]]]]]]]]]]]]]]]]]]]]].
  exists s4, p1, p2, p3, p4, p5. split; [exact Hacc|].
  rewrite Hser3, Hser2 in N1.
  destruct (play_reset_delivered (sv_ser s1) e1 p1 c2 (sv_next_stream s) k6 t1 D6 D7 Hid K6 N1) as [c3 [q1 [X1 [V1 [H1 [H2 [H3 [H4 [H5 [H6 [Hack5 Hq5]]]]]]]]]]].
  exists c3, q1. split; [exact X1|]. split; [exact V1|]. intros Q1. destruct (Hq5 Q1) as [-> Hc3]. split; [reflexivity|].
  destruct (stream_begin_ignored e1 e2 p2 c3 (sv_next_stream s) k6 t2 H5 H6 Hid K6 N2) as [c4 [q2 [X2 [V2 [I1 [I2 [I3 [I4 [I5 [I6 [I7 [I8 [Iack Hq6]]]]]]]]]]]]].
  exists c4, q2. split; [exact X2|]. split; [exact V2|]. intros Q2. destruct (Hq6 Q2) as [-> Hc4]. split; [reflexivity|].
  destruct (play_start_delivered e2 e3 p3 c4 key (sv_next_stream s) k6 t3 I7 I8 Hkey Hid K6 N3 ltac:(rewrite I1, H1; exact D1))
    as [c5 [q3 [X3 [V3 [J1 [J2 [J3 [J4 [J5 [J6 [Jack Hq7]]]]]]]]]]].
  exists c5, q3. split; [exact X3|]. split; [exact V3|]. intros Q3. destruct (Hq7 Q3) as [-> Hc5]. split; [reflexivity|].
  destruct (data_ignored e3 e4 p4 c5 sample_access (sv_next_stream s) k6 t4 (or_introl eq_refl) J5 J6 Hid K6 N4) as [c6 [q4 [X4 [V4 [L1 [L2 [L3 [L4 [L5 [L6 [Lack Hq8]]]]]]]]]]].
  exists c6, q4. split; [exact X4|]. split; [exact V4|]. intros Q4. destruct (Hq8 Q4) as [-> Hc6]. split; [reflexivity|].
  destruct (data_ignored e4 (sv_ser s4) p5 c6 data_start (sv_next_stream s) k6 t5 (or_intror eq_refl) L5 L6 Hid K6 N5) as [c7 [q5 [X5 [V5 [M1 [M2 [M3 [M4 [M5 [M6 [Mack Hq9]]]]]]]]]]].
  exists c7, q5. split; [exact X5|]. split; [exact V5|]. intros Q5. destruct (Hq9 Q5) as [-> Hc7]. split; [reflexivity|].
  assert (Est : cl_state c7 = Playing) by (rewrite M1, L1; exact J1).
  assert (Estr : cl_stream c7 = Some (sv_next_stream s)) by (rewrite M2, L2, J2, I2, H2; exact D2).
  split; [exact Est|]. split; [split; [right; exact Est|exact Estr]|].
  split; [exact G1|]. split; [rewrite G3, F3, B1, S1; exact Happ|]. split; [rewrite G4; exact F4|].
  split; [rewrite Hc7, Hc6, Hc5, Hc4, Hc3, G5; exact F5|]. split; [exact M5|]. split; [exact M6|exact G7].
Qed.

(* ================================================================ stopping the activity raises the matching finished event *)
Lemma stop_delivered c s sid app st clock sclock :
  Link (cl_ser c) (sv_de s) -> ser_ok (cl_ser c) -> ser_ok (sv_ser s) -> cl_stream c = Some sid -> sid < 4294967296 -> clock < 4294967296 ->
  sv_connected s = true -> sv_app s = Some app -> lookup sid (sv_streams s) = Some st ->
  exists c1 b s1 r2, stop c clock = (c1, COk [CPacket b false]) /\ cl_state c1 = Connected /\ cl_stream c1 = None /\ cl_de c1 = cl_de c /\ ser_ok (cl_ser c1) /\
    server_handle_input s b sclock = (s1, ROk r2) /\
    events r2 = events (finished_event app st) /\ lookup sid (sv_streams s1) = None /\ sv_app s1 = sv_app s /\ sv_connected s1 = true /\
    Link (cl_ser c1) (sv_de s1) /\ ser_ok (sv_ser s1) /\
    (quiet (sv_ack s) b -> r2 = finished_event app st /\ sv_ser s1 = sv_ser s).
Proof.
  intros HL Hcs Hss Hstr Hsid Hclk Hconn Happ Hst.
  unfold stop. rewrite Hstr. cbv zeta. fold (delete_cmd sid).
  unfold cone_packet, csending. cbn [cl_ser cupd_stream cupd_state].
  destruct (send_fits (cl_ser c) (delete_cmd sid) clock sid false false Hcs (delete_cmd_fits sid)) as [b [ser' [Esend Hser']]]. rewrite Esend.
  assert (Hok : msg_ok (delete_cmd sid)).
  { cbn [msg_ok delete_cmd wf_values wf_value]. repeat split; try reflexivity. apply u32_to_f64_bound; exact Hsid. }
  destruct (server_receives s (cl_ser c) _ clock sid false false b ser' sclock HL Hss Hok I Hclk Hsid Esend)
    as [pk [de1 [de3 [s0 [pre [Hof [Hpsid [Hts [Hc0 [Hd0 [Hs0 [Hpre [Hq [Hack [HL2 Hrun]]]]]]]]]]]]]]].
  destruct Hc0 as [A1 [A2 [A3 [A4 [A5 [A6 [A7 A8]]]]]]].
  assert (Hm : h_message (upd_de s0 de1) pk sclock =
               (upd_streams (upd_de s0 de1) (remove sid (sv_streams s0)) (sv_next_stream s0), ROk (finished_event app st))).
  { unfold h_message. rewrite Hof. unfold delete_cmd. cbv iota.
    rewrite h_command_delete. unfold h_close_or_delete. cbn [sv_connected sv_app sv_streams upd_de].
    rewrite A4, Hconn, A1, Happ. cbn [negb]. cbv iota. rewrite (u32_roundtrip sid Hsid), A5, Hst. reflexivity. }
  rewrite Hm in Hrun. cbv iota beta in Hrun.
  eexists. exists b. eexists. eexists. split; [reflexivity|]. repeat (split; [reflexivity|]). split; [exact Hser'|]. split; [exact Hrun|].
  cbn [sv_streams sv_app sv_connected sv_de sv_ser upd_de upd_streams cl_ser cupd_ser].
  split; [rewrite events_pre by exact Hpre; reflexivity|].
  split; [apply ChunkSpecProofs.lookup_remove_same|]. split; [exact A1|]. split; [rewrite A4; exact Hconn|].
  split; [exact HL2|]. split; [exact Hs0|].
  intros Hquiet. destruct (Hq Hquiet) as [-> Hser0]. split; [reflexivity|exact Hser0].
Qed.

Theorem stop_publishing_raises_finished c s sid app key mode clock sclock :
  Link (cl_ser c) (sv_de s) -> ser_ok (cl_ser c) -> ser_ok (sv_ser s) ->
  cl_state c = Publishing -> cl_stream c = Some sid -> sid < 4294967296 -> clock < 4294967296 ->
  sv_connected s = true -> sv_app s = Some app -> lookup sid (sv_streams s) = Some (StPublishing key mode) ->
  exists c1 b s1 r2, client_stop_publishing c clock = (c1, COk [CPacket b false]) /\ cl_state c1 = Connected /\ cl_stream c1 = None /\
    server_handle_input s b sclock = (s1, ROk r2) /\
    events r2 = [EvPublishFinished app key] /\ lookup sid (sv_streams s1) = None /\ Link (cl_ser c1) (sv_de s1) /\
    (quiet (sv_ack s) b -> r2 = [SEvent (EvPublishFinished app key)]).
Proof.
  intros HL Hcs Hss Hst Hstr Hsid Hclk Hconn Happ Hlk. unfold client_stop_publishing. rewrite Hst.
  destruct (stop_delivered c s sid app (StPublishing key mode) clock sclock HL Hcs Hss Hstr Hsid Hclk Hconn Happ Hlk)
    as [c1 [b [s1 [r2 [E [X1 [X2 [X3 [X4 [Hin [Y1 [Y2 [Y3 [Y4 [Y5 [Y6 Hq]]]]]]]]]]]]]]]].
  exists c1, b, s1, r2. split; [exact E|]. split; [exact X1|]. split; [exact X2|]. split; [exact Hin|].
  split; [exact Y1|]. split; [exact Y2|]. split; [exact Y5|]. intros Hquiet. exact (proj1 (Hq Hquiet)).
Qed.

Theorem stop_playback_raises_finished c s sid app key clock sclock :
  Link (cl_ser c) (sv_de s) -> ser_ok (cl_ser c) -> ser_ok (sv_ser s) ->
  cl_state c = Playing -> cl_stream c = Some sid -> sid < 4294967296 -> clock < 4294967296 ->
  sv_connected s = true -> sv_app s = Some app -> lookup sid (sv_streams s) = Some (StPlaying key) ->
  exists c1 b s1 r2, client_stop_playback c clock = (c1, COk [CPacket b false]) /\ cl_state c1 = Connected /\ cl_stream c1 = None /\
    server_handle_input s b sclock = (s1, ROk r2) /\
    events r2 = [EvPlayFinished app key] /\ lookup sid (sv_streams s1) = None /\ Link (cl_ser c1) (sv_de s1) /\
    (quiet (sv_ack s) b -> r2 = [SEvent (EvPlayFinished app key)]).
Proof.
  intros HL Hcs Hss Hst Hstr Hsid Hclk Hconn Happ Hlk. unfold client_stop_playback. rewrite Hst.
  destruct (stop_delivered c s sid app (StPlaying key) clock sclock HL Hcs Hss Hstr Hsid Hclk Hconn Happ Hlk)
    as [c1 [b [s1 [r2 [E [X1 [X2 [X3 [X4 [Hin [Y1 [Y2 [Y3 [Y4 [Y5 [Y6 Hq]]]]]]]]]]]]]]]].
  exists c1, b, s1, r2. split; [exact E|]. split; [exact X1|]. split; [exact X2|]. split; [exact Hin|].
  split; [exact Y1|]. split; [exact Y2|]. split; [exact Y5|]. intros Hquiet. exact (proj1 (Hq Hquiet)).
Qed.

(* ================================================================ the premises are satisfiable: a computed run *)
(* A connected pair with linked chunk layers: each call of the publish exchange succeeds and no acknowledgement falls due. *)
Definition ex_client : client :=
  {| cl_ser := ser_init; cl_de := de_init;
     cl_cfg := {| cc_flash := str "v"; cc_buffer := 1000; cc_window := 2500000; cc_chunk := 4096; cc_tcurl := None |};
     cl_next_tr := 2; cl_trs := []; cl_state := Connected; cl_app := Some (str "live"); cl_stream := None;
     cl_ack := {| ack_window := Some 2500000; ack_since := 0 |} |}.
Definition ex_server : server :=
  {| sv_ser := ser_init; sv_de := de_init; sv_app := Some (str "live"); sv_reqs := []; sv_next_req := 1; sv_connected := true;
     sv_fms := str "FMS/3,0,1,123"; sv_objenc := 0; sv_streams := []; sv_next_stream := 1;
     sv_ack := {| ack_window := Some 2500000; ack_since := 0 |} |}.

Definition the_cpacket (r : cresult) : bytes := match r with CPacket b _ => b | _ => [] end.
Definition the_spacket (r : sresult) : bytes := match r with SPacket b _ => b | _ => [] end.

Example publish_premises_satisfiable :
  Link (cl_ser ex_client) (sv_de ex_server) /\ Link (sv_ser ex_server) (cl_de ex_client) /\
  exists c1 b1 s1 b2 c2 b3 s2 ev s3 b4 b5 c3 c4,
    client_request_publishing ex_client (str "key") TLive 10 = (c1, COk [CPacket b1 false]) /\
    server_handle_input ex_server b1 11 = (s1, ROk [SPacket b2 false]) /\ quiet (sv_ack ex_server) b1 /\
    client_handle_input c1 b2 12 = (c2, COk [CPacket b3 false]) /\ quiet (cl_ack c1) b2 /\
    server_handle_input s1 b3 13 = (s2, ROk [SEvent ev]) /\ quiet (sv_ack s1) b3 /\
    ev = EvPublishRequested 1 (str "live") (str "key") PLive /\
    server_accept s2 1 14 = (s3, ROk [SPacket b4 false; SPacket b5 false]) /\
    client_handle_input c2 b4 15 = (c3, COk []) /\ quiet (cl_ack c2) b4 /\
    client_handle_input c3 b5 16 = (c4, COk [CEvent CPublishAccepted]) /\ quiet (cl_ack c3) b5 /\
    publishing_stream c4 = Ok 1 /\ publishing_key s3 1 = Some (str "live", str "key").
Proof.
  split; [exact Link_init|]. split; [exact Link_init|].
  pose (x1 := client_request_publishing ex_client (str "key") TLive 10).
  pose (b1 := match snd x1 with COk [r] => the_cpacket r | _ => [] end).
  pose (y1 := server_handle_input ex_server b1 11).
  pose (b2 := match snd y1 with ROk [r] => the_spacket r | _ => [] end).
  pose (x2 := client_handle_input (fst x1) b2 12).
  pose (b3 := match snd x2 with COk [r] => the_cpacket r | _ => [] end).
  pose (y2 := server_handle_input (fst y1) b3 13).
  pose (y3 := server_accept (fst y2) 1 14).
  pose (b4 := match snd y3 with ROk [r; _] => the_spacket r | _ => [] end).
  pose (b5 := match snd y3 with ROk [_; r] => the_spacket r | _ => [] end).
  pose (x3 := client_handle_input (fst x2) b4 15).
  pose (x4 := client_handle_input (fst x3) b5 16).
  exists (fst x1), b1, (fst y1), b2, (fst x2), b3, (fst y2), (EvPublishRequested 1 (str "live") (str "key") PLive), (fst y3), b4, b5, (fst x3), (fst x4).
  vm_compute. repeat split.
Qed.

Example play_premises_satisfiable :
  exists c1 b1 s1 b2 c2 b3 b4 s2 s3 s4 p1 p2 p3 p4 p5 c3 c4 c5 c6 c7,
    client_request_playback ex_client (str "key") 10 = (c1, COk [CPacket b1 false]) /\
    server_handle_input ex_server b1 11 = (s1, ROk [SPacket b2 false]) /\ quiet (sv_ack ex_server) b1 /\
    client_handle_input c1 b2 12 = (c2, COk [CPacket b3 false; CPacket b4 false]) /\ quiet (cl_ack c1) b2 /\
    server_handle_input s1 b3 13 = (s2, ROk []) /\ quiet (sv_ack s1) b3 /\
    server_handle_input s2 b4 14 = (s3, ROk [SEvent (EvPlayRequested 1 (str "live") (str "key") LiveOrRecorded None false 1)]) /\ quiet (sv_ack s2) b4 /\
    server_accept s3 1 15 = (s4, ROk [SPacket p1 false; SPacket p2 false; SPacket p3 false; SPacket p4 false; SPacket p5 false]) /\
    client_handle_input c2 p1 16 = (c3, COk [CEvent (CUnhandleableStatus (str "NetStream.Play.Reset"))]) /\ quiet (cl_ack c2) p1 /\
    client_handle_input c3 p2 17 = (c4, COk []) /\ quiet (cl_ack c3) p2 /\
    client_handle_input c4 p3 18 = (c5, COk [CEvent CPlaybackAccepted]) /\ quiet (cl_ack c4) p3 /\
    client_handle_input c5 p4 19 = (c6, COk []) /\ quiet (cl_ack c5) p4 /\
    client_handle_input c6 p5 20 = (c7, COk []) /\ quiet (cl_ack c6) p5 /\
    cl_state c7 = Playing /\ cl_stream c7 = Some 1 /\ lookup 1 (sv_streams s4) = Some (StPlaying (str "key")).
Proof.
  pose (x1 := client_request_playback ex_client (str "key") 10).
  pose (b1 := match snd x1 with COk [r] => the_cpacket r | _ => [] end).
  pose (y1 := server_handle_input ex_server b1 11).
  pose (b2 := match snd y1 with ROk [r] => the_spacket r | _ => [] end).
  pose (x2 := client_handle_input (fst x1) b2 12).
  pose (b3 := match snd x2 with COk [r; _] => the_cpacket r | _ => [] end).
  pose (b4 := match snd x2 with COk [_; r] => the_cpacket r | _ => [] end).
  pose (y2 := server_handle_input (fst y1) b3 13).
  pose (y3 := server_handle_input (fst y2) b4 14).
  pose (y4 := server_accept (fst y3) 1 15).
  pose (pk := fun n => match snd y4 with ROk rs => the_spacket (nth n rs (SPacket [] false)) | _ => [] end).
  pose (x3 := client_handle_input (fst x2) (pk 0%nat) 16).
  pose (x4 := client_handle_input (fst x3) (pk 1%nat) 17).
  pose (x5 := client_handle_input (fst x4) (pk 2%nat) 18).
  pose (x6 := client_handle_input (fst x5) (pk 3%nat) 19).
  pose (x7 := client_handle_input (fst x6) (pk 4%nat) 20).
  exists (fst x1), b1, (fst y1), b2, (fst x2), b3, b4, (fst y2), (fst y3), (fst y4), (pk 0%nat), (pk 1%nat), (pk 2%nat), (pk 3%nat), (pk 4%nat),
    (fst x3), (fst x4), (fst x5), (fst x6), (fst x7).
  vm_compute. repeat split.
Qed.

