(* The serializer's output is bounded by its input: every chunk adds at most 16 header bytes and carries at least one payload
   byte (chunk size >= 1), so a packet is at most 17 * payload + 16 bytes.  (C19: bounded memory; C03: allocation follows input.) *)
From Coq Require Import ZArith Lia ZifyN ZifyBool ZifyNat.
From RML Require Import Model.Base Model.Chunk Model.ChunkSer Spec.ChunkSpec Proofs.ChunkSerProofs Proofs.ConfigProofs.
Local Open Scope N_scope.

Lemma lenN_app' {A} (a b : list A) : lenN (a ++ b) = lenN a + lenN b.
Proof. unfold lenN. rewrite app_length. lia. Qed.

Lemma emit_chunk_size c : c_form c = 1 -> lenN (emit_chunk c) <= 16 + lenN (c_payload c).
Proof.
  intros Hf. unfold emit_chunk, basic_header_bytes. rewrite Hf. change (1 =? 1) with true. cbv iota zeta.
  rewrite !lenN_app'.
  match goal with |- lenN ?h + (lenN ?a + (lenN ?e + _)) <= _ => change (lenN h) with 1;
    assert (H1 : lenN e <= 4) by (destruct (16777215 <=? c_field c); vm_compute; discriminate);
    assert (H2 : lenN a <= 11) by (destruct (c_fmt c =? 0); [vm_compute; discriminate|]; destruct (c_fmt c =? 1); [vm_compute; discriminate|];
                                   destruct (c_fmt c =? 2); vm_compute; discriminate);
    revert H1 H2; generalize (lenN e); generalize (lenN a)
  end.
  generalize (lenN (c_payload c)). intros P A B H1 H2. lia.
Qed.

Lemma add_chunk_size st force m cont data drop b st' :
  add_chunk st force m cont data drop = Ok (b, st') -> lenN b <= 16 + lenN data /\ s_max st' = s_max st.
Proof.
  rewrite add_chunk_emit. cbv zeta. destruct (decide_header st force m cont drop) as [f h]. intros E. injection E as <- <-.
  split; [|reflexivity]. apply (emit_chunk_size (chunk_of f (get_csid_for_message_type (m_tid m)) h data)). reflexivity.
Qed.

Lemma add_chunks_size sl : forall st force m idx drop bs st',
  add_chunks st force m idx sl drop = Ok (bs, st') -> lenN (concat bs) <= 16 * lenN sl + lenN (concat sl).
Proof.
  induction sl as [|s r IH]; intros st force m idx drop bs st' H; cbn [add_chunks] in H.
  - injection H as <- <-. cbn. lia.
  - destruct (add_chunk st force m (0 <? idx) s drop) as [[b st1]|e|x|] eqn:E1; cbn [obind] in H; try discriminate H.
    destruct (add_chunks st1 force m (idx + 1) r drop) as [[bs1 st2]|e|x|] eqn:E2; cbn [obind] in H; try discriminate H.
    injection H as <- <-. destruct (add_chunk_size _ _ _ _ _ _ _ _ E1) as [Hb _]. specialize (IH _ _ _ _ _ _ _ E2).
    cbn [concat]. rewrite !lenN_app'. unfold lenN in *. cbn [length]. lia.
Qed.

Lemma slices_count max : 1 <= max -> forall fuel data sl, slices fuel max data = Some sl -> concat sl = data /\ lenN sl <= lenN data.
Proof.
  intros Hm. induction fuel as [|f IH]; intros data sl H.
  - destruct data; cbn [slices] in H; [injection H as <-; split; [reflexivity|cbn; lia]|discriminate H].
  - destruct data as [|x l]; cbn [slices] in H; [injection H as <-; split; [reflexivity|cbn; lia]|].
    destruct (split_at max (x :: l)) as [a b] eqn:S. destruct (slices f max b) as [r|] eqn:R; [|discriminate H]. injection H as <-.
    destruct (split_at_spec _ _ _ _ S) as [E L]. destruct (IH b r R) as [Ec Hl].
    split; [cbn [concat]; rewrite Ec; symmetry; exact E|].
    assert (Hxl : lenN (x :: l) = lenN a + lenN b) by (rewrite E; apply lenN_app').
    unfold lenN in *. cbn [length] in *. lia.
Qed.

Theorem serialize_size st m force drop b st' :
  1 <= s_max st -> serialize st m force drop = Ok (b, st') -> lenN b <= 17 * lenN (m_data m) + 16.
Proof.
  intros Hm. unfold serialize. destruct (16777215 <? lenN (m_data m)); [discriminate|].
  destruct (slices (length (m_data m)) (s_max st) (m_data m)) as [sl|] eqn:S; [|discriminate].
  destruct (slices_count (s_max st) Hm _ _ _ S) as [Ec Hl]. cbv zeta.
  set (sl' := match sl with [] => [[]] | _ :: _ => sl end).
  destruct (add_chunks st force m 0 sl' drop) as [[bs st1]|e|x|] eqn:E; cbn [obind]; try discriminate.
  intros H. injection H as <- <-. pose proof (add_chunks_size sl' _ _ _ _ _ _ _ E) as Hb.
  assert (Hs : lenN sl' <= lenN (m_data m) + 1 /\ lenN (concat sl') = lenN (m_data m)).
  { unfold sl'. destruct sl as [|s r]; [cbn [concat] in Ec; rewrite <- Ec; split; [vm_compute; discriminate|reflexivity]|]. unfold bytes in *. split; [lia|rewrite Ec; reflexivity]. }
  unfold bytes in *.
  lia.
Qed.

Theorem set_max_chunk_size_size st n ts b st' :
  1 <= s_max st -> set_max_chunk_size st n ts = Ok (b, st') -> lenN b <= 84.
Proof.
  intros Hm. unfold set_max_chunk_size. destruct ((n =? 0) || (2147483647 <? n)); [discriminate|].
  destruct (serialize st _ true false) as [[b1 st1]|e|x|] eqn:E; cbn [obind]; try discriminate.
  intros H. injection H as <- <-. pose proof (serialize_size _ _ _ _ _ _ Hm E) as Hb. cbn [m_data] in Hb. change (lenN (be32 n)) with 4 in Hb. lia.
Qed.
