(* C03 (allocation follows the input), model level: what the chunk deserializer stores - its input buffer plus the partial payloads
   of all chunk streams - never exceeds what it was fed minus what it has delivered.  Header bytes are dropped as they are parsed,
   payload bytes move from the buffer to the partial payload of their chunk stream and leave with the completed message. *)
From Coq Require Import ZArith Lia ZifyN ZifyBool ZifyNat List.
From RML Require Import Model.Base Model.Chunk Model.ChunkDe Proofs.Amf0Proofs.
Import ListNotations.
Local Open Scope nat_scope.

Fixpoint sumlen (m : list (N * bytes)) : nat :=
  match m with [] => 0 | (_, p) :: r => length p + sumlen r end.

Definition stored (st : dstate) : nat := length (d_buf st) + sumlen (d_partial st).

Definition looklen (k : N) (m : list (N * bytes)) : nat := match lookup k m with Some p => length p | None => 0 end.

Lemma sumlen_remove k m : sumlen (remove k m) + looklen k m <= sumlen m.
Proof.
  unfold looklen. induction m as [|[k' p] r IH]; [cbn; lia|]. cbn [remove lookup sumlen].
  destruct (N.eqb k k'); [|cbn [sumlen]; lia].
  (* the first binding of k is dropped; the remaining ones can only shrink the sum further *)
  assert (H : sumlen (remove k r) <= sumlen r) by (clear IH; induction r as [|[k2 p2] r2 IH2]; [cbn; lia|]; cbn [remove sumlen]; destruct (N.eqb k k2); cbn [sumlen]; lia).
  lia.
Qed.

Lemma drop_n_length n l : length (drop_n n l) <= length l.
Proof.
  revert n. induction l as [|x l IH]; intros n.
  - cbn [drop_n]. destruct (N.eqb n 0); cbn; lia.
  - cbn [drop_n]. destruct (N.eqb n 0); [lia|]. specialize (IH (n - 1)%N). cbn [length]. lia.
Qed.

Lemma take_n_len l n a b : take_n l n = Some (a, b) -> length l = length a + length b.
Proof. intros H. destruct (take_n_length l n a b H) as [-> _]. apply app_length. Qed.

Definition outlen (om : option msg) : nat := match om with Some m => length (m_data m) | None => 0 end.

Lemma stored_set_stage st s : stored (set_stage st s) = stored st. Proof. reflexivity. Qed.

Lemma run_stage_memory st r st' om : run_stage st = Ok (r, st', om) -> stored st' + outlen om <= stored st.
Proof.
  unfold run_stage. destruct (d_stage st).
  - (* header *) unfold form_header. destruct (d_buf st) as [|b0 rest] eqn:Eb; [intros H; injection H; intros; subst; cbn [outlen]; lia|].
    destruct (get_csid (b0 :: rest)) as [[csid next]|]; [|intros H; injection H; intros; subst; cbn [outlen]; lia].
    cbn [d_fmt set_fmt]. destruct (get_format b0).
    + intros H; injection H; intros; subst. unfold stored. cbn [d_buf d_partial set_stage set_buf set_cur set_fmt outlen]. rewrite Eb.
      pose proof (drop_n_length next (b0 :: rest)) as Hd. cbn [drop_n] in Hd. lia.
    + cbn [d_prev set_fmt]. destruct (lookup csid (d_prev st)); [|discriminate]. intros H; injection H; intros; subst. unfold stored.
      cbn [d_buf d_partial set_stage set_buf set_cur set_fmt set_prev outlen]. rewrite Eb. pose proof (drop_n_length next (b0 :: rest)) as Hd. cbn [drop_n] in Hd. lia.
    + cbn [d_prev set_fmt]. destruct (lookup csid (d_prev st)); [|discriminate]. intros H; injection H; intros; subst. unfold stored.
      cbn [d_buf d_partial set_stage set_buf set_cur set_fmt set_prev outlen]. rewrite Eb. pose proof (drop_n_length next (b0 :: rest)) as Hd. cbn [drop_n] in Hd. lia.
    + cbn [d_prev set_fmt]. destruct (lookup csid (d_prev st)); [|discriminate]. intros H; injection H; intros; subst. unfold stored.
      cbn [d_buf d_partial set_stage set_buf set_cur set_fmt set_prev outlen]. rewrite Eb. pose proof (drop_n_length next (b0 :: rest)) as Hd. cbn [drop_n] in Hd. lia.
  - unfold get_initial_timestamp. destruct (d_fmt st); try (destruct (take_n (d_buf st) 3) as [[b rest]|] eqn:Et);
      intros H; injection H; intros; subst; unfold stored; cbn [d_buf d_partial set_stage set_buf set_cur outlen];
      try (pose proof (take_n_len _ _ _ _ Et)); lia.
  - unfold get_message_length. destruct (d_fmt st); try (destruct (take_n (d_buf st) 3) as [[b rest]|] eqn:Et);
      intros H; injection H; intros; subst; unfold stored; cbn [d_buf d_partial set_stage set_buf set_cur outlen];
      try (pose proof (take_n_len _ _ _ _ Et)); lia.
  - unfold get_message_type_id. destruct (d_fmt st); try (destruct (d_buf st) as [|b rest] eqn:Eb);
      intros H; injection H; intros; subst; unfold stored; cbn [d_buf d_partial set_stage set_buf set_cur outlen]; rewrite ?Eb; cbn [length]; lia.
  - unfold get_message_stream_id. destruct (d_fmt st); try (destruct (take_n (d_buf st) 4) as [[b rest]|] eqn:Et);
      intros H; injection H; intros; subst; unfold stored; cbn [d_buf d_partial set_stage set_buf set_cur outlen];
      try (pose proof (take_n_len _ _ _ _ Et)); lia.
  - unfold get_extended_timestamp. destruct (N.ltb (d_field (d_cur st)) Gen.Consts.DE_MAX_INITIAL_TIMESTAMP).
    + intros H; injection H; intros; subst. unfold stored. cbn [d_buf d_partial set_stage outlen]. lia.
    + destruct (take_n (d_buf st) 4) as [[b rest]|] eqn:Et; intros H; injection H; intros; subst; unfold stored;
        cbn [d_buf d_partial set_stage set_buf set_cur outlen]; try (pose proof (take_n_len _ _ _ _ Et)); lia.
  - (* payload *) unfold get_message_data. cbv zeta. destruct (N.ltb (d_len (d_cur st)) (partial_len st)); [discriminate|].
    destruct (take_n (d_buf st) _) as [[b rest]|] eqn:Et; [|intros H; injection H; intros; subst; cbn [outlen]; lia].
    pose proof (take_n_len _ _ _ _ Et) as Hl. pose proof (sumlen_remove (d_csid (d_cur st)) (d_partial st)) as Hr. unfold looklen in Hr.
    intros H. injection H; intros; subst. clear H. unfold stored. cbn [d_buf d_partial].
    destruct (lookup (d_csid (d_cur st)) (d_partial st)) as [old|] eqn:El.
    + destruct (N.eqb (lenN (old ++ b)) (d_len (d_cur st))); cbn [outlen m_data sumlen insert]; rewrite ?app_length. all: unfold bytes in *; lia.
    + destruct (N.eqb (lenN ([] ++ b)) (d_len (d_cur st))); cbn [outlen m_data sumlen insert List.app]; rewrite ?app_length; cbn [length]. all: unfold bytes in *; lia.
Qed.

Lemma stage_loop_memory fuel : forall st st' r, stage_loop fuel st = (st', r) ->
  stored st' + match r with DMsg m => length (m_data m) | _ => 0 end <= stored st.
Proof.
  induction fuel as [|f IH]; intros st st' r H; cbn [stage_loop] in H.
  - injection H; intros; subst. lia.
  - destruct (run_stage st) as [[[res st1] om]|e|x|] eqn:E; try (injection H; intros; subst; lia).
    pose proof (run_stage_memory _ _ _ _ E) as Hm.
    destruct om as [m|]; [injection H; intros; subst; cbn [outlen] in Hm; lia|]. cbn [outlen] in Hm.
    destruct res; [|injection H; intros; subst; lia]. specialize (IH _ _ _ H). lia.
Qed.

(* one call: what is stored afterwards, plus the payload delivered by the call, is at most what was stored plus the input *)
Theorem get_next_message_memory st input st' r : get_next_message st input = (st', r) ->
  stored st' + match r with DMsg m => length (m_data m) | _ => 0 end <= stored st + length input.
Proof.
  unfold get_next_message. cbv zeta. intros H. pose proof (stage_loop_memory _ _ _ _ H) as Hm.
  unfold stored in *. cbn [d_buf d_partial set_buf] in Hm. rewrite app_length in Hm. lia.
Qed.

Theorem stored_init : stored de_init = 0.
Proof. reflexivity. Qed.

(* ---------------------------------------------------------------- over a whole history of calls *)
Fixpoint paylen (ms : list msg) : nat := match ms with [] => 0 | m :: r => length (m_data m) + paylen r end.
Lemma paylen_app a b : paylen (a ++ b) = paylen a + paylen b.
Proof. induction a as [|m a IH]; [reflexivity|]. cbn [List.app paylen]. lia. Qed.

Lemma driver_apply_stored st m st' : driver_apply st m = Ok st' -> stored st' = stored st.
Proof.
  unfold driver_apply. destruct (N.eqb (m_tid m) 1); [|intros H; injection H as <-; reflexivity].
  destruct (take_n (m_data m) 4) as [[b r]|]; [|discriminate]. unfold de_set_max_chunk_size.
  destruct (_ || _)%bool; [discriminate|]. intros H. injection H as <-. reflexivity.
Qed.

Lemma drain_memory fuel : forall st acc st' ms r, drain fuel st acc = (st', ms, r) -> stored st' + paylen ms <= stored st + paylen acc.
Proof.
  induction fuel as [|f IH]; intros st acc st' ms r H; cbn [drain] in H.
  - injection H; intros; subst. lia.
  - destruct (get_next_message st []) as [st1 res] eqn:G. pose proof (get_next_message_memory _ _ _ _ G) as Hm. cbn [length] in Hm.
    destruct res as [m| |e|]; try (injection H; intros; subst; lia).
    destruct (driver_apply st1 m) as [st2|e|x|] eqn:D.
    + specialize (IH _ _ _ _ _ H). rewrite paylen_app in IH. cbn [paylen] in IH. rewrite (driver_apply_stored _ _ _ D) in IH. lia.
    + injection H; intros; subst. rewrite paylen_app. cbn [paylen]. lia.
    + injection H; intros; subst. rewrite paylen_app. cbn [paylen]. lia.
    + injection H; intros; subst. rewrite paylen_app. cbn [paylen]. lia.
Qed.

(* the documented driving loop over any sequence of input pieces, from any state: stored bytes plus delivered payload bytes never
   exceed what was stored before plus the bytes fed - whether the run completes or stops at an error *)
Theorem feed_all_memory pieces : forall st acc st' ms r, feed_all st pieces acc = (st', ms, r) ->
  stored st' + paylen ms <= stored st + paylen acc + length (concat pieces).
Proof.
  induction pieces as [|p rest IH]; intros st acc st' ms r H; cbn [feed_all] in H.
  - injection H; intros; subst. cbn. lia.
  - destruct (feed st p acc) as [[st1 ms1] r1] eqn:F. unfold feed in F. pose proof (drain_memory _ _ _ _ _ _ F) as Hd.
    assert (Hs : stored (set_buf st (d_buf st ++ p)) = stored st + length p) by (unfold stored; cbn [d_buf d_partial set_buf]; rewrite app_length; lia).
    cbn [concat]. rewrite app_length.
    destruct r1 as [e|]; [injection H; intros; subst; lia|]. specialize (IH _ _ _ _ _ H). lia.
Qed.

Corollary history_memory pieces st' ms r : feed_all de_init pieces [] = (st', ms, r) ->
  stored st' + paylen ms <= length (concat pieces).
Proof. intros H. pose proof (feed_all_memory _ _ _ _ _ _ H) as Hm. cbn [paylen] in Hm. rewrite stored_init in Hm. lia. Qed.
