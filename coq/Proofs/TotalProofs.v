(* C03: entry points that take network input return a value or an error. *)
From Coq Require Import ZArith Lia ZifyN ZifyBool ZifyNat.
From RML Require Import Model.Base Model.Time Model.Amf0 Model.Chunk Model.ChunkDe Model.Messages Model.Handshake
  Proofs.BaseProofs Proofs.Amf0Total.
Local Open Scope N_scope.

Definition is_value_or_error {A E} (o : outcome A E) : Prop := match o with Ok _ | Err _ => True | Panic _ | OutOfFuel => False end.

(* message decoder: all 256 type ids (and beyond), arbitrary bodies *)
Theorem of_payload_total tid data : is_value_or_error (of_payload tid data).
Proof.
  assert (HA : forall d (f : list value -> outcome rtmp_message msg_de_err), (forall vs, is_value_or_error (f vs)) ->
              is_value_or_error (match Amf0.deserialize d with Err e => Err (DeAmf0 e) | Panic s => Panic s | OutOfFuel => OutOfFuel | Ok vs => f vs end)).
  { intros d f Hf. pose proof (deserialize_total d) as H. destruct (Amf0.deserialize d); try contradiction; [apply Hf|exact I]. }
  unfold of_payload.
  destruct (tid =? 1). { destruct (read_u32 data) as [[n r]|]; [destruct (_ <? n)|]; exact I. }
  destruct (tid =? 2). { unfold de_u32. destruct (read_u32 data) as [[n r]|]; exact I. }
  destruct (tid =? 3). { unfold de_u32. destruct (read_u32 data) as [[n r]|]; exact I. }
  destruct (tid =? 4).
  { unfold de_user_control. destruct (read_u16 data) as [[c r]|]; [|exact I]. destruct (uc_of_code c) as [ev|]; [|exact I].
    destruct (read_u32 r) as [[a r2]|]; [|exact I]. destruct ev; try exact I. destruct (read_u32 r2) as [[b r3]|]; exact I. }
  destruct (tid =? 5). { unfold de_u32. destruct (read_u32 data) as [[n r]|]; exact I. }
  destruct (tid =? 6).
  { destruct (read_u32 data) as [[n r]|]; [|exact I]. destruct r as [|c r']; [exact I|].
    destruct (c =? _); [exact I|]. destruct (c =? _); [exact I|]. destruct (c =? _); exact I. }
  destruct (tid =? 8); [exact I|]. destruct (tid =? 9); [exact I|].
  destruct (tid =? 18). { unfold de_amf0_data. apply HA. intros; exact I. }
  destruct (tid =? 20). { unfold de_amf0_command. apply HA. intros vs. destruct vs as [|[] [|[] [|obj args]]]; exact I. }
  destruct (tid =? 15). { unfold de_amf0_data. apply HA. intros; exact I. }
  destruct (tid =? 17).
  { assert (Hc : forall d, is_value_or_error (de_amf0_command d)).
    { intros d. unfold de_amf0_command. apply HA. intros vs. destruct vs as [|[] [|[] [|obj args]]]; exact I. }
    destruct data as [|[|p] r]; apply Hc. }
  exact I.
Qed.

(* chunk deserializer: every parse stage returns a value or an error in every state *)
Theorem run_stage_total st : is_value_or_error (run_stage st).
Proof.
  unfold run_stage. destruct (d_stage st).
  - unfold form_header. destruct (d_buf st) as [|b0 r]; [exact I|]. destruct (get_csid (b0 :: r)) as [[csid next]|]; [|exact I].
    destruct (d_fmt (set_fmt st (get_format b0))); try exact I; destruct (lookup csid _); exact I.
  - unfold get_initial_timestamp. destruct (d_fmt st); try exact I; destruct (take_n (d_buf st) 3) as [[b r]|]; exact I.
  - unfold get_message_length. destruct (d_fmt st); try exact I; destruct (take_n (d_buf st) 3) as [[b r]|]; exact I.
  - unfold get_message_type_id. destruct (d_fmt st); try exact I; destruct (d_buf st); exact I.
  - unfold get_message_stream_id. destruct (d_fmt st); try exact I. destruct (take_n (d_buf st) 4) as [[b r]|]; exact I.
  - unfold get_extended_timestamp. destruct (_ <? _); [exact I|]. destruct (take_n (d_buf st) 4) as [[b r]|]; exact I.
  - unfold get_message_data. destruct (_ <? _); [exact I|]. destruct (take_n (d_buf st) _) as [[b r]|]; exact I.
Qed.

(* handshake: a step never fails other than by one of the two declared errors (no panic sites in the model: the digest
   offsets are always inside the packet - C11_offset_range) *)
Theorem hs_step_total hmac h : match snd (hs_step hmac h) with SProgress _ | SDone _ | SFail _ => True end.
Proof. destruct (snd (hs_step hmac h)); exact I. Qed.
