(* C18 for the client session: the packets a successful client call returns are, in order, exactly the outputs of the serializer
   operations performed by that call; hence (T1) everything a client returned in a history of successful calls, with any subset of
   droppable packets withheld, is read by the specification decoder as the messages sent.  Same development as SessionTrace.v. *)
From Coq Require Import ZArith Lia ZifyN ZifyBool ZifyNat String.
From RML Require Import Model.Base Model.Time Model.Chunk Model.ChunkSer Model.ChunkDe Model.Amf0 Model.Messages Model.Float Model.SessionCommon
  Model.Server Model.Client Gen.Consts Spec.ChunkSpec Proofs.BaseProofs Proofs.ChunkSerProofs Proofs.ConfigProofs
  Proofs.InteropProofs Proofs.SessionFrame Proofs.SessionTrace.
Ltac Zify.zify_post_hook ::= Z.div_mod_to_equations.
Local Open Scope N_scope.

Fixpoint cpkts (rs : list cresult) : list (bytes * bool) :=
  match rs with
  | [] => []
  | CPacket b d :: r => (b, d) :: cpkts r
  | _ :: r => cpkts r
  end.

Lemma cpkts_app a b : cpkts (a ++ b) = cpkts a ++ cpkts b.
Proof. induction a as [|x a IH]; [reflexivity|]. destruct x; cbn [app cpkts]; rewrite IH; reflexivity. Qed.

Definition cproduces (ser0 : sstate) (rs : list cresult) (ser1 : sstate) : Prop :=
  exists ops, Forall op_wf ops /\ ser_run ser0 ops = Ok (map fst (cpkts rs), ser1) /\ map op_drop ops = map snd (cpkts rs).

Lemma cproduces_nil ser : cproduces ser [] ser.
Proof. exists []. split; [constructor|split; reflexivity]. Qed.

Lemma cproduces_app ser0 a ser1 b ser2 : cproduces ser0 a ser1 -> cproduces ser1 b ser2 -> cproduces ser0 (a ++ b) ser2.
Proof.
  intros [oa [Wa [Ra Da]]] [ob [Wb [Rb Db]]]. exists (oa ++ ob). split; [apply Forall_app; split; assumption|].
  rewrite cpkts_app, !map_app. split; [apply (ser_run_app _ _ _ _ _ _ _ Ra Rb)|rewrite Da, Db; reflexivity].
Qed.

Lemma cproduces_events ser rs : cpkts rs = [] -> cproduces ser rs ser.
Proof. intros H. exists []. rewrite H. split; [constructor|split; reflexivity]. Qed.

Lemma csend_message_produces ser m ts sid f d b ser' :
  sendable m = true -> ts < 4294967296 -> sid < 4294967296 ->
  send_message ser m ts sid f d = Ok (b, ser') -> cproduces ser [CPacket b d] ser'.
Proof.
  intros Hs Hts Hsid E. destruct (send_message_produces ser m ts sid f d b ser' Hs Hts Hsid E) as [ops [W [R D]]].
  exists ops. split; [exact W|]. split; [exact R|exact D].
Qed.

Lemma cset_max_produces ser n ts b ser' : ts < 4294967296 -> ChunkSer.set_max_chunk_size ser n ts = Ok (b, ser') -> cproduces ser [CPacket b false] ser'.
Proof.
  intros Hts E. destruct (set_max_produces ser n ts b ser' Hts E) as [ops [W [R D]]]. exists ops. split; [exact W|]. split; [exact R|exact D].
Qed.

Definition ctraced (ser0 : sstate) (c : ccall) : Prop :=
  match snd c with COk rs => cproduces ser0 rs (cl_ser (fst c)) | _ => True end.

Lemma cone_packet_traced c m ts sid d :
  sendable m = true -> ts < 4294967296 -> sid < 4294967296 -> ctraced (cl_ser c) (cone_packet c m ts sid d).
Proof.
  intros Hs Hts Hsid. unfold ctraced, cone_packet, csending.
  destruct (send_message (cl_ser c) m ts sid false d) as [[b ser']|e|x|] eqn:E; cbn [snd fst]; try exact I.
  apply (csend_message_produces _ _ _ _ _ _ _ _ Hs Hts Hsid E).
Qed.

Lemma ctraced_events ser c rs : cpkts rs = [] -> cl_ser c = ser -> ctraced ser (c, COk rs).
Proof. intros H <-. unfold ctraced. cbn [snd fst]. apply cproduces_events. exact H. Qed.

(* the stream id the client holds is a u32 *)
Definition cinv (c : client) : Prop := forall sid, cl_stream c = Some sid -> sid < 4294967296.

Lemma f64_to_u32_bound b : f64_to_u32 b < 4294967296.
Proof.
  unfold f64_to_u32. destruct (f64_is_nan b); [lia|]. destruct (f64_sign b); [lia|]. destruct (f64_exp b =? 2047); [lia|].
  destruct (1055 <=? f64_exp b) eqn:E; [lia|]. unfold f64_trunc_mag.
  destruct (f64_exp b <? 1023); [lia|]. replace (f64_exp b <=? 1075) with true by lia.
  assert (Hm : f64_man b + 4503599627370496 < 9007199254740992).
  { unfold f64_man. pose proof (N.mod_upper_bound b 4503599627370496 ltac:(lia)). lia. }
  assert (Hp : 2 ^ 21 <= 2 ^ (1075 - f64_exp b)) by (apply N.pow_le_mono_r; lia). change (2 ^ 21) with 2097152 in Hp.
  apply N.div_lt_upper_bound; [lia|]. nia.
Qed.

Lemma cpkts_single_event e : cpkts [CEvent e] = [].
Proof. reflexivity. Qed.

Section ClientTraced.
  Variables (c : client) (clock : N).
  Hypothesis Hclock : clock < 4294967296.
  Hypothesis Hinv : cinv c.

  Definition cres_ok (cl : ccall) : Prop := ctraced (cl_ser c) cl /\ cinv (fst cl).

  Lemma ckeep_ok (c' : client) rs : cpkts rs = [] -> cl_ser c' = cl_ser c -> cl_stream c' = cl_stream c -> cres_ok (c', COk rs).
  Proof. intros H1 H2 H3. split; [apply ctraced_events; assumption|]. unfold cinv in *. cbn [fst]. rewrite H3. exact Hinv. Qed.
  Lemma cerr_ok (c' : client) e : cl_stream c' = cl_stream c -> cres_ok (c', CErr e).
  Proof. intros H3. split; [exact I|]. unfold cinv in *. cbn [fst]. rewrite H3. exact Hinv. Qed.

  Lemma cone_ok (c' : client) m ts sid d : sendable m = true -> ts < 4294967296 -> sid < 4294967296 ->
    cl_ser c' = cl_ser c -> cinv c' -> cres_ok (cone_packet c' m ts sid d).
  Proof.
    intros Hs Hts Hsid He Hi. split; [rewrite <- He; apply cone_packet_traced; assumption|].
    unfold cone_packet, csending. destruct (send_message _ _ _ _ _ _) as [[b ser']|e|x|]; exact Hi.
  Qed.

  Lemma ch_media_ok v sid d ts : cres_ok (ch_media v c sid d ts).
  Proof.
    unfold ch_media. destruct (cl_state c); try (apply cerr_ok; reflexivity);
      (destruct (cl_stream c) as [a|] eqn:E; [destruct (a =? sid)|]; apply ckeep_ok; try reflexivity).
  Qed.
  Lemma ch_data_ok vs sid : cres_ok (ch_data c vs sid).
  Proof.
    unfold ch_data. destruct vs as [|first rest]; [apply ckeep_ok; reflexivity|].
    destruct (cl_stream c) as [a|] eqn:E; [|apply ckeep_ok; reflexivity]. destruct (a =? sid); [|apply ckeep_ok; reflexivity].
    destruct first; try (apply ckeep_ok; reflexivity). destruct (bytes_eqb _ _); [|apply ckeep_ok; reflexivity].
    destruct rest as [|r0 rr]; [apply ckeep_ok; reflexivity|]. destruct r0; apply ckeep_ok; reflexivity.
  Qed.
  Lemma ch_error_ok tr obj args : cres_ok (ch_error c tr obj args).
  Proof.
    unfold ch_error, take_transaction. destruct (lookup _ _) as [t|]; [|apply ckeep_ok; reflexivity].
    destruct t; [apply ckeep_ok; reflexivity|apply cerr_ok; reflexivity].
  Qed.
  Lemma ch_status_ok args : cres_ok (ch_status c args).
  Proof.
    unfold ch_status. destruct args as [|a r]; [apply cerr_ok; reflexivity|]. destruct a; try (apply cerr_ok; reflexivity).
    destruct (prop_get _ _) as [v|]; [|apply cerr_ok; reflexivity]. destruct v; try (apply cerr_ok; reflexivity).
    destruct (bytes_eqb _ _); [destruct (cl_state c); first [apply ckeep_ok; reflexivity|apply cerr_ok; reflexivity]|].
    destruct (bytes_eqb _ _); [destruct (cl_state c); first [apply ckeep_ok; reflexivity|apply cerr_ok; reflexivity]|apply ckeep_ok; reflexivity].
  Qed.

  Lemma ch_result_ok tr obj args : cres_ok (ch_result c tr obj args clock).
  Proof.
    unfold ch_result, take_transaction. cbv zeta.
    destruct (lookup _ _) as [t|]; [|apply ckeep_ok; reflexivity]. destruct t as [app|p].
    - (* connect accepted: window acknowledgement size, then the chunk size announced in-band *)
      set (c2 := cupd_app _ _). unfold csending.
      destruct (send_message (cl_ser c2) (MWindowAcknowledgement (cc_window (cl_cfg c))) clock 0 false false) as [[b1 ser1]|e|x|] eqn:E1;
        [|apply cerr_ok; reflexivity|split; [exact I|exact Hinv]|split; [exact I|exact Hinv]].
      pose proof E1 as P1. apply csend_message_produces in P1; [|reflexivity|exact Hclock|lia].
      change (cl_ser (cupd_ser c2 ser1)) with ser1.
      destruct (ChunkSer.set_max_chunk_size ser1 (cc_chunk (cl_cfg c)) 0) as [[b2 ser2]|e|x|] eqn:E2;
        [|apply cerr_ok; reflexivity|split; [exact I|exact Hinv]|split; [exact I|exact Hinv]].
      pose proof (cset_max_produces ser1 _ 0 b2 ser2 ltac:(lia) E2) as P2.
      split; [|exact Hinv]. unfold ctraced. cbn [snd fst cl_ser cupd_ser].
      change [CPacket b1 false; CEvent CConnectionAccepted; CPacket b2 false] with ([CPacket b1 false] ++ [CEvent CConnectionAccepted; CPacket b2 false]).
      apply (cproduces_app _ _ _ _ _ P1).
      destruct P2 as [ops [W [R D]]]. exists ops. split; [exact W|]. split; [exact R|exact D].
    - destruct args as [|a r]; [apply cerr_ok; reflexivity|]. destruct a as [x| | | | | |]; try (apply cerr_ok; reflexivity).
      assert (Hsid : f64_to_u32 x < 4294967296) by apply f64_to_u32_bound.
      assert (Hi2 : forall c0 : client, cl_stream c0 = Some (f64_to_u32 x) -> cinv c0).
      { intros c0 E sid Es. rewrite E in Es. injection Es as <-. exact Hsid. }
      destruct p as [key|key t].
      + set (c3 := cupd_state _ PlayRequested). unfold csending.
        destruct (send_message (cl_ser c3) _ clock 0 false false) as [[b1 ser1]|e|x0|] eqn:E1;
          [|split; [exact I|apply Hi2; reflexivity]|split; [exact I|apply Hi2; reflexivity]|split; [exact I|apply Hi2; reflexivity]].
        pose proof E1 as P1. apply csend_message_produces in P1; [|reflexivity|exact Hclock|lia].
        change (cl_ser (cupd_ser c3 ser1)) with ser1.
        destruct (send_message ser1 _ clock (f64_to_u32 x) false false) as [[b2 ser2]|e|x0|] eqn:E2;
          [|split; [exact I|apply Hi2; reflexivity]|split; [exact I|apply Hi2; reflexivity]|split; [exact I|apply Hi2; reflexivity]].
        pose proof E2 as P2. apply csend_message_produces in P2; [|reflexivity|exact Hclock|exact Hsid].
        split; [|apply Hi2; reflexivity]. unfold ctraced. cbn [snd fst cl_ser cupd_ser].
        apply (cproduces_app _ [CPacket b1 false] _ [CPacket b2 false] _ P1 P2).
      + apply cone_ok; [reflexivity|exact Hclock|exact Hsid|reflexivity|apply Hi2; reflexivity].
  Qed.

  Lemma if_cres (b : bool) (x y : ccall) : cres_ok x -> cres_ok y -> cres_ok (if b then x else y).
  Proof. destruct b; auto. Qed.

  Lemma ch_command_ok name tr obj args : cres_ok (ch_command c name tr obj args clock).
  Proof.
    unfold ch_command. apply if_cres; [apply ch_result_ok|]. apply if_cres; [apply ch_error_ok|]. apply if_cres; [apply ch_status_ok|apply ckeep_ok; reflexivity].
  Qed.

  Lemma ch_message_ok p : cres_ok (ch_message c p clock).
  Proof.
    unfold ch_message. destruct (of_payload (m_tid p) (m_data p)) as [m|e|x|]; [|apply cerr_ok; reflexivity|split; [exact I|exact Hinv]|split; [exact I|exact Hinv]].
    destruct m as [t d|n|n|name tr obj args|vs|d|n|n lt|ev sid bl ts|d|n]; try (apply ckeep_ok; reflexivity).
    - apply ch_command_ok.
    - apply ch_data_ok.
    - apply ch_media_ok.
    - destruct (de_set_max_chunk_size (cl_de c) n); [apply ckeep_ok; reflexivity|apply cerr_ok; reflexivity|split; [exact I|exact Hinv]|split; [exact I|exact Hinv]].
    - destruct ev; try (apply ckeep_ok; reflexivity). apply cone_ok; [reflexivity|exact Hclock|lia|reflexivity|exact Hinv].
    - apply ch_media_ok.
  Qed.
End ClientTraced.

Lemma ch_loop_traced clock fuel : forall c input acc ser0,
  clock < 4294967296 -> cinv c -> cproduces ser0 acc (cl_ser c) ->
  match ch_loop fuel c input clock acc with
  | (c', COk rs) => cproduces ser0 rs (cl_ser c') /\ cinv c'
  | _ => True
  end.
Proof.
  induction fuel as [|f IH]; intros c input acc ser0 Hc Hi Hp; cbn [ch_loop]; [exact I|].
  destruct (get_next_message (cl_de c) input) as [d res]. destruct res as [p| |e|]; [| |exact I|exact I].
  - assert (Hi' : cinv (cupd_de c d)) by exact Hi.
    pose proof (ch_message_ok (cupd_de c d) clock Hc Hi' p) as [Ht Hv].
    destruct (ch_message (cupd_de c d) p clock) as [c1 r]. unfold ctraced in Ht. cbn [fst snd] in *.
    destruct r as [rs|e|]; [|exact I|exact I].
    apply (IH c1 [] (acc ++ rs) ser0 Hc Hv). apply (cproduces_app ser0 acc _ rs _ Hp Ht).
  - split; [exact Hp|exact Hi].
Qed.

Theorem client_handle_input_traced c input clock : clock < 4294967296 -> cinv c -> ser_ok (cl_ser c) ->
  match client_handle_input c input clock with
  | (c', COk rs) => cproduces (cl_ser c) rs (cl_ser c') /\ cinv c'
  | _ => True
  end.
Proof.
  intros Hc Hi Hs. unfold client_handle_input.
  destruct (ack_step (cl_ack c) (lenN input)) as [a [n|]].
  - destruct (SessionPartition.ack_send_ok (cl_ser c) n clock Hs) as [b [ser' [E Hs']]]. rewrite E.
    apply (ch_loop_traced clock _ (cupd_ack (cupd_ser c ser') a) input [CPacket b false] (cl_ser c) Hc Hi).
    apply (csend_message_produces _ (MAcknowledgement n) clock 0 false false b ser' eq_refl Hc ltac:(lia) E).
  - apply (ch_loop_traced clock _ (cupd_ack c a) input [] (cl_ser c) Hc Hi). apply cproduces_nil.
Qed.

Definition cop_ok (op : cop) : Prop :=
  match op with
  | CopInput _ k | CopConnect _ k | CopPlay _ k | CopPublish _ _ k | CopStopPlay k | CopStopPublish k | CopPing k | CopMetadata _ k => k < 4294967296
  | CopMedia _ _ ts _ => ts < 4294967296
  end.

Lemma cres_to_goal c (cl : ccall) : cres_ok c cl ->
  match cl with (c', COk rs) => cproduces (cl_ser c) rs (cl_ser c') /\ cinv c' | _ => True end.
Proof. intros [Ht Hv]. destruct cl as [c' r]. unfold ctraced in Ht. cbn [fst snd] in *. destruct r; try exact I. split; assumption. Qed.

Theorem client_step_traced c op : cop_ok op -> cinv c -> ser_ok (cl_ser c) ->
  match client_step c op with
  | (c', COk rs) => cproduces (cl_ser c) rs (cl_ser c') /\ cinv c'
  | _ => True
  end.
Proof.
  intros Hop Hi Hs. destruct op as [i k|app k|key k|key t k|k|k|k|md k|v d ts drop]; cbn [client_step cop_ok] in *.
  - apply client_handle_input_traced; assumption.
  - apply cres_to_goal. unfold client_request_connection, new_transaction.
    destruct (cl_state c); try (apply (cerr_ok c Hi); reflexivity). cbv zeta.
    apply (cone_ok c); [reflexivity|exact Hop|lia|reflexivity|exact Hi].
  - apply cres_to_goal. unfold client_request_playback, create_stream_request, new_transaction.
    destruct (cl_state c); try (apply (cerr_ok c Hi); reflexivity). cbv zeta.
    apply (cone_ok c); [reflexivity|exact Hop|lia|reflexivity|exact Hi].
  - apply cres_to_goal. unfold client_request_publishing, create_stream_request, new_transaction.
    destruct (cl_state c); try (apply (cerr_ok c Hi); reflexivity). cbv zeta.
    apply (cone_ok c); [reflexivity|exact Hop|lia|reflexivity|exact Hi].
  - apply cres_to_goal. unfold client_stop_playback, stop.
    assert (Hnone : forall c0 : client, cl_stream c0 = None -> cinv c0) by (intros c0 E sid Es; rewrite E in Es; discriminate).
    destruct (cl_state c); try (apply (ckeep_ok c Hi); reflexivity); cbv zeta;
      (destruct (cl_stream c) as [sid|] eqn:Es;
       [apply (cone_ok c); [reflexivity|exact Hop|apply (Hi sid Es)|reflexivity|apply Hnone; reflexivity]
       |split; [apply ctraced_events; reflexivity|apply Hnone; exact Es]]).
  - apply cres_to_goal. unfold client_stop_publishing, stop.
    assert (Hnone : forall c0 : client, cl_stream c0 = None -> cinv c0) by (intros c0 E sid Es; rewrite E in Es; discriminate).
    destruct (cl_state c); try (apply (ckeep_ok c Hi); reflexivity); cbv zeta;
      (destruct (cl_stream c) as [sid|] eqn:Es;
       [apply (cone_ok c); [reflexivity|exact Hop|apply (Hi sid Es)|reflexivity|apply Hnone; reflexivity]
       |split; [apply ctraced_events; reflexivity|apply Hnone; exact Es]]).
  - apply cres_to_goal. unfold client_send_ping. apply (cone_ok c); [reflexivity|exact Hop|lia|reflexivity|exact Hi].
  - apply cres_to_goal. unfold client_publish_metadata, publishing_stream.
    destruct (cl_state c); try (apply (cerr_ok c Hi); reflexivity).
    destruct (cl_stream c) as [sid|] eqn:Es; [|apply (cerr_ok c Hi); reflexivity].
    apply (cone_ok c); [reflexivity|exact Hop|apply (Hi sid Es)|reflexivity|exact Hi].
  - apply cres_to_goal. unfold client_publish_media, publishing_stream.
    destruct (cl_state c); try (apply (cerr_ok c Hi); reflexivity).
    destruct (cl_stream c) as [sid|] eqn:Es; [|apply (cerr_ok c Hi); reflexivity].
    apply (cone_ok c); [destruct v; reflexivity|exact Hop|apply (Hi sid Es)|reflexivity|exact Hi].
Qed.

Fixpoint client_trace (c : client) (ops : list cop) : option (client * list cresult) :=
  match ops with
  | [] => Some (c, [])
  | op :: r =>
    match client_step c op with
    | (c', COk rs) => match client_trace c' r with Some (c2, rs2) => Some (c2, rs ++ rs2) | None => None end
    | _ => None
    end
  end.

Lemma client_trace_produced ops : forall c c' rs, Forall cop_ok ops -> cinv c -> ser_ok (cl_ser c) ->
  client_trace c ops = Some (c', rs) -> cproduces (cl_ser c) rs (cl_ser c').
Proof.
  induction ops as [|op r IH]; intros c c' rs Hok Hi Hs H; cbn [client_trace] in H.
  - injection H as <- <-. apply cproduces_nil.
  - inversion Hok as [|? ? Ho Hr]; subst.
    pose proof (client_step_traced c op Ho Hi Hs) as Ht. pose proof (client_step_good c op Hs) as [_ Hs1].
    destruct (client_step c op) as [c1 r1]. cbn [fst] in Hs1. destruct r1 as [rs1| |]; try discriminate. destruct Ht as [Hp Hi1].
    destruct (client_trace c1 r) as [[c2 rs2]|] eqn:E; [|discriminate]. injection H as <- <-.
    apply (cproduces_app _ _ _ _ _ Hp). apply (IH c1 c2 rs2 Hr Hi1 Hs1 E).
Qed.

(* C18 for the client: everything a client session returned in a history of successful calls, with any subset of the droppable
   packets withheld, is read by the specification decoder as exactly the messages of the surviving packets *)
Theorem client_history_decodable cfg ops c' rs keep :
  Forall cop_ok ops -> client_trace (client_new cfg) ops = Some (c', rs) ->
  keep_flags_ok keep (map snd (cpkts rs)) ->
  exists sent, length sent = length (cpkts rs) /\
    sdec (concat (select keep (map fst (cpkts rs)))) = SOk (select keep sent).
Proof.
  intros Hok Htr Hkeep.
  assert (Hi0 : cinv (client_new cfg)) by (intros sid E; discriminate E).
  pose proof (client_trace_produced ops (client_new cfg) c' rs Hok Hi0 (client_new_ok cfg) Htr) as [sops [Hwf [Hrun Hdrops]]].
  change (cl_ser (client_new cfg)) with ser_init in Hrun.
  exists (map op_msg sops). split.
  - rewrite map_length. rewrite <- (map_length op_drop), Hdrops, map_length. reflexivity.
  - rewrite <- Hdrops in Hkeep. pose proof (keep_flags_ops keep sops Hkeep) as Hk.
    rewrite (ser_sdec_drop sops keep _ _ Hwf Hrun Hk).
    f_equal. clear. revert keep. induction sops as [|o r IH]; intros keep; destruct keep as [|k ks]; cbn [select map]; try reflexivity.
    destruct k; cbn [map]; rewrite IH; reflexivity.
Qed.
