(* u32 -> f64 -> u32 is the identity (metadata fields travel as AMF0 numbers); casts produce 64-bit patterns *)
From Coq Require Import ZArith Lia ZifyN ZifyBool ZifyNat.
From RML Require Import Model.Base Model.Float.
Local Open Scope N_scope.

Lemma pow2_split p : p <= 52 -> 2 ^ p * 2 ^ (52 - p) = 4503599627370496.
Proof. intros H. rewrite <- N.pow_add_r. replace (p + (52 - p)) with 52 by lia. reflexivity. Qed.

Lemma u32_to_f64_parts n : 0 < n -> n < 4294967296 ->
  let p := N.log2 n in
  p <= 31 /\ 2 ^ p <= n /\ n < 2 ^ p * 2 /\
  u32_to_f64 n = (1023 + p) * 4503599627370496 + (n - 2 ^ p) * 2 ^ (52 - p) /\
  (n - 2 ^ p) * 2 ^ (52 - p) < 4503599627370496.
Proof.
  intros H0 H32 p. pose proof (N.log2_spec n H0) as [L1 L2]. fold p in L1, L2.
  rewrite N.pow_succ_r' in L2.
  assert (Hp : p <= 31).
  { destruct (N.le_gt_cases p 31) as [H|H]; [exact H|]. exfalso.
    assert (2 ^ 32 <= 2 ^ p) by (apply N.pow_le_mono_r; lia). change (2 ^ 32) with 4294967296 in *. lia. }
  split; [exact Hp|]. split; [exact L1|]. split; [lia|]. split.
  - unfold u32_to_f64. destruct (n =? 0) eqn:E; [lia|]. reflexivity.
  - rewrite <- (pow2_split p ltac:(lia)). apply N.mul_lt_mono_pos_r; [|lia].
    apply N.neq_0_lt_0. apply N.pow_nonzero. lia.
Qed.

Theorem u32_roundtrip n : n < 4294967296 -> f64_to_u32 (u32_to_f64 n) = n.
Proof.
  intros H32. destruct (N.eq_dec n 0) as [-> | Hn]; [reflexivity|].
  destruct (u32_to_f64_parts n ltac:(lia) H32) as [Hp [L1 [L2 [E Hm]]]]. cbv zeta in *.
  set (p := N.log2 n) in *. set (k := 2 ^ (52 - p)) in *. set (m := (n - 2 ^ p) * k) in *.
  assert (Hk : 2 ^ p * k = 4503599627370496) by (apply pow2_split; lia).
  assert (Hk0 : 0 < k) by (apply N.neq_0_lt_0; apply N.pow_nonzero; lia).
  assert (Hexp : f64_exp (u32_to_f64 n) = 1023 + p).
  { unfold f64_exp. rewrite E. rewrite N.div_add_l by lia. rewrite (N.div_small m) by exact Hm.
    rewrite N.add_0_r. apply N.mod_small. lia. }
  assert (Hman : f64_man (u32_to_f64 n) = m).
  { unfold f64_man. rewrite E. rewrite N.add_comm. rewrite N.mod_add by lia. apply N.mod_small. exact Hm. }
  assert (Hsign : f64_sign (u32_to_f64 n) = false).
  { unfold f64_sign. rewrite E. apply N.leb_gt. nia. }
  unfold f64_to_u32, f64_is_nan, f64_trunc_mag. rewrite Hexp, Hman, Hsign.
  replace (1023 + p =? 2047) with false by lia. cbn [andb]. cbv iota.
  replace (1055 <=? 1023 + p) with false by lia.
  replace (1023 + p <? 1023) with false by lia. replace (1023 + p <=? 1075) with true by lia.
  replace (1075 - (1023 + p)) with (52 - p) by lia. fold k.
  unfold m. rewrite <- Hk. replace ((n - 2 ^ p) * k + 2 ^ p * k) with (n * k) by nia.
  apply N.div_mul. lia.
Qed.

Lemma u32_to_f64_bound n : n < 4294967296 -> u32_to_f64 n < 18446744073709551616.
Proof.
  intros H32. destruct (N.eq_dec n 0) as [-> | Hn]; [reflexivity|].
  destruct (u32_to_f64_parts n ltac:(lia) H32) as [Hp [L1 [L2 [E Hm]]]]. cbv zeta in *. rewrite E. nia.
Qed.

Lemma f32_to_f64_bound b : b < 4294967296 -> f32_to_f64 b < 18446744073709551616.
Proof.
  intros H. unfold f32_to_f64.
  set (s := if 2147483648 <=? b then 9223372036854775808 else 0).
  assert (Hs : s <= 9223372036854775808) by (unfold s; destruct (2147483648 <=? b); lia).
  assert (He : (b / 8388608) mod 256 < 256) by (apply N.mod_upper_bound; lia).
  assert (Hm : b mod 8388608 < 8388608) by (apply N.mod_upper_bound; lia).
  set (e := (b / 8388608) mod 256) in *. set (m := b mod 8388608) in *.
  destruct (e =? 255) eqn:E1.
  - destruct (m =? 0); [lia|]. pose proof (N.mod_upper_bound (m * 536870912) 2251799813685248 ltac:(lia)). lia.
  - destruct (e =? 0) eqn:E2.
    + destruct (m =? 0) eqn:E3; [lia|].
      assert (Hm0 : 0 < m) by lia. pose proof (N.log2_spec m Hm0) as [L1 L2]. set (p := N.log2 m) in *.
      assert (Hp : p <= 22).
      { destruct (N.le_gt_cases p 22) as [Hx|Hx]; [exact Hx|]. exfalso.
        assert (2 ^ 23 <= 2 ^ p) by (apply N.pow_le_mono_r; lia). change (2 ^ 23) with 8388608 in *. lia. }
      assert (Hk : (m - 2 ^ p) * 2 ^ (52 - p) < 4503599627370496).
      { rewrite <- (pow2_split p ltac:(lia)). rewrite N.pow_succ_r' in L2. apply N.mul_lt_mono_pos_r; [|lia].
        apply N.neq_0_lt_0. apply N.pow_nonzero. lia. }
      nia.
    + nia.
Qed.
