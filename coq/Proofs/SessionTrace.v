(* C18, structural part: the packets a successful session call returns are, in order, exactly the outputs of the serializer
   operations performed by that call, each operation well-formed and carrying the returned droppable flag.  With T1 this makes
   everything a session returned - in any history of successful calls, with any subset of droppable packets removed - a
   chunk stream the specification decoder reads as the messages sent. *)
From Coq Require Import ZArith Lia ZifyN ZifyBool ZifyNat String.
From RML Require Import Model.Base Model.Time Model.Chunk Model.ChunkSer Model.ChunkDe Model.Amf0 Model.Messages Model.SessionCommon
  Model.Server Gen.Consts Spec.ChunkSpec Proofs.BaseProofs Proofs.ChunkSerProofs Proofs.ChunkDeProofs Proofs.ChunkDeFuel
  Proofs.Amf0Proofs Proofs.ConfigProofs Proofs.InteropProofs Proofs.ServerProofs Proofs.SessionFrame Proofs.SessionPartition.
Ltac Zify.zify_post_hook ::= Z.div_mod_to_equations.
Local Open Scope N_scope.

(* ---------------------------------------------------------------- decoded messages carry 32-bit stream ids when the input bytes are bytes *)
Definition bytes_ok (l : bytes) : Prop := Forall (fun b => b < 256) l.
Definition hdr_ok (h : dhdr) : Prop := d_sid h < 4294967296.
Definition de_ok (d : dstate) : Prop :=
  bytes_ok (d_buf d) /\ hdr_ok (d_cur d) /\ Forall (fun kv => hdr_ok (snd kv)) (d_prev d).

Lemma lookup_ok {A} (P : A -> Prop) k (m : list (N * A)) v : Forall (fun kv => P (snd kv)) m -> lookup k m = Some v -> P v.
Proof.
  induction m as [|[k' v'] r IH]; intros H E; [discriminate|]. cbn [lookup] in E. inversion H; subst.
  destruct (k =? k'); [injection E as <-; assumption|auto].
Qed.
Lemma remove_ok {A} (P : A -> Prop) k (m : list (N * A)) : Forall (fun kv => P (snd kv)) m -> Forall (fun kv => P (snd kv)) (remove k m).
Proof. induction m as [|[k' v'] r IH]; intros H; [constructor|]. cbn [remove]. inversion H; subst. destruct (k =? k'); [auto|constructor; auto]. Qed.
Lemma insert_ok {A} (P : A -> Prop) k v (m : list (N * A)) : P v -> Forall (fun kv => P (snd kv)) m -> Forall (fun kv => P (snd kv)) (insert k v m).
Proof. intros Hv H. unfold insert. constructor; [exact Hv|apply remove_ok; exact H]. Qed.

Lemma take_n_ok l n a r : bytes_ok l -> take_n l n = Some (a, r) -> bytes_ok a /\ bytes_ok r.
Proof.
  intros H E. destruct (take_n_length l n a r E) as [-> _]. unfold bytes_ok in *. apply Forall_app in H. exact H.
Qed.
Lemma drop_n_ok (l : bytes) : forall n, bytes_ok l -> bytes_ok (drop_n n l).
Proof.
  induction l as [|x l IH]; intros n H; cbn [drop_n]; [destruct (n =? 0); constructor|].
  destruct (n =? 0); [exact H|]. inversion H; subst. apply IH. assumption.
Qed.

Lemma of_le4_bound b : lenN b = 4 -> bytes_ok b -> of_le b < 4294967296.
Proof.
  intros Hl Hb. unfold lenN in Hl. destruct b as [|b0 [|b1 [|b2 [|b3 [|x r]]]]]; cbn [length] in Hl; try lia.
  inversion Hb as [|? ? H0 Hb1]; subst. inversion Hb1 as [|? ? H1 Hb2]; subst. inversion Hb2 as [|? ? H2 Hb3]; subst.
  inversion Hb3 as [|? ? H3 _]; subst. unfold of_le. cbn [rev app be_val]. lia.
Qed.

Lemma get_csid_next_le b c n : get_csid b = Some (c, n) -> n <= lenN b.
Proof. intros H. destruct (get_csid_ext b c n [] H) as [_ [_ [_ H2]]]. exact H2. Qed.

Ltac deok :=
  repeat match goal with
  | |- de_ok _ => unfold de_ok; cbn [d_buf d_cur d_prev d_stage d_fmt d_max d_partial set_stage set_buf set_cur set_prev set_fmt
                                     hdr_with_ts hdr_with_field hdr_with_len hdr_with_tid hdr_with_sid]
  | |- _ /\ _ => split
  | |- hdr_ok _ => unfold hdr_ok; cbn [d_sid hdr_with_ts hdr_with_field hdr_with_len hdr_with_tid hdr_with_sid]
  end.

(* every stage keeps the invariant; a completed message carries a 32-bit stream id *)
Lemma stage_ok st r st' om : de_ok st -> run_stage st = Ok (r, st', om) ->
  de_ok st' /\ (forall m, om = Some m -> m_sid m < 4294967296).
Proof.
  intros [Hb [Hc Hp]] H. unfold run_stage in H. destruct (d_stage st) eqn:Es.
  - unfold form_header in H. destruct (d_buf st) as [|b0 rr] eqn:Eb; [injection H as <- <- <-; split; [split; [rewrite Eb; exact Hb|split; assumption]|discriminate]|].
    destruct (get_csid (b0 :: rr)) as [[csid next]|] eqn:Ec; [|injection H as <- <- <-; split; [split; [rewrite Eb; exact Hb|split; assumption]|discriminate]].
    cbn [d_fmt set_fmt d_prev] in H.
    assert (Hd : bytes_ok (drop_n next (b0 :: rr))) by (apply drop_n_ok; exact Hb).
    destruct (get_format b0).
    + injection H as <- <- <-. split; [|discriminate]. deok; try assumption. cbn. lia.
    + destruct (lookup csid (d_prev st)) as [h|] eqn:El; [|discriminate]. injection H as <- <- <-. split; [|discriminate].
      deok; try assumption; [apply (lookup_ok hdr_ok _ _ _ Hp El)|apply remove_ok; exact Hp].
    + destruct (lookup csid (d_prev st)) as [h|] eqn:El; [|discriminate]. injection H as <- <- <-. split; [|discriminate].
      deok; try assumption; [apply (lookup_ok hdr_ok _ _ _ Hp El)|apply remove_ok; exact Hp].
    + destruct (lookup csid (d_prev st)) as [h|] eqn:El; [|discriminate]. injection H as <- <- <-. split; [|discriminate].
      deok; try assumption; [apply (lookup_ok hdr_ok _ _ _ Hp El)|apply remove_ok; exact Hp].
  - unfold get_initial_timestamp in H. destruct (d_fmt st);
      try (destruct (take_n (d_buf st) 3) as [[b rr]|] eqn:E;
           [destruct (take_n_ok _ _ _ _ Hb E) as [_ Hr]; injection H as <- <- <-; split; [deok; assumption|discriminate]
           |injection H as <- <- <-; split; [split; [exact Hb|split; assumption]|discriminate]]).
    injection H as <- <- <-. split; [|discriminate]. deok; try assumption. destruct (partial_len st =? 0); cbn; exact Hc.
  - unfold get_message_length in H. destruct (d_fmt st);
      try (injection H as <- <- <-; split; [deok; assumption|discriminate]);
      (destruct (take_n (d_buf st) 3) as [[b rr]|] eqn:E;
           [destruct (take_n_ok _ _ _ _ Hb E) as [_ Hr]; injection H as <- <- <-; split; [deok; assumption|discriminate]
           |injection H as <- <- <-; split; [split; [exact Hb|split; assumption]|discriminate]]).
  - unfold get_message_type_id in H. destruct (d_fmt st);
      try (injection H as <- <- <-; split; [deok; assumption|discriminate]);
      (destruct (d_buf st) as [|b rr] eqn:E;
           [injection H as <- <- <-; split; [split; [rewrite E; constructor|split; assumption]|discriminate]
           |inversion Hb; subst; injection H as <- <- <-; split; [deok; assumption|discriminate]]).
  - unfold get_message_stream_id in H. destruct (d_fmt st);
      try (injection H as <- <- <-; split; [deok; assumption|discriminate]).
    destruct (take_n (d_buf st) 4) as [[b rr]|] eqn:E.
    + destruct (take_n_ok _ _ _ _ Hb E) as [Hbb Hr]. destruct (take_n_length _ _ _ _ E) as [_ Hl].
      injection H as <- <- <-. split; [|discriminate]. deok; try assumption. apply of_le4_bound; assumption.
    + injection H as <- <- <-. split; [split; [exact Hb|split; assumption]|discriminate].
  - unfold get_extended_timestamp in H. destruct (_ <? _); [injection H as <- <- <-; split; [deok; assumption|discriminate]|].
    destruct (take_n (d_buf st) 4) as [[b rr]|] eqn:E.
    + destruct (take_n_ok _ _ _ _ Hb E) as [_ Hr]. injection H as <- <- <-. split; [|discriminate]. deok; try assumption.
      destruct (d_fmt st); try (destruct (partial_len st =? 0)); cbn; exact Hc.
    + injection H as <- <- <-. split; [split; [exact Hb|split; assumption]|discriminate].
  - unfold get_message_data in H. destruct (_ <? _); [discriminate|].
    destruct (take_n (d_buf st) _) as [[b rr]|] eqn:E.
    + destruct (take_n_ok _ _ _ _ Hb E) as [_ Hr]. injection H as <- <- <-. split.
      * deok; try assumption; [cbn; lia|apply insert_ok; assumption].
      * intros m Hm. destruct (lenN _ =? d_len (d_cur st)); [|discriminate]. injection Hm as <-. exact Hc.
    + injection H as <- <- <-. split; [split; [exact Hb|split; assumption]|discriminate].
Qed.

Lemma stage_loop_ok fuel : forall st st' res, de_ok st -> stage_loop fuel st = (st', res) ->
  de_ok st' /\ (forall m, res = DMsg m -> m_sid m < 4294967296).
Proof.
  induction fuel as [|f IH]; intros st st' res Hok H; cbn [stage_loop] in H.
  - injection H as <- <-. split; [exact Hok|discriminate].
  - destruct (run_stage st) as [[[r st1] om]|e|x|] eqn:Er; try (injection H as <- <-; split; [exact Hok|discriminate]).
    destruct (stage_ok _ _ _ _ Hok Er) as [Hok1 Hm].
    destruct om as [m|].
    + injection H as <- <-. split; [exact Hok1|]. intros m' E. injection E as <-. apply (Hm m eq_refl).
    + destruct r; [apply (IH _ _ _ Hok1 H)|injection H as <- <-; split; [exact Hok1|discriminate]].
Qed.

Lemma gnm_ok d input d' res : de_ok d -> bytes_ok input -> get_next_message d input = (d', res) ->
  de_ok d' /\ (forall m, res = DMsg m -> m_sid m < 4294967296).
Proof.
  intros [Hb [Hc Hp]] Hi H. unfold get_next_message in H. apply (stage_loop_ok _ _ _ _) in H; [exact H|].
  split; [|split; assumption]. cbn [d_buf set_buf]. unfold bytes_ok. apply Forall_app. split; assumption.
Qed.

Lemma de_set_max_ok d n d' : de_ok d -> de_set_max_chunk_size d n = Ok d' -> de_ok d'.
Proof. unfold de_set_max_chunk_size. destruct (_ || _); [discriminate|]. intros H E. injection E as <-. exact H. Qed.

Lemma de_init_ok : de_ok de_init.
Proof. split; [apply Forall_nil|split; [unfold hdr_ok; vm_compute; reflexivity|apply Forall_nil]]. Qed.

(* ---------------------------------------------------------------- traced calls *)
Fixpoint pkts (rs : list sresult) : list (bytes * bool) :=
  match rs with
  | [] => []
  | SPacket b d :: r => (b, d) :: pkts r
  | _ :: r => pkts r
  end.

Lemma pkts_app a b : pkts (a ++ b) = pkts a ++ pkts b.
Proof. induction a as [|x a IH]; [reflexivity|]. destruct x; cbn [app pkts]; rewrite IH; reflexivity. Qed.

(* from serializer state ser0, the operations ops produce exactly the packets of rs, with their droppable flags, ending in ser1 *)
Definition produces (ser0 : sstate) (rs : list sresult) (ser1 : sstate) : Prop :=
  exists ops, Forall op_wf ops /\ ser_run ser0 ops = Ok (map fst (pkts rs), ser1) /\ map op_drop ops = map snd (pkts rs).

Lemma ser_run_app a : forall ser b pa ser1 pb ser2,
  ser_run ser a = Ok (pa, ser1) -> ser_run ser1 b = Ok (pb, ser2) -> ser_run ser (a ++ b) = Ok (pa ++ pb, ser2).
Proof.
  induction a as [|op a IH]; intros ser b pa ser1 pb ser2 Ha Hb.
  - cbn [ser_run] in Ha. injection Ha as <- <-. exact Hb.
  - cbn [ser_run app] in *. destruct (ser_step ser op) as [[p0 s0]|e|x|]; cbn [obind] in *; try discriminate.
    destruct (ser_run s0 a) as [[pa' s1]|e|x|] eqn:Ea; cbn [obind] in *; try discriminate. injection Ha as <- <-.
    rewrite (IH s0 b pa' s1 pb ser2 Ea Hb). reflexivity.
Qed.

Lemma produces_nil ser : produces ser [] ser.
Proof. exists []. split; [constructor|split; reflexivity]. Qed.

Lemma produces_app ser0 a ser1 b ser2 : produces ser0 a ser1 -> produces ser1 b ser2 -> produces ser0 (a ++ b) ser2.
Proof.
  intros [oa [Wa [Ra Da]]] [ob [Wb [Rb Db]]]. exists (oa ++ ob). split; [apply Forall_app; split; assumption|].
  rewrite pkts_app, !map_app. split; [apply (ser_run_app _ _ _ _ _ _ _ Ra Rb)|rewrite Da, Db; reflexivity].
Qed.

Lemma produces_events ser rs : pkts rs = [] -> produces ser rs ser.
Proof. intros H. exists []. rewrite H. split; [constructor|split; reflexivity]. Qed.

(* messages a session sends: never a raw Set Chunk Size, never an unknown type *)
Definition sendable (m : rtmp_message) : bool :=
  match m with MUnknown _ _ | MSetChunkSize _ => false | _ => true end.

Lemma sendable_tid m tid body : sendable m = true -> to_payload m = Ok (tid, body) -> tid < 256 /\ tid <> 1.
Proof.
  unfold to_payload. destruct (message_body m) as [b| | |]; cbn [obind]; try discriminate. intros Hs E. injection E as <- _.
  destruct m; try discriminate; cbn; unfold TID_Abort, TID_Acknowledgement, TID_Amf0Command, TID_Amf0Data, TID_AudioData,
    TID_SetPeerBandwidth, TID_UserControl, TID_VideoData, TID_WindowAcknowledgement; lia.
Qed.

Lemma send_message_produces ser m ts sid f d b ser' :
  sendable m = true -> ts < 4294967296 -> sid < 4294967296 ->
  send_message ser m ts sid f d = Ok (b, ser') -> produces ser [SPacket b d] ser'.
Proof.
  intros Hs Hts Hsid E. unfold send_message in E.
  destruct (to_payload m) as [[tid body]|e|x|] eqn:Et; try discriminate.
  destruct (sendable_tid m tid body Hs Et) as [T1 T2].
  set (msg := {| m_ts := ts; m_tid := tid; m_sid := sid; m_data := body |}) in *.
  destruct (ChunkSer.serialize ser msg f d) as [[b0 s0]|e|x|] eqn:Es; try discriminate. injection E as <- <-.
  exists [OpMsg msg f d]. split.
  - constructor; [|constructor]. cbn [op_wf]. split; [|exact T2]. unfold msg_wf, msg. cbn [m_ts m_tid m_sid m_data].
    repeat split; try assumption. unfold ChunkSer.serialize in Es. destruct (16777215 <? lenN (m_data msg)) eqn:El; [discriminate|]. cbn [msg m_data] in El. lia.
  - cbn [ser_run ser_step obind pkts map fst snd op_drop]. rewrite Es. cbn [obind]. split; reflexivity.
Qed.

Definition traced (ser0 : sstate) (c : call) : Prop :=
  match snd c with ROk rs => produces ser0 rs (sv_ser (fst c)) | _ => True end.

Lemma one_packet_traced s m ts sid f d :
  sendable m = true -> ts < 4294967296 -> sid < 4294967296 -> traced (sv_ser s) (one_packet s m ts sid f d).
Proof.
  intros Hs Hts Hsid. unfold traced, one_packet, sending.
  destruct (send_message (sv_ser s) m ts sid f d) as [[b ser']|e|x|] eqn:E; cbn [snd fst]; try exact I.
  apply (send_message_produces _ _ _ _ _ _ _ _ Hs Hts Hsid E).
Qed.

Lemma traced_events ser s rs : pkts rs = [] -> sv_ser s = ser -> traced ser (s, ROk rs).
Proof. intros H <-. unfold traced. cbn [snd fst]. apply produces_events. exact H. Qed.

Lemma pkts_finished app st : pkts (finished_event app st) = [].
Proof. destruct st; reflexivity. Qed.

Ltac tr_step :=
  first [ progress cbv beta iota
        | match goal with
          | |- traced _ (one_packet _ _ _ _ _ _) => apply one_packet_traced; [reflexivity|try assumption; try lia|try assumption; try lia]
          | |- traced _ (let '(a, b) := ?x in _) => destruct x
          | |- traced _ (match ?x with _ => _ end) => destruct x
          | |- traced _ (if ?x then _ else _) => destruct x
          | |- traced _ (_, ROk _) => apply traced_events; [first [reflexivity|apply pkts_finished]|reflexivity]
          | |- traced _ (_, RErr _) => exact I
          | |- traced _ (_, RPanic) => exact I
          end ].
Ltac tr_frame := cbv zeta; repeat tr_step.

Section ServerTraced.
  Variables (s : server) (clock sid : N).
  Hypothesis Hclock : clock < 4294967296.
  Hypothesis Hsid : sid < 4294967296.

  Lemma h_connect_traced tr obj : traced (sv_ser s) (h_connect s tr obj).
  Proof. unfold h_connect, new_request. tr_frame. Qed.
  Lemma h_close_or_delete_traced d args : traced (sv_ser s) (h_close_or_delete d s args).
  Proof. unfold h_close_or_delete. tr_frame. Qed.
  Lemma h_create_stream_traced tr : traced (sv_ser s) (h_create_stream s tr clock).
  Proof.
    unfold h_create_stream. cbv zeta.
    apply (one_packet_traced (upd_streams s (insert (sv_next_stream s) StCreated (sv_streams s)) (sv_next_stream s + 1))); [reflexivity|assumption|lia].
  Qed.
  Lemma h_publish_traced tr args : traced (sv_ser s) (h_publish s sid tr args clock).
  Proof. unfold h_publish, new_request. tr_frame. Qed.
  Lemma h_play_traced tr args : traced (sv_ser s) (h_play s sid tr args clock).
  Proof. unfold h_play, new_request. tr_frame. Qed.
  Lemma h_data_traced vs : traced (sv_ser s) (h_data s vs sid).
  Proof. unfold h_data. tr_frame. Qed.
  Lemma h_media_traced a d ts : traced (sv_ser s) (h_media a s d sid ts).
  Proof. unfold h_media. tr_frame. Qed.

  Lemma if_traced (b : bool) ser (x y : call) : traced ser x -> traced ser y -> traced ser (if b then x else y).
  Proof. destruct b; auto. Qed.

  Lemma h_command_traced name tr obj args : traced (sv_ser s) (h_command s sid name tr obj args clock).
  Proof.
    unfold h_command.
    apply if_traced; [apply h_connect_traced|]. apply if_traced; [apply h_close_or_delete_traced|].
    apply if_traced; [apply h_create_stream_traced|]. apply if_traced; [apply h_close_or_delete_traced|].
    apply if_traced; [apply h_play_traced|]. apply if_traced; [apply h_publish_traced|apply traced_events; reflexivity].
  Qed.
End ServerTraced.

Lemma h_message_traced s p clock : clock < 4294967296 -> m_sid p < 4294967296 -> traced (sv_ser s) (h_message s p clock).
Proof.
  intros Hc Hs. unfold h_message. destruct (of_payload (m_tid p) (m_data p)) as [m|e|x|]; try exact I.
  destruct m as [t d|n|n|name tr obj args|vs|d|n|n lt|ev sid bl ts|d|n]; try (apply traced_events; reflexivity).
  - apply h_command_traced; assumption.
  - apply h_data_traced.
  - apply h_media_traced.
  - destruct (de_set_max_chunk_size (sv_de s) n); try exact I. apply traced_events; reflexivity.
  - destruct ev; try (apply traced_events; reflexivity). apply one_packet_traced; [reflexivity|assumption|lia].
  - apply h_media_traced.
Qed.

(* ---------------------------------------------------------------- the message loop and handle_input *)
Definition req_ok (r : request) : Prop := match r with RPublish _ _ sid | RPlay _ sid => sid < 4294967296 | RConnection _ _ => True end.
Definition reqs_ok (rq : list (N * request)) : Prop := Forall (fun kv => req_ok (snd kv)) rq.
Definition sinv (s : server) : Prop := de_ok (sv_de s) /\ reqs_ok (sv_reqs s).

Lemma de_after_ok p d : de_ok d -> de_ok (de_after p d).
Proof.
  intros H. unfold de_after. destruct (of_payload (m_tid p) (m_data p)) as [m|e|x|]; try exact H.
  destruct m as [t d0|n|n|name tr obj args|vs|d0|n|n lt|ev sid bl ts|d0|n]; try exact H.
  destruct (de_set_max_chunk_size d n) as [d'|e|x|] eqn:E; try exact H. apply (de_set_max_ok _ _ _ H E).
Qed.

(* requests are only added by publish / play commands, with the stream id of the message that carried them *)
Lemma h_message_reqs s p clock : m_sid p < 4294967296 -> reqs_ok (sv_reqs s) -> reqs_ok (sv_reqs (fst (h_message s p clock))).
Proof.
  intros Hs Hr. unfold h_message. destruct (of_payload (m_tid p) (m_data p)) as [m|e|x|]; try exact Hr.
  destruct m as [t d|n|n|name tr obj args|vs|d|n|n lt|ev sid bl ts|d|n]; try exact Hr.
  - unfold h_command.
    assert (Hone : forall s0 m ts sd f d0, reqs_ok (sv_reqs s0) -> reqs_ok (sv_reqs (fst (one_packet s0 m ts sd f d0)))).
    { intros s0 m ts sd f d0 H0. unfold one_packet, sending. destruct (send_message _ _ _ _ _ _) as [[b ser']|e|x|]; exact H0. }
    assert (Hins : forall rq n r, reqs_ok rq -> req_ok r -> reqs_ok (insert n r rq)).
    { intros rq n r H0 H1. apply (insert_ok req_ok); assumption. }
    repeat match goal with |- reqs_ok (sv_reqs (fst (if ?b then _ else _))) => destruct b end.
    + unfold h_connect, new_request. destruct obj; try exact Hr. destruct (prop_get _ _) as [v|]; try exact Hr. destruct v; try exact Hr.
      cbn [fst sv_reqs upd_reqs upd_objenc]. apply Hins; [exact Hr|exact I].
    + unfold h_close_or_delete. destruct (negb _); [exact Hr|]. destruct (sv_app s); [|exact Hr]. destruct args as [|a r]; [exact Hr|].
      destruct a; try exact Hr. destruct (lookup _ _); exact Hr.
    + unfold h_create_stream. apply Hone. exact Hr.
    + unfold h_close_or_delete. destruct (negb _); [exact Hr|]. destruct (sv_app s); [|exact Hr]. destruct args as [|a r]; [exact Hr|].
      destruct a; try exact Hr. destruct (lookup _ _); exact Hr.
    + unfold h_play, new_request. cbv zeta. destruct args as [|a0 rest]; [apply Hone; exact Hr|].
      destruct (negb _); [apply Hone; exact Hr|]. destruct (sv_app s); [|apply Hone; exact Hr].
      destruct a0; try (apply Hone; exact Hr). cbn [fst sv_reqs upd_reqs]. apply Hins; [exact Hr|exact Hs].
    + unfold h_publish, new_request. cbv zeta. destruct args as [|a0 [|a1 rest]]; try (apply Hone; exact Hr).
      destruct (negb _); [apply Hone; exact Hr|]. destruct (sv_app s); [|apply Hone; exact Hr].
      destruct a0; try (apply Hone; exact Hr). destruct a1; try (apply Hone; exact Hr).
      destruct (mode_of _); [|apply Hone; exact Hr]. cbn [fst sv_reqs upd_reqs]. apply Hins; [exact Hr|exact Hs].
    + exact Hr.
  - unfold h_data. repeat match goal with |- reqs_ok (sv_reqs (fst (match ?x with _ => _ end))) => destruct x | |- reqs_ok (sv_reqs (fst (if ?x then _ else _))) => destruct x end; exact Hr.
  - unfold h_media. repeat match goal with |- reqs_ok (sv_reqs (fst (match ?x with _ => _ end))) => destruct x | |- reqs_ok (sv_reqs (fst (if ?x then _ else _))) => destruct x end; exact Hr.
  - destruct (de_set_max_chunk_size (sv_de s) n); exact Hr.
  - destruct ev; try exact Hr. unfold one_packet, sending. destruct (send_message _ _ _ _ _ _) as [[b ser']|e|x|]; exact Hr.
  - unfold h_media. repeat match goal with |- reqs_ok (sv_reqs (fst (match ?x with _ => _ end))) => destruct x | |- reqs_ok (sv_reqs (fst (if ?x then _ else _))) => destruct x end; exact Hr.
Qed.

Lemma h_loop_traced clock fuel : forall s input acc ser0,
  clock < 4294967296 -> sinv s -> bytes_ok input -> produces ser0 acc (sv_ser s) ->
  match h_loop fuel s input clock acc with
  | (s', ROk rs) => produces ser0 rs (sv_ser s') /\ sinv s'
  | _ => True
  end.
Proof.
  induction fuel as [|f IH]; intros s input acc ser0 Hc [Hd Hr] Hi Hp; cbn [h_loop]; [exact I|].
  destruct (get_next_message (sv_de s) input) as [d res] eqn:Eg.
  destruct (gnm_ok _ _ _ _ Hd Hi Eg) as [Hd1 Hm].
  destruct res as [p| |e|]; try exact I.
  - pose proof (Hm p eq_refl) as Hsid.
    pose proof (h_message_traced (upd_de s d) p clock Hc Hsid) as Ht.
    pose proof (h_message_de_after (upd_de s d) p clock) as Hda. change (sv_de (upd_de s d)) with d in Hda.
    pose proof (h_message_reqs (upd_de s d) p clock Hsid Hr) as Hrq.
    destruct (h_message (upd_de s d) p clock) as [s1 r] eqn:Eh. unfold traced in Ht. cbn [fst snd] in *.
    destruct r as [rs|e|]; try exact I.
    apply (IH s1 [] (acc ++ rs) ser0 Hc); [split; [rewrite Hda; apply de_after_ok; exact Hd1|exact Hrq]|apply Forall_nil|].
    apply (produces_app ser0 acc (sv_ser s) rs (sv_ser s1) Hp Ht).
  - split; [exact Hp|]. split; [exact Hd1|exact Hr].
Qed.

Theorem server_handle_input_traced s input clock :
  clock < 4294967296 -> sinv s -> bytes_ok input -> ser_ok (sv_ser s) ->
  match server_handle_input s input clock with
  | (s', ROk rs) => produces (sv_ser s) rs (sv_ser s') /\ sinv s'
  | _ => True
  end.
Proof.
  intros Hc Hinv Hi Hs. unfold server_handle_input.
  destruct (ack_step (sv_ack s) (lenN input)) as [a [n|]].
  - destruct (ack_send_ok (sv_ser s) n clock Hs) as [b [ser' [E Hs']]]. rewrite E.
    apply (h_loop_traced clock _ (upd_ack (upd_ser s ser') a) input [SPacket b false] (sv_ser s) Hc Hinv Hi).
    apply (send_message_produces _ (MAcknowledgement n) clock 0 false false b ser' eq_refl Hc ltac:(lia) E).
  - apply (h_loop_traced clock _ (upd_ack s a) input [] (sv_ser s) Hc Hinv Hi). apply produces_nil.
Qed.

(* ---------------------------------------------------------------- application calls *)
Definition okres (ser0 : sstate) (c : call) : Prop :=
  match snd c with ROk rs => produces ser0 rs (sv_ser (fst c)) | _ => True end.

Lemma one_packet_okres s m ts sid f d : sendable m = true -> ts < 4294967296 -> sid < 4294967296 -> okres (sv_ser s) (one_packet s m ts sid f d).
Proof. apply one_packet_traced. Qed.

(* unfold one step of a chain of sends, remembering what was produced so far *)
Ltac chain_step Hpre :=
  match goal with
  | |- okres ?ser0 (sending ?s ?m ?ts ?sid ?f ?d ?k) =>
      unfold sending at 1;
      let b := fresh "b" in let ser' := fresh "ser" in let E := fresh "E" in
      destruct (send_message (sv_ser s) m ts sid f d) as [[b ser']|?|?|] eqn:E; [|exact I|exact I|exact I];
      let Hn := fresh "Hp" in
      assert (Hn : produces (sv_ser s) [SPacket b d] ser') by (apply (send_message_produces _ m ts sid f d b ser'); [reflexivity|try assumption; try lia|try assumption; try lia|exact E]);
      cbv beta
  end.

Lemma accept_publish_okres s sid key mode clock : clock < 4294967296 -> sid < 4294967296 ->
  okres (sv_ser s) (accept_publish s sid key mode clock).
Proof.
  intros Hc Hs. unfold accept_publish. destruct (lookup sid (sv_streams s)); [|exact I]. cbv zeta.
  set (s1 := upd_streams s _ _). change (sv_ser s) with (sv_ser s1).
  chain_step tt. chain_step tt. unfold okres. cbn [snd fst].
  change (sv_ser (upd_ser (upd_ser s1 ser) ser0)) with ser0. change (sv_ser (upd_ser s1 ser)) with ser in *.
  apply (produces_app _ [SPacket b false] ser [SPacket b0 false] ser0 Hp Hp0).
Qed.

Lemma accept_play_okres s sid key clock : clock < 4294967296 -> sid < 4294967296 ->
  okres (sv_ser s) (accept_play s sid key clock).
Proof.
  intros Hc Hs. unfold accept_play. destruct (lookup sid (sv_streams s)); [|exact I]. cbv zeta.
  set (s1 := upd_streams s _ _). change (sv_ser s) with (sv_ser s1).
  chain_step tt. chain_step tt. chain_step tt. chain_step tt. chain_step tt. unfold okres. cbn [snd fst sv_ser upd_ser] in *.
  pose proof (produces_app _ _ _ _ _ Hp Hp0) as Q1. pose proof (produces_app _ _ _ _ _ Q1 Hp1) as Q2.
  pose proof (produces_app _ _ _ _ _ Q2 Hp2) as Q3. pose proof (produces_app _ _ _ _ _ Q3 Hp3) as Q4. exact Q4.
Qed.

Definition sop_ok (op : sop) : Prop :=
  match op with
  | OpInput i c => bytes_ok i /\ c < 4294967296
  | OpAccept _ c | OpReject _ _ _ c | OpPing c => c < 4294967296
  | OpMetadata sid _ c | OpFinish sid c => sid < 4294967296 /\ c < 4294967296
  | OpVideo sid _ ts _ | OpAudio sid _ ts _ => sid < 4294967296 /\ ts < 4294967296
  end.

Lemma one_packet_sinv s m ts sid f d : sinv s -> sinv (fst (one_packet s m ts sid f d)).
Proof. intros H. unfold one_packet, sending. destruct (send_message _ _ _ _ _ _) as [[b ser']|e|x|]; exact H. Qed.

Lemma sending_sinv s m ts sid f d k : sinv s -> (forall ser' b, sinv (fst (k (upd_ser s ser') b))) -> sinv (fst (sending s m ts sid f d k)).
Proof. intros H Hk. unfold sending. destruct (send_message _ _ _ _ _ _) as [[b ser']|e|x|]; [apply Hk|exact H|exact H|exact H]. Qed.

Lemma server_accept_traced s id clock : clock < 4294967296 -> sinv s ->
  okres (sv_ser s) (server_accept s id clock) /\ sinv (fst (server_accept s id clock)).
Proof.
  intros Hc [Hd Hr]. unfold server_accept. destruct (lookup id (sv_reqs s)) as [r|] eqn:El; [|split; [exact I|split; assumption]].
  pose proof (lookup_ok req_ok _ _ _ Hr El) as Hsid. unfold req_ok in Hsid.
  cbv zeta. set (s1 := upd_reqs s _ _).
  assert (Hi1 : sinv s1) by (split; [exact Hd|apply (remove_ok req_ok); exact Hr]).
  change (sv_ser s) with (sv_ser s1). destruct r as [app tr|key mode sid|key sid].
  - split; [apply one_packet_okres; [reflexivity|assumption|lia]|]. unfold accept_connection. cbv zeta. apply one_packet_sinv. exact Hi1.
  - split; [apply accept_publish_okres; assumption|]. unfold accept_publish. destruct (lookup sid (sv_streams s1)); [|exact Hi1]. cbv zeta.
    apply sending_sinv; [exact Hi1|]. intros ser' b. apply sending_sinv; [exact Hi1|]. intros ser2 b2. exact Hi1.
  - split; [apply accept_play_okres; assumption|]. unfold accept_play. destruct (lookup sid (sv_streams s1)); [|exact Hi1]. cbv zeta.
    repeat (apply sending_sinv; [exact Hi1|intros ? ?]). exact Hi1.
Qed.

Lemma server_reject_traced s id code d clock : clock < 4294967296 -> sinv s ->
  okres (sv_ser s) (server_reject s id code d clock) /\ sinv (fst (server_reject s id code d clock)).
Proof.
  intros Hc [Hd Hr]. unfold server_reject. destruct (lookup id (sv_reqs s)) as [r|] eqn:El; [|split; [exact I|split; assumption]].
  pose proof (lookup_ok req_ok _ _ _ Hr El) as Hsid. unfold req_ok in Hsid.
  cbv zeta. set (s1 := upd_reqs s _ _).
  assert (Hi1 : sinv s1) by (split; [exact Hd|apply (remove_ok req_ok); exact Hr]).
  change (sv_ser s) with (sv_ser s1).
  destruct r as [app tr|key mode sid|key sid]; (split; [apply one_packet_okres; [reflexivity|assumption|try lia; assumption]|apply one_packet_sinv; exact Hi1]).
Qed.

Theorem server_step_traced s op : sop_ok op -> sinv s -> ser_ok (sv_ser s) ->
  match server_step s op with
  | (s', ROk rs) => produces (sv_ser s) rs (sv_ser s') /\ sinv s'
  | _ => True
  end.
Proof.
  intros Hop Hi Hs. destruct op as [i c|id c|id code d c|sid md c|sid d ts drop|sid d ts drop|c|sid c]; cbn [server_step sop_ok] in *.
  - destruct Hop as [Hb Hc]. apply server_handle_input_traced; assumption.
  - destruct (server_accept_traced s id c Hop Hi) as [H1 H2]. unfold okres in H1.
    destruct (server_accept s id c) as [s' r]. cbn [fst snd] in *. destruct r; try exact I. split; assumption.
  - destruct (server_reject_traced s id code d c Hop Hi) as [H1 H2]. unfold okres in H1.
    destruct (server_reject s id code d c) as [s' r]. cbn [fst snd] in *. destruct r; try exact I. split; assumption.
  - destruct Hop as [H1 H2]. pose proof (one_packet_okres s (MAmf0Data [VString (str "onMetaData"); VObject (metadata_props_server md)]) c sid false false eq_refl H2 H1) as Ho.
    pose proof (one_packet_sinv s (MAmf0Data [VString (str "onMetaData"); VObject (metadata_props_server md)]) c sid false false Hi) as Hv.
    unfold server_send_metadata, okres in *. destruct (one_packet _ _ _ _ _ _) as [s' r]. cbn [fst snd] in *. destruct r; try exact I. split; assumption.
  - destruct Hop as [H1 H2]. pose proof (one_packet_okres s (MVideoData d) ts sid false drop eq_refl H2 H1) as Ho.
    pose proof (one_packet_sinv s (MVideoData d) ts sid false drop Hi) as Hv.
    unfold server_send_video, okres in *. destruct (one_packet _ _ _ _ _ _) as [s' r]. cbn [fst snd] in *. destruct r; try exact I. split; assumption.
  - destruct Hop as [H1 H2]. pose proof (one_packet_okres s (MAudioData d) ts sid false drop eq_refl H2 H1) as Ho.
    pose proof (one_packet_sinv s (MAudioData d) ts sid false drop Hi) as Hv.
    unfold server_send_audio, okres in *. destruct (one_packet _ _ _ _ _ _) as [s' r]. cbn [fst snd] in *. destruct r; try exact I. split; assumption.
  - pose proof (one_packet_okres s (MUserControl PingRequest None None (Some c)) c 0 false false eq_refl Hop ltac:(lia)) as Ho.
    pose proof (one_packet_sinv s (MUserControl PingRequest None None (Some c)) c 0 false false Hi) as Hv.
    unfold server_send_ping, okres in *. destruct (one_packet _ _ _ _ _ _) as [s' r]. cbn [fst snd] in *. destruct r; try exact I. split; assumption.
  - destruct Hop as [H1 H2]. unfold server_finish_playing. destruct (lookup sid (sv_streams s)) as [st|]; [|exact I]. destruct st as [|k1 m1|k1|]; [exact I|exact I| |exact I].
    cbv zeta. set (s1 := upd_streams s _ _). set (m := onstatus _ _ _).
    pose proof (one_packet_okres s1 m c sid false false eq_refl H2 H1) as Ho.
    pose proof (one_packet_sinv s1 m c sid false false Hi) as Hv.
    unfold okres in *. change (sv_ser s1) with (sv_ser s) in Ho. destruct (one_packet s1 m c sid false false) as [s' r]. cbn [fst snd] in *. destruct r; [split; assumption|exact I|exact I].
Qed.

(* ---------------------------------------------------------------- ServerSession::new and whole histories *)
Lemma set_max_produces ser n ts b ser' : ts < 4294967296 -> ChunkSer.set_max_chunk_size ser n ts = Ok (b, ser') -> produces ser [SPacket b false] ser'.
Proof.
  intros Hts E. exists [OpSize n ts]. split; [constructor; [exact Hts|constructor]|].
  cbn [ser_run ser_step obind pkts map fst snd op_drop]. rewrite E. cbn [obind]. split; reflexivity.
Qed.

Lemma server_new_traced c clock : clock < 4294967296 ->
  match server_new c clock with
  | (s0, ROk rs0) => produces ser_init rs0 (sv_ser s0) /\ sinv s0
  | _ => True
  end.
Proof.
  intros Hc. unfold server_new. cbv zeta.
  set (s00 := {| sv_ser := ser_init; sv_de := de_init; sv_app := None; sv_reqs := []; sv_next_req := 0; sv_connected := false;
                 sv_fms := cfg_fms c; sv_objenc := 0; sv_streams := []; sv_next_stream := 1; sv_ack := {| ack_window := None; ack_since := 0 |} |}).
  assert (Hi0 : sinv s00) by (split; [exact de_init_ok|apply Forall_nil]).
  destruct (ChunkSer.set_max_chunk_size (sv_ser s00) (cfg_chunk c) 0) as [[b1 ser1]|e|x|] eqn:E1; [|exact I|exact I|exact I].
  pose proof (set_max_produces (sv_ser s00) (cfg_chunk c) 0 b1 ser1 ltac:(lia) E1) as P1. change (sv_ser s00) with ser_init in P1.
  set (s1 := upd_ser s00 ser1).
  assert (Hgoal : forall cl : call, okres ser1 cl -> sinv (fst cl) ->
            match cl with (s0, ROk rs0) => exists rest, rs0 = rest /\ produces ser1 rest (sv_ser s0) /\ sinv s0 | _ => True end).
  { intros [s0 r] Ho Hv. destruct r; try exact I. eexists. split; [reflexivity|]. split; assumption. }
  change (sv_ser s1) with ser1.
  (* the remaining sends *)
  unfold sending at 1. destruct (send_message (sv_ser s1) _ clock 0 true false) as [[b2 ser2]|e|x|] eqn:E2; [|exact I|exact I|exact I].
  pose proof E2 as P2. apply send_message_produces in P2; [|reflexivity|exact Hc|lia]. cbv beta.
  unfold sending at 1. destruct (send_message (sv_ser (upd_ser s1 ser2)) _ clock 0 true false) as [[b3 ser3]|e|x|] eqn:E3; [|exact I|exact I|exact I].
  pose proof E3 as P3. apply send_message_produces in P3; [|reflexivity|exact Hc|lia]. cbv beta.
  unfold sending at 1. destruct (send_message (sv_ser (upd_ser (upd_ser s1 ser2) ser3)) _ clock 0 true false) as [[b4 ser4]|e|x|] eqn:E4; [|exact I|exact I|exact I].
  pose proof E4 as P4. apply send_message_produces in P4; [|reflexivity|exact Hc|lia]. cbv beta.
  cbn [sv_ser upd_ser s1] in *.
  pose proof (produces_app _ _ _ _ _ P1 P2) as Q2. pose proof (produces_app _ _ _ _ _ Q2 P3) as Q3. pose proof (produces_app _ _ _ _ _ Q3 P4) as Q4.
  destruct (cfg_bwdone c).
  - unfold sending at 1. cbn [sv_ser upd_ser].
    destruct (send_message ser4 _ clock 0 true false) as [[b5 ser5]|e|x|] eqn:E5; [|exact I|exact I|exact I].
    pose proof E5 as P5. apply send_message_produces in P5; [|reflexivity|exact Hc|lia].
    pose proof (produces_app _ _ _ _ _ Q4 P5) as Q5. split; [exact Q5|exact Hi0].
  - split; [exact Q4|exact Hi0].
Qed.

Fixpoint server_trace (s : server) (ops : list sop) : option (server * list sresult) :=
  match ops with
  | [] => Some (s, [])
  | op :: r =>
    match server_step s op with
    | (s', ROk rs) => match server_trace s' r with Some (s2, rs2) => Some (s2, rs ++ rs2) | None => None end
    | _ => None
    end
  end.

Lemma server_trace_produced ops : forall s s' rs, Forall sop_ok ops -> sinv s -> ser_ok (sv_ser s) ->
  server_trace s ops = Some (s', rs) -> produces (sv_ser s) rs (sv_ser s').
Proof.
  induction ops as [|op r IH]; intros s s' rs Hok Hi Hs H; cbn [server_trace] in H.
  - injection H as <- <-. apply produces_nil.
  - inversion Hok as [|? ? Ho Hr]; subst.
    pose proof (server_step_traced s op Ho Hi Hs) as Ht. pose proof (server_step_good s op Hs) as [_ Hs1].
    destruct (server_step s op) as [s1 r1]. cbn [fst] in Hs1. destruct r1 as [rs1| |]; try discriminate. destruct Ht as [Hp Hi1].
    destruct (server_trace s1 r) as [[s2 rs2]|] eqn:E; [|discriminate]. injection H as <- <-.
    apply (produces_app _ _ _ _ _ Hp). apply (IH s1 s2 rs2 Hr Hi1 Hs1 E).
Qed.

(* keep-masks on flags *)
Fixpoint keep_flags_ok (keep : list bool) (flags : list bool) : Prop :=
  match keep, flags with
  | [], [] => True
  | k :: ks, f :: fs => (k = false -> f = true) /\ keep_flags_ok ks fs
  | _, _ => False
  end.

Lemma keep_flags_ops keep : forall ops, keep_flags_ok keep (map op_drop ops) -> keep_ok keep ops.
Proof.
  induction keep as [|k ks IH]; intros ops H; destruct ops as [|op r]; cbn [map keep_flags_ok keep_ok] in *; try contradiction; [exact I|].
  destruct H as [H1 H2]. split; [exact H1|apply IH; exact H2].
Qed.

(* C18: everything a server session returned in a history of successful calls, with any subset of the droppable packets withheld,
   is read by the specification decoder as exactly the messages of the surviving packets *)
Theorem server_history_decodable cfg clock0 ops s0 rs0 s' rs keep :
  clock0 < 4294967296 -> Forall sop_ok ops ->
  server_new cfg clock0 = (s0, ROk rs0) -> server_trace s0 ops = Some (s', rs) ->
  keep_flags_ok keep (map snd (pkts (rs0 ++ rs))) ->
  exists sent, length sent = length (pkts (rs0 ++ rs)) /\
    sdec (concat (select keep (map fst (pkts (rs0 ++ rs))))) = SOk (select keep sent).
Proof.
  intros Hc Hok Hnew Htr Hkeep.
  pose proof (server_new_traced cfg clock0 Hc) as Hn. pose proof (server_new_good cfg clock0) as [_ Hs0]. rewrite Hnew in Hn, Hs0. cbn [fst] in Hs0.
  destruct Hn as [P0 Hi0].
  pose proof (server_trace_produced ops s0 s' rs Hok Hi0 Hs0 Htr) as P1.
  destruct (produces_app _ _ _ _ _ P0 P1) as [sops [Hwf [Hrun Hdrops]]].
  exists (map op_msg sops). split.
  - rewrite map_length. rewrite <- (map_length op_drop), Hdrops, map_length. reflexivity.
  - rewrite <- Hdrops in Hkeep. pose proof (keep_flags_ops keep sops Hkeep) as Hk.
    rewrite (ser_sdec_drop sops keep _ _ Hwf Hrun Hk).
    f_equal. clear. revert keep. induction sops as [|o r IH]; intros keep; destruct keep as [|k ks]; cbn [select map]; try reflexivity.
    destruct k; cbn [map]; rewrite IH; reflexivity.
Qed.
