(* C10: the client session model follows the connect / createStream / publish|play workflow. *)
From Coq Require Import String ZArith Lia ZifyN ZifyBool ZifyNat.
From RML Require Import Model.Base Model.Time Model.Amf0 Model.Chunk Model.ChunkSer Model.ChunkDe Model.Messages Model.Float
  Model.SessionCommon Model.Client Proofs.ChunkSpecProofs.
Local Open Scope list_scope.
Local Open Scope N_scope.

(* one packet carrying m through the session's serializer: only the serializer changes *)
Lemma cone_packet_spec c m ts sid drop c' r :
  cone_packet c m ts sid drop = (c', r) ->
  cl_state c' = cl_state c /\ cl_stream c' = cl_stream c /\ cl_trs c' = cl_trs c /\ cl_next_tr c' = cl_next_tr c /\
  cl_app c' = cl_app c /\ cl_de c' = cl_de c /\ cl_ack c' = cl_ack c /\
  ((exists b ser', send_message (cl_ser c) m ts sid false drop = Ok (b, ser') /\ r = COk [CPacket b drop] /\ cl_ser c' = ser') \/
   (exists e, r = CErr (CWire e) /\ c' = c) \/ (r = CPanic /\ c' = c)).
Proof.
  unfold cone_packet, csending. destruct (send_message (cl_ser c) m ts sid false drop) as [[b ser']|e|p|]; intros H; inversion H; subst; cbn.
  - repeat (split; [reflexivity|]). left. exists b, ser'. repeat split.
  - repeat (split; [reflexivity|]). right. left. exists e. split; reflexivity.
  - repeat (split; [reflexivity|]). right. right. split; reflexivity.
  - repeat (split; [reflexivity|]). right. right. split; reflexivity.
Qed.

(* ---------------------------------------------------------------- requests are refused outside their state *)
Lemma connect_refused c app clock : cl_state c <> Disconnected -> client_request_connection c app clock = (c, CErr CCantConnect).
Proof. intros H. unfold client_request_connection. destruct (cl_state c); try reflexivity. contradiction. Qed.

Lemma connect_emits c app clock c' r :
  cl_state c = Disconnected -> client_request_connection c app clock = (c', r) ->
  cl_state c' = Disconnected /\ lookup (cl_next_tr c) (cl_trs c') = Some (TConnection app) /\ cl_next_tr c' = cl_next_tr c + 1.
Proof.
  intros Hs H. unfold client_request_connection in H. rewrite Hs in H. unfold new_transaction in H.
  destruct (cone_packet_spec _ _ _ _ _ _ _ H) as [H1 [_ [H3 [H4 _]]]]. cbn in *.
  split; [rewrite H1; exact Hs|]. split; [rewrite H3; apply lookup_insert_same|exact H4].
Qed.

Lemma create_stream_refused c p clock : cl_state c <> Connected -> create_stream_request c p clock = (c, CErr (CInvalidState (cl_state c))).
Proof. intros H. unfold create_stream_request. destruct (cl_state c); try reflexivity. contradiction. Qed.

Lemma publish_media_refused video c data ts drop : cl_state c <> Publishing ->
  client_publish_media video c data ts drop = (c, CErr (CInvalidState (cl_state c))).
Proof. intros H. unfold client_publish_media, publishing_stream. destruct (cl_state c); try reflexivity. contradiction. Qed.

Lemma publish_metadata_refused c md clock : cl_state c <> Publishing ->
  client_publish_metadata c md clock = (c, CErr (CInvalidState (cl_state c))).
Proof. intros H. unfold client_publish_metadata, publishing_stream. destruct (cl_state c); try reflexivity. contradiction. Qed.

Lemma publish_media_on_active_stream video c data ts drop sid :
  cl_state c = Publishing -> cl_stream c = Some sid ->
  client_publish_media video c data ts drop = cone_packet c (if video then MVideoData data else MAudioData data) ts sid drop.
Proof. intros H1 H2. unfold client_publish_media, publishing_stream. rewrite H1, H2. reflexivity. Qed.

(* ---------------------------------------------------------------- results and errors advance exactly their transaction *)
Lemma unknown_result c tr obj args clock :
  lookup (f64_to_u32 tr) (cl_trs c) = None -> ch_result c tr obj args clock = (c, COk [CEvent (CUnknownTransaction tr obj args)]).
Proof. intros H. unfold ch_result, take_transaction. rewrite H. reflexivity. Qed.

Lemma unknown_error c tr obj args :
  lookup (f64_to_u32 tr) (cl_trs c) = None -> ch_error c tr obj args = (c, COk [CEvent (CUnknownTransaction tr obj args)]).
Proof. intros H. unfold ch_error, take_transaction. rewrite H. reflexivity. Qed.

Lemma connect_result c tr obj args clock app c' rs :
  lookup (f64_to_u32 tr) (cl_trs c) = Some (TConnection app) -> ch_result c tr obj args clock = (c', COk rs) ->
  cl_state c' = Connected /\ cl_app c' = Some app /\ lookup (f64_to_u32 tr) (cl_trs c') = None /\
  exists b1 b2, rs = [CPacket b1 false; CEvent CConnectionAccepted; CPacket b2 false].
Proof.
  intros Hl H. unfold ch_result, take_transaction in H. rewrite Hl in H. unfold csending in H.
  destruct (send_message _ _ _ _ _ _) as [[b1 ser1]|e|x|]; try discriminate.
  destruct (ChunkSer.set_max_chunk_size _ _ _) as [[b2 ser2]|e|x|]; try discriminate.
  inversion H; subst. cbn. split; [reflexivity|]. split; [reflexivity|]. split; [apply lookup_remove_same|].
  exists b1, b2. reflexivity.
Qed.

Lemma connect_error c tr obj args app :
  lookup (f64_to_u32 tr) (cl_trs c) = Some (TConnection app) ->
  exists c' d, ch_error c tr obj args = (c', COk [CEvent (CConnectionRejected d)]) /\
               cl_state c' = cl_state c /\ lookup (f64_to_u32 tr) (cl_trs c') = None.
Proof.
  intros Hl. unfold ch_error, take_transaction. rewrite Hl. eexists. eexists. split; [reflexivity|]. cbn.
  split; [reflexivity|apply lookup_remove_same].
Qed.

Lemma create_stream_result c tr obj x rest clock p c' rs :
  lookup (f64_to_u32 tr) (cl_trs c) = Some (TCreateStream p) -> ch_result c tr obj (VNumber x :: rest) clock = (c', COk rs) ->
  let sid := f64_to_u32 x in
  cl_stream c' = Some sid /\ lookup (f64_to_u32 tr) (cl_trs c') = None /\
  match p with
  | PurposePlay key =>
      cl_state c' = PlayRequested /\ exists b1 b2 ser1 ser2,
        rs = [CPacket b1 false; CPacket b2 false] /\
        send_message ser1 (MAmf0Command (str "play") 0 VNull [VString key]) clock sid false false = Ok (b2, ser2)
  | PurposePublish key t =>
      cl_state c' = PublishRequested /\ exists b ser1 ser2,
        rs = [CPacket b false] /\
        send_message ser1 (MAmf0Command (str "publish") 0 VNull
                             [VString key; VString (match t with TLive => str "live" | TRecord => str "record" | TAppend => str "append" end)])
                     clock sid false false = Ok (b, ser2)
  end.
Proof.
  intros Hl H sid. unfold ch_result, take_transaction in H. rewrite Hl in H. fold sid in H.
  destruct p as [key|key t].
  - unfold csending in H. cbn [cl_ser cupd_state cupd_stream cupd_trs cupd_ser] in H.
    destruct (send_message (cl_ser c) _ _ _ _ _) as [[b1 ser1]|e|y|] eqn:E1; try discriminate.
    destruct (send_message ser1 _ _ _ _ _) as [[b2 ser2]|e|y|] eqn:E2; try discriminate.
    inversion H; subst. cbn. split; [reflexivity|]. split; [apply lookup_remove_same|]. split; [reflexivity|].
    exists b1, b2, ser1, ser2. split; [reflexivity|exact E2].
  - unfold cone_packet, csending in H. cbn [cl_ser cupd_state cupd_stream cupd_trs cupd_ser] in H.
    destruct (send_message (cl_ser c) _ _ _ _ _) as [[b1 ser1]|e|y|] eqn:E1; try discriminate.
    inversion H; subst. cbn. split; [reflexivity|]. split; [apply lookup_remove_same|]. split; [reflexivity|].
    exists b1, (cl_ser c), ser1. split; [reflexivity|exact E1].
Qed.

(* ---------------------------------------------------------------- onStatus dispatch *)
Definition status_args (code : bytes) (ps : list (bytes * value)) : Prop := prop_get (str "code") ps = Some (VString code).

Lemma play_start c ps rest :
  status_args (str "NetStream.Play.Start") ps ->
  ch_status c (VObject ps :: rest) =
    match cl_state c with
    | PlayRequested => (cupd_state c Playing, COk [CEvent CPlaybackAccepted])
    | s => (c, CErr (CInvalidState s))
    end.
Proof. intros H. unfold ch_status. unfold status_args in H. rewrite H. reflexivity. Qed.

Lemma publish_start c ps rest :
  status_args (str "NetStream.Publish.Start") ps ->
  ch_status c (VObject ps :: rest) =
    match cl_state c with
    | PublishRequested => (cupd_state c Publishing, COk [CEvent CPublishAccepted])
    | s => (c, CErr (CInvalidState s))
    end.
Proof. intros H. unfold ch_status. unfold status_args in H. rewrite H. reflexivity. Qed.

(* ---------------------------------------------------------------- media events only for the active stream while play is requested or running *)
Lemma media_gate_client video c sid data ts :
  ch_media video c sid data ts =
  match cl_state c with
  | PlayRequested | Playing =>
      (c, COk (match cl_stream c with
               | Some a => if a =? sid then [CEvent (if video then CVideo ts data else CAudio ts data)] else []
               | None => []
               end))
  | s => (c, CErr (CInvalidState s))
  end.
Proof. unfold ch_media. destruct (cl_state c); try reflexivity; destruct (cl_stream c) as [a|]; try reflexivity; destruct (a =? sid); reflexivity. Qed.

Lemma metadata_gate_client c vs sid rs c' :
  ch_data c vs sid = (c', COk rs) -> rs <> [] -> cl_stream c = Some sid /\ c' = c.
Proof.
  unfold ch_data. intros H Hne. destruct vs as [|first rest]; [inversion H; subst; contradiction|].
  destruct (cl_stream c) as [a|]; [|inversion H; subst; contradiction].
  destruct (a =? sid) eqn:E; [|inversion H; subst; contradiction].
  apply N.eqb_eq in E. subst a. split; [reflexivity|].
  destruct first; try (inversion H; subst; reflexivity).
  destruct (bytes_eqb s (str "onMetaData")); [|inversion H; reflexivity].
  destruct rest as [|[] ?]; inversion H; reflexivity.
Qed.

(* ---------------------------------------------------------------- stopping: deleteStream for the active stream, back to Connected *)
Lemma stop_playback_spec c clock sid c' r :
  (cl_state c = Playing \/ cl_state c = PlayRequested) -> cl_stream c = Some sid -> client_stop_playback c clock = (c', r) ->
  cl_state c' = Connected /\ cl_stream c' = None /\
  ((exists b ser', send_message (cl_ser c) (MAmf0Command (str "deleteStream") 0 VNull [VNumber (u32_to_f64 sid)]) clock sid false false = Ok (b, ser') /\
                   r = COk [CPacket b false]) \/ (exists e, r = CErr (CWire e)) \/ r = CPanic).
Proof.
  intros Hs Ha H. unfold client_stop_playback in H.
  assert (H' : stop c clock = (c', r)) by (destruct Hs as [E|E]; rewrite E in H; exact H).
  unfold stop in H'. rewrite Ha in H'.
  destruct (cone_packet_spec _ _ _ _ _ _ _ H') as [H1 [H2 [_ [_ [_ [_ [_ Hc]]]]]]]. cbn in *.
  split; [exact H1|]. split; [exact H2|].
  destruct Hc as [[b [ser' [Hsend [Hr _]]]]|[[e [Hr _]]|[Hr _]]].
  - left. exists b, ser'. split; assumption.
  - right. left. exists e. exact Hr.
  - right. right. exact Hr.
Qed.

Lemma stop_publishing_spec c clock sid c' r :
  (cl_state c = Publishing \/ cl_state c = PublishRequested) -> cl_stream c = Some sid -> client_stop_publishing c clock = (c', r) ->
  cl_state c' = Connected /\ cl_stream c' = None /\
  ((exists b ser', send_message (cl_ser c) (MAmf0Command (str "deleteStream") 0 VNull [VNumber (u32_to_f64 sid)]) clock sid false false = Ok (b, ser') /\
                   r = COk [CPacket b false]) \/ (exists e, r = CErr (CWire e)) \/ r = CPanic).
Proof.
  intros Hs Ha H. unfold client_stop_publishing in H.
  assert (H' : stop c clock = (c', r)) by (destruct Hs as [E|E]; rewrite E in H; exact H).
  unfold stop in H'. rewrite Ha in H'.
  destruct (cone_packet_spec _ _ _ _ _ _ _ H') as [H1 [H2 [_ [_ [_ [_ [_ Hc]]]]]]]. cbn in *.
  split; [exact H1|]. split; [exact H2|].
  destruct Hc as [[b [ser' [Hsend [Hr _]]]]|[[e [Hr _]]|[Hr _]]].
  - left. exists b, ser'. split; assumption.
  - right. left. exists e. exact Hr.
  - right. right. exact Hr.
Qed.

Lemma stop_noop c clock :
  cl_state c = Disconnected \/ cl_state c = Connected -> client_stop_playback c clock = (c, COk []) /\ client_stop_publishing c clock = (c, COk []).
Proof. intros [E|E]; unfold client_stop_playback, client_stop_publishing; rewrite E; split; reflexivity. Qed.

(* ---------------------------------------------------------------- ping echo *)
Lemma ping_echo_client c p clock ts :
  of_payload (m_tid p) (m_data p) = Ok (MUserControl PingRequest None None (Some ts)) ->
  ch_message c p clock = cone_packet c (MUserControl PingResponse None None (Some ts)) clock 0 false.
Proof. intros H. unfold ch_message. rewrite H. reflexivity. Qed.
